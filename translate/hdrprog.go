// hdrprog.go — small functions that edit one header map (CacheStatus.ApplyTo, SetAgeHeader, FixDateHeader,
// withConditionalHeaders) to Gallina: the header block (or request) they leave behind, as a function of what they
// were given.
//
// Statements: x := e; H.Set(c, e); H.Del(c); if c { … } [else { … }] (a block that does not return goes on with what
// follows: both ways are translated and joined with a conditional); `if v, ok := RawTime(e).Value(); !ok || v.IsZero()`
// (a match on raw_time); var p *http.Request (nil) / p = cloneRequest(q) / p.Header.Set(…) / if p == nil / if p != nil
// { q = p } (a request value: a clone is the same value, nil-ness is known on every path); return (ignored values).
// Expressions: string constants; H.Get(c) = hget c H; table entries for s.Value, s.Legacy, age.Value, age.Timestamp,
// clock.Since(t) = time_sub now t, saturatingAdd = go_sat_add, max(x, 0) = Z.max x 0,
// strconv.Itoa(int(d.Seconds())) = dec_of_Z (seconds_trunc d) (the float conversion is the model's),
// t.UTC().Format(http.TimeFormat) = format_imf_fixdate (t / second).
package main

import (
	"fmt"
	"go/ast"
	"go/token"
	"strings"
)

type hval struct {
	s string
	k string // "S" string, "D" duration/integer, "H" header block, "Q" request, "T" instant, "B" bool
}

type henv struct {
	vars   map[string]hval
	isNil  map[string]bool   // request pointers known to be nil on this path
	hdrOf  map[string]string // Go header expression ("req2.Header") -> variable whose header it is (a request), "" = a plain header variable
	result string            // the Go expression whose final value is the result
}

func (e *henv) clone() *henv {
	n := &henv{vars: map[string]hval{}, isNil: map[string]bool{}, hdrOf: e.hdrOf, result: e.result}
	for k, v := range e.vars {
		n.vars[k] = v
	}
	for k, v := range e.isNil {
		n.isNil[k] = v
	}
	return n
}

type htr struct {
	name  string
	ce    *cenv
	table map[string]hval // canonical Go expression -> model term
	fresh int
}

func (t *htr) sym(p string) string {
	t.fresh++
	return fmt.Sprintf("%s%d", p, t.fresh)
}

func (t *htr) header(e ast.Expr, env *henv) string {
	s := exprString(e)
	if owner, ok := env.hdrOf[s]; ok && owner != "" {
		q, ok := env.vars[owner]
		if !ok || env.isNil[owner] {
			die("%s: header of a request that is nil here: %s", t.name, s)
		}
		return "q_hdr (" + q.s + ")"
	}
	if v, ok := env.vars[s]; ok && v.k == "H" {
		return v.s
	}
	die("%s: not a header map: %s", t.name, s)
	return ""
}

func (t *htr) setHeader(e ast.Expr, env *henv, newHdr string) {
	s := exprString(e)
	if owner, ok := env.hdrOf[s]; ok && owner != "" {
		q := env.vars[owner]
		env.vars[owner] = hval{fmt.Sprintf("{| q_method := q_method (%s); q_url := q_url (%s); q_hdr := %s |}", q.s, q.s, newHdr), "Q"}
		return
	}
	env.vars[s] = hval{newHdr, "H"}
}

func (t *htr) expr(e ast.Expr, env *henv) hval {
	s := exprString(e)
	if v, ok := t.table[s]; ok {
		return v
	}
	if v, ok := env.vars[s]; ok {
		return v
	}
	switch x := e.(type) {
	case *ast.ParenExpr:
		return t.expr(x.X, env)
	case *ast.CallExpr:
		fn := exprString(x.Fun)
		switch {
		case strings.HasSuffix(fn, ".Get") && len(x.Args) == 1:
			h := t.header(x.Fun.(*ast.SelectorExpr).X, env)
			return hval{fmt.Sprintf("hget %s (%s)", t.expr(x.Args[0], env).s, h), "S"}
		case fn == "saturatingAdd" && len(x.Args) == 2:
			return hval{fmt.Sprintf("go_sat_add (%s) (%s)", t.expr(x.Args[0], env).s, t.expr(x.Args[1], env).s), "D"}
		case fn == "max" && len(x.Args) == 2:
			return hval{fmt.Sprintf("Z.max (%s) (%s)", t.expr(x.Args[0], env).s, t.expr(x.Args[1], env).s), "D"}
		case fn == "clock.Since" && len(x.Args) == 1:
			return hval{fmt.Sprintf("time_sub now (%s)", t.expr(x.Args[0], env).s), "D"}
		case fn == "strconv.Itoa" && len(x.Args) == 1:
			// strconv.Itoa(int(d.Seconds()))
			if c1, ok := x.Args[0].(*ast.CallExpr); ok && exprString(c1.Fun) == "int" && len(c1.Args) == 1 {
				if c2, ok := c1.Args[0].(*ast.CallExpr); ok && len(c2.Args) == 0 {
					if sel, ok := c2.Fun.(*ast.SelectorExpr); ok && sel.Sel.Name == "Seconds" {
						return hval{fmt.Sprintf("dec_of_Z (seconds_trunc (%s))", t.expr(sel.X, env).s), "S"}
					}
				}
			}
		case strings.HasSuffix(fn, ".Format") && len(x.Args) == 1 && exprString(x.Args[0]) == "http.TimeFormat":
			// t.UTC().Format(http.TimeFormat)
			if c1, ok := x.Fun.(*ast.SelectorExpr).X.(*ast.CallExpr); ok && len(c1.Args) == 0 {
				if sel, ok := c1.Fun.(*ast.SelectorExpr); ok && sel.Sel.Name == "UTC" {
					return hval{fmt.Sprintf("format_imf_fixdate ((%s) / second)", t.expr(sel.X, env).s), "S"}
				}
			}
		case fn == "cloneRequest" && len(x.Args) == 1:
			return t.expr(x.Args[0], env)
		}
	case *ast.BasicLit:
		if v, ok := t.ce.eval(x); ok {
			if v.s != nil {
				return hval{coqString(*v.s), "S"}
			}
			return hval{coqInt(v.i), "D"}
		}
	case *ast.SelectorExpr, *ast.Ident:
		if v, ok := t.ce.eval(e); ok && v.s != nil {
			return hval{coqString(*v.s), "S"}
		}
	}
	die("%s: expression outside the subset: %s", t.name, s)
	return hval{}
}

// cond: a boolean Gallina term, or a statically known value ("true"/"false" with known=true)
func (t *htr) cond(e ast.Expr, env *henv) (string, bool, bool) {
	switch x := e.(type) {
	case *ast.ParenExpr:
		return t.cond(x.X, env)
	case *ast.UnaryExpr:
		if x.Op == token.NOT {
			c, known, val := t.cond(x.X, env)
			if known {
				return "", true, !val
			}
			return "negb (" + c + ")", false, false
		}
	case *ast.BinaryExpr:
		switch x.Op {
		case token.LOR, token.LAND:
			a, ka, va := t.cond(x.X, env)
			b, kb, vb := t.cond(x.Y, env)
			if ka || kb {
				die("%s: a statically known operand in %s", t.name, exprString(e))
			}
			_ = va
			_ = vb
			op := "||"
			if x.Op == token.LAND {
				op = "&&"
			}
			return "(" + a + ") " + op + " (" + b + ")", false, false
		case token.EQL, token.NEQ:
			if exprString(x.Y) == "nil" {
				name := exprString(x.X)
				if _, isReq := env.vars[name]; isReq || env.isNil[name] {
					isNil := env.isNil[name]
					return "", true, isNil == (x.Op == token.EQL)
				}
			}
			a, b := t.expr(x.X, env), t.expr(x.Y, env)
			if a.k != "S" || b.k != "S" {
				die("%s: comparison outside the subset: %s", t.name, exprString(e))
			}
			c := fmt.Sprintf("beq (%s) (%s)", a.s, b.s)
			if x.Op == token.NEQ {
				c = "negb (" + c + ")"
			}
			return c, false, false
		}
	case *ast.Ident:
		if v, ok := env.vars[x.Name]; ok && v.k == "B" {
			return v.s, false, false
		}
	case *ast.CallExpr:
		// date.IsZero()
		if sel, ok := x.Fun.(*ast.SelectorExpr); ok && sel.Sel.Name == "IsZero" && len(x.Args) == 0 {
			return fmt.Sprintf("(%s) =? go_zero_time", t.expr(sel.X, env).s), false, false
		}
	}
	die("%s: condition outside the subset: %s", t.name, exprString(e))
	return "", false, false
}

func (t *htr) block(list []ast.Stmt, env *henv, end func(*henv) string) string {
	if len(list) == 0 {
		return end(env)
	}
	st, rest := list[0], list[1:]
	next := func(e *henv) string { return t.block(rest, e, end) }
	switch s := st.(type) {
	case *ast.DeclStmt:
		// var p *http.Request
		if gd, ok := s.Decl.(*ast.GenDecl); ok && gd.Tok == token.VAR && len(gd.Specs) == 1 {
			vs := gd.Specs[0].(*ast.ValueSpec)
			if len(vs.Names) == 1 && len(vs.Values) == 0 && exprString(vs.Type) == "*http.Request" {
				env = env.clone()
				env.isNil[vs.Names[0].Name] = true
				return next(env)
			}
		}
	case *ast.AssignStmt:
		if len(s.Lhs) == 1 && len(s.Rhs) == 1 {
			lhs := exprString(s.Lhs[0])
			if lhs == "_" {
				return next(env) // a result that is not used
			}
			v := t.expr(s.Rhs[0], env)
			env = env.clone()
			if v.k == "Q" {
				env.vars[lhs] = v
				delete(env.isNil, lhs)
				return next(env)
			}
			name := t.sym("v")
			env.vars[lhs] = hval{name, v.k}
			return fmt.Sprintf("let %s := %s in\n  %s", name, v.s, next(env))
		}
	case *ast.ExprStmt:
		if call, ok := s.X.(*ast.CallExpr); ok {
			if sel, ok := call.Fun.(*ast.SelectorExpr); ok {
				switch {
				case sel.Sel.Name == "Set" && len(call.Args) == 2:
					h := t.header(sel.X, env)
					env = env.clone()
					t.setHeader(sel.X, env, fmt.Sprintf("hset %s (%s) (%s)", t.expr(call.Args[0], env).s, t.expr(call.Args[1], env).s, h))
					return next(env)
				case sel.Sel.Name == "Del" && len(call.Args) == 1:
					h := t.header(sel.X, env)
					env = env.clone()
					t.setHeader(sel.X, env, fmt.Sprintf("hdel %s (%s)", t.expr(call.Args[0], env).s, h))
					return next(env)
				}
			}
		}
	case *ast.ReturnStmt:
		return end(env)
	case *ast.IfStmt:
		env2 := env.clone()
		var open, close string
		var c string
		known, val := false, false
		if s.Init != nil {
			init, ok := s.Init.(*ast.AssignStmt)
			if !ok || init.Tok != token.DEFINE || len(init.Rhs) != 1 {
				die("%s: unsupported if-header: %s", t.name, stmtString(s))
			}
			if len(init.Lhs) == 1 {
				v := t.expr(init.Rhs[0], env)
				name := t.sym("v")
				env2.vars[exprString(init.Lhs[0])] = hval{name, v.k}
				open, close = fmt.Sprintf("let %s := %s in\n  ", name, v.s), ""
				c, known, val = t.cond(s.Cond, env2)
			} else if call, ok := init.Rhs[0].(*ast.CallExpr); ok && len(init.Lhs) == 2 && len(call.Args) == 0 {
				// v, ok := RawTime(e).Value(); !ok || v.IsZero()   (the only shape: absent or unusable or the zero instant)
				sel, ok1 := call.Fun.(*ast.SelectorExpr)
				var inner *ast.CallExpr
				if ok1 {
					inner, _ = sel.X.(*ast.CallExpr)
				}
				if !ok1 || sel.Sel.Name != "Value" || inner == nil || exprString(inner.Fun) != "RawTime" || len(inner.Args) != 1 {
					die("%s: unsupported if-header: %s", t.name, stmtString(s))
				}
				vname, okname := exprString(init.Lhs[0]), exprString(init.Lhs[1])
				if exprString(s.Cond) != "!"+okname+" || "+vname+".IsZero()" || s.Else != nil {
					die("%s: unsupported test of a parsed time: %s", t.name, exprString(s.Cond))
				}
				tv := t.sym("t")
				thn := t.block(s.Body.List, env.clone(), next)
				els := next(env)
				return fmt.Sprintf("match raw_time (%s) with\n  | Some %s => if %s =? go_zero_time then %s else %s\n  | None => %s\n  end", t.expr(inner.Args[0], env).s, tv, tv, thn, els, thn)
			} else {
				die("%s: unsupported if-header: %s", t.name, stmtString(s))
			}
		} else {
			c, known, val = t.cond(s.Cond, env2)
		}
		thenS := func() string { return t.block(s.Body.List, env2.clone(), next) }
		elseS := func() string {
			if s.Else == nil {
				return next(env2.clone())
			}
			if b, ok := s.Else.(*ast.BlockStmt); ok {
				return t.block(b.List, env2.clone(), next)
			}
			die("%s: else-if outside the subset", t.name)
			return ""
		}
		if known {
			if val {
				return open + thenS() + close
			}
			return open + elseS() + close
		}
		return fmt.Sprintf("%sif %s then %s\n  else %s%s", open, c, thenS(), elseS(), close)
	}
	die("%s: unsupported statement: %s", t.name, stmtString(st))
	return ""
}

func translateHeaderPrograms(intByName, rootByName map[string]*ast.File, intCE, rootCE *cenv, out *strings.Builder) {
	// CacheStatus.ApplyTo(header)
	{
		t := &htr{name: "ApplyTo", ce: intCE, table: map[string]hval{"s.Value": {"value", "S"}, "s.Legacy": {"legacy", "S"}}}
		fd := findFunc(intByName, "header.go", "ApplyTo")
		env := &henv{vars: map[string]hval{"header": {"h", "H"}}, isNil: map[string]bool{}, hdrOf: map[string]string{}, result: "header"}
		body := t.block(fd.Body.List, env, func(e *henv) string { return e.vars["header"].s })
		fmt.Fprintf(out, "(* internal/header.go: func (s CacheStatus) ApplyTo — the header block afterwards; value, legacy: the two fields of s *)\nDefinition src_apply_to (value legacy : bytes) (h : headers) : headers :=\n  %s.\n\n", body)
	}
	// SetAgeHeader(resp, clock, age)
	{
		t := &htr{name: "SetAgeHeader", ce: intCE, table: map[string]hval{"age.Value": {"f_age f", "D"}, "age.Timestamp": {"f_age_ts f", "T"}}}
		fd := findFunc(intByName, "helpers.go", "SetAgeHeader")
		env := &henv{vars: map[string]hval{"resp.Header": {"h", "H"}}, isNil: map[string]bool{}, hdrOf: map[string]string{}, result: "resp.Header"}
		body := t.block(fd.Body.List, env, func(e *henv) string { return e.vars["resp.Header"].s })
		fmt.Fprintf(out, "(* internal/helpers.go: func SetAgeHeader — the response's header block afterwards; f: the freshness record whose Age is passed; now: the clock reading *)\nDefinition src_set_age_header (f : freshness) (now : Z) (h : headers) : headers :=\n  %s.\n\n", body)
	}
	// FixDateHeader(h, receivedAt)
	{
		t := &htr{name: "FixDateHeader", ce: intCE, table: map[string]hval{"receivedAt": {"received_at", "T"}}}
		fd := findFunc(intByName, "clock.go", "FixDateHeader")
		env := &henv{vars: map[string]hval{"h": {"h", "H"}}, isNil: map[string]bool{}, hdrOf: map[string]string{}, result: "h"}
		body := t.block(fd.Body.List, env, func(e *henv) string { return e.vars["h"].s })
		fmt.Fprintf(out, "(* internal/clock.go: func FixDateHeader — the header block afterwards *)\nDefinition src_fix_date_header (h : headers) (received_at : Z) : headers :=\n  %s.\n\n", body)
	}
	// withConditionalHeaders(req, storedHdr)
	{
		t := &htr{name: "withConditionalHeaders", ce: rootCE, table: map[string]hval{}}
		fd := findFunc(rootByName, "helpers.go", "withConditionalHeaders")
		env := &henv{vars: map[string]hval{"req": {"q", "Q"}, "storedHdr": {"stored", "H"}}, isNil: map[string]bool{},
			hdrOf: map[string]string{"req2.Header": "req2", "req.Header": "req"}, result: "req"}
		body := t.block(fd.Body.List, env, func(e *henv) string {
			return e.vars["req"].s
		})
		// the function ends in `return req`
		if rs, ok := fd.Body.List[len(fd.Body.List)-1].(*ast.ReturnStmt); !ok || len(rs.Results) != 1 || exprString(rs.Results[0]) != "req" {
			die("withConditionalHeaders: expected to end in `return req`")
		}
		fmt.Fprintf(out, "(* helpers.go: func withConditionalHeaders — the request handed on *)\nDefinition src_with_conditional_headers (q : request) (stored : headers) : request :=\n  %s.\n\n", body)
	}
}

// CanStaleOnError: `if len(xs) == 0 { return false }`, then one loop over the variadic sources
//
//	for _, x := range xs { if x == nil { continue }; d, ok := x.StaleIfError(); if !ok { continue }; v := e; if c { return true } }; return false
//
// as a Fixpoint over a list of optional durations: an element is None when the source is nil or carries no usable
// stale-if-error (the two `continue`s), Some d otherwise.
func translateCanStaleOnError(intByName map[string]*ast.File, intCE *cenv, out *strings.Builder) {
	fd := findFunc(intByName, "cacheabilityevaluator.go", "CanStaleOnError")
	t := &htr{name: "CanStaleOnError", ce: intCE, table: map[string]hval{
		"freshness.Age.Value": {"f_age f", "D"}, "freshness.Age.Timestamp": {"f_age_ts f", "T"}, "freshness.UsefulLife": {"f_life f", "D"}}}
	list := fd.Body.List
	if len(list) != 3 {
		die("CanStaleOnError: expected the empty-list test, one loop and the final return")
	}
	guard, ok := list[0].(*ast.IfStmt)
	if !ok || guard.Init != nil || guard.Else != nil || len(guard.Body.List) != 1 || stmtString(guard.Body.List[0]) != "return false" || !strings.HasPrefix(exprString(guard.Cond), "len(") || !strings.HasSuffix(exprString(guard.Cond), ") == 0") {
		die("CanStaleOnError: unsupported first statement: %s", stmtString(list[0]))
	}
	loop, ok := list[1].(*ast.RangeStmt)
	if !ok || loop.Value == nil || exprString(loop.Key) != "_" {
		die("CanStaleOnError: expected `for _, x := range xs`")
	}
	if stmtString(list[2]) != "return false" {
		die("CanStaleOnError: expected to end in `return false`")
	}
	x := exprString(loop.Value)
	body := loop.Body.List
	if len(body) < 4 {
		die("CanStaleOnError: loop body too short")
	}
	nilTest, ok1 := body[0].(*ast.IfStmt)
	acc, ok2 := body[1].(*ast.AssignStmt)
	validTest, ok3 := body[2].(*ast.IfStmt)
	if !ok1 || !ok2 || !ok3 || exprString(nilTest.Cond) != x+" == nil" || !isContinue(nilTest.Body) || len(acc.Lhs) != 2 || len(acc.Rhs) != 1 ||
		exprString(acc.Rhs[0]) != x+".StaleIfError()" || exprString(validTest.Cond) != "!"+exprString(acc.Lhs[1]) || !isContinue(validTest.Body) {
		die("CanStaleOnError: the loop does not start with the nil test, the accessor and the validity test")
	}
	env := &henv{vars: map[string]hval{exprString(acc.Lhs[0]): {"dur", "D"}}, isNil: map[string]bool{}, hdrOf: map[string]string{}}
	t.table["cce.clock.Since(freshness.Age.Timestamp)"] = hval{"time_sub now (f_age_ts f)", "D"}
	var lets []string
	rest := body[3:]
	for len(rest) > 1 {
		as, ok := rest[0].(*ast.AssignStmt)
		if !ok || len(as.Lhs) != 1 || len(as.Rhs) != 1 {
			die("CanStaleOnError: unsupported statement in the loop: %s", stmtString(rest[0]))
		}
		v := t.expr(as.Rhs[0], env)
		name := t.sym("v")
		lets = append(lets, fmt.Sprintf("let %s := %s in", name, v.s))
		env.vars[exprString(as.Lhs[0])] = hval{name, v.k}
		rest = rest[1:]
	}
	last, ok := rest[0].(*ast.IfStmt)
	if !ok || last.Init != nil || last.Else != nil || len(last.Body.List) != 1 || stmtString(last.Body.List[0]) != "return true" {
		die("CanStaleOnError: the loop must end in `if c { return true }`")
	}
	cmp, ok := last.Cond.(*ast.BinaryExpr)
	if !ok {
		die("CanStaleOnError: unsupported window test %s", exprString(last.Cond))
	}
	a, b := t.expr(cmp.X, env), t.expr(cmp.Y, env)
	var c string
	switch cmp.Op {
	case token.LSS:
		c = fmt.Sprintf("(%s) <? (%s)", a.s, b.s)
	case token.LEQ:
		c = fmt.Sprintf("(%s) <=? (%s)", a.s, b.s)
	case token.GTR:
		c = fmt.Sprintf("(%s) <? (%s)", b.s, a.s)
	case token.GEQ:
		c = fmt.Sprintf("(%s) <=? (%s)", b.s, a.s)
	default:
		die("CanStaleOnError: unsupported window test %s", exprString(last.Cond))
	}
	fmt.Fprintf(out, "(* internal/cacheabilityevaluator.go: staleIfErrorPolicy.CanStaleOnError — the loop over the sources *)\n")
	fmt.Fprintf(out, "Fixpoint src_can_stale_on_error_loop (f : freshness) (sies : list (option Z)) (now : Z) : bool :=\n  match sies with\n  | [] => false\n  | None :: rest => src_can_stale_on_error_loop f rest now\n  | Some dur :: rest =>\n  %s\n  if %s then true else src_can_stale_on_error_loop f rest now\n  end.\n\n", strings.Join(lets, "\n  "), c)
	fmt.Fprintf(out, "Definition src_can_stale_on_error (f : freshness) (sies : list (option Z)) (now : Z) : bool :=\n  if (Z.of_nat (List.length sies)) =? 0 then false else src_can_stale_on_error_loop f sies now.\n\n")
}

// roundTripTimed (named results): clock readings and the origin call in source order; `if resp != nil { … }` splits on the
// reply; the bare `return` hands (resp, err) — as one origin_reply — and the two instants to the continuation c.
func translateRoundTripTimed(rootByName map[string]*ast.File, out *strings.Builder) {
	fd := findFunc(rootByName, "roundtripper.go", "roundTripTimed")
	if fd.Type.Results == nil || len(fd.Type.Results.List) != 3 && len(fd.Type.Results.List) != 4 {
		die("roundTripTimed: expected named results (resp, start, end, err)")
	}
	var rnames []string
	for _, f := range fd.Type.Results.List {
		for _, n := range f.Names {
			rnames = append(rnames, n.Name)
		}
	}
	if len(rnames) != 4 {
		die("roundTripTimed: expected four named results")
	}
	respN, startN, endN, errN := rnames[0], rnames[1], rnames[2], rnames[3]
	vars := map[string]string{}
	var tr func(list []ast.Stmt, resp string) string // resp: "" unknown (before the call), "nil", or the Gallina response term
	called := false
	tr = func(list []ast.Stmt, resp string) string {
		if len(list) == 0 {
			die("roundTripTimed: falls off the end")
		}
		st, rest := list[0], list[1:]
		switch s := st.(type) {
		case *ast.AssignStmt:
			if len(s.Rhs) == 1 && s.Tok == token.ASSIGN {
				rhs := exprString(s.Rhs[0])
				if len(s.Lhs) == 1 && rhs == "r.clock.Now()" {
					v := "t_" + exprString(s.Lhs[0])
					vars[exprString(s.Lhs[0])] = v
					return fmt.Sprintf("Now (fun %s =>\n  %s)", v, tr(rest, resp))
				}
				if len(s.Lhs) == 2 && rhs == "r.upstream.RoundTrip(req)" && exprString(s.Lhs[0]) == respN && exprString(s.Lhs[1]) == errN && !called {
					called = true
					return fmt.Sprintf("Origin q (fun rep =>\n  %s)", tr(rest, "?"))
				}
			}
		case *ast.IfStmt:
			if s.Init == nil && s.Else == nil && exprString(s.Cond) == respN+" != nil" && resp == "?" {
				// inside: only  _ = internal.FixDateHeader(resp.Header, <instant>)
				cur := "r0"
				for _, b := range s.Body.List {
					as, ok := b.(*ast.AssignStmt)
					if !ok || len(as.Lhs) != 1 || exprString(as.Lhs[0]) != "_" || len(as.Rhs) != 1 {
						die("roundTripTimed: unsupported statement under `%s != nil`: %s", respN, stmtString(b))
					}
					call, ok := as.Rhs[0].(*ast.CallExpr)
					if !ok || exprString(call.Fun) != "internal.FixDateHeader" || len(call.Args) != 2 || exprString(call.Args[0]) != respN+".Header" {
						die("roundTripTimed: unsupported call under `%s != nil`: %s", respN, stmtString(b))
					}
					tv, ok := vars[exprString(call.Args[1])]
					if !ok {
						die("roundTripTimed: FixDateHeader with an instant that has not been read: %s", exprString(call.Args[1]))
					}
					cur = fmt.Sprintf("with_hdr (%s) (fix_date_header (p_hdr (%s)) %s)", cur, cur, tv)
				}
				return fmt.Sprintf("match rep with\n  | RErr => %s\n  | RResp r0 => %s\n  end", tr(rest, "nil"), tr(rest, cur))
			}
		case *ast.ReturnStmt:
			if len(s.Results) == 0 {
				a, ok1 := vars[startN]
				b, ok2 := vars[endN]
				if !ok1 || !ok2 {
					die("roundTripTimed: returns before both instants were read")
				}
				switch resp {
				case "nil":
					return fmt.Sprintf("c RErr %s %s", a, b)
				case "?", "":
					die("roundTripTimed: returns a reply that was not examined")
				default:
					return fmt.Sprintf("c (RResp (%s)) %s %s", resp, a, b)
				}
			}
		}
		die("roundTripTimed: unsupported statement: %s", stmtString(st))
		return ""
	}
	body := tr(fd.Body.List, "")
	fmt.Fprintf(out, "(* roundtripper.go: func roundTripTimed — (resp, err) as one origin_reply: the scripted origins return a response or an error *)\n")
	fmt.Fprintf(out, "Definition src_round_trip_timed {A : Type} (q : request) (c : origin_reply -> Z -> Z -> prog A) : prog A :=\n  %s.\n\n", body)
}
