// inval.go — internal/cacheinvalidator.go (InvalidateCache, invalidateLocationHeaders) to effect trees.
//
// What comes from the source: which keys are deleted, in which order, under which conditions, and which store reads
// happen in between.  The statements understood (anything else aborts the group):
//
//	S := map[string]struct{}{}                        a set of keys already deleted
//	F := func(k string) { if _, ok := S[k]; !ok { _ = r.cache.Delete(k); S[k] = struct{}{} } }
//	                                                  a "deleter": Delete(k) unless k is in S; k joins S  (model: del_all [k])
//	for h := range X.ResponseIDs() { F(h) }           del_all (ref_ids X): every reference is dereferenced (nil: Crash)
//	F(e)                                              del_all [e]
//	r.invalidateLocationHeaders(a, b, F)              the translated callee, applied to its range constant
//	for _, x := range CONST { ... }                   (the whole body of the callee) a Fixpoint over the constant list;
//	                                                  continue / the end of the body = the recursive call on the rest
//	x := H.Get(y)            hget y H                 x := r.cke.URLKey(u)       make_url_key u
//	u, err := url.Parse(x); if err != nil {continue}  match parse_url x (outside the modelled URL class: Unmodelled; the
//	                                                  model's URLs always parse, so the error branch is not represented)
//	u = a.ResolveReference(u)                         resolve_reference a u
//	X, _ := r.cache.GetRefs(k)                        get_refs_clean k, absent / undecodable = the empty list
//	if x == "" { continue }    if sameOrigin(a, b) { ... }
package main

import (
	"fmt"
	"go/ast"
	"go/token"
	"strings"
)

type ienv struct {
	vars     map[string]string // Go identifier -> model term
	sets     map[string]bool   // sets of deleted keys
	deleters map[string]bool   // deleter closures / parameters
	done     string            // the model variable holding the keys deleted so far
	rec      string            // inside the loop: the recursive call, with %s for the current done
}

func (e *ienv) clone() *ienv {
	n := &ienv{vars: map[string]string{}, sets: map[string]bool{}, deleters: map[string]bool{}, done: e.done, rec: e.rec}
	for k, v := range e.vars {
		n.vars[k] = v
	}
	for k := range e.sets {
		n.sets[k] = true
	}
	for k := range e.deleters {
		n.deleters[k] = true
	}
	return n
}

type itr struct {
	fresh   int
	byName  map[string]*ast.File
	files   []*ast.File
	ce      *cenv
	callees map[string]string // Go method name -> "coq name|range constant as a Coq list"
}

func (t *itr) sym(p string) string {
	t.fresh++
	return fmt.Sprintf("%s%d", p, t.fresh)
}

func (t *itr) val(e ast.Expr, env *ienv) string {
	switch x := e.(type) {
	case *ast.Ident:
		if v, ok := env.vars[x.Name]; ok {
			return v
		}
	case *ast.BasicLit:
		if v, ok := t.ce.eval(x); ok && v.s != nil {
			return coqString(*v.s)
		}
	}
	die("cacheinvalidator: unsupported expression %s", exprString(e))
	return ""
}

// F := func(k string) { if _, ok := S[k]; !ok { _ = r.cache.Delete(k); S[k] = struct{}{} } }
func (t *itr) isDeleter(fl *ast.FuncLit, env *ienv) bool {
	if fl.Type.Params == nil || len(fl.Type.Params.List) != 1 || len(fl.Type.Params.List[0].Names) != 1 || fl.Type.Results != nil {
		return false
	}
	k := fl.Type.Params.List[0].Names[0].Name
	if len(fl.Body.List) != 1 {
		return false
	}
	ifs, ok := fl.Body.List[0].(*ast.IfStmt)
	if !ok || ifs.Else != nil || ifs.Init == nil {
		return false
	}
	init, ok := ifs.Init.(*ast.AssignStmt)
	if !ok || init.Tok != token.DEFINE || len(init.Lhs) != 2 || len(init.Rhs) != 1 {
		return false
	}
	okName := exprString(init.Lhs[1])
	ix, ok := init.Rhs[0].(*ast.IndexExpr)
	if !ok || !env.sets[exprString(ix.X)] || exprString(ix.Index) != k || exprString(init.Lhs[0]) != "_" {
		return false
	}
	set := exprString(ix.X)
	if exprString(ifs.Cond) != "!"+okName || len(ifs.Body.List) != 2 {
		return false
	}
	as, ok := ifs.Body.List[0].(*ast.AssignStmt)
	if !ok || len(as.Lhs) != 1 || exprString(as.Lhs[0]) != "_" || len(as.Rhs) != 1 || exprString(as.Rhs[0]) != "r.cache.Delete("+k+")" {
		return false
	}
	return stmtString(ifs.Body.List[1]) == set+"["+k+"] = struct{}{}"
}

func isContinue(b *ast.BlockStmt) bool {
	if len(b.List) != 1 {
		return false
	}
	br, ok := b.List[0].(*ast.BranchStmt)
	return ok && br.Tok == token.CONTINUE && br.Label == nil
}

// stmts translates a statement list; end gives what follows its last statement
func (t *itr) stmts(list []ast.Stmt, env *ienv, end func(*ienv) string) string {
	if len(list) == 0 {
		return end(env)
	}
	st, rest := list[0], list[1:]
	next := func(e *ienv) string { return t.stmts(rest, e, end) }
	switch s := st.(type) {
	case *ast.AssignStmt:
		if len(s.Rhs) != 1 {
			break
		}
		// S := map[string]struct{}{}
		if cl, ok := s.Rhs[0].(*ast.CompositeLit); ok && s.Tok == token.DEFINE && len(s.Lhs) == 1 {
			if _, isMap := cl.Type.(*ast.MapType); isMap && len(cl.Elts) == 0 {
				env = env.clone()
				env.sets[exprString(s.Lhs[0])] = true
				return next(env)
			}
		}
		// F := func(k string) {...}
		if fl, ok := s.Rhs[0].(*ast.FuncLit); ok && s.Tok == token.DEFINE && len(s.Lhs) == 1 {
			if !t.isDeleter(fl, env) {
				die("cacheinvalidator: the closure %s is not a deleter (Delete(k) unless k was deleted before)", exprString(s.Lhs[0]))
			}
			env = env.clone()
			env.deleters[exprString(s.Lhs[0])] = true
			return next(env)
		}
		call, isCall := s.Rhs[0].(*ast.CallExpr)
		if !isCall {
			break
		}
		fn := exprString(call.Fun)
		switch {
		case len(s.Lhs) == 1 && strings.HasSuffix(fn, ".Get") && len(call.Args) == 1 && s.Tok == token.DEFINE:
			h := t.val(call.Fun.(*ast.SelectorExpr).X, env)
			v := t.sym("v")
			env = env.clone()
			arg := t.val(call.Args[0], env)
			env.vars[exprString(s.Lhs[0])] = v
			return fmt.Sprintf("let %s := hget %s %s in\n  %s", v, arg, h, next(env))
		case len(s.Lhs) == 1 && fn == "r.cke.URLKey" && len(call.Args) == 1 && s.Tok == token.DEFINE:
			v := t.sym("v")
			arg := t.val(call.Args[0], env)
			env = env.clone()
			env.vars[exprString(s.Lhs[0])] = v
			return fmt.Sprintf("let %s := make_url_key %s in\n  %s", v, arg, next(env))
		case len(s.Lhs) == 1 && strings.HasSuffix(fn, ".ResolveReference") && len(call.Args) == 1:
			base := t.val(call.Fun.(*ast.SelectorExpr).X, env)
			arg := t.val(call.Args[0], env)
			v := t.sym("v")
			env = env.clone()
			env.vars[exprString(s.Lhs[0])] = v
			return fmt.Sprintf("let %s := resolve_reference %s %s in\n  %s", v, base, arg, next(env))
		case len(s.Lhs) == 2 && fn == "url.Parse" && len(call.Args) == 1 && s.Tok == token.DEFINE:
			// followed by: if err != nil { continue }
			errName := exprString(s.Lhs[1])
			if len(rest) == 0 {
				die("cacheinvalidator: url.Parse without a test of its error")
			}
			ifs, ok := rest[0].(*ast.IfStmt)
			if !ok || ifs.Init != nil || ifs.Else != nil || exprString(ifs.Cond) != errName+" != nil" || !isContinue(ifs.Body) || env.rec == "" {
				die("cacheinvalidator: url.Parse must be followed by `if %s != nil { continue }`", errName)
			}
			v := t.sym("v")
			arg := t.val(call.Args[0], env)
			env = env.clone()
			env.vars[exprString(s.Lhs[0])] = v
			return fmt.Sprintf("match parse_url %s with\n  | None => Unmodelled\n  | Some %s =>\n  %s\n  end", arg, v, t.stmts(rest[1:], env, end))
		case len(s.Lhs) == 2 && fn == "r.cache.GetRefs" && len(call.Args) == 1 && exprString(s.Lhs[1]) == "_" && s.Tok == token.DEFINE:
			v, a := t.sym("v"), t.sym("ans")
			arg := t.val(call.Args[0], env)
			env = env.clone()
			env.vars[exprString(s.Lhs[0])] = v
			return fmt.Sprintf("get_refs_clean %s (fun %s => let %s := match %s with Some l => l | None => [] end in\n  %s)", arg, a, v, a, next(env))
		}
	case *ast.RangeStmt:
		// for h := range X.ResponseIDs() { F(h) }
		if call, ok := s.X.(*ast.CallExpr); ok && s.Value == nil && s.Key != nil && len(call.Args) == 0 {
			if sel, ok := call.Fun.(*ast.SelectorExpr); ok && sel.Sel.Name == "ResponseIDs" && len(s.Body.List) == 1 {
				if es, ok := s.Body.List[0].(*ast.ExprStmt); ok {
					if c2, ok := es.X.(*ast.CallExpr); ok && env.deleters[exprString(c2.Fun)] && len(c2.Args) == 1 && exprString(c2.Args[0]) == exprString(s.Key) {
						refs := t.val(sel.X, env)
						ids, d := t.sym("ids"), t.sym("done")
						env2 := env.clone()
						env2.done = d
						return fmt.Sprintf("match ref_ids %s with\n  | None => Crash\n  | Some %s => del_all %s %s (fun %s =>\n  %s)\n  end", refs, ids, ids, env.done, d, next(env2))
					}
				}
			}
		}
	case *ast.ExprStmt:
		call, ok := s.X.(*ast.CallExpr)
		if !ok {
			break
		}
		fn := exprString(call.Fun)
		if env.deleters[fn] && len(call.Args) == 1 {
			d := t.sym("done")
			arg := t.val(call.Args[0], env)
			env2 := env.clone()
			env2.done = d
			return fmt.Sprintf("del_all [%s] %s (fun %s =>\n  %s)", arg, env.done, d, next(env2))
		}
		if sel, ok := call.Fun.(*ast.SelectorExpr); ok && exprString(sel.X) == "r" {
			if spec, ok := t.callees[sel.Sel.Name]; ok && len(call.Args) == 3 && env.deleters[exprString(call.Args[2])] {
				parts := strings.SplitN(spec, "|", 2)
				d := t.sym("done")
				a, b := t.val(call.Args[0], env), t.val(call.Args[1], env)
				env2 := env.clone()
				env2.done = d
				return fmt.Sprintf("%s %s %s %s %s (fun %s =>\n  %s)", parts[0], parts[1], a, b, env.done, d, next(env2))
			}
		}
	case *ast.IfStmt:
		if s.Init != nil || s.Else != nil {
			break
		}
		var cond string
		if be, ok := s.Cond.(*ast.BinaryExpr); ok && be.Op == token.EQL && exprString(be.Y) == `""` {
			cond = fmt.Sprintf("beq %s []", t.val(be.X, env))
		} else if call, ok := s.Cond.(*ast.CallExpr); ok && exprString(call.Fun) == "sameOrigin" && len(call.Args) == 2 {
			cond = fmt.Sprintf("same_origin %s %s", t.val(call.Args[0], env), t.val(call.Args[1], env))
		} else {
			break
		}
		var thn string
		if isContinue(s.Body) {
			if env.rec == "" {
				die("cacheinvalidator: continue outside the loop")
			}
			thn = fmt.Sprintf(env.rec, env.done)
		} else {
			thn = t.stmts(s.Body.List, env, next)
		}
		return fmt.Sprintf("if %s then %s\n  else %s", cond, thn, next(env))
	}
	die("cacheinvalidator: unsupported statement: %s", stmtString(st))
	return ""
}

func translateInvalidator(byName map[string]*ast.File, files []*ast.File, ce *cenv, out *strings.Builder) {
	t := &itr{byName: byName, files: files, ce: ce, callees: map[string]string{}}
	// the callee: func (r *cacheInvalidator) invalidateLocationHeaders(reqURL, respHeader, deleteFn) { for _, hdr := range CONST { ... } }
	loc := findFunc(byName, "cacheinvalidator.go", "invalidateLocationHeaders")
	var pnames []string
	for _, f := range loc.Type.Params.List {
		for _, n := range f.Names {
			pnames = append(pnames, n.Name)
		}
	}
	if len(pnames) != 3 || len(loc.Body.List) != 1 {
		die("invalidateLocationHeaders: expected three parameters and one loop")
	}
	rs, ok := loc.Body.List[0].(*ast.RangeStmt)
	if !ok || rs.Value == nil || exprString(rs.Key) != "_" {
		die("invalidateLocationHeaders: expected `for _, x := range <constant> {...}`")
	}
	constName, ok := rs.X.(*ast.Ident)
	if !ok {
		die("invalidateLocationHeaders: the range expression is not a package-level constant")
	}
	var items []string
	for _, s := range stringKeys(findVar(files, constName.Name), ce) {
		cs := coqString(s)
		items = append(items, cs)
	}
	env := &ienv{vars: map[string]string{pnames[0]: "req_url", pnames[1]: "resp_hdr", exprString(rs.Value): "hdr"}, sets: map[string]bool{},
		deleters: map[string]bool{pnames[2]: true}, done: "done", rec: "src_invalidate_locations hs_rest req_url resp_hdr %s c"}
	body := t.stmts(rs.Body.List, env, func(e *ienv) string { return fmt.Sprintf(e.rec, e.done) })
	fmt.Fprintf(out, "(* internal/cacheinvalidator.go: func invalidateLocationHeaders — the loop over %s *)\n", constName.Name)
	fmt.Fprintf(out, "Fixpoint src_invalidate_locations {A : Type} (hs : list bytes) (req_url : url) (resp_hdr : headers) (done : list bytes)\n    (c : list bytes -> prog A) : prog A :=\n  match hs with\n  | [] => c done\n  | hdr :: hs_rest =>\n  %s\n  end.\n\n", body)
	t.callees["invalidateLocationHeaders"] = "src_invalidate_locations|[" + strings.Join(items, "; ") + "]"

	inv := findFunc(byName, "cacheinvalidator.go", "InvalidateCache")
	pnames = nil
	for _, f := range inv.Type.Params.List {
		for _, n := range f.Names {
			pnames = append(pnames, n.Name)
		}
	}
	if len(pnames) != 4 {
		die("InvalidateCache: expected four parameters")
	}
	env = &ienv{vars: map[string]string{pnames[0]: "req_url", pnames[1]: "resp_hdr", pnames[2]: "refs", pnames[3]: "key"}, sets: map[string]bool{},
		deleters: map[string]bool{}, done: "[]"}
	body = t.stmts(inv.Body.List, env, func(e *ienv) string { return "c" })
	fmt.Fprintf(out, "(* internal/cacheinvalidator.go: func InvalidateCache *)\n")
	fmt.Fprintf(out, "Definition src_invalidate_cache {A : Type} (req_url : url) (resp_hdr : headers) (refs : list (option ref)) (key : bytes)\n    (c : prog A) : prog A :=\n  %s.\n\n", body)
}
