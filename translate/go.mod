module veriftranslate

go 1.23
