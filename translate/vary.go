// vary.go — internal/varymatcher.go: the ranking of VaryHeadersMatch.
//
// What comes from the source: the comparator closure handed to slices.SortFunc (a function of two references returning an
// int: Vary "*" last, references with a Vary before those without, then by ReceivedAt), the condition under which the loop
// over the sorted references moves `best` to the current index, the initial value of `best`, and what is returned.
// Shape-checked, not translated: that the function is `slices.SortFunc(entries, <closure>)`, `best := <const>`, one
// `for i, entry := range entries { if <cond> { best = i } }` and `return best, best >= 0`.
// Table entries (trusted): strings.TrimSpace(x.Vary) = go_trim (r_vary x); x.ReceivedAt.Compare(y.ReceivedAt) = time_compare;
// x.ReceivedAt.Before(y.ReceivedAt) = r_recv x <? r_recv y; vm.varyHeadersMatchOne(entry, reqHdr) = the boolean `m`
// (ref_matches, hand-written: a loop over a Go map with a normaliser call); slices.SortFunc with comparator c = the model's
// sort with `c a b <=? 0` as its order (the model's sort is stable; pdqsort is not: the runs tie that).
package main

import (
	"fmt"
	"go/ast"
	"go/token"
	"strings"
)

func translateVaryMatcher(intByName map[string]*ast.File, ce *cenv, out *strings.Builder) {
	const fn = "VaryHeadersMatch"
	fd := findFunc(intByName, "varymatcher.go", fn)
	if fd.Type.Params == nil || len(fd.Type.Params.List) != 2 {
		die("%s: parameters", fn)
	}
	entries := fd.Type.Params.List[0].Names[0].Name
	reqHdr := fd.Type.Params.List[1].Names[0].Name
	recv := fd.Recv.List[0].Names[0].Name
	body := fd.Body.List
	if len(body) != 4 {
		die("%s: the body is no longer sort; best := c; loop; return (%d statements)", fn, len(body))
	}
	// 1. slices.SortFunc(entries, func(a, b *ResponseRef) int { ... })
	es, ok := body[0].(*ast.ExprStmt)
	if !ok {
		die("%s: first statement is not a call", fn)
	}
	call, ok := es.X.(*ast.CallExpr)
	if !ok || exprString(call.Fun) != "slices.SortFunc" || len(call.Args) != 2 || exprString(call.Args[0]) != entries {
		die("%s: first statement is not slices.SortFunc(%s, …): %s", fn, entries, stmtString(body[0]))
	}
	lit, ok := call.Args[1].(*ast.FuncLit)
	if !ok || len(lit.Type.Params.List) != 1 || len(lit.Type.Params.List[0].Names) != 2 {
		die("%s: the comparator is not a closure of two references", fn)
	}
	a, b := lit.Type.Params.List[0].Names[0].Name, lit.Type.Params.List[0].Names[1].Name
	syms := symtab{}
	for _, p := range [][2]string{{a, "a"}, {b, "b"}} {
		syms["strings.TrimSpace("+p[0]+".Vary)"] = term{"go_trim (r_vary " + p[1] + ")", kS}
	}
	for _, p := range [][4]string{{a, b, "a", "b"}, {b, a, "b", "a"}} {
		syms[p[0]+".ReceivedAt.Compare("+p[1]+".ReceivedAt)"] = term{"time_compare (r_recv " + p[2] + ") (r_recv " + p[3] + ")", kZ}
		syms[p[0]+".ReceivedAt.Before("+p[1]+".ReceivedAt)"] = term{"(r_recv " + p[2] + ") <? (r_recv " + p[3] + ")", kB}
		syms[p[0]+".ReceivedAt.After("+p[1]+".ReceivedAt)"] = term{"(r_recv " + p[3] + ") <? (r_recv " + p[2] + ")", kB}
		syms[p[0]+".ReceivedAt.Equal("+p[1]+".ReceivedAt)"] = term{"(r_recv " + p[2] + ") =? (r_recv " + p[3] + ")", kB}
	}
	sp := &fnSpec{file: "varymatcher.go", name: fn + " (comparator)", coq: "src_ref_cmp", params: "(a b : ref)", ret: "Z", syms: syms}
	t := &translator{spec: sp, ce: ce, locals: map[string]term{}, labels: map[string][]ast.Stmt{}}
	cmp := t.block(lit.Body.List, nil)
	fmt.Fprintf(out, "(* varymatcher.go: func VaryHeadersMatch, the comparator handed to slices.SortFunc *)\nDefinition src_ref_cmp (a b : ref) : Z :=\n  %s.\n\n", cmp)

	// 2. best := c
	as, ok := body[1].(*ast.AssignStmt)
	if !ok || as.Tok != token.DEFINE || len(as.Lhs) != 1 || len(as.Rhs) != 1 {
		die("%s: second statement is not best := c: %s", fn, stmtString(body[1]))
	}
	best := as.Lhs[0].(*ast.Ident).Name
	iv, ok := ce.eval(as.Rhs[0])
	if !ok || iv.i == nil {
		die("%s: %s does not start from an integer constant", fn, best)
	}
	fmt.Fprintf(out, "(* %s *)\nDefinition src_best_init : Z := %s.\n\n", stmtString(body[1]), coqInt(iv.i))

	// 3. for i, entry := range entries { if cond { best = i } }
	rs, ok := body[2].(*ast.RangeStmt)
	if !ok || rs.Tok != token.DEFINE || rs.Key == nil || rs.Value == nil || exprString(rs.X) != entries || len(rs.Body.List) != 1 {
		die("%s: third statement is not a range over %s with one statement: %s", fn, entries, stmtString(body[2]))
	}
	idx, entry := exprString(rs.Key), exprString(rs.Value)
	ifs, ok := rs.Body.List[0].(*ast.IfStmt)
	if !ok || ifs.Init != nil || ifs.Else != nil || len(ifs.Body.List) != 1 {
		die("%s: the loop body is not one if without else: %s", fn, stmtString(rs.Body.List[0]))
	}
	set, ok := ifs.Body.List[0].(*ast.AssignStmt)
	if !ok || set.Tok != token.ASSIGN || len(set.Lhs) != 1 || exprString(set.Lhs[0]) != best || exprString(set.Rhs[0]) != idx {
		die("%s: the if does not set %s = %s: %s", fn, best, idx, stmtString(ifs.Body.List[0]))
	}
	at := entries + "[" + best + "]"
	lsyms := symtab{
		recv + ".varyHeadersMatchOne(" + entry + ", " + reqHdr + ")": {"m", kB},
		best: {"best", kZ},
		idx:  {"i", kZ},
	}
	for _, p := range [][4]string{{entry, at, "recv_entry", "recv_best"}, {at, entry, "recv_best", "recv_entry"}} {
		lsyms[p[0]+".ReceivedAt.Before("+p[1]+".ReceivedAt)"] = term{p[2] + " <? " + p[3], kB}
		lsyms[p[0]+".ReceivedAt.After("+p[1]+".ReceivedAt)"] = term{p[3] + " <? " + p[2], kB}
		lsyms[p[0]+".ReceivedAt.Equal("+p[1]+".ReceivedAt)"] = term{p[2] + " =? " + p[3], kB}
		lsyms[p[0]+".ReceivedAt.Compare("+p[1]+".ReceivedAt)"] = term{"time_compare " + p[2] + " " + p[3], kZ}
	}
	lt := &translator{spec: &fnSpec{name: fn + " (loop)", syms: lsyms}, ce: ce, locals: map[string]term{}, labels: map[string][]ast.Stmt{}}
	cond := lt.boolExpr(ifs.Cond)
	fmt.Fprintf(out, "(* the condition under which the loop over the sorted references sets %s = %s; m: varyHeadersMatchOne(%s, %s);\n   recv_best: %s.ReceivedAt, read only where the source reads it *)\n", best, idx, entry, reqHdr, at)
	fmt.Fprintf(out, "Definition src_better (m : bool) (best i recv_entry recv_best : Z) : bool :=\n  %s.\n\n", cond)

	// 4. return best, best >= 0
	ret, ok := body[3].(*ast.ReturnStmt)
	if !ok || len(ret.Results) != 2 || exprString(ret.Results[0]) != best {
		die("%s: does not return %s, …: %s", fn, best, stmtString(body[3]))
	}
	found := lt.boolExpr(ret.Results[1])
	fmt.Fprintf(out, "(* %s *)\nDefinition src_found (best : Z) : bool :=\n  %s.\n", stmtString(body[3]), found)
}
