// effects.go — the second part of the translator: Go functions of the transport that *do* things (store and origin
// operations, clock readings, header updates) to effect trees of the model (Prog.v / Transport.v).
//
// What comes from the source: the control flow — which operation follows which, under which conditions, with which
// arguments, and what is returned on every path.  What the translator contributes (trusted, listed in DESIGN.md
// section 9): for every callee that is an operation of the environment or a function of the model, the model term it
// denotes (tables below), including what it does to the objects passed by pointer (StoreResponse and ApplyTo change
// the response they are given: the Go variable is re-bound to the changed value).
//
// A call that returns (value, error) splits the translation in two: one continuation in which err != nil is known to
// hold (and the value is nil: any use of it would be a nil dereference and translates to the model's Crash) and one in
// which err == nil; conditions on err and on resp != nil are folded accordingly.
package main

import (
	"fmt"
	"go/ast"
	"go/token"
	"sort"
	"strings"
)

const (
	kReq kind = iota + 100
	kResp
	kEntry
	kHdr
	kCtx
	kCCq
	kCCr
	kFresh
	kAge
	kRefs
	kURL
	kNil
	kAgePair // a standalone Age value: (duration, timestamp)
	kT       // time.Time (ns)
	kRaw     // RawDeltaSeconds: the unparsed argument of a directive
)

type eenv struct {
	vars  map[string]term // canonical Go expression (mostly identifiers) -> model term
	facts map[string]bool // canonical Go boolean expression -> its known value on this path
	now   string          // the clock reading in scope ("" = none yet)
}

func (e *eenv) clone() *eenv {
	n := &eenv{vars: map[string]term{}, facts: map[string]bool{}, now: e.now}
	for k, v := range e.vars {
		n.vars[k] = v
	}
	for k, v := range e.facts {
		n.facts[k] = v
	}
	return n
}

type etr struct {
	name    string
	ce      *cenv
	unit    bool // the function returns nothing (background work): leaves are Ret tt
	fresh   int
	labels  map[string][]ast.Stmt
	isBgFun bool
	pure    bool // the function computes a value: return e is e
	cur     string
}

func (t *etr) gensym(p string) string {
	t.fresh++
	return fmt.Sprintf("%s%d", p, t.fresh)
}

type member struct {
	tmpl string
	k    kind
}

var fieldTable = map[kind]map[string]member{
	kReq:   {"Header": {"q_hdr (%s)", kHdr}, "Method": {"q_method (%s)", kS}, "URL": {"q_url (%s)", kURL}},
	kResp:  {"Header": {"p_hdr (%s)", kHdr}, "StatusCode": {"p_status (%s)", kZ}},
	kEntry: {"ID": {"e_id (%s)", kS}, "Data": {"response_of (%s)", kResp}, "RequestedAt": {"e_req_at (%s)", kT}, "ReceivedAt": {"e_recv_at (%s)", kT}},
	kCtx: {"URLKey": {"rc_url_key (%s)", kS}, "Start": {"rc_start (%s)", kZ}, "End": {"rc_end (%s)", kZ}, "CCReq": {"rc_cc_req (%s)", kCCq},
		"Stored": {"rc_stored (%s)", kEntry}, "Refs": {"rc_refs (%s)", kRefs}, "RefIndex": {"rc_ref_index (%s)", kZ},
		"Freshness": {"rc_fresh (%s)", kFresh}, "NoStale": {"rc_no_stale (%s)", kB}},
	kFresh: {"IsStale": {"f_stale (%s)", kB}, "Expired": {"f_expired (%s)", kB}, "ReqMaxAgeExceeded": {"f_req_max_age_exceeded (%s)", kB},
		"UsefulLife": {"f_life (%s)", kD}, "Age": {"%s", kAge}},
	kAge:     {"Value": {"f_age (%s)", kD}, "Timestamp": {"f_age_ts (%s)", kZ}},
	kURL:     {"Scheme": {"u_scheme (%s)", kS}},
	kAgePair: {"Value": {"fst (%s)", kD}, "Timestamp": {"snd (%s)", kT}},
}

var methodTable = map[kind]map[string]member{
	kCCr: {"NoStore": {"resp_no_store (%s)", kB}, "MustUnderstand": {"resp_must_understand (%s)", kB}, "Public": {"resp_public (%s)", kB},
		"MaxAgePresent": {"resp_max_age_present (%s)", kB}, "MustRevalidate": {"resp_must_revalidate (%s)", kB}},
	kCCq: {"NoStore": {"req_no_store (%s)", kB}, "OnlyIfCached": {"req_only_if_cached (%s)", kB}, "NoCache": {"req_no_cache (%s)", kB}},
	// net/url: Port() and Hostname() split the Host field at its last colon (brackets of an IP literal removed)
	kURL: {"Port": {"snd (split_host_port (u_host (%s)))", kS}, "Hostname": {"fst (split_host_port (u_host (%s)))", kS}},
}

// pure functions of the model, by the Go callee's text
var pureFuncs = map[string]struct {
	tmpl string
	k    kind
	n    int
}{
	"internal.ParseCCRequestDirectives":  {"parse_cc (%s)", kCCq, 1},
	"ParseCCRequestDirectives":           {"parse_cc (%s)", kCCq, 1},
	"internal.ParseCCResponseDirectives": {"parse_cc (%s)", kCCr, 1},
	"ParseCCResponseDirectives":          {"parse_cc (%s)", kCCr, 1},
	"isStaleErrorAllowed":                {"is_stale_error_allowed (%s)", kB, 1},
	"IsUnsafeMethod":                     {"is_unsafe_method (%s)", kB, 1},
	"internal.IsUnsafeMethod":            {"is_unsafe_method (%s)", kB, 1},
	"IsNonErrorStatus":                   {"is_non_error_status (%s)", kB, 1},
	"internal.IsNonErrorStatus":          {"is_non_error_status (%s)", kB, 1},
	"r.ce.CanStoreResponse":              {"can_store_response (%s) (%s) (%s)", kB, 3},
	"r.rmc.IsRequestMethodUnderstood":    {"is_request_method_understood (%s)", kB, 1},
	"r.uk.URLKey":                        {"make_url_key (%s)", kS, 1},
	"sentValidatorsOf":                   {"sent_validators_of (%s) (%s)", kB, 2},
	"withConditionalHeaders":             {"with_conditional_headers (%s) (%s)", kReq, 2},
	"isHeuristicallyCacheableCode":       {"is_heuristically_cacheable (%s)", kB, 1},
	"heuristicFreshness":                 {"heuristic_freshness (%s) (%s)", kD, 2},
	"strings.EqualFold":                  {"eq_fold (%s) (%s)", kB, 2},
	"defaultPort":                        {"default_port (%s)", kS, 1},
}

// accessors that return (value, ok): the model's option-valued counterpart and the kind of the value
var optionAccessors = map[kind]map[string]member{
	kCCq: {"MaxAge": {"req_max_age (%s)", kD}, "MinFresh": {"req_min_fresh (%s)", kD}, "MaxStale": {"req_max_stale_raw (%s)", kRaw}},
	kCCr: {"MaxAge": {"resp_max_age (%s)", kD}, "StaleWhileRevalidate": {"resp_swr (%s)", kD}},
	kRaw: {"Value": {"delta_seconds (%s)", kD}},
}

var statusNames = map[string]string{"CacheStatusHit": "HIT", "CacheStatusMiss": "MISS", "CacheStatusStale": "STALE",
	"CacheStatusRevalidated": "REVALIDATED", "CacheStatusBypass": "BYPASS"}

func (t *etr) expr(e ast.Expr, env *eenv) term {
	key := exprString(e)
	if v, ok := env.vars[key]; ok {
		return v
	}
	if v, ok := env.facts[key]; ok {
		if v {
			return term{"true", kB}
		}
		return term{"false", kB}
	}
	switch x := e.(type) {
	case *ast.ParenExpr:
		return t.expr(x.X, env)
	case *ast.Ident:
		switch x.Name {
		case "true":
			return term{"true", kB}
		case "false":
			return term{"false", kB}
		case "nil":
			return term{"[]", kNil}
		}
	case *ast.SelectorExpr:
		if id, ok := x.X.(*ast.Ident); ok {
			if _, isPkg := t.ce.imported[id.Name]; isPkg {
				break // a constant of another package
			}
		}
		recv := t.expr(x.X, env)
		if recv.k == kNil {
			die("%s: nil dereference on a path where %s is nil: %s", t.name, exprString(x.X), key)
		}
		if ft, ok := fieldTable[recv.k]; ok {
			if m, ok := ft[x.Sel.Name]; ok {
				return term{fmt.Sprintf(m.tmpl, recv.s), m.k}
			}
		}
	case *ast.CallExpr:
		fn := exprString(x.Fun)
		if pf, ok := pureFuncs[fn]; ok && len(x.Args) == pf.n {
			args := make([]any, pf.n)
			for i, a := range x.Args {
				args[i] = t.expr(a, env).s
			}
			return term{fmt.Sprintf(pf.tmpl, args...), pf.k}
		}
		if (fn == "r.clock.Since" || fn == "clock.Since") && len(x.Args) == 1 {
			if env.now == "" {
				die("%s: clock.Since before the clock reading of this path is known", t.name)
			}
			return term{"time_sub " + env.now + " (" + t.expr(x.Args[0], env).s + ")", kD}
		}
		if (fn == "f.clock.Now" || fn == "r.clock.Now" || fn == "clock.Now") && len(x.Args) == 0 {
			if env.now == "" {
				die("%s: clock.Now before the clock reading of this path is known", t.name)
			}
			return term{env.now, kT}
		}
		if (fn == "min" || fn == "max") && len(x.Args) == 2 {
			a, b := t.expr(x.Args[0], env), t.expr(x.Args[1], env)
			return term{"Z." + fn + " (" + a.s + ") (" + b.s + ")", kD}
		}
		if fn == "saturatingAdd" && len(x.Args) == 2 {
			return term{"go_sat_add (" + t.expr(x.Args[0], env).s + ") (" + t.expr(x.Args[1], env).s + ")", kD}
		}
		if (fn == "int64" || fn == "int") && len(x.Args) == 1 {
			return t.expr(x.Args[0], env)
		}
		if fn == "time.Duration" && len(x.Args) == 1 {
			a := t.expr(x.Args[0], env)
			return term{a.s, kD}
		}
		if fn == "calculateCurrentAge" && len(x.Args) == 5 {
			if env.now == "" {
				die("%s: calculateCurrentAge before the clock reading is known", t.name)
			}
			// reads the clock twice (Since, Now) at the instant of the caller's reading
			return term{fmt.Sprintf("(current_age (%s) (%s) (%s) (%s) %s, %s)", t.expr(x.Args[1], env).s, t.expr(x.Args[2], env).s, t.expr(x.Args[3], env).s, t.expr(x.Args[4], env).s, env.now, env.now), kAgePair}
		}
		if sel, ok := x.Fun.(*ast.SelectorExpr); ok && len(x.Args) == 1 && (sel.Sel.Name == "After" || sel.Sel.Name == "Before" || sel.Sel.Name == "Sub") {
			if recv := t.expr(sel.X, env); recv.k == kT || recv.k == kZ {
				arg := t.expr(x.Args[0], env)
				switch sel.Sel.Name {
				case "After":
					return term{"(" + arg.s + ") <? (" + recv.s + ")", kB}
				case "Before":
					return term{"(" + recv.s + ") <? (" + arg.s + ")", kB}
				case "Sub":
					return term{"time_sub (" + recv.s + ") (" + arg.s + ")", kD}
				}
			}
		}
		if fn == "len" && len(x.Args) == 1 {
			a := t.expr(x.Args[0], env)
			if a.k == kNil {
				return term{"0", kZ}
			}
			return term{"Z.of_nat (List.length (" + a.s + "))", kZ}
		}
		// the receiver is a package, or a component of the transport (r.vk, r.cache, ...): not a value of the model
		isPkg := func(e ast.Expr) bool {
			if _, bound := env.vars[exprString(e)]; bound {
				return false
			}
			for {
				switch y := e.(type) {
				case *ast.SelectorExpr:
					if _, bound := env.vars[exprString(y)]; bound {
						return false
					}
					e = y.X
					continue
				case *ast.Ident:
					_, bound := env.vars[y.Name]
					return !bound
				}
				return false
			}
		}
		if sel, ok := x.Fun.(*ast.SelectorExpr); ok && !isPkg(sel.X) {
			recv := t.expr(sel.X, env)
			if recv.k == kHdr && sel.Sel.Name == "Get" && len(x.Args) == 1 {
				if v, ok := t.ce.eval(x.Args[0]); ok && v.s != nil {
					return term{"hget " + coqString(*v.s) + " (" + recv.s + ")", kS}
				}
			}
			if mt, ok := methodTable[recv.k]; ok && len(x.Args) == 0 {
				if m, ok := mt[sel.Sel.Name]; ok {
					return term{fmt.Sprintf(m.tmpl, recv.s), m.k}
				}
			}
		}
		if sel, ok := x.Fun.(*ast.SelectorExpr); ok && sel.Sel.Name == "Clone" && len(x.Args) == 1 {
			if v, bound := env.vars[exprString(sel.X)]; bound && v.k == kReq {
				return v // a deep copy: the same value
			}
		}
		if fn == "strings.Join" && len(x.Args) == 2 {
			// strings.Join(h.Values("N"), ","): all field lines of N joined
			if vc, ok := x.Args[0].(*ast.CallExpr); ok {
				if vs, ok := vc.Fun.(*ast.SelectorExpr); ok && vs.Sel.Name == "Values" && len(vc.Args) == 1 {
					h := t.expr(vs.X, env)
					n, ok1 := t.ce.eval(vc.Args[0])
					sep, ok2 := t.ce.eval(x.Args[1])
					if h.k == kHdr && ok1 && ok2 && n.s != nil && sep.s != nil && len(*sep.s) == 1 {
						return term{fmt.Sprintf("join [%d] (hvalues %s (%s))", (*sep.s)[0], coqString(*n.s), h.s), kS}
					}
				}
			}
		}
		if fn == "r.vk.VaryKey" && len(x.Args) == 2 {
			return term{"make_vary_key (" + t.expr(x.Args[0], env).s + ") (" + t.expr(x.Args[1], env).s + ")", kS}
		}
		if sel, ok := x.Fun.(*ast.SelectorExpr); ok && sel.Sel.Name == "DateHeader" && len(x.Args) == 0 {
			if recv := t.expr(sel.X, env); recv.k == kEntry {
				return term{"date_header (p_hdr (response_of (" + recv.s + ")))", kZ}
			}
		}
		if fn == "slices.IndexFunc" && len(x.Args) == 2 {
			// the position of the reference to the entry being revalidated
			if strings.Contains(exprString(x.Args[1]), "ref != nil && ref.ResponseID == stored.ID") {
				return term{"ref_index_of (" + t.expr(&ast.SelectorExpr{X: ast.NewIdent("stored"), Sel: ast.NewIdent("ID")}, env).s + ") (" + t.expr(x.Args[0], env).s + ") 0", kZ}
			}
		}
	case *ast.UnaryExpr:
		if x.Op == token.NOT {
			a := t.expr(x.X, env)
			switch a.s {
			case "true":
				return term{"false", kB}
			case "false":
				return term{"true", kB}
			}
			return term{"negb (" + a.s + ")", kB}
		}
		if x.Op == token.AND {
			return t.expr(x.X, env) // &T{...}: the value
		}
		if x.Op == token.SUB {
			if v, ok := t.ce.eval(e); ok && v.i != nil {
				return term{coqInt(v.i), kZ}
			}
		}
	case *ast.BinaryExpr:
		switch x.Op {
		case token.LAND, token.LOR:
			a := t.expr(x.X, env)
			isAnd := x.Op == token.LAND
			if a.s == "true" {
				if isAnd {
					return t.expr(x.Y, env)
				}
				return a
			}
			if a.s == "false" {
				if isAnd {
					return a
				}
				return t.expr(x.Y, env)
			}
			b := t.expr(x.Y, env)
			if b.s == "true" && !isAnd || b.s == "false" && isAnd {
				// still evaluates a first, but a is pure
				return b
			}
			if b.s == "true" && isAnd || b.s == "false" && !isAnd {
				return a
			}
			op := "||"
			if isAnd {
				op = "&&"
			}
			return term{"(" + a.s + ") " + op + " (" + b.s + ")", kB}
		case token.EQL, token.NEQ, token.LSS, token.LEQ, token.GTR, token.GEQ:
			a, b := t.expr(x.X, env), t.expr(x.Y, env)
			if b.k == kNil && a.k == kRefs && x.Op == token.EQL {
				die("%s: comparison of a list with nil: %s", t.name, key)
			}
			var r string
			if a.k == kS || b.k == kS || a.k == kRaw || b.k == kRaw {
				switch x.Op {
				case token.EQL:
					r = "beq (" + a.s + ") (" + b.s + ")"
				case token.NEQ:
					r = "negb (beq (" + a.s + ") (" + b.s + "))"
				default:
					die("%s: ordering of strings: %s", t.name, key)
				}
				return term{r, kB}
			}
			switch x.Op {
			case token.EQL:
				r = "(" + a.s + ") =? (" + b.s + ")"
			case token.NEQ:
				r = "negb ((" + a.s + ") =? (" + b.s + "))"
			case token.LSS:
				r = "(" + a.s + ") <? (" + b.s + ")"
			case token.LEQ:
				r = "(" + a.s + ") <=? (" + b.s + ")"
			case token.GTR:
				r = "(" + b.s + ") <? (" + a.s + ")"
			case token.GEQ:
				r = "(" + b.s + ") <=? (" + a.s + ")"
			}
			return term{r, kB}
		case token.MUL:
			a, b := t.expr(x.X, env), t.expr(x.Y, env)
			return term{"wrap64 ((" + a.s + ") * (" + b.s + "))", kD}
		case token.QUO:
			a, b := t.expr(x.X, env), t.expr(x.Y, env)
			return term{"Z.quot (" + a.s + ") (" + b.s + ")", kD}
		case token.ADD, token.SUB:
			a, b := t.expr(x.X, env), t.expr(x.Y, env)
			if (a.k == kD || a.k == kZ) && (b.k == kD || b.k == kZ) && (a.k == kD || b.k == kD) {
				op := "+"
				if x.Op == token.SUB {
					op = "-"
				}
				return term{"wrap64 ((" + a.s + ") " + op + " (" + b.s + "))", kD}
			}
		}
	case *ast.CompositeLit:
		if exprString(x.Type) == "Age" {
			f := map[string]string{}
			for _, el := range x.Elts {
				kv := el.(*ast.KeyValueExpr)
				f[exprString(kv.Key)] = t.expr(kv.Value, env).s
			}
			if len(f) != 2 || f["Value"] == "" || f["Timestamp"] == "" {
				die("%s: Age literal without Value / Timestamp", t.name)
			}
			return term{"(" + f["Value"] + ", " + f["Timestamp"] + ")", kAgePair}
		}
		if exprString(x.Type) == "Freshness" {
			f := map[string]term{}
			for _, el := range x.Elts {
				kv := el.(*ast.KeyValueExpr)
				f[exprString(kv.Key)] = t.expr(kv.Value, env)
			}
			for _, n := range []string{"IsStale", "Age", "UsefulLife", "Expired", "ReqMaxAgeExceeded"} {
				if _, ok := f[n]; !ok {
					die("%s: Freshness literal without %s", t.name, n)
				}
			}
			if len(f) != 5 || f["Age"].k != kAgePair {
				die("%s: Freshness literal of an unexpected shape", t.name)
			}
			return term{fmt.Sprintf("{| f_stale := %s; f_age := fst (%s); f_age_ts := snd (%s); f_life := %s; f_expired := %s; f_req_max_age_exceeded := %s |}",
				f["IsStale"].s, f["Age"].s, f["Age"].s, f["UsefulLife"].s, f["Expired"].s, f["ReqMaxAgeExceeded"].s), kFresh}
		}
		if exprString(x.Type) == "Response" || exprString(x.Type) == "ResponseRef" {
			f := map[string]string{}
			for _, el := range x.Elts {
				kv, ok := el.(*ast.KeyValueExpr)
				if !ok {
					die("%s: positional %s literal", t.name, exprString(x.Type))
				}
				f[exprString(kv.Key)] = t.expr(kv.Value, env).s
			}
			if exprString(x.Type) == "Response" {
				if len(f) != 4 || f["Data"] == "" || f["RequestedAt"] == "" || f["ReceivedAt"] == "" || f["ID"] == "" {
					die("%s: Response literal without Data / RequestedAt / ReceivedAt / ID", t.name)
				}
				return term{fmt.Sprintf("entry_of (%s) (%s) (%s) (%s)", f["ID"], f["Data"], f["RequestedAt"], f["ReceivedAt"]), kEntry}
			}
			if len(f) != 4 || f["Vary"] == "" || f["VaryResolved"] == "" || f["ReceivedAt"] == "" || f["ResponseID"] == "" {
				die("%s: ResponseRef literal without Vary / VaryResolved / ReceivedAt / ResponseID", t.name)
			}
			return term{fmt.Sprintf("{| r_id := %s; r_vary := %s; r_resolved := %s; r_recv := %s |}", f["ResponseID"], f["Vary"], f["VaryResolved"], f["ReceivedAt"]), kO}
		}
		if strings.HasSuffix(exprString(x.Type), "RevalidationContext") {
			fields := map[string]string{"URLKey": "[]", "Start": "0", "End": "0", "CCReq": "[]", "Stored": "", "Freshness": "", "Refs": "[]", "RefIndex": "0", "NoStale": "false"}
			for _, el := range x.Elts {
				kv, ok := el.(*ast.KeyValueExpr)
				if !ok {
					die("%s: positional RevalidationContext literal", t.name)
				}
				fields[exprString(kv.Key)] = t.expr(kv.Value, env).s
			}
			if fields["Stored"] == "" || fields["Freshness"] == "" {
				die("%s: RevalidationContext literal without Stored / Freshness", t.name)
			}
			return term{fmt.Sprintf("{| rc_url_key := %s; rc_start := %s; rc_end := %s; rc_cc_req := %s; rc_stored := %s; rc_fresh := %s; rc_refs := %s; rc_ref_index := %s; rc_no_stale := %s |}",
				fields["URLKey"], fields["Start"], fields["End"], fields["CCReq"], fields["Stored"], fields["Freshness"], fields["Refs"], fields["RefIndex"], fields["NoStale"]), kCtx}
		}
	}
	if v, ok := t.ce.eval(e); ok {
		if v.s != nil {
			return term{coqString(*v.s), kS}
		}
		return term{coqInt(v.i), kZ}
	}
	die("%s: expression outside the subset: %s (in: %s)", t.name, key, t.cur)
	return term{}
}

func (t *etr) cond(e ast.Expr, env *eenv) string {
	r := t.expr(e, env)
	if r.k != kB {
		die("%s: a condition that is not boolean: %s", t.name, exprString(e))
	}
	return r.s
}

// leaf: what a return statement denotes
func (t *etr) leaf(results []ast.Expr, env *eenv) string {
	if t.unit {
		return "Ret tt"
	}
	if t.pure {
		if len(results) != 1 {
			die("%s: a pure function returns one value", t.name)
		}
		return t.expr(results[0], env).s
	}
	if len(results) == 1 {
		if c, ok := results[0].(*ast.CallExpr); ok {
			fn := exprString(c.Fun)
			arg := func(i int) string { return "(" + t.expr(c.Args[i], env).s + ")" }
			switch fn {
			case "r.cache.SetRefs":
				// responseCache.SetRefs removes repeated references; StoreResponse's caller goes on with the response it passed
				r, ok := env.vars["resp"]
				if !ok {
					die("%s: SetRefs leaf without a response in scope", t.name)
				}
				return fmt.Sprintf("SetRefs %s (unique_refs %s) (Ret (%s))", arg(0), arg(1), r.s)
			case "make504Response":
				return "Ret (OResp response_504)"
			case "r.handleCacheMiss":
				return fmt.Sprintf("handle_cache_miss %s %s %s %s", arg(0), arg(1), arg(2), arg(3))
			case "r.handleCacheHit":
				return fmt.Sprintf("handle_cache_hit %s %s %s %s %s", arg(0), arg(1), arg(2), arg(3), arg(4))
			case "r.handleUnrecognizedMethod":
				return fmt.Sprintf("handle_unrecognized_method %s %s", arg(0), arg(1))
			case "r.vrh.HandleValidationResponse":
				return fmt.Sprintf("handle_validation_response %s %s (%s)", arg(0), arg(1), t.reply(c.Args[2], c.Args[3], env))
			case "r.serveFromCache":
				if env.now == "" {
					die("%s: serveFromCache before the clock was read", t.name)
				}
				// (noCacheQualified, noCacheFieldsSeq): one optional field list in the model
				return fmt.Sprintf("Ret (serve_from_cache %s %s %s %s)", arg(2), arg(3), env.now, arg(5))
			case "r.handleStaleWhileRevalidate":
				if env.now == "" {
					die("%s: handleStaleWhileRevalidate before the clock was read", t.name)
				}
				return fmt.Sprintf("handle_stale_while_revalidate %s %s %s %s %s %s %s", arg(0), arg(1), arg(2), arg(3), arg(4), env.now, arg(6))
			}
		}
		die("%s: returned call outside the subset: %s", t.name, exprString(results[0]))
	}
	if len(results) == 2 {
		v, er := exprString(results[0]), exprString(results[1])
		if v == "nil" {
			if known, ok := env.facts[er+" != nil"]; ok && known {
				return "Ret OErr"
			}
			die("%s: return nil, %s where the error is not known to be set", t.name, er)
		}
		if er == "nil" {
			return "Ret (OResp (" + t.expr(results[0], env).s + "))"
		}
	}
	die("%s: return outside the subset", t.name)
	return ""
}

// reply: the (resp, err) pair as an origin_reply, from what is known on this path
func (t *etr) reply(resp, err ast.Expr, env *eenv) string {
	if exprString(err) == "nil" {
		return "RResp (" + t.expr(resp, env).s + ")"
	}
	if known, ok := env.facts[exprString(err)+" != nil"]; ok {
		if known {
			return "RErr"
		}
		return "RResp (" + t.expr(resp, env).s + ")"
	}
	die("%s: a (response, error) pair whose error is not known on this path", t.name)
	return ""
}

func setErr(env *eenv, name string, isErr bool) {
	env.facts[name+" != nil"] = isErr
	env.facts[name+" == nil"] = !isErr
}

func names(lhs []ast.Expr) []string {
	var out []string
	for _, l := range lhs {
		out = append(out, exprString(l))
	}
	return out
}

// effect: a call statement (with its results bound to lhs); k translates what follows in the environment it is given
func (t *etr) effect(lhs []string, call *ast.CallExpr, env *eenv, k func(*eenv) string) (string, bool) {
	fn := exprString(call.Fun)
	arg := func(i int) term { return t.expr(call.Args[i], env) }
	switch {
	case strings.HasPrefix(fn, "r.logger.") || strings.HasPrefix(fn, "r.l.") || fn == "close" || fn == "cancel":
		return k(env), true
	case fn == "r.cache.GetRefs" && len(lhs) == 2:
		ans := t.gensym("ans")
		if lhs[1] == "_" {
			e2 := env.clone()
			e2.vars[lhs[0]] = term{"match " + ans + " with Some l => l | None => [] end", kRefs}
			return fmt.Sprintf("get_refs_clean (%s) (fun %s => %s)", arg(0).s, ans, k(e2)), true
		}
		l := t.gensym("refs")
		eErr, eOk := env.clone(), env.clone()
		setErr(eErr, lhs[1], true)
		eErr.vars[lhs[0]] = term{"[]", kNil}
		setErr(eOk, lhs[1], false)
		eOk.vars[lhs[0]] = term{l, kRefs}
		return fmt.Sprintf("get_refs_clean (%s) (fun %s => match %s with None => %s | Some %s => %s end)", arg(0).s, ans, ans, k(eErr), l, k(eOk)), true
	case fn == "r.vm.VaryHeadersMatch" && len(lhs) == 2:
		// sorts the references in place (the Go variable then denotes the ranked list) and dereferences every element
		refs := arg(0)
		sorted, oi, i := t.gensym("sorted"), t.gensym("oi"), t.gensym("i")
		eNo, eYes := env.clone(), env.clone()
		for _, e := range []*eenv{eNo, eYes} {
			e.vars[exprString(call.Args[0])] = term{"map Some " + sorted, kRefs}
		}
		eNo.facts[lhs[1]] = false
		eYes.facts[lhs[1]] = true
		eYes.vars[lhs[0]] = term{i, kZ}
		return fmt.Sprintf("if has_nil_ref (%s) then Crash else match vary_headers_match (strip_refs (%s)) (%s) with None => Unmodelled | Some (%s, %s) => match %s with None => %s | Some %s => %s end end",
			refs.s, refs.s, arg(1).s, sorted, oi, oi, k(eNo), i, k(eYes)), true
	case fn == "r.cache.Get" && len(lhs) == 2:
		e, st := t.gensym("e"), t.gensym("stored")
		eErr, eOk := env.clone(), env.clone()
		setErr(eErr, lhs[1], true)
		setErr(eOk, lhs[1], false)
		eOk.vars[lhs[0]] = term{st, kEntry}
		body := func(id string) string {
			return fmt.Sprintf("GetEntry (%s) (fun %s => match %s with None => %s | Some %s => %s end)", id, e, e, k(eErr), st, k(eOk))
		}
		// refs[i].ResponseID: indexing past the end panics
		if sel, ok := call.Args[0].(*ast.SelectorExpr); ok && sel.Sel.Name == "ResponseID" {
			if ix, ok := sel.X.(*ast.IndexExpr); ok {
				lst, idx := t.expr(ix.X, env), t.expr(ix.Index, env)
				inner := strings.TrimSuffix(strings.TrimPrefix(lst.s, "map Some "), "")
				if !strings.HasPrefix(lst.s, "map Some ") {
					die("%s: indexing a reference list that is not the ranked one: %s", t.name, exprString(ix.X))
				}
				r := t.gensym("ref")
				return fmt.Sprintf("match nth_error %s (Z.to_nat (%s)) with None => Crash | Some %s => %s end", inner, idx.s, r, body("r_id "+r)), true
			}
		}
		return body(arg(0).s), true
	case fn == "r.roundTripTimed" && len(lhs) == 4:
		rep, a, b, r := t.gensym("rep"), t.gensym("start"), t.gensym("stop"), t.gensym("resp")
		eErr, eOk := env.clone(), env.clone()
		for _, e := range []*eenv{eErr, eOk} {
			e.vars[lhs[1]] = term{a, kZ}
			e.vars[lhs[2]] = term{b, kZ}
			e.now = ""
		}
		setErr(eErr, lhs[3], true)
		eErr.vars[lhs[0]] = term{"[]", kNil}
		eErr.facts[lhs[0]+" != nil"] = false
		setErr(eOk, lhs[3], false)
		eOk.vars[lhs[0]] = term{r, kResp}
		eOk.facts[lhs[0]+" != nil"] = true
		return fmt.Sprintf("round_trip_timed (%s) (fun %s %s %s => match %s with RErr => %s | RResp %s => %s end)", arg(0).s, rep, a, b, rep, k(eErr), r, k(eOk)), true
	case fn == "r.upstream.RoundTrip" && len(lhs) == 2:
		rep, r := t.gensym("rep"), t.gensym("resp")
		eErr, eOk := env.clone(), env.clone()
		setErr(eErr, lhs[1], true)
		eErr.vars[lhs[0]] = term{"[]", kNil}
		setErr(eOk, lhs[1], false)
		eOk.vars[lhs[0]] = term{r, kResp}
		eErr.now, eOk.now = "", ""
		return fmt.Sprintf("Origin (%s) (fun %s => match %s with RErr => %s | RResp %s => %s end)", arg(0).s, rep, rep, k(eErr), r, k(eOk)), true
	case (fn == "r.rs.StoreResponse") && len(call.Args) == 7:
		// removes the hop-by-hop fields of, and reads, the response it is given: the variable denotes what is left
		r1 := t.gensym("r")
		e2 := env.clone()
		e2.vars[exprString(call.Args[1])] = term{r1, kResp}
		a := make([]any, 7)
		for i := range a {
			a[i] = arg(i).s
		}
		return fmt.Sprintf("%s <- store_response (%s) (%s) (%s) (%s) (%s) (%s) (%s) ;; ", append([]any{r1}, a...)...) + k(e2), true
	case fn == "r.ci.InvalidateCache" && len(call.Args) == 4:
		return fmt.Sprintf("invalidate_cache (%s) (%s) (%s) (%s) (%s)", arg(0).s, arg(1).s, arg(2).s, arg(3).s, k(env)), true
	case fn == "removeHopByHopHeaders" && len(call.Args) == 1:
		a := arg(0)
		e2 := env.clone()
		e2.vars[exprString(call.Args[0])] = term{fmt.Sprintf("with_hdr (%s) (remove_hop_by_hop (p_hdr (%s)))", a.s, a.s), kResp}
		return k(e2), true
	case fn == "r.cache.Set" && len(call.Args) == 2:
		// responseCache.Set serialises the response first (reading its body to the end): when the body stream fails,
		// nothing reaches the backend and the response is left without its body
		id, ent := arg(0), arg(1)
		data, ok1 := env.vars[exprString(call.Args[1])+".Data"]
		dataVar, ok2 := env.vars[exprString(call.Args[1])+".DataVar"]
		if !ok1 || !ok2 {
			die("%s: cache.Set of something that is not a Response literal bound just before", t.name)
		}
		eBad := env.clone()
		eBad.vars[dataVar.s] = term{fmt.Sprintf("{| p_status := p_status (%s); p_hdr := p_hdr (%s); p_body := -1; p_body_ok := false |}", data.s, data.s), kResp}
		return fmt.Sprintf("if p_body_ok (%s) then SetEntry (%s) (%s) (%s) else %s", data.s, id.s, ent.s, k(env), k(eBad)), true
	case fn == "updateStoredHeaders" && len(call.Args) == 2:
		a, b := arg(0), arg(1)
		e2 := env.clone()
		e2.vars[exprString(call.Args[0])] = term{fmt.Sprintf("with_hdr (%s) (update_stored_headers (p_hdr (%s)) (p_hdr (%s)))", a.s, a.s, b.s), kResp}
		return k(e2), true
	case (fn == "SetAgeHeader" || fn == "internal.SetAgeHeader") && len(call.Args) == 3:
		a := arg(0)
		ageOf := t.expr(call.Args[2], env) // <freshness>.Age: denotes the freshness record
		set := func(e *eenv) string {
			e2 := e.clone()
			e2.vars[exprString(call.Args[0])] = term{fmt.Sprintf("with_hdr (%s) (hset (bs \"Age\") (age_header_value (%s) %s) (p_hdr (%s)))", a.s, ageOf.s, e.now, a.s), kResp}
			return k(e2)
		}
		if env.now == "" {
			e2 := env.clone()
			e2.now = t.gensym("now")
			return fmt.Sprintf("Now (fun %s => %s)", e2.now, set(e2)), true
		}
		return set(env), true
	}
	if sel, ok := call.Fun.(*ast.SelectorExpr); ok && sel.Sel.Name == "ApplyTo" && len(call.Args) == 1 {
		if st, ok := statusNames[strings.TrimPrefix(exprString(sel.X), "internal.")]; ok {
			hs, ok := call.Args[0].(*ast.SelectorExpr)
			if !ok || hs.Sel.Name != "Header" {
				die("%s: ApplyTo on something that is not a Header field: %s", t.name, exprString(call.Args[0]))
			}
			obj := t.expr(hs.X, env)
			e2 := env.clone()
			e2.vars[exprString(hs.X)] = term{fmt.Sprintf("with_hdr (%s) (apply_status %s (p_hdr (%s)))", obj.s, st, obj.s), kResp}
			return k(e2), true
		}
	}
	return "", false
}

// ---------- blocks that only assign: joined with conditional expressions instead of copies of what follows ----------

// assignOnly: the statement only (re)assigns pure values to variables: x = e, x := e, and if / tagless switch made of such
func assignOnly(st ast.Stmt) bool {
	switch s := st.(type) {
	case *ast.AssignStmt:
		if len(s.Lhs) != 1 || len(s.Rhs) != 1 {
			return len(s.Lhs) == 3 && len(s.Rhs) == 1 && strings.HasSuffix(exprString(s.Rhs[0]), ".ExpiresHeader()")
		}
		if exprString(s.Lhs[0]) == "_" {
			return false
		}
		if _, ok := s.Lhs[0].(*ast.Ident); !ok {
			return false
		}
		if c, ok := s.Rhs[0].(*ast.CallExpr); ok {
			fn := exprString(c.Fun)
			if strings.HasPrefix(fn, "r.") && fn != "r.clock.Since" || fn == "append" || fn == "maps.Collect" || fn == "make" || fn == "slices.Grow" {
				return false
			}
		}
		return true
	case *ast.IfStmt:
		if as, ok := s.Init.(*ast.AssignStmt); ok && len(as.Lhs) == 1 {
			return false
		}
		for _, b := range s.Body.List {
			if !assignOnly(b) {
				return false
			}
		}
		switch e := s.Else.(type) {
		case nil:
		case *ast.BlockStmt:
			for _, b := range e.List {
				if !assignOnly(b) {
					return false
				}
			}
		case *ast.IfStmt:
			return assignOnly(e)
		default:
			return false
		}
		return true
	case *ast.SwitchStmt:
		if s.Init != nil || s.Tag != nil {
			return false
		}
		for _, cc := range s.Body.List {
			for _, b := range cc.(*ast.CaseClause).Body {
				if !assignOnly(b) {
					return false
				}
			}
		}
		return true
	}
	return false
}

// merge: the environment after a two-way choice; a variable bound differently on the two sides becomes a conditional
func lookupVF(e *eenv, name string) (term, bool) {
	if v, ok := e.vars[name]; ok {
		return v, true
	}
	if f, ok := e.facts[name]; ok {
		if f {
			return term{"true", kB}, true
		}
		return term{"false", kB}, true
	}
	return term{}, false
}

func (t *etr) merge(wrap func(thn, els string) string, base, thn, els *eenv) *eenv {
	out := base.clone()
	names := map[string]bool{}
	for n := range base.vars {
		names[n] = true
	}
	for n := range base.facts {
		if !strings.ContainsAny(n, " .!=") {
			names[n] = true // a boolean variable known to be constant so far
		}
	}
	for name := range names {
		bv, _ := lookupVF(base, name)
		tv, ok1 := lookupVF(thn, name)
		ev, ok2 := lookupVF(els, name)
		if !ok1 {
			tv = bv
		}
		if !ok2 {
			ev = bv
		}
		if tv.s != ev.s {
			delete(out.facts, name)
			out.vars[name] = term{wrap(tv.s, ev.s), bv.k}
		} else if tv.s != bv.s {
			delete(out.facts, name)
			out.vars[name] = term{tv.s, bv.k}
		}
	}
	return out
}

func (t *etr) execAssign(st ast.Stmt, env *eenv) *eenv {
	switch s := st.(type) {
	case *ast.AssignStmt:
		if len(s.Lhs) == 3 {
			ent := t.expr(s.Rhs[0].(*ast.CallExpr).Fun.(*ast.SelectorExpr).X, env)
			eh := "expires_header (p_hdr (response_of (" + ent.s + ")))"
			lhs := names(s.Lhs)
			e2 := env.clone()
			e2.vars[lhs[0]] = term{"match snd (" + eh + ") with Some ex => ex | None => 0 end", kT}
			e2.vars[lhs[1]] = term{"fst (" + eh + ")", kB}
			e2.vars[lhs[2]] = term{"match snd (" + eh + ") with Some _ => true | None => false end", kB}
			return e2
		}
		e2 := env.clone()
		v := t.expr(s.Rhs[0], env)
		name := exprString(s.Lhs[0])
		if old, ok := env.vars[name]; ok && s.Tok == token.ASSIGN && (old.k == kD || old.k == kZ) {
			v.k = old.k
		}
		delete(e2.facts, name)
		if v.k == kB && (v.s == "true" || v.s == "false") {
			delete(e2.vars, name)
			e2.facts[name] = v.s == "true"
			return e2
		}
		e2.vars[name] = term{"(" + v.s + ")", v.k}
		return e2
	case *ast.IfStmt:
		run := func(list []ast.Stmt, e *eenv) *eenv {
			for _, b := range list {
				e = t.execAssign(b, e)
			}
			return e
		}
		els := func(e *eenv) *eenv {
			switch eb := s.Else.(type) {
			case *ast.BlockStmt:
				return run(eb.List, e)
			case *ast.IfStmt:
				return t.execAssign(eb, e)
			}
			return e
		}
		if s.Init != nil {
			as := s.Init.(*ast.AssignStmt)
			call, ok := as.Rhs[0].(*ast.CallExpr)
			if !ok || len(as.Lhs) != 2 {
				die("%s: if-header outside the subset: %s", t.name, stmtString(s.Init))
			}
			sel, ok := call.Fun.(*ast.SelectorExpr)
			if !ok {
				die("%s: if-header outside the subset: %s", t.name, stmtString(s.Init))
			}
			recv := t.expr(sel.X, env)
			m, ok := optionAccessors[recv.k][sel.Sel.Name]
			if !ok {
				die("%s: if-header call %s is not an option accessor", t.name, exprString(call))
			}
			name, okName := exprString(as.Lhs[0]), exprString(as.Lhs[1])
			e2 := env.clone()
			e2.vars[name] = term{"v_" + name, m.k}
			delete(e2.vars, okName)
			e2.facts[okName] = true
			c := t.cond(s.Cond, e2)
			thn := run(s.Body.List, e2)
			delete(thn.vars, name)
			elsEnv := els(env)
			opt := fmt.Sprintf(m.tmpl, recv.s)
			return t.merge(func(a, b string) string {
				inner := a
				if c != "true" {
					inner = "if " + c + " then " + a + " else " + b
				}
				return "match " + opt + " with Some v_" + name + " => " + inner + " | None => " + b + " end"
			}, env, thn, elsEnv)
		}
		c := t.cond(s.Cond, env)
		switch c {
		case "true":
			return run(s.Body.List, env)
		case "false":
			return els(env)
		}
		thn := run(s.Body.List, env)
		elsEnv := els(env)
		return t.merge(func(a, b string) string { return "if " + c + " then " + a + " else " + b }, env, thn, elsEnv)
	case *ast.SwitchStmt:
		clauses := s.Body.List
		var from func(i int, e *eenv) *eenv
		from = func(i int, e *eenv) *eenv {
			if i >= len(clauses) {
				return e
			}
			cl := clauses[i].(*ast.CaseClause)
			run := e
			for _, b := range cl.Body {
				run = t.execAssign(b, run)
			}
			if cl.List == nil {
				return run
			}
			c := t.cond(cl.List[0], e)
			rest := from(i+1, e)
			return t.merge(func(a, b string) string { return "if " + c + " then " + a + " else " + b }, e, run, rest)
		}
		return from(0, env)
	}
	die("%s: not an assignment block: %s", t.name, stmtString(st))
	return nil
}

// block translates a statement list to a program term; rest translates what follows the list (nil: nothing may)
func (t *etr) block(stmts []ast.Stmt, env *eenv, rest func(*eenv) string) string {
	if len(stmts) == 0 {
		if rest == nil {
			if t.unit {
				return "Ret tt"
			}
			die("%s: control reaches the end of the function", t.name)
		}
		return rest(env)
	}
	tail := func(e *eenv) string { return t.block(stmts[1:], e, rest) }
	t.cur = stmtString(stmts[0])
	switch st := stmts[0].(type) {
	case *ast.IfStmt, *ast.SwitchStmt:
		special := false
		if is, ok := st.(*ast.IfStmt); ok && is.Else == nil && is.Init == nil && len(is.Body.List) == 1 {
			_, special = is.Body.List[0].(*ast.RangeStmt)
		}
		if !special && assignOnly(st) {
			after := t.execAssign(st, env)
			// name what changed, so that later uses do not copy the conditional
			out := ""
			e2 := env.clone()
			var changed []string
			for name, v := range after.vars {
				if old, ok := lookupVF(env, name); !ok || old.s != v.s {
					changed = append(changed, name)
				}
			}
			sort.Strings(changed)
			for _, name := range changed {
				v := after.vars[name]
				if _, existed := lookupVF(env, name); !existed {
					e2.vars[name] = v // declared inside: visible only through what it was merged into
					continue
				}
				delete(e2.facts, name)
				cn := t.gensym("v_" + name + "_")
				out += "let " + cn + " := " + v.s + " in "
				e2.vars[name] = term{cn, v.k}
			}
			for k, v := range after.facts {
				if _, isVar := e2.vars[k]; !isVar {
					e2.facts[k] = v
				}
			}
			return out + tail(e2)
		}
	}
	switch s := stmts[0].(type) {
	case *ast.ReturnStmt:
		return t.leaf(s.Results, env)
	case *ast.BranchStmt:
		if s.Tok == token.GOTO {
			body, ok := t.labels[s.Label.Name]
			if !ok {
				die("%s: goto %s: no such label", t.name, s.Label.Name)
			}
			return t.block(body, env, nil)
		}
	case *ast.LabeledStmt:
		return t.block(append([]ast.Stmt{s.Stmt}, stmts[1:]...), env, rest)
	case *ast.DeclStmt:
		// var ( x T; ... ): zero values; only booleans are read before being assigned
		gd := s.Decl.(*ast.GenDecl)
		e2 := env.clone()
		for _, sp := range gd.Specs {
			vs := sp.(*ast.ValueSpec)
			for _, n := range vs.Names {
				if exprString(vs.Type) == "bool" {
					e2.facts[n.Name] = false
				}
			}
		}
		return tail(e2)
	case *ast.GoStmt:
		if exprString(s.Call.Fun) == "r.backgroundRevalidate" && len(s.Call.Args) == 5 {
			a := make([]any, 5)
			for i := range a {
				a[i] = t.expr(s.Call.Args[i], env).s
			}
			return fmt.Sprintf("Spawn (background_revalidate (%s) (%s) (%s) (%s) (%s)) (", a...) + tail(env) + ")"
		}
	case *ast.DeferStmt:
		return tail(env)
	case *ast.SendStmt:
		// errc <- x: the result of background work, which nothing reads
		return tail(env)
	case *ast.SelectStmt:
		// select { case <-req.Context().Done(): ...; default: }: the cancellation of a background request is part of the
		// origin model (Run.do_origin cuts the call at the timeout); here the default branch
		for _, cl := range s.Body.List {
			cc := cl.(*ast.CommClause)
			if cc.Comm == nil && len(cc.Body) == 0 {
				return tail(env)
			}
		}
		die("%s: select without an empty default", t.name)
	case *ast.ExprStmt:
		if c, ok := s.X.(*ast.CallExpr); ok {
			if out, ok := t.effect(nil, c, env, tail); ok {
				return out
			}
		}
	case *ast.AssignStmt:
		if len(s.Rhs) == 1 {
			if c, ok := s.Rhs[0].(*ast.CallExpr); ok {
				fn := exprString(c.Fun)
				lhs := names(s.Lhs)
				if fn == "r.rs.StoreResponse" && len(c.Args) == 7 {
					r1 := t.gensym("r")
					e2 := env.clone()
					e2.vars[exprString(c.Args[1])] = term{r1, kResp}
					a := make([]any, 8)
					a[0] = r1
					for i := 0; i < 7; i++ {
						a[i+1] = t.expr(c.Args[i], env).s
					}
					return fmt.Sprintf("%s <- store_response (%s) (%s) (%s) (%s) (%s) (%s) (%s) ;; ", a...) + tail(e2)
				}
				if fn == "r.vrh.HandleValidationResponse" && t.unit {
					// background: the outcome is dropped
					return fmt.Sprintf("_ <- handle_validation_response (%s) (%s) (%s) ;; ", t.expr(c.Args[0], env).s, t.expr(c.Args[1], env).s, t.reply(c.Args[2], c.Args[3], env)) + tail(env)
				}
				if fn == "r.fc.CalculateFreshness" && len(lhs) == 1 && len(c.Args) == 3 {
					e2 := env.clone()
					e2.now = t.gensym("now")
					e2.vars[lhs[0]] = term{fmt.Sprintf("calculate_freshness (%s) (%s) (%s) %s", t.expr(c.Args[0], env).s, t.expr(c.Args[1], env).s, t.expr(c.Args[2], env).s, e2.now), kFresh}
					return fmt.Sprintf("Now (fun %s => %s)", e2.now, tail(e2))
				}
				if out, ok := t.effect(lhs, c, env, tail); ok {
					return out
				}
			}
			if len(s.Lhs) == 1 {
				if c, ok := s.Rhs[0].(*ast.CallExpr); ok && exprString(c.Fun) == "maps.Collect" && len(c.Args) == 1 {
					if ic, ok := c.Args[0].(*ast.CallExpr); ok && exprString(ic.Fun) == "r.vhn.NormalizeVaryHeader" && len(ic.Args) == 2 {
						// the nominated request fields, normalised; header names outside the modelled classes leave the model
						m := t.gensym("resolved")
						e2 := env.clone()
						e2.vars[exprString(s.Lhs[0])] = term{m, kO}
						return fmt.Sprintf("match normalize_vary (%s) (%s) with None => Unmodelled | Some %s => %s end", t.expr(ic.Args[0], env).s, t.expr(ic.Args[1], env).s, m, tail(e2))
					}
				}
				if c, ok := s.Rhs[0].(*ast.CallExpr); ok && exprString(c.Fun) == "append" && len(c.Args) == 2 && exprString(c.Args[0]) == exprString(s.Lhs[0]) {
					l := t.expr(c.Args[0], env)
					e2 := env.clone()
					e2.vars[exprString(s.Lhs[0])] = term{"(" + l.s + ") ++ [Some (" + t.expr(c.Args[1], env).s + ")]", kRefs}
					return tail(e2)
				}
				if ix, ok := s.Lhs[0].(*ast.IndexExpr); ok && s.Tok == token.ASSIGN {
					l := t.expr(ix.X, env)
					e2 := env.clone()
					e2.vars[exprString(ix.X)] = term{fmt.Sprintf("replace_nth (Z.to_nat (%s)) (Some (%s)) (%s)", t.expr(ix.Index, env).s, t.expr(s.Rhs[0], env).s, l.s), kRefs}
					return tail(e2)
				}
				if u, ok := s.Rhs[0].(*ast.UnaryExpr); ok && u.Op == token.AND {
					if cl, ok := u.X.(*ast.CompositeLit); ok && exprString(cl.Type) == "Response" {
						e2 := env.clone()
						e2.vars[exprString(s.Lhs[0])] = t.expr(s.Rhs[0], env)
						for _, el := range cl.Elts {
							if kv, ok := el.(*ast.KeyValueExpr); ok && exprString(kv.Key) == "Data" {
								e2.vars[exprString(s.Lhs[0])+".Data"] = t.expr(kv.Value, env)
								e2.vars[exprString(s.Lhs[0])+".DataVar"] = term{exprString(kv.Value), kO}
							}
						}
						return tail(e2)
					}
				}
				// x := e  /  x = e : (re)binding of a pure value
				name := exprString(s.Lhs[0])
				v := t.expr(s.Rhs[0], env)
				e2 := env.clone()
				delete(e2.facts, name)
				if v.k == kB && (v.s == "true" || v.s == "false") {
					e2.facts[name] = v.s == "true"
					delete(e2.vars, name)
					return tail(e2)
				}
				if v.k == kB || v.k == kZ || v.k == kD {
					cn := "v_" + name
					e2.vars[name] = term{cn, v.k}
					return "let " + cn + " := " + v.s + " in " + tail(e2)
				}
				e2.vars[name] = v
				return tail(e2)
			}
		}
		if len(s.Lhs) == 3 && len(s.Rhs) == 1 && strings.HasSuffix(exprString(s.Rhs[0]), ".ExpiresHeader()") {
			// (time, found, valid): the model's expires_header gives (found, Some time when valid)
			ent := t.expr(s.Rhs[0].(*ast.CallExpr).Fun.(*ast.SelectorExpr).X, env)
			eh := "expires_header (p_hdr (response_of (" + ent.s + ")))"
			lhs := names(s.Lhs)
			e2 := env.clone()
			e2.vars[lhs[0]] = term{"match snd (" + eh + ") with Some ex => ex | None => 0 end", kT}
			e2.vars[lhs[1]] = term{"fst (" + eh + ")", kB}
			e2.vars[lhs[2]] = term{"match snd (" + eh + ") with Some _ => true | None => false end", kB}
			return tail(e2)
		}
		if len(s.Lhs) == 2 && len(s.Rhs) == 1 {
			rhs0 := exprString(s.Rhs[0])
			lhs0 := names(s.Lhs)
			if c, ok := s.Rhs[0].(*ast.CallExpr); ok && exprString(c.Fun) == "strconv.Atoi" && lhs0[1] == "_" && len(c.Args) == 1 {
				// the error is dropped: on overflow the saturated value is used, on a syntax error 0
				e2 := env.clone()
				cn := t.gensym("v_" + lhs0[0] + "_")
				e2.vars[lhs0[0]] = term{cn, kZ}
				return "let " + cn + " := atoi_drop_err (" + t.expr(c.Args[0], env).s + ") in " + tail(e2)
			}
			if strings.HasPrefix(rhs0, "RawTime(") && strings.HasSuffix(rhs0, ").Value()") {
				// (time, ok): the model's raw_time is an option
				inner := s.Rhs[0].(*ast.CallExpr).Fun.(*ast.SelectorExpr).X.(*ast.CallExpr).Args[0]
				eOk, eNo := env.clone(), env.clone()
				eOk.vars[lhs0[0]] = term{"v_" + lhs0[0], kT}
				delete(eOk.vars, lhs0[1])
				delete(eNo.vars, lhs0[1])
				eOk.facts[lhs0[1]] = true
				eNo.facts[lhs0[1]] = false
				return "match raw_time (" + t.expr(inner, env).s + ") with Some v_" + lhs0[0] + " => " + tail(eOk) + " | None => " + tail(eNo) + " end"
			}
			// respNoCacheFieldsRaw, hasRespNoCache := ccResp.NoCache(); ..., isRespNoCacheQualified := raw.Value()
			rhs := exprString(s.Rhs[0])
			lhs := names(s.Lhs)
			if strings.HasSuffix(rhs, ".NoCache()") {
				cc := t.expr(s.Rhs[0].(*ast.CallExpr).Fun.(*ast.SelectorExpr).X, env)
				e2 := env.clone()
				e2.vars[lhs[0]] = term{"resp_no_cache (" + cc.s + ")", kO}
				e2.vars[lhs[1]] = term{"match resp_no_cache (" + cc.s + ") with Some _ => true | None => false end", kB}
				return tail(e2)
			}
			if strings.HasSuffix(rhs, ".Value()") {
				raw := t.expr(s.Rhs[0].(*ast.CallExpr).Fun.(*ast.SelectorExpr).X, env)
				e2 := env.clone()
				e2.vars[lhs[0]] = term{"match " + raw.s + " with Some raw => no_cache_fields raw | None => None end", kO}
				e2.vars[lhs[1]] = term{"match (match " + raw.s + " with Some raw => no_cache_fields raw | None => None end) with Some _ => true | None => false end", kB}
				return tail(e2)
			}
		}
	case *ast.IfStmt:
		if s.Else == nil && s.Init == nil && len(s.Body.List) == 1 {
			if rs, ok := s.Body.List[0].(*ast.RangeStmt); ok && rs.Value == nil && len(rs.Body.List) == 1 {
				// if q { for field := range seq { X.Header.Del(field) } }: the fields named by a qualified no-cache are removed
				if es, ok := rs.Body.List[0].(*ast.ExprStmt); ok {
					if dc, ok := es.X.(*ast.CallExpr); ok && len(dc.Args) == 1 && exprString(dc.Args[0]) == exprString(rs.Key) {
						if ds, ok := dc.Fun.(*ast.SelectorExpr); ok && ds.Sel.Name == "Del" {
							if hs, ok := ds.X.(*ast.SelectorExpr); ok && hs.Sel.Name == "Header" {
								obj := t.expr(hs.X, env)
								seq := t.expr(rs.X, env)
								c := t.cond(s.Cond, env)
								e2 := env.clone()
								e2.vars[exprString(hs.X)] = term{fmt.Sprintf("with_hdr (%s) (if %s then fold_left (fun acc fld => hdel fld acc) (match %s with Some l => l | None => [] end) (p_hdr (%s)) else p_hdr (%s))", obj.s, c, seq.s, obj.s, obj.s), kResp}
								return tail(e2)
							}
						}
					}
				}
			}
		}
		// what runs when the condition does not hold: the else part (a block or another if), then what follows
		elsePart := func(e *eenv) string {
			switch eb := s.Else.(type) {
			case nil:
				return tail(e)
			case *ast.BlockStmt:
				return t.block(eb.List, e, tail)
			case *ast.IfStmt:
				return t.block([]ast.Stmt{eb}, e, tail)
			}
			die("%s: else part outside the subset", t.name)
			return ""
		}
		if s.Init != nil {
			if as, ok := s.Init.(*ast.AssignStmt); ok && len(as.Lhs) == 1 && len(as.Rhs) == 1 && as.Tok == token.DEFINE {
				// if x := e; c { ... }: a binding visible in the statement only
				name := exprString(as.Lhs[0])
				v := t.expr(as.Rhs[0], env)
				e2 := env.clone()
				e2.vars[name] = v
				inner := &ast.IfStmt{Cond: s.Cond, Body: s.Body, Else: s.Else}
				return t.block(append([]ast.Stmt{inner}, stmts[1:]...), e2, rest)
			}
			// if v, ok := x.M(); ok [&& c] { ... }: M returns (value, ok) — an option in the model
			as, ok := s.Init.(*ast.AssignStmt)
			if ok && len(as.Lhs) == 2 && len(as.Rhs) == 1 {
				if call, ok := as.Rhs[0].(*ast.CallExpr); ok && len(call.Args) == 0 {
					if sel, ok := call.Fun.(*ast.SelectorExpr); ok {
						recv := t.expr(sel.X, env)
						if m, ok := optionAccessors[recv.k][sel.Sel.Name]; ok {
							name, okName := exprString(as.Lhs[0]), exprString(as.Lhs[1])
							e2 := env.clone()
							e2.vars[name] = term{"v_" + name, m.k}
							delete(e2.vars, okName) // a new variable of this name: an outer one is shadowed
							e2.facts[okName] = true
							c := t.cond(s.Cond, e2)
							eNo := env.clone()
							delete(eNo.vars, okName)
							eNo.facts[okName] = false
							if t.cond(s.Cond, eNo) != "false" {
								die("%s: the condition of an if-header does not require its ok: %s", t.name, exprString(s.Cond))
							}
							inner := ""
							switch c {
							case "true":
								inner = t.block(s.Body.List, e2, tail)
							case "false":
								inner = elsePart(env)
							default:
								inner = "if " + c + " then " + t.block(s.Body.List, e2, tail) + " else " + elsePart(env)
							}
							return "match " + fmt.Sprintf(m.tmpl, recv.s) + " with Some v_" + name + " => " + inner + " | None => " + elsePart(env) + " end"
						}
					}
				}
			}
			die("%s: if-header outside the subset: %s", t.name, stmtString(s.Init))
		}
		if s.Else != nil {
			c := t.cond(s.Cond, env)
			switch c {
			case "true":
				return t.block(s.Body.List, env, tail)
			case "false":
				return elsePart(env)
			}
			return "if " + c + " then " + t.block(s.Body.List, env, tail) + " else " + elsePart(env)
		}
		// r.siep.CanStaleOnError(...) reads the clock
		if c, ok := s.Cond.(*ast.CallExpr); ok && exprString(c.Fun) == "r.siep.CanStaleOnError" && len(c.Args) == 3 {
			e2 := env.clone()
			wrap := func(body string) string { return body }
			if e2.now == "" {
				e2.now = t.gensym("now")
				now := e2.now
				wrap = func(body string) string { return "Now (fun " + now + " => " + body + ")" }
			}
			f, scc, rcc := t.expr(c.Args[0], env), t.expr(c.Args[1], env), t.expr(c.Args[2], env)
			// what follows the if runs after this clock reading too, but reads the clock itself if it needs it
			elseEnv := env.clone()
			return wrap(fmt.Sprintf("if can_stale_on_error (%s) [resp_stale_if_error (%s); req_stale_if_error (%s)] %s then %s else %s",
				f.s, scc.s, rcc.s, e2.now, t.block(s.Body.List, e2, tail), tail(elseEnv)))
		}
		c := t.cond(s.Cond, env)
		switch c {
		case "true":
			return t.block(s.Body.List, env, tail)
		case "false":
			return tail(env)
		}
		return "if " + c + " then " + t.block(s.Body.List, env, tail) + " else " + tail(env)
	case *ast.SwitchStmt:
		if s.Init == nil && s.Tag == nil {
			// a switch that only makes room in a slice (x = make(...), x = slices.Grow(x, n)) changes no contents
			room := true
			for _, cc := range s.Body.List {
				for _, b := range cc.(*ast.CaseClause).Body {
					as, ok := b.(*ast.AssignStmt)
					if !ok || as.Tok != token.ASSIGN || len(as.Lhs) != 1 || len(as.Rhs) != 1 {
						room = false
						continue
					}
					rc, ok := as.Rhs[0].(*ast.CallExpr)
					if !ok {
						room = false
						continue
					}
					fn := exprString(rc.Fun)
					lhs := exprString(as.Lhs[0])
					switch {
					case fn == "make" && len(rc.Args) == 3 && exprString(rc.Args[1]) == "0":
						// only for a nil slice: guarded by `x == nil`
						if len(cc.(*ast.CaseClause).List) != 1 || exprString(cc.(*ast.CaseClause).List[0]) != lhs+" == nil" {
							room = false
						}
					case fn == "slices.Grow" && len(rc.Args) == 2 && exprString(rc.Args[0]) == lhs:
					default:
						room = false
					}
				}
			}
			if room {
				return tail(env)
			}
			// switch { case c1: A; case c2: B; fallthrough; default: C }
			clauses := s.Body.List
			var from func(i int, e *eenv, matched bool) string
			from = func(i int, e *eenv, matched bool) string {
				if i >= len(clauses) {
					return tail(e)
				}
				cl := clauses[i].(*ast.CaseClause)
				body := cl.Body
				ft := false
				if n := len(body); n > 0 {
					if b, ok := body[n-1].(*ast.BranchStmt); ok && b.Tok == token.FALLTHROUGH {
						ft = true
						body = body[:n-1]
					}
				}
				run := func(e2 *eenv) string {
					if ft {
						return t.block(body, e2, func(e3 *eenv) string { return from(i+1, e3, true) })
					}
					return t.block(body, e2, tail)
				}
				if matched || cl.List == nil {
					return run(e)
				}
				if len(cl.List) != 1 {
					die("%s: case with several conditions", t.name)
				}
				c := t.cond(cl.List[0], e)
				return "if " + c + " then " + run(e) + " else " + from(i+1, e, false)
			}
			return from(0, env, false)
		}
	}
	die("%s: statement outside the subset: %s", t.name, stmtString(stmts[0]))
	return ""
}

type effSpec struct {
	file, fn string
	coq      string
	params   string
	ret      string
	unit     bool
	env      func() *eenv
	inner    bool // translate the body of the function literal started with `go` inside fn
	pure     bool // a function without effects: the translation is the value it returns
	respLeaf bool // the function returns only an error; its caller goes on with the response it passed
	pair     bool // the parameters (resp, err) are given as one origin_reply `rep`: the body is translated once per case
}

func translateEffects(sp effSpec, byName map[string]*ast.File, ce *cenv, out *strings.Builder) {
	fd := findFunc(byName, sp.file, sp.fn)
	body := fd.Body.List
	if sp.inner {
		body = nil
		for _, s := range fd.Body.List {
			if g, ok := s.(*ast.GoStmt); ok {
				if fl, ok := g.Call.Fun.(*ast.FuncLit); ok {
					body = fl.Body.List
				}
			}
		}
		if body == nil {
			die("%s: no goroutine literal", sp.fn)
		}
		// what surrounds the literal must be: a context with the timeout, the request re-bound to it, the result channel,
		// the goroutine, and the wait for the context or the result
		want := []string{"ctx, cancel := context.WithTimeout(req.Context(), r.swrTimeout)", "defer cancel()", "req = req.WithContext(ctx)", "errc := make(chan error, 1)"}
		for i, w := range want {
			if i >= len(fd.Body.List) || stmtString(fd.Body.List[i]) != w {
				die("%s: statement %d is not %q", sp.fn, i, w)
			}
		}
	}
	t := &etr{name: sp.fn, ce: ce, unit: sp.unit, pure: sp.pure, labels: map[string][]ast.Stmt{}}
	collectLabels(body, t.labels)
	var term string
	if sp.pair {
		eErr, eOk := sp.env(), sp.env()
		setErr(eErr, "err", true)
		eErr.vars["resp"] = struct {
			s string
			k kind
		}{"[]", kNil}
		eErr.facts["resp != nil"] = false
		setErr(eOk, "err", false)
		eOk.vars["resp"] = struct {
			s string
			k kind
		}{"resp0", kResp}
		eOk.facts["resp != nil"] = true
		term = "match rep with RErr => " + t.block(body, eErr, nil) + " | RResp resp0 => " + t.block(body, eOk, nil) + " end"
	} else {
		term = t.block(body, sp.env(), nil)
	}
	fmt.Fprintf(out, "(* %s: func %s *)\nDefinition %s %s : %s :=\n  %s.\n\n", sp.file, sp.fn, sp.coq, sp.params, sp.ret, term)
}
