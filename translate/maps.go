// maps.go — the three header-set helpers of internal/helpers.go (hopByHopHeaders, removeHopByHopHeaders,
// updateStoredHeaders) to Gallina.  They are loops over Go maps used as sets; the statements understood:
//
//	m := map[string]struct{}{ "A": {}, ... }          a set, as the list of its literal keys (source order)
//	S := f(H)                                         f one of the functions translated here
//	S[e] = struct{}{}                                 S ++ [e]
//	for _, x := range H.Values(c) { BODY }            flat_map over hvalues c H      (BODY only adds to one set)
//	for x := range TrimmedCSVCanonicalSeq(e) { S[x] = struct{}{} }     S ++ trimmed_csv_canonical e
//	for x := range f(H) { delete(H2, x) }             fold_left (aremove) over the set: H2 without those keys
//	for k, v := range H { if _, ok := S[k]; ok { continue }; H2[k] = v }
//	                                                  fold_left over the bindings of H: aset k v unless k is in S
//	return S
//
// A Go map is iterated in no particular order; the model's headers are association lists and the folds above go
// through them front to back.  For the two folds here the order does not matter (deletions commute; H has one
// binding per key, so the assignments commute too) — that is the one thing about these functions the translation
// takes on trust.
package main

import (
	"fmt"
	"go/ast"
	"go/token"
	"strings"
)

type mtr struct {
	ce    *cenv
	fns   map[string]string // Go function -> Gallina function (header set functions translated so far)
	fresh int
}

func (t *mtr) sym(p string) string {
	t.fresh++
	return fmt.Sprintf("%s%d", p, t.fresh)
}

type menv struct {
	hdrs map[string]string // Go expression of a header map -> Gallina term
	sets map[string]string // Go identifier of a set -> Gallina term (a list of names)
	strs map[string]string // Go identifier of a string -> Gallina term
}

func (e *menv) clone() *menv {
	n := &menv{hdrs: map[string]string{}, sets: map[string]string{}, strs: map[string]string{}}
	for k, v := range e.hdrs {
		n.hdrs[k] = v
	}
	for k, v := range e.sets {
		n.sets[k] = v
	}
	for k, v := range e.strs {
		n.strs[k] = v
	}
	return n
}

func (t *mtr) str(e ast.Expr, env *menv) string {
	if id, ok := e.(*ast.Ident); ok {
		if v, ok := env.strs[id.Name]; ok {
			return v
		}
	}
	if v, ok := t.ce.eval(e); ok && v.s != nil {
		return coqString(*v.s)
	}
	die("helpers (sets): unsupported string expression %s", exprString(e))
	return ""
}

func isEmptyStruct(e ast.Expr) bool { return exprString(e) == "struct{}{}" }

// adds translates a loop body that only adds to the set `set`: the list of names it adds
func (t *mtr) adds(body []ast.Stmt, set string, env *menv) string {
	var parts []string
	for _, st := range body {
		switch s := st.(type) {
		case *ast.AssignStmt:
			// S[e] = struct{}{}
			if len(s.Lhs) == 1 && len(s.Rhs) == 1 && s.Tok == token.ASSIGN && isEmptyStruct(s.Rhs[0]) {
				if ix, ok := s.Lhs[0].(*ast.IndexExpr); ok && exprString(ix.X) == set {
					parts = append(parts, "["+t.str(ix.Index, env)+"]")
					continue
				}
			}
		case *ast.RangeStmt:
			if call, ok := s.X.(*ast.CallExpr); ok && s.Key != nil && s.Value == nil && exprString(call.Fun) == "TrimmedCSVCanonicalSeq" && len(call.Args) == 1 {
				v := t.sym("x")
				env2 := env.clone()
				env2.strs[exprString(s.Key)] = v
				inner := t.adds(s.Body.List, set, env2)
				parts = append(parts, fmt.Sprintf("flat_map (fun %s => %s) (trimmed_csv_canonical %s)", v, inner, t.str(call.Args[0], env)))
				continue
			}
		}
		die("helpers (sets): unsupported statement in a loop that builds a set: %s", stmtString(st))
	}
	if len(parts) == 0 {
		return "[]"
	}
	return strings.Join(parts, " ++ ")
}

// fn translates one function; kind: "set" (returns a set), "hdr" (the result is the final value of the header `result`)
func (t *mtr) fn(fd *ast.FuncDecl, env *menv, kind, result string) string {
	var lets []string
	bind := func(name, term string) string {
		v := t.sym("s")
		lets = append(lets, fmt.Sprintf("let %s := %s in", v, term))
		return v
	}
	for _, st := range fd.Body.List {
		switch s := st.(type) {
		case *ast.AssignStmt:
			if len(s.Lhs) == 1 && len(s.Rhs) == 1 {
				lhs := exprString(s.Lhs[0])
				// m := map[string]struct{}{...}
				if cl, ok := s.Rhs[0].(*ast.CompositeLit); ok && s.Tok == token.DEFINE {
					if _, isMap := cl.Type.(*ast.MapType); isMap {
						var items []string
						for _, k := range stringKeys(cl, t.ce) {
							items = append(items, coqString(k))
						}
						env.sets[lhs] = bind(lhs, "["+strings.Join(items, "; ")+"]")
						continue
					}
				}
				// S := f(H)
				if call, ok := s.Rhs[0].(*ast.CallExpr); ok && s.Tok == token.DEFINE && len(call.Args) == 1 {
					if g, ok := t.fns[exprString(call.Fun)]; ok {
						if h, ok := env.hdrs[exprString(call.Args[0])]; ok {
							env.sets[lhs] = bind(lhs, g+" "+h)
							continue
						}
					}
				}
				// S[e] = struct{}{}
				if ix, ok := s.Lhs[0].(*ast.IndexExpr); ok && s.Tok == token.ASSIGN && isEmptyStruct(s.Rhs[0]) {
					if cur, ok := env.sets[exprString(ix.X)]; ok {
						env.sets[exprString(ix.X)] = bind(exprString(ix.X), cur+" ++ ["+t.str(ix.Index, env)+"]")
						continue
					}
				}
			}
		case *ast.RangeStmt:
			// for _, x := range H.Values(c) { adds to S }
			if call, ok := s.X.(*ast.CallExpr); ok && s.Value != nil && exprString(s.Key) == "_" {
				if sel, ok := call.Fun.(*ast.SelectorExpr); ok && sel.Sel.Name == "Values" && len(call.Args) == 1 {
					if h, ok := env.hdrs[exprString(sel.X)]; ok {
						// which set does the body add to?
						var set string
						for name := range env.sets {
							if strings.Contains(stmtString(s.Body.List[0]), name+"[") {
								set = name
							}
						}
						if set == "" {
							die("helpers (sets): the loop over %s adds to no known set", exprString(s.X))
						}
						v := t.sym("x")
						env2 := env.clone()
						env2.strs[exprString(s.Value)] = v
						inner := t.adds(s.Body.List, set, env2)
						env.sets[set] = bind(set, fmt.Sprintf("%s ++ flat_map (fun %s => %s) (hvalues %s %s)", env.sets[set], v, inner, t.str(call.Args[0], env), h))
						continue
					}
				}
			}
			// for x := range f(H) { delete(H2, x) }
			if call, ok := s.X.(*ast.CallExpr); ok && s.Key != nil && s.Value == nil && len(call.Args) == 1 && len(s.Body.List) == 1 {
				if g, ok := t.fns[exprString(call.Fun)]; ok {
					if h, ok := env.hdrs[exprString(call.Args[0])]; ok {
						if es, ok := s.Body.List[0].(*ast.ExprStmt); ok {
							if del, ok := es.X.(*ast.CallExpr); ok && exprString(del.Fun) == "delete" && len(del.Args) == 2 && exprString(del.Args[1]) == exprString(s.Key) {
								if h2, ok := env.hdrs[exprString(del.Args[0])]; ok {
									env.hdrs[exprString(del.Args[0])] = bind("h", fmt.Sprintf("fold_left (fun acc n => aremove n acc) (%s %s) %s", g, h, h2))
									continue
								}
							}
						}
					}
				}
			}
			// for k, v := range H { if _, ok := S[k]; ok { continue }; H2[k] = v }
			if s.Key != nil && s.Value != nil && len(s.Body.List) == 2 {
				if h, ok := env.hdrs[exprString(s.X)]; ok {
					k, v := exprString(s.Key), exprString(s.Value)
					ifs, ok1 := s.Body.List[0].(*ast.IfStmt)
					as, ok2 := s.Body.List[1].(*ast.AssignStmt)
					if ok1 && ok2 && ifs.Init != nil && ifs.Else == nil && isContinue(ifs.Body) && len(as.Lhs) == 1 && len(as.Rhs) == 1 && exprString(as.Rhs[0]) == v {
						init, ok3 := ifs.Init.(*ast.AssignStmt)
						ix2, ok4 := as.Lhs[0].(*ast.IndexExpr)
						if ok3 && ok4 && len(init.Rhs) == 1 && len(init.Lhs) == 2 && exprString(init.Lhs[0]) == "_" && exprString(ifs.Cond) == exprString(init.Lhs[1]) && exprString(ix2.Index) == k {
							if ix, ok := init.Rhs[0].(*ast.IndexExpr); ok && exprString(ix.Index) == k {
								set, okS := env.sets[exprString(ix.X)]
								h2, okH := env.hdrs[exprString(ix2.X)]
								if okS && okH {
									env.hdrs[exprString(ix2.X)] = bind("h", fmt.Sprintf("fold_left (fun acc kv => if in_names (fst kv) %s then acc else aset (fst kv) (snd kv) acc) %s %s", set, h, h2))
									continue
								}
							}
						}
					}
				}
			}
		case *ast.ReturnStmt:
			if kind == "set" && len(s.Results) == 1 {
				if cur, ok := env.sets[exprString(s.Results[0])]; ok {
					return strings.Join(lets, "\n  ") + "\n  " + cur
				}
			}
		}
		die("helpers (sets): %s: unsupported statement: %s", fd.Name.Name, stmtString(st))
	}
	if kind == "hdr" {
		return strings.Join(lets, "\n  ") + "\n  " + env.hdrs[result]
	}
	die("helpers (sets): %s: no result", fd.Name.Name)
	return ""
}

func translateHeaderSets(byName map[string]*ast.File, ce *cenv, out *strings.Builder) {
	t := &mtr{ce: ce, fns: map[string]string{}}
	param := func(fd *ast.FuncDecl, i int) string {
		n := 0
		for _, f := range fd.Type.Params.List {
			for _, nm := range f.Names {
				if n == i {
					return nm.Name
				}
				n++
			}
		}
		die("%s: parameter %d missing", fd.Name.Name, i)
		return ""
	}
	hbh := findFunc(byName, "helpers.go", "hopByHopHeaders")
	body := t.fn(hbh, &menv{hdrs: map[string]string{param(hbh, 0): "h"}, sets: map[string]string{}, strs: map[string]string{}}, "set", "")
	fmt.Fprintf(out, "(* internal/helpers.go: func hopByHopHeaders *)\nDefinition src_hop_by_hop_headers (h : headers) : list bytes :=\n  %s.\n\n", body)
	t.fns["hopByHopHeaders"] = "src_hop_by_hop_headers"

	rm := findFunc(byName, "helpers.go", "removeHopByHopHeaders")
	p := param(rm, 0) + ".Header"
	body = t.fn(rm, &menv{hdrs: map[string]string{p: "h"}, sets: map[string]string{}, strs: map[string]string{}}, "hdr", p)
	fmt.Fprintf(out, "(* internal/helpers.go: func removeHopByHopHeaders (the header block of the response afterwards) *)\nDefinition src_remove_hop_by_hop (h : headers) : headers :=\n  %s.\n\n", body)

	up := findFunc(byName, "helpers.go", "updateStoredHeaders")
	ps, pf := param(up, 0)+".Header", param(up, 1)+".Header"
	body = t.fn(up, &menv{hdrs: map[string]string{ps: "stored", pf: "fresh"}, sets: map[string]string{}, strs: map[string]string{}}, "hdr", ps)
	fmt.Fprintf(out, "(* internal/helpers.go: func updateStoredHeaders (the stored header block afterwards) *)\nDefinition src_update_stored_headers (stored fresh : headers) : headers :=\n  %s.\n\n", body)
}
