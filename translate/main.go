// translate: a translator from a small subset of Go to Gallina, run on /repo's working tree in every check.
//
//	translate <repo> <output directory>
//
// It reads the named functions, tables and constants of bartventer/httpcache with go/parser and writes their
// Gallina counterparts (src_*) to one file; coq/theories/Proofs/SourceTie.v proves each of them equal to the
// hand-written model's definition, so a change of the source that changes one of these functions breaks a proof
// obligation of the development (or the translation itself, when the new code leaves the subset).
//
// The subset: a function whose body is a sequence of
//
//	x := e | a, b := f()            (the second form only for calls named in the symbol table)
//	if c { ... }                    (the block ends in return or goto)
//	if a, ok := f(); ok { ... }     (for calls named in the symbol table: a match on an option)
//	switch x { case a, b: return e ... default: return e }
//	return e | goto L | L:
//
// over boolean, integer, duration and string expressions built from literals, constants (net/http's status codes and
// method names, time's units, constants of the package), comparisons, && || !, + and - on durations (which wrap, as
// Go's do) and the accessors listed per function in the symbol table below (a Go expression, printed canonically,
// -> a Gallina term of the model).  The symbol tables are part of the trusted base: they say which model term a Go
// accessor denotes (resCC.NoStore() is resp_no_store res_cc, and so on).
package main

import (
	"fmt"
	"go/ast"
	"go/parser"
	"go/printer"
	"go/token"
	"math/big"
	"os"
	"path/filepath"
	"runtime"
	"sort"
	"strconv"
	"strings"
)

type kind int

const (
	kB kind = iota // bool
	kZ             // integer
	kD             // time.Duration (int64, wrapping arithmetic)
	kS             // string
	kO             // opaque (a model value handed through)
	kX             // a decision (leaf of a decision function)
)

type term struct {
	s string
	k kind
}

type cval struct {
	i *big.Int
	s *string
}

var fset = token.NewFileSet()

type transErr string

// die aborts the translation of the current group of definitions (see group in main)
func die(f string, a ...any) {
	panic(transErr(fmt.Sprintf(f, a...)))
}

func exprString(e ast.Expr) string {
	var b strings.Builder
	_ = printer.Fprint(&b, fset, e)
	return strings.Join(strings.Fields(b.String()), " ")
}

// ---------- constants ----------

type pkgConsts map[string]ast.Expr

func constDecls(files []*ast.File) pkgConsts {
	pc := pkgConsts{}
	for _, f := range files {
		for _, d := range f.Decls {
			gd, ok := d.(*ast.GenDecl)
			if !ok || gd.Tok != token.CONST {
				continue
			}
			var last []ast.Expr
			iota_ := 0
			for _, sp := range gd.Specs {
				vs := sp.(*ast.ValueSpec)
				vals := vs.Values
				if len(vals) == 0 {
					vals = last
				} else {
					last = vals
				}
				for i, n := range vs.Names {
					if i < len(vals) {
						pc[n.Name] = vals[i]
					}
				}
				iota_++
			}
		}
	}
	return pc
}

type cenv struct {
	local    pkgConsts            // constants of the package being translated
	imported map[string]pkgConsts // "http", "time"
	depth    int
}

func (c *cenv) eval(e ast.Expr) (cval, bool) {
	if c.depth > 40 {
		return cval{}, false
	}
	c.depth++
	defer func() { c.depth-- }()
	switch x := e.(type) {
	case *ast.ParenExpr:
		return c.eval(x.X)
	case *ast.BasicLit:
		switch x.Kind {
		case token.INT:
			n, ok := new(big.Int).SetString(strings.ReplaceAll(x.Value, "_", ""), 0)
			return cval{i: n}, ok
		case token.STRING:
			s, err := strconv.Unquote(x.Value)
			return cval{s: &s}, err == nil
		case token.CHAR:
			s, err := strconv.Unquote(x.Value)
			if err != nil || len(s) != 1 {
				return cval{}, false
			}
			return cval{i: big.NewInt(int64(s[0]))}, true
		}
	case *ast.Ident:
		if d, ok := c.local[x.Name]; ok {
			return c.eval(d)
		}
	case *ast.SelectorExpr:
		if p, ok := x.X.(*ast.Ident); ok {
			if pc, ok := c.imported[p.Name]; ok {
				if d, ok := pc[x.Sel.Name]; ok {
					sub := &cenv{local: pc, imported: c.imported, depth: c.depth}
					return sub.eval(d)
				}
			}
		}
	case *ast.CallExpr:
		if len(x.Args) == 1 {
			switch exprString(x.Fun) {
			case "int64", "int", "time.Duration", "Duration", "uint64", "int32":
				return c.eval(x.Args[0])
			case "len":
				v, ok := c.eval(x.Args[0])
				if ok && v.s != nil {
					return cval{i: big.NewInt(int64(len(*v.s)))}, true
				}
			}
		}
	case *ast.UnaryExpr:
		if x.Op == token.SUB {
			v, ok := c.eval(x.X)
			if ok && v.i != nil {
				return cval{i: new(big.Int).Neg(v.i)}, true
			}
		}
	case *ast.BinaryExpr:
		a, ok1 := c.eval(x.X)
		b, ok2 := c.eval(x.Y)
		if !ok1 || !ok2 || a.i == nil || b.i == nil {
			return cval{}, false
		}
		r := new(big.Int)
		switch x.Op {
		case token.ADD:
			return cval{i: r.Add(a.i, b.i)}, true
		case token.SUB:
			return cval{i: r.Sub(a.i, b.i)}, true
		case token.MUL:
			return cval{i: r.Mul(a.i, b.i)}, true
		case token.QUO:
			if b.i.Sign() == 0 {
				return cval{}, false
			}
			return cval{i: r.Quo(a.i, b.i)}, true
		case token.SHL:
			return cval{i: r.Lsh(a.i, uint(b.i.Int64()))}, true
		}
	}
	return cval{}, false
}

// ---------- Gallina rendering ----------

func coqString(s string) string {
	for i := 0; i < len(s); i++ {
		if s[i] < 32 || s[i] > 126 || s[i] == '"' {
			die("string constant %q is outside the printable subset", s)
		}
	}
	return `(bs "` + s + `")`
}

func coqInt(n *big.Int) string {
	if n.Sign() < 0 {
		return "(" + n.String() + ")"
	}
	return n.String()
}

// ---------- functions ----------

type symtab map[string]term

type fnSpec struct {
	file, name string            // Go
	coq        string            // Gallina name
	params     string            // Gallina binders
	ret        string            // Gallina result type
	syms       symtab            // Go expression (canonical text) -> model term
	calls      map[string]string // Go function name -> Gallina function (arguments translated)
	leaves     map[string]string // for decision functions: callee of a returned call -> constructor
	gotoLeaf   func(tr *translator, label string) string
	optMatch   map[string][2]string // "a, ok := f()" in an if-header: call text -> (Gallina option term, bound variable kind "D"/"Z")
}

type translator struct {
	spec   *fnSpec
	ce     *cenv
	locals map[string]term // let-bound Go variables
	labels map[string][]ast.Stmt
	fn     *ast.FuncDecl
}

func (t *translator) lookup(e ast.Expr) (term, bool) {
	s := exprString(e)
	if v, ok := t.spec.syms[s]; ok {
		return v, true
	}
	return term{}, false
}

func (t *translator) expr(e ast.Expr) term {
	if v, ok := t.lookup(e); ok {
		return v
	}
	switch x := e.(type) {
	case *ast.ParenExpr:
		r := t.expr(x.X)
		return r
	case *ast.Ident:
		switch x.Name {
		case "true":
			return term{"true", kB}
		case "false":
			return term{"false", kB}
		}
		if v, ok := t.locals[x.Name]; ok {
			return v
		}
	case *ast.UnaryExpr:
		if x.Op == token.NOT {
			a := t.expr(x.X)
			if a.k != kB {
				die("%s: ! of a non-boolean in %s", t.spec.name, exprString(e))
			}
			return term{"negb (" + a.s + ")", kB}
		}
	case *ast.CallExpr:
		if id, ok := x.Fun.(*ast.Ident); ok {
			if g, ok := t.spec.calls[id.Name]; ok {
				args := []string{}
				for _, a := range x.Args {
					args = append(args, "("+t.expr(a).s+")")
				}
				return term{g + " " + strings.Join(args, " "), kB}
			}
		}
	case *ast.BinaryExpr:
		switch x.Op {
		case token.LOR, token.LAND:
			a, b := t.expr(x.X), t.expr(x.Y)
			if a.k != kB || b.k != kB {
				die("%s: %s of non-booleans in %s", t.spec.name, x.Op, exprString(e))
			}
			op := "||"
			if x.Op == token.LAND {
				op = "&&"
			}
			return term{"(" + a.s + ") " + op + " (" + b.s + ")", kB}
		case token.EQL, token.NEQ, token.LSS, token.LEQ, token.GTR, token.GEQ:
			a, b := t.expr(x.X), t.expr(x.Y)
			if (a.k == kS) != (b.k == kS) {
				die("%s: comparison of a string with a non-string in %s", t.spec.name, exprString(e))
			}
			var r string
			if a.k == kS {
				switch x.Op {
				case token.EQL:
					r = "beq (" + a.s + ") (" + b.s + ")"
				case token.NEQ:
					r = "negb (beq (" + a.s + ") (" + b.s + "))"
				default:
					die("%s: ordering of strings in %s", t.spec.name, exprString(e))
				}
				return term{r, kB}
			}
			if a.k == kB || a.k == kO || b.k == kB || b.k == kO {
				die("%s: comparison outside the subset in %s", t.spec.name, exprString(e))
			}
			switch x.Op {
			case token.EQL:
				r = "(" + a.s + ") =? (" + b.s + ")"
			case token.NEQ:
				r = "negb ((" + a.s + ") =? (" + b.s + "))"
			case token.LSS:
				r = "(" + a.s + ") <? (" + b.s + ")"
			case token.LEQ:
				r = "(" + a.s + ") <=? (" + b.s + ")"
			case token.GTR:
				r = "(" + b.s + ") <? (" + a.s + ")"
			case token.GEQ:
				r = "(" + b.s + ") <=? (" + a.s + ")"
			}
			return term{r, kB}
		case token.ADD, token.SUB:
			a, b := t.expr(x.X), t.expr(x.Y)
			// a duration and a typed constant of the package (maxDuration) make a duration
			if !((a.k == kD || a.k == kZ) && (b.k == kD || b.k == kZ) && (a.k == kD || b.k == kD)) {
				die("%s: arithmetic on anything but durations in %s", t.spec.name, exprString(e))
			}
			// time.Duration is int64: + and - wrap around
			if x.Op == token.ADD {
				return term{"wrap64 ((" + a.s + ") + (" + b.s + "))", kD}
			}
			return term{"wrap64 ((" + a.s + ") - (" + b.s + "))", kD}
		}
	}
	// a constant expression
	if v, ok := t.ce.eval(e); ok {
		if v.s != nil {
			return term{coqString(*v.s), kS}
		}
		return term{coqInt(v.i), kZ}
	}
	die("%s: expression outside the subset: %s", t.spec.name, exprString(e))
	return term{}
}

func (t *translator) boolExpr(e ast.Expr) string {
	r := t.expr(e)
	if r.k != kB {
		die("%s: a condition that is not boolean: %s", t.spec.name, exprString(e))
	}
	return r.s
}

// block translates a statement list; rest is the Gallina term for what follows it (nil: nothing may follow)
func (t *translator) block(stmts []ast.Stmt, rest func() string) string {
	if len(stmts) == 0 {
		if rest == nil {
			die("%s: control reaches the end of a block without return", t.spec.name)
		}
		return rest()
	}
	tail := func() string { return t.block(stmts[1:], rest) }
	switch s := stmts[0].(type) {
	case *ast.ReturnStmt:
		if len(s.Results) == 0 {
			die("%s: bare return", t.spec.name)
		}
		return t.ret(s.Results[0])
	case *ast.BranchStmt:
		if s.Tok == token.GOTO {
			body, ok := t.labels[s.Label.Name]
			if !ok {
				die("%s: goto %s: no such label", t.spec.name, s.Label.Name)
			}
			return t.block(body, nil)
		}
	case *ast.LabeledStmt:
		// falling into a label: the label's statement and what follows it
		if t.spec.gotoLeaf != nil {
			return t.spec.gotoLeaf(t, s.Label.Name)
		}
		return t.block(append([]ast.Stmt{s.Stmt}, stmts[1:]...), rest)
	case *ast.AssignStmt:
		if s.Tok == token.DEFINE && len(s.Lhs) == 1 && len(s.Rhs) == 1 {
			name := s.Lhs[0].(*ast.Ident).Name
			if v, ok := t.spec.syms[name]; ok {
				// the variable is bound by the symbol table (an opaque model value): the right-hand side must be the call it names
				if want, ok := t.spec.syms["="+name]; ok && want.s != exprString(s.Rhs[0]) {
					die("%s: %s is now bound to %s (the symbol table expects %s)", t.spec.name, name, exprString(s.Rhs[0]), want.s)
				}
				_ = v
				return tail()
			}
			v := t.expr(s.Rhs[0])
			old, had := t.locals[name]
			cn := "v_" + name
			t.locals[name] = term{cn, v.k}
			body := tail()
			if had {
				t.locals[name] = old
			} else {
				delete(t.locals, name)
			}
			return "let " + cn + " := " + v.s + " in\n  " + body
		}
		if s.Tok == token.DEFINE && len(s.Lhs) >= 2 && len(s.Lhs) == len(s.Rhs) {
			// a, b := e1, e2: the right-hand sides are evaluated before any of the names is bound
			return t.bindAll(s, tail)
		}
		if s.Tok == token.DEFINE && len(s.Lhs) == 2 && len(s.Rhs) == 1 {
			key := exprString(s.Lhs[0]) + ", " + exprString(s.Lhs[1]) + " := " + exprString(s.Rhs[0])
			if _, ok := t.spec.syms[key]; ok {
				return tail()
			}
		}
		die("%s: assignment outside the subset: %s", t.spec.name, stmtString(s))
	case *ast.IfStmt:
		if s.Else != nil {
			die("%s: if with else", t.spec.name)
		}
		if s.Init != nil {
			as, ok := s.Init.(*ast.AssignStmt)
			if !ok || len(as.Lhs) != 2 || len(as.Rhs) != 1 || exprString(s.Cond) != exprString(as.Lhs[1]) {
				die("%s: if-header outside the subset: %s", t.spec.name, stmtString(s.Init))
			}
			om, ok := t.spec.optMatch[exprString(as.Rhs[0])]
			if !ok {
				die("%s: if-header call %s is not in the symbol table", t.spec.name, exprString(as.Rhs[0]))
			}
			name := as.Lhs[0].(*ast.Ident).Name
			k := kD
			if om[1] == "Z" {
				k = kZ
			}
			t.locals[name] = term{"v_" + name, k}
			// the block must end in return/goto on every path that does not fall out of it: falling out continues after the if
			inner := t.block(s.Body.List, tail)
			delete(t.locals, name)
			return "match " + om[0] + " with\n  | Some v_" + name + " => " + inner + "\n  | None => " + tail() + "\n  end"
		}
		c := t.boolExpr(s.Cond)
		return "if " + c + "\n  then " + t.block(s.Body.List, tail) + "\n  else " + tail()
	case *ast.SwitchStmt:
		if s.Tag == nil {
			// switch [a, b := e1, e2]; { case c: ... }: the first case whose condition holds; no case: what follows the switch
			cases := func() string {
				o := ""
				var def []ast.Stmt
				for _, cc := range s.Body.List {
					cl := cc.(*ast.CaseClause)
					if cl.List == nil {
						def = cl.Body
						continue
					}
					for _, st := range cl.Body {
						if b, ok := st.(*ast.BranchStmt); ok && b.Tok == token.FALLTHROUGH {
							die("%s: fallthrough in a tagless switch", t.spec.name)
						}
					}
					conds := []string{}
					for _, v := range cl.List {
						conds = append(conds, "("+t.boolExpr(v)+")")
					}
					o += "if " + strings.Join(conds, " || ") + "\n  then " + t.block(cl.Body, tail) + "\n  else "
				}
				if def != nil {
					return o + t.block(def, tail)
				}
				return o + tail()
			}
			if s.Init == nil {
				return cases()
			}
			as, ok := s.Init.(*ast.AssignStmt)
			if !ok || as.Tok != token.DEFINE || len(as.Lhs) != len(as.Rhs) {
				die("%s: switch header outside the subset: %s", t.spec.name, stmtString(s.Init))
			}
			return t.bindAll(as, cases)
		}
		if s.Init != nil {
			die("%s: switch outside the subset", t.spec.name)
		}
		tag := t.expr(s.Tag)
		var def []ast.Stmt
		hasDef := false
		out := ""
		closers := ""
		for _, cc := range s.Body.List {
			cl := cc.(*ast.CaseClause)
			if cl.List == nil {
				def, hasDef = cl.Body, true
				continue
			}
			conds := []string{}
			for _, v := range cl.List {
				cv := t.expr(v)
				if tag.k == kS {
					conds = append(conds, "beq ("+tag.s+") ("+cv.s+")")
				} else {
					conds = append(conds, "(("+tag.s+") =? ("+cv.s+"))")
				}
			}
			out += "if " + strings.Join(conds, " || ") + "\n  then " + t.block(cl.Body, tail) + "\n  else "
			closers += ""
		}
		if hasDef {
			return out + t.block(def, tail) + closers
		}
		return out + tail() + closers
	case *ast.ExprStmt:
		// calls without a result that the model does not see (logging)
		if c, ok := s.X.(*ast.CallExpr); ok && strings.HasPrefix(exprString(c.Fun), "r.logger.") {
			return tail()
		}
	}
	die("%s: statement outside the subset: %s", t.spec.name, stmtString(stmts[0]))
	return ""
}

// bindAll translates a1, ..., an := e1, ..., en (all right-hand sides first) around body
func (t *translator) bindAll(as *ast.AssignStmt, body func() string) string {
	vals := []term{}
	for _, r := range as.Rhs {
		vals = append(vals, t.expr(r))
	}
	type saved struct {
		name string
		old  term
		had  bool
	}
	sv := []saved{}
	lets := ""
	for i, l := range as.Lhs {
		id, ok := l.(*ast.Ident)
		if !ok {
			die("%s: assignment outside the subset: %s", t.spec.name, stmtString(as))
		}
		if _, ok := t.spec.syms[id.Name]; ok {
			die("%s: %s is re-bound", t.spec.name, id.Name)
		}
		// fresh names: an earlier binding of the same Go name may occur in a later right-hand side
		lets += "let w_" + id.Name + " := " + vals[i].s + " in\n  "
	}
	for i, l := range as.Lhs {
		id := l.(*ast.Ident)
		old, had := t.locals[id.Name]
		sv = append(sv, saved{id.Name, old, had})
		lets += "let v_" + id.Name + " := w_" + id.Name + " in\n  "
		t.locals[id.Name] = term{"v_" + id.Name, vals[i].k}
	}
	r := body()
	for _, x := range sv {
		if x.had {
			t.locals[x.name] = x.old
		} else {
			delete(t.locals, x.name)
		}
	}
	return lets + r
}

func stmtString(s ast.Stmt) string {
	var b strings.Builder
	_ = printer.Fprint(&b, fset, s)
	x := strings.Join(strings.Fields(b.String()), " ")
	if len(x) > 160 {
		x = x[:160] + "..."
	}
	return x
}

func (t *translator) ret(e ast.Expr) string {
	if t.spec.leaves != nil {
		if c, ok := e.(*ast.CallExpr); ok {
			if l, ok := t.spec.leaves[exprString(c.Fun)]; ok {
				return l
			}
		}
		die("%s: returned expression is not a known leaf: %s", t.spec.name, exprString(e))
	}
	r := t.expr(e)
	switch t.spec.ret {
	case "Z":
		if r.k != kD && r.k != kZ {
			die("%s: returns a non-integer: %s", t.spec.name, exprString(e))
		}
	case "bytes":
		if r.k != kS {
			die("%s: returns a non-string: %s", t.spec.name, exprString(e))
		}
	default:
		if r.k != kB {
			die("%s: returns a non-boolean: %s", t.spec.name, exprString(e))
		}
	}
	return r.s
}

func findFunc(files map[string]*ast.File, file, name string) *ast.FuncDecl {
	f, ok := files[file]
	if !ok {
		die("no such file %s", file)
	}
	for _, d := range f.Decls {
		if fd, ok := d.(*ast.FuncDecl); ok && fd.Name.Name == name {
			return fd
		}
	}
	die("%s: function %s not found", file, name)
	return nil
}

func collectLabels(stmts []ast.Stmt, out map[string][]ast.Stmt) {
	for i, s := range stmts {
		if l, ok := s.(*ast.LabeledStmt); ok {
			out[l.Label.Name] = append([]ast.Stmt{l}, stmts[i+1:]...)
		}
	}
}

func parseDir(dir string) ([]*ast.File, map[string]*ast.File) {
	pkgs, err := parser.ParseDir(fset, dir, func(fi os.FileInfo) bool { return !strings.HasSuffix(fi.Name(), "_test.go") }, parser.ParseComments)
	if err != nil {
		die("parse %s: %v", dir, err)
	}
	var fs []*ast.File
	byName := map[string]*ast.File{}
	for _, p := range pkgs {
		for n, f := range p.Files {
			fs = append(fs, f)
			byName[filepath.Base(n)] = f
		}
	}
	return fs, byName
}

// the keys of a composite literal of strings (map or slice/array), in source order
func stringKeys(e ast.Expr, ce *cenv) []string {
	cl, ok := e.(*ast.CompositeLit)
	if !ok {
		die("not a composite literal: %s", exprString(e))
	}
	var out []string
	for _, el := range cl.Elts {
		k := el
		if kv, ok := el.(*ast.KeyValueExpr); ok {
			k = kv.Key
		}
		v, ok := ce.eval(k)
		if !ok || v.s == nil {
			die("element %s is not a string constant", exprString(k))
		}
		out = append(out, *v.s)
	}
	return out
}

func findVar(files []*ast.File, name string) ast.Expr {
	for _, f := range files {
		for _, d := range f.Decls {
			if gd, ok := d.(*ast.GenDecl); ok && gd.Tok == token.VAR {
				for _, sp := range gd.Specs {
					vs := sp.(*ast.ValueSpec)
					for i, n := range vs.Names {
						if n.Name == name && i < len(vs.Values) {
							return vs.Values[i]
						}
					}
				}
			}
		}
	}
	die("variable %s not found", name)
	return nil
}

// the first composite literal assigned in a function (m := map[string]struct{}{...})
func firstLiteralIn(fd *ast.FuncDecl) ast.Expr {
	var found ast.Expr
	ast.Inspect(fd.Body, func(n ast.Node) bool {
		if found != nil {
			return false
		}
		if cl, ok := n.(*ast.CompositeLit); ok {
			found = cl
			return false
		}
		return true
	})
	if found == nil {
		die("%s: no literal", fd.Name.Name)
	}
	return found
}

func main() {
	if len(os.Args) != 3 {
		fmt.Fprintln(os.Stderr, "usage: translate <repo> <output directory>")
		os.Exit(2)
	}
	repo, outPath := os.Args[1], os.Args[2]
	goroot := runtime.GOROOT()
	httpFiles, _ := parseDir(filepath.Join(goroot, "src", "net", "http"))
	timeFiles, _ := parseDir(filepath.Join(goroot, "src", "time"))
	imported := map[string]pkgConsts{"http": constDecls(httpFiles), "time": constDecls(timeFiles)}

	intFiles, intByName := parseDir(filepath.Join(repo, "internal"))
	rootFiles, rootByName := parseDir(repo)
	fsFiles, _ := parseDir(filepath.Join(repo, "store", "fscache"))
	intCE := &cenv{local: constDecls(intFiles), imported: imported}
	rootCE := &cenv{local: constDecls(rootFiles), imported: imported}
	rootCE.imported["internal"] = intCE.local
	fsCE := &cenv{local: constDecls(fsFiles), imported: imported}

	outDir := outPath
	if err := os.MkdirAll(outDir, 0o755); err != nil {
		fmt.Fprintln(os.Stderr, err)
		os.Exit(2)
	}
	failed := 0
	var out strings.Builder
	// group runs the translation of one output file; when the source has left the subset the file is written all the
	// same, with a definition that does not type-check and the reason, so that only the theorems about this group break
	group := func(file string, body func()) {
		out.Reset()
		out.WriteString("(* GENERATED by /verif/translate from the Go source of /repo on every run; do not edit. *)\n")
		out.WriteString("From HC Require Import Transport.\nOpen Scope Z_scope.\n\n")
		func() {
			defer func() {
				if r := recover(); r != nil {
					te, ok := r.(transErr)
					if !ok {
						panic(r)
					}
					failed++
					fmt.Fprintf(os.Stderr, "translate: %s: %s\n", file, string(te))
					out.Reset()
					fmt.Fprintf(&out, "(* GENERATED: the translation of this group FAILED: the source has left the translatable subset.\n   %s *)\n", strings.ReplaceAll(string(te), "*)", "* )"))
					out.WriteString("Definition translation_failed : False := I.\n")
				}
			}()
			body()
		}()
		p := filepath.Join(outDir, file)
		old, _ := os.ReadFile(p)
		if string(old) != out.String() {
			if err := os.WriteFile(p, []byte(out.String()), 0o644); err != nil {
				fmt.Fprintln(os.Stderr, err)
				os.Exit(2)
			}
		}
	}
	emitFn := func(sp *fnSpec, byName map[string]*ast.File, ce *cenv) {
		fd := findFunc(byName, sp.file, sp.name)
		t := &translator{spec: sp, ce: ce, locals: map[string]term{}, labels: map[string][]ast.Stmt{}, fn: fd}
		collectLabels(fd.Body.List, t.labels)
		body := t.block(fd.Body.List, nil)
		fmt.Fprintf(&out, "(* %s: func %s *)\nDefinition %s %s : %s :=\n  %s.\n\n", sp.file, sp.name, sp.coq, sp.params, sp.ret, body)
	}
	group("SrcStatus.v", func() {
		statusSyms := symtab{"code": {"code", kZ}}
		emitFn(&fnSpec{file: "cacheabilityevaluator.go", name: "isStatusUnderstood", coq: "src_is_status_understood", params: "(code : Z)", ret: "bool", syms: statusSyms}, intByName, intCE)
		emitFn(&fnSpec{file: "cacheabilityevaluator.go", name: "isHeuristicallyCacheableCode", coq: "src_is_heuristically_cacheable", params: "(code : Z)", ret: "bool", syms: statusSyms}, intByName, intCE)
		emitFn(&fnSpec{file: "helpers.go", name: "isStaleErrorAllowed", coq: "src_is_stale_error_allowed", params: "(code : Z)", ret: "bool", syms: statusSyms}, intByName, intCE)
		emitFn(&fnSpec{file: "requestmethodchecker.go", name: "isRequestMethodUnderstood", coq: "src_is_request_method_understood", params: "(q : request)", ret: "bool",
			syms: symtab{"req.Method": {"q_method q", kS}, `req.Header.Get("Range")`: {`hget (bs "Range") (q_hdr q)`, kS}}}, intByName, intCE)
		emitFn(&fnSpec{file: "cacheabilityevaluator.go", name: "canStoreResponse", coq: "src_can_store_response", params: "(r : response) (req_cc res_cc : directives)", ret: "bool",
			syms: symtab{
				"resp.StatusCode":            {"p_status r", kZ},
				"resCC.MustUnderstand()":     {"resp_must_understand res_cc", kB},
				"resCC.NoStore()":            {"resp_no_store res_cc", kB},
				"reqCC.NoStore()":            {"req_no_store req_cc", kB},
				"resCC.Public()":             {"resp_public res_cc", kB},
				"resCC.MaxAgePresent()":      {"resp_max_age_present res_cc", kB},
				`resp.Header.Get("Expires")`: {`hget (bs "Expires") (p_hdr r)`, kS},
			},
			calls: map[string]string{"isStatusUnderstood": "src_is_status_understood", "isHeuristicallyCacheableCode": "src_is_heuristically_cacheable"}}, intByName, intCE)

	})
	group("SrcTables.v", func() {
		emitFn(&fnSpec{file: "helpers.go", name: "IsNonErrorStatus", coq: "src_is_non_error_status", params: "(status : Z)", ret: "bool", syms: symtab{"status": {"status", kZ}}}, intByName, intCE)
		emitFn(&fnSpec{file: "helpers.go", name: "IsUnsafeMethod", coq: "src_is_unsafe_method", params: "(method : bytes)", ret: "bool", syms: symtab{"method": {"method", kS}}}, intByName, intCE)
		// tables and constants
		emitList := func(name, comment string, xs []string) {
			parts := []string{}
			for _, x := range xs {
				parts = append(parts, coqString(x)[1:len(coqString(x))-1])
			}
			fmt.Fprintf(&out, "(* %s *)\nDefinition %s : list bytes := [%s].\n\n", comment, name, strings.Join(parts, "; "))
		}
		hop := stringKeys(firstLiteralIn(findFunc(intByName, "helpers.go", "hopByHopHeaders")), intCE)
		emitList("src_hop_by_hop_fixed", "internal/helpers.go: the map literal of hopByHopHeaders", hop)
		emitList("src_location_headers", "internal/cacheinvalidator.go: var locationHeaders", stringKeys(findVar(intFiles, "locationHeaders"), intCE))
		emitZ := func(name, comment string, ce *cenv, e ast.Expr) {
			v, ok := ce.eval(e)
			if !ok || v.i == nil {
				die("%s: not an integer constant", name)
			}
			fmt.Fprintf(&out, "(* %s *)\nDefinition %s : Z := %s.\n\n", comment, name, coqInt(v.i))
		}
		emitS := func(name, comment string, ce *cenv, e ast.Expr) {
			v, ok := ce.eval(e)
			if !ok || v.s == nil {
				die("%s: not a string constant", name)
			}
			fmt.Fprintf(&out, "(* %s *)\nDefinition %s : bytes := %s.\n\n", comment, name, coqString(*v.s))
		}
		emitZ("src_default_swr_timeout", "roundtripper.go: const DefaultSWRTimeout (ns)", rootCE, ast.NewIdent("DefaultSWRTimeout"))
		emitZ("src_max_delta_seconds", "internal/ccdirectives.go: const maxDeltaSeconds", intCE, ast.NewIdent("maxDeltaSeconds"))
		emitZ("src_max_duration", "internal/freshness.go: const maxDuration", intCE, ast.NewIdent("maxDuration"))
		emitS("src_status_header", "internal/header.go: const CacheStatusHeader", intCE, ast.NewIdent("CacheStatusHeader"))
		emitS("src_from_cache_header", "internal/header.go: const FromCacheHeader", intCE, ast.NewIdent("FromCacheHeader"))
		emitZ("src_fragment_size", "store/fscache/filenamer.go: const fragmentSize", fsCE, ast.NewIdent("fragmentSize"))
		emitS("src_dir_marker", "store/fscache/filenamer.go: const dirMarker", fsCE, ast.NewIdent("dirMarker"))
		// the cache status values: var CacheStatusX = CacheStatus{"X", FromCache|NotFromCache}
		names := []string{"CacheStatusHit", "CacheStatusMiss", "CacheStatusStale", "CacheStatusRevalidated", "CacheStatusBypass"}
		sort.Strings(names)
		for _, n := range names {
			cl, ok := findVar(intFiles, n).(*ast.CompositeLit)
			if !ok || len(cl.Elts) != 2 {
				die("%s: not a two-field literal", n)
			}
			v, ok1 := intCE.eval(cl.Elts[0])
			l, ok2 := intCE.eval(cl.Elts[1])
			if !ok1 || !ok2 || v.s == nil || l.s == nil {
				die("%s: fields are not string constants", n)
			}
			fmt.Fprintf(&out, "(* internal/header.go: var %s *)\nDefinition src_%s : bytes * bytes := (%s, %s).\n\n", n, n, coqString(*v.s), coqString(*l.s))
		}
	})
	group("SrcHelpers.v", func() {
		emitFn(&fnSpec{file: "freshness.go", name: "saturatingAdd", coq: "src_saturating_add", params: "(a b : Z)", ret: "Z",
			syms: symtab{"a": {"a", kD}, "b": {"b", kD}}}, intByName, intCE)
		emitFn(&fnSpec{file: "helpers.go", name: "defaultPort", coq: "src_default_port", params: "(scheme : bytes)", ret: "bytes",
			syms: symtab{"scheme": {"scheme", kS}}}, intByName, intCE)
	})
	group("SrcHeaderSets.v", func() {
		translateHeaderSets(intByName, intCE, &out)
	})
	group("SrcHeaderProgs.v", func() {
		translateHeaderPrograms(intByName, rootByName, intCE, rootCE, &out)
	})
	group("SrcStaleIfError.v", func() {
		translateCanStaleOnError(intByName, intCE, &out)
	})
	group("SrcVary.v", func() {
		translateVaryMatcher(intByName, intCE, &out)
	})
	group("SrcTimed.v", func() {
		translateRoundTripTimed(rootByName, &out)
	})
	group("SrcOrigin.v", func() {
		translateEffects(effSpec{file: "helpers.go", fn: "sameOrigin", coq: "src_same_origin", params: "(a b : url)", ret: "bool", pure: true,
			env: func() *eenv {
				return &eenv{vars: map[string]term{"a": {"a", kURL}, "b": {"b", kURL}}, facts: map[string]bool{}}
			}}, intByName, intCE, &out)
	})
	group("SrcInval.v", func() {
		translateInvalidator(intByName, intFiles, intCE, &out)
	})
	group("SrcEffects.v", func() {
		mk := func(vars map[string]term, facts map[string]bool) func() *eenv {
			return func() *eenv {
				e := &eenv{vars: map[string]term{}, facts: map[string]bool{}}
				for k, v := range vars {
					e.vars[k] = v
				}
				for k, v := range facts {
					e.facts[k] = v
				}
				return e
			}
		}
		reqV := map[string]term{"req": {"q", kReq}, "urlKey": {"url_key", kS}, "refs": {"refs", kRefs}, "refIndex": {"ref_index", kZ}}
		translateEffects(effSpec{file: "roundtripper.go", fn: "RoundTrip", coq: "src_round_trip", params: "(q : request)", ret: "prog outcome",
			env: mk(map[string]term{"req": {"q", kReq}}, nil)}, rootByName, rootCE, &out)
		translateEffects(effSpec{file: "roundtripper.go", fn: "handleUnrecognizedMethod", coq: "src_handle_unrecognized_method", params: "(q : request) (url_key : bytes)", ret: "prog outcome",
			env: mk(reqV, nil)}, rootByName, rootCE, &out)
		translateEffects(effSpec{file: "roundtripper.go", fn: "handleCacheMiss", coq: "src_handle_cache_miss", params: "(q : request) (url_key : bytes) (refs : list (option ref)) (ref_index : Z)", ret: "prog outcome",
			env: mk(reqV, nil)}, rootByName, rootCE, &out)
		hitV := map[string]term{"req": {"q", kReq}, "urlKey": {"url_key", kS}, "refs": {"refs", kRefs}, "refIndex": {"ref_index", kZ}, "stored": {"stored", kEntry}}
		translateEffects(effSpec{file: "roundtripper.go", fn: "handleCacheHit", coq: "src_handle_cache_hit", params: "(q : request) (stored : stored_entry) (url_key : bytes) (refs : list (option ref)) (ref_index : Z)", ret: "prog outcome",
			env: mk(hitV, nil)}, rootByName, rootCE, &out)
		bgV := map[string]term{"req": {"q", kReq}, "urlKey": {"url_key", kS}, "stored": {"stored", kEntry}, "freshness": {"f", kFresh}, "ccReq": {"cc_req", kCCq}}
		translateEffects(effSpec{file: "roundtripper.go", fn: "backgroundRevalidate", coq: "src_background_revalidate", params: "(q : request) (stored : stored_entry) (url_key : bytes) (f : freshness) (cc_req : directives)", ret: "prog unit",
			unit: true, inner: true, env: mk(bgV, nil)}, rootByName, rootCE, &out)
		qual := map[string]term{"noCacheQualified": {"match qualified with Some _ => true | None => false end", kB}, "noCacheFieldsSeq": {"qualified", kO}}
		sfV := map[string]term{"req": {"q", kReq}, "urlKey": {"url_key", kS}, "stored": {"stored", kEntry}, "freshness": {"f", kFresh}, "ccReq": {"cc_req", kCCq}}
		for k, v := range qual {
			sfV[k] = v
		}
		// the clock readings inside these two (SetAgeHeader) happen at the instant of the caller's reading: `now` is a parameter
		withNow := func(f func() *eenv) func() *eenv {
			return func() *eenv { e := f(); e.now = "now"; return e }
		}
		translateEffects(effSpec{file: "roundtripper.go", fn: "serveFromCache", coq: "src_serve_from_cache", params: "(stored : stored_entry) (f : freshness) (now : Z) (qualified : option (list bytes))", ret: "prog outcome",
			env: withNow(mk(sfV, nil))}, rootByName, rootCE, &out)
		translateEffects(effSpec{file: "roundtripper.go", fn: "handleStaleWhileRevalidate", coq: "src_handle_stale_while_revalidate", params: "(q : request) (stored : stored_entry) (url_key : bytes) (f : freshness) (cc_req : directives) (now : Z) (qualified : option (list bytes))", ret: "prog outcome",
			env: withNow(mk(sfV, nil))}, rootByName, rootCE, &out)
		ageEnv := func() *eenv {
			en := mk(map[string]term{"h": {"h", kHdr}, "date": {"date", kT}, "requestTime": {"request_time", kT}, "responseTime": {"response_time", kT}}, nil)()
			en.now = "now"
			return en
		}
		translateEffects(effSpec{file: "freshness.go", fn: "calculateCurrentAge", coq: "src_current_age", params: "(h : headers) (date request_time response_time now : Z)", ret: "Z * Z", pure: true, env: ageEnv}, intByName, intCE, &out)
		translateEffects(effSpec{file: "freshness.go", fn: "heuristicFreshness", coq: "src_heuristic_freshness", params: "(h : headers) (date : Z)", ret: "Z", pure: true,
			env: mk(map[string]term{"h": {"h", kHdr}, "date": {"date", kT}}, nil)}, intByName, intCE, &out)
		// CalculateFreshness: the clock is read (inside calculateCurrentAge and for the Age timestamp) at one instant, `now`
		translateEffects(effSpec{file: "freshness.go", fn: "CalculateFreshness", coq: "src_calculate_freshness", params: "(e : stored_entry) (req_cc res_cc : directives) (now : Z)", ret: "freshness", pure: true,
			env: func() *eenv {
				en := mk(map[string]term{"entry": {"e", kEntry}, "reqCC": {"req_cc", kCCq}, "resCC": {"res_cc", kCCr}}, nil)()
				en.now = "now"
				return en
			}}, intByName, intCE, &out)
		translateEffects(effSpec{file: "responsestorerer.go", fn: "StoreResponse", coq: "src_store_response", params: "(q : request) (r : response) (url_key : bytes) (refs : list (option ref)) (req_at recv_at : Z) (ref_index : Z)", ret: "prog response",
			respLeaf: true, env: mk(map[string]term{"req": {"q", kReq}, "resp": {"r", kResp}, "urlKey": {"url_key", kS}, "refs": {"refs", kRefs}, "reqTime": {"req_at", kZ}, "respTime": {"recv_at", kZ}, "refIndex": {"ref_index", kZ}}, nil)}, intByName, intCE, &out)
		// the handler is always built with a storer (newTransport); a unit test of the repository builds one without
		translateEffects(effSpec{file: "validationresponsehandler.go", fn: "HandleValidationResponse", coq: "src_handle_validation_response", params: "(ctx : reval_ctx) (q : request) (rep : origin_reply)", ret: "prog outcome",
			pair: true, env: mk(map[string]term{"req": {"q", kReq}, "ctx": {"ctx", kCtx}}, map[string]bool{"r.rs != nil": true})}, intByName, intCE, &out)
	})
	if failed > 0 {
		os.Exit(3)
	}
}
