package harness

import (
	"bytes"
	"errors"
	"fmt"
	"os"
	"os/exec"
	"os/signal"
	"path/filepath"
	"sort"
	"strconv"
	"strings"
	"sync"
	"syscall"
	"testing"
	"time"

	"github.com/anishathalye/porcupine"

	"github.com/bartventer/httpcache/store/driver"
	"github.com/bartventer/httpcache/store/fscache"
)

// ---------- C15: writes are atomic under failed writes, crashes and concurrency ----------

const encKey = "6S-Ks2YYOW0xMvTzKSv6QD30gZeOi1c6Ydr-As5csWk="

func openFS(dir string, enc bool) (driver.Conn, error) {
	fo := []fscache.Option{fscache.WithBaseDir(dir)}
	if enc {
		fo = append(fo, fscache.WithEncryption(encKey))
	}
	return fscache.Open("verif", fo...)
}

func valueN(tag byte, n int) []byte {
	v := make([]byte, n)
	for i := range v {
		v[i] = tag + byte(i%23)
	}
	return v
}

// TestFsChild is the body of the child processes: one Set under a file-size limit, or a loop of Sets.
func TestFsChild(t *testing.T) {
	mode := os.Getenv("VERIF_CHILD")
	if mode == "" {
		t.Skip("not a child")
	}
	dir := os.Getenv("VERIF_DIR")
	enc := os.Getenv("VERIF_ENC") == "1"
	key := os.Getenv("VERIF_KEY")
	n, _ := strconv.Atoi(os.Getenv("VERIF_LEN"))
	switch mode {
	case "cut", "killcut":
		// cut: writing past the limit fails (EFBIG); killcut: the signal keeps its default action and the process dies in
		// the write that reaches the limit, with the bytes before the limit on disk
		lim, _ := strconv.Atoi(os.Getenv("VERIF_LIMIT"))
		if mode == "cut" {
			signal.Ignore(syscall.SIGXFSZ)
		}
		c, err := openFS(dir, enc)
		if err != nil {
			fmt.Println("OPENERR", err)
			return
		}
		rl := syscall.Rlimit{Cur: uint64(lim), Max: uint64(lim)}
		if err := syscall.Setrlimit(syscall.RLIMIT_FSIZE, &rl); err != nil {
			fmt.Println("RLIMITERR", err)
			return
		}
		err = c.Set(key, valueN('N', n))
		fmt.Println("SETRESULT", err == nil)
	case "loop":
		c, err := openFS(dir, enc)
		if err != nil {
			fmt.Println("OPENERR", err)
			return
		}
		fmt.Println("READY")
		for i := 0; ; i++ {
			_ = c.Set(key, valueN(byte('A'+i%2), n))
		}
	case "once":
		// a fixed little program for the syscall trace: Set, Set, Get, Delete
		c, err := openFS(dir, enc)
		if err != nil {
			fmt.Println("OPENERR", err)
			return
		}
		fmt.Println("MARK-SET1")
		_ = c.Set(key, valueN('A', n))
		fmt.Println("MARK-SET2")
		_ = c.Set(key, valueN('B', n))
		fmt.Println("MARK-GET")
		_, _ = c.Get(key)
		fmt.Println("MARK-DEL")
		_ = c.Delete(key)
		fmt.Println("MARK-END")
	}
}

func child(env ...string) *exec.Cmd {
	cmd := exec.Command(os.Args[0], "-test.run", "^TestFsChild$", "-test.count=1")
	cmd.Env = append(os.Environ(), env...)
	return cmd
}

func describeGet(v []byte, err error, allowed map[string][]byte) string {
	if err != nil {
		if errors.Is(err, driver.ErrNotExist) {
			return "absent"
		}
		return "error:" + err.Error()
	}
	for name, a := range allowed {
		if bytes.Equal(v, a) {
			return "value:" + name
		}
	}
	return fmt.Sprintf("PARTIAL(len=%d)", len(v))
}

// TestAtomicity: (1) a Set cut short at every byte by a file-size limit, with and without a previous
// value, with and without encryption; (2) a writer killed at arbitrary moments; (3) concurrent
// Set/Get/Delete on one key, checked for linearizability against a register.
func TestAtomicity(t *testing.T) {
	out := os.Getenv("VERIF_OUT")
	if out == "" {
		t.Skip("VERIF_OUT not set")
	}
	thorough := os.Getenv("VERIF_TIER") == "thorough"
	seed := uint64(envInt("VERIF_SEED", 1))
	g := newG(seed, 0xa70c)
	var lines []string
	add := func(format string, a ...any) { lines = append(lines, fmt.Sprintf(format, a...)+"\n") }

	// ---- (1) cuts ----
	lens := []int{5, 64, 700}
	if thorough {
		lens = []int{1, 5, 64, 700, 4096, 20000}
	}
	for _, enc := range []bool{false, true} {
		// previous value: none, longer, of exactly the new value's length (an overwrite in place would be possible), shorter
		for _, prevLen := range []int{-1, 3, 0, -2} {
			prev := prevLen != -1
			for _, n := range lens {
				total := n
				if enc {
					total = n + 28 // nonce + tag
				}
				var cuts []int
				if total <= 800 || thorough && total <= 5000 {
					for k := 0; k <= total; k++ {
						cuts = append(cuts, k)
					}
				} else {
					cuts = []int{0, 1, total / 3, total / 2, total - 1, total}
					for i := 0; i < 12; i++ {
						cuts = append(cuts, g.intn(total+1))
					}
				}
				if !thorough && len(cuts) > 60 {
					// a spread of cut points incl. the ends
					sel := []int{0, 1, 2, total - 2, total - 1, total}
					for i := 0; i < 40; i++ {
						sel = append(sel, cuts[g.intn(len(cuts))])
					}
					cuts = sel
				}
				for _, k := range cuts {
					dir, _ := os.MkdirTemp("", "verif-cut-")
					key := "http://a.test/x#cut"
					allowed := map[string][]byte{"new": valueN('N', n)}
					if prev {
						c, err := openFS(dir, enc)
						if err != nil {
							t.Fatal(err)
						}
						pl := n + prevLen
						if prevLen == -2 {
							pl = max(n-2, 0)
						}
						if err := c.Set(key, valueN('P', pl)); err != nil {
							t.Fatal(err)
						}
						allowed["previous"] = valueN('P', pl)
					}
					cmd := child("VERIF_CHILD=cut", "VERIF_DIR="+dir, "VERIF_ENC="+map[bool]string{true: "1", false: "0"}[enc],
						"VERIF_KEY="+key, "VERIF_LEN="+strconv.Itoa(n), "VERIF_LIMIT="+strconv.Itoa(k))
					co, _ := cmd.CombinedOutput()
					setOK := strings.Contains(string(co), "SETRESULT true")
					c, err := openFS(dir, enc)
					if err != nil {
						t.Fatal(err)
					}
					v, gerr := c.Get(key)
					got := describeGet(v, gerr, allowed)
					verdict := "ok"
					switch {
					case strings.HasPrefix(got, "PARTIAL") || strings.HasPrefix(got, "error"):
						verdict = "BAD"
					case setOK && got != "value:new":
						verdict = "BAD" // an acknowledged Set must be visible
					case !setOK && prev && got != "value:previous":
						verdict = "BAD" // a failed Set leaves the previous value
					case !setOK && !prev && got != "absent":
						verdict = "BAD"
					}
					// keys must not list temporaries
					if kl, ok := c.(interface {
						Keys(string) ([]string, error)
					}); ok {
						ks, _ := kl.Keys("")
						for _, kk := range ks {
							if kk != key {
								verdict = "BAD"
								got += " strayKey=" + hx(kk)
							}
						}
					}
					add("CUT enc=%v prev=%v prevlen=%+d len=%d limit=%d set_ok=%v get=%s %s", enc, prev, prevLen, n, k, setOK, got, verdict)
					os.RemoveAll(dir)
					if k%3 == 0 || k == total-1 {
						// the same Set, but the process is killed by the kernel in the write that reaches the limit
						dir2, _ := os.MkdirTemp("", "verif-killcut-")
						if prev {
							c2, err := openFS(dir2, enc)
							if err != nil {
								t.Fatal(err)
							}
							if err := c2.Set(key, allowed["previous"]); err != nil {
								t.Fatal(err)
							}
						}
						cmd2 := child("VERIF_CHILD=killcut", "VERIF_DIR="+dir2, "VERIF_ENC="+map[bool]string{true: "1", false: "0"}[enc],
							"VERIF_KEY="+key, "VERIF_LEN="+strconv.Itoa(n), "VERIF_LIMIT="+strconv.Itoa(k))
						co2, _ := cmd2.CombinedOutput()
						done2 := strings.Contains(string(co2), "SETRESULT true")
						c2, err := openFS(dir2, enc)
						if err != nil {
							t.Fatal(err)
						}
						v2, gerr2 := c2.Get(key)
						got2 := describeGet(v2, gerr2, allowed)
						verdict2 := "ok"
						switch {
						case strings.HasPrefix(got2, "PARTIAL") || strings.HasPrefix(got2, "error"):
							verdict2 = "BAD"
						case done2 && got2 != "value:new":
							verdict2 = "BAD"
						case !done2 && prev && got2 != "value:previous" && got2 != "value:new":
							verdict2 = "BAD"
						case !done2 && !prev && got2 != "absent" && got2 != "value:new":
							verdict2 = "BAD"
						}
						add("CUT kill=true enc=%v prev=%v prevlen=%+d len=%d limit=%d set_ok=%v get=%s %s", enc, prev, prevLen, n, k, done2, got2, verdict2)
						os.RemoveAll(dir2)
					}
				}
			}
		}
	}

	// ---- (2) kills ----
	kills := 24
	if thorough {
		kills = 300
	}
	for i := 0; i < kills; i++ {
		enc := i%2 == 1
		n := []int{100, 5000, 200000}[i%3]
		dir, _ := os.MkdirTemp("", "verif-kill-")
		key := "http://a.test/x#kill"
		cmd := child("VERIF_CHILD=loop", "VERIF_DIR="+dir, "VERIF_ENC="+map[bool]string{true: "1", false: "0"}[enc],
			"VERIF_KEY="+key, "VERIF_LEN="+strconv.Itoa(n))
		stdout, _ := cmd.StdoutPipe()
		if err := cmd.Start(); err != nil {
			t.Fatal(err)
		}
		buf := make([]byte, 64)
		_, _ = stdout.Read(buf) // READY
		time.Sleep(time.Duration(200+g.intn(4000)) * time.Microsecond)
		_ = cmd.Process.Kill()
		_ = cmd.Wait()
		c, err := openFS(dir, enc)
		if err != nil {
			t.Fatal(err)
		}
		v, gerr := c.Get(key)
		got := describeGet(v, gerr, map[string][]byte{"A": valueN('A', n), "B": valueN('B', n)})
		verdict := "ok"
		if strings.HasPrefix(got, "PARTIAL") || strings.HasPrefix(got, "error") {
			verdict = "BAD"
		}
		add("KILL enc=%v len=%d get=%s %s", enc, n, got, verdict)
		os.RemoveAll(dir)
	}

	// ---- (3) concurrent storm, linearizability of the per-key register ----
	storms := 6
	opsPer := 40
	if thorough {
		storms, opsPer = 60, 120
	}
	for s := 0; s < storms; s++ {
		enc := s%2 == 1
		dir, _ := os.MkdirTemp("", "verif-storm-")
		c, err := openFS(dir, enc)
		if err != nil {
			t.Fatal(err)
		}
		key := "http://a.test/x#storm"
		var mu sync.Mutex
		var hist []porcupine.Operation
		var wg sync.WaitGroup
		t0 := time.Now()
		nthreads := 6
		bad := ""
		for th := 0; th < nthreads; th++ {
			wg.Add(1)
			go func(th int) {
				defer wg.Done()
				lg := newG(seed+uint64(s*100+th), 0x57)
				for i := 0; i < opsPer; i++ {
					kind := lg.intn(10)
					call := time.Since(t0).Nanoseconds()
					var in, outv regOp
					switch {
					case kind < 4:
						id := th*1000 + i + 1
						val := valueN(byte(id%200), 50+lg.intn(3000))
						val[0] = byte(id % 251)
						in = regOp{Kind: "set", ID: id}
						err := c.Set(key, append([]byte(strconv.Itoa(id)+":"), val...))
						outv = regOp{OK: err == nil}
					case kind < 9:
						in = regOp{Kind: "get"}
						v, err := c.Get(key)
						if err != nil {
							if errors.Is(err, driver.ErrNotExist) {
								outv = regOp{OK: true, ID: 0}
							} else {
								outv = regOp{OK: false}
								mu.Lock()
								bad = "get error: " + err.Error()
								mu.Unlock()
							}
						} else {
							idx := bytes.IndexByte(v, ':')
							id, perr := strconv.Atoi(string(v[:max(idx, 0)]))
							if idx < 0 || perr != nil {
								mu.Lock()
								bad = fmt.Sprintf("unparsable value of length %d", len(v))
								mu.Unlock()
							}
							outv = regOp{OK: true, ID: id, Len: len(v)}
						}
					default:
						in = regOp{Kind: "del"}
						err := c.Delete(key)
						outv = regOp{OK: err == nil || errors.Is(err, driver.ErrNotExist)}
					}
					ret := time.Since(t0).Nanoseconds()
					mu.Lock()
					hist = append(hist, porcupine.Operation{ClientId: th, Input: in, Call: call, Output: outv, Return: ret})
					mu.Unlock()
				}
			}(th)
		}
		wg.Wait()
		res := porcupine.CheckOperations(registerModel, hist)
		verdict := "ok"
		if !res || bad != "" {
			verdict = "BAD"
		}
		add("STORM enc=%v ops=%d linearizable=%v note=%q %s", enc, len(hist), res, bad, verdict)
		os.RemoveAll(dir)
	}

	// ---- (4) a Set that outlives its operation timeout (WithTimeout): whatever Set returns and whenever the writing ends, a Get
	// — right away and while the write may still be going on — returns the previous value, the new one in full, or nothing ----
	for _, enc := range []bool{false, true} {
		for _, prev := range []bool{false, true} {
			for _, d := range []time.Duration{time.Nanosecond, 200 * time.Microsecond, 2 * time.Millisecond, 8 * time.Millisecond} {
				dir, _ := os.MkdirTemp("", "verif-timeout-")
				fo := []fscache.Option{fscache.WithBaseDir(dir)}
				if enc {
					fo = append(fo, fscache.WithEncryption(encKey))
				}
				key := "http://a.test/x#timeout"
				old := valueN('O', 3000)
				big := valueN('B', 6<<20)
				if prev {
					if c0, err := fscache.Open("verif", fo...); err == nil {
						_ = c0.Set(key, old)
					}
				}
				slow, err := fscache.Open("verif", append(fo, fscache.WithTimeout(d))...)
				reader, err2 := fscache.Open("verif", fo...)
				if err != nil || err2 != nil {
					add("TIMEOUTCUT enc=%v prev=%v timeout=%v harness: cannot open SKIP", enc, prev, d)
					os.RemoveAll(dir)
					continue
				}
				setErr := slow.Set(key, big)
				bad := ""
				seen := map[string]int{}
				for i := 0; i < 40 && bad == ""; i++ {
					got, gerr := reader.Get(key)
					switch {
					case gerr != nil && !prev:
						seen["absent"]++
					case gerr != nil:
						// with a previous value the key is never absent; an authentication failure of a partial file counts too
						bad = fmt.Sprintf("get failed although a previous value exists: %v", gerr)
					case bytes.Equal(got, big):
						seen["new"]++
					case prev && bytes.Equal(got, old):
						seen["old"]++
					default:
						bad = fmt.Sprintf("get returned %d bytes that are neither the previous value (%d) nor the new one (%d)", len(got), len(old), len(big))
					}
					time.Sleep(3 * time.Millisecond)
				}
				v := "ok"
				if bad != "" {
					v = "BAD"
				}
				add("TIMEOUTCUT enc=%v prev=%v timeout=%v set_timed_out=%v seen=%v problem=%q %s", enc, prev, d, setErr != nil, seen, bad, v)
				time.Sleep(30 * time.Millisecond)
				os.RemoveAll(dir)
			}
		}
	}

	sort.SliceStable(lines, func(i, j int) bool { return false })
	if err := writeLines(filepath.Join(out, "atomic.txt"), lines); err != nil {
		t.Fatal(err)
	}
}

type regOp struct {
	Kind string
	ID   int // id of the value set / read (0 = absent)
	OK   bool
	Len  int
}

// registerModel: one key, holding the id of the last value set (0 = absent).
var registerModel = porcupine.Model{
	Init: func() interface{} { return 0 },
	Step: func(state, input, output interface{}) (bool, interface{}) {
		st := state.(int)
		in := input.(regOp)
		out := output.(regOp)
		switch in.Kind {
		case "set":
			if out.OK {
				return true, in.ID
			}
			return true, st // a failed set has no effect
		case "get":
			if !out.OK {
				return false, st
			}
			return out.ID == st, st
		default:
			return true, 0
		}
	},
	Equal: func(a, b interface{}) bool { return a.(int) == b.(int) },
}

// TestSyscallProgram runs the fixed little program under strace and writes the trace.
func TestSyscallProgram(t *testing.T) {
	out := os.Getenv("VERIF_OUT")
	if out == "" {
		t.Skip("VERIF_OUT not set")
	}
	for _, enc := range []string{"0", "1"} {
		dir, _ := os.MkdirTemp("", "verif-strace-")
		trace := filepath.Join(out, "strace-"+enc+".txt")
		cmd := exec.Command("strace", "-f", "-o", trace, "-e",
			"trace=openat,write,fsync,close,renameat,renameat2,rename,unlinkat,unlink,mkdirat,read,ftruncate",
			os.Args[0], "-test.run", "^TestFsChild$", "-test.count=1")
		cmd.Env = append(os.Environ(), "VERIF_CHILD=once", "VERIF_DIR="+dir, "VERIF_ENC="+enc, "VERIF_KEY=http://a.test/x#trace", "VERIF_LEN=100")
		co, err := cmd.CombinedOutput()
		if err != nil {
			t.Logf("strace failed: %v %s", err, co)
		}
		_ = os.WriteFile(filepath.Join(out, "strace-"+enc+".stdout"), co, 0o644)
		os.RemoveAll(dir)
	}
}
