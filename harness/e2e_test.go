package harness

import (
	"fmt"
	"net/http"
	"os"
	"path/filepath"
	"strconv"
	"strings"
	"testing"
)

func envInt(name string, def int) int {
	if v := os.Getenv(name); v != "" {
		if n, err := strconv.Atoi(v); err == nil {
			return n
		}
	}
	return def
}

func canonCase(c *Case) {
	for i := range c.Reqs {
		for j := range c.Reqs[i].Hdrs {
			c.Reqs[i].Hdrs[j].Name = http.CanonicalHeaderKey(c.Reqs[i].Hdrs[j].Name)
		}
	}
	fix := func(r *Rep) {
		for j := range r.Hdrs {
			r.Hdrs[j].Name = http.CanonicalHeaderKey(r.Hdrs[j].Name)
		}
	}
	for i := range c.Script {
		fix(&c.Script[i].Plain)
		fix(&c.Script[i].Cond)
	}
}

// canonTwin returns a copy of c with each respelled Cache-Control field replaced by the canonical
// single-line spelling of the same directive list, or nil when nothing was respelled.
func canonTwin(g *G, c *Case) *Case {
	changed := false
	fixH := func(hs []Hdr) []Hdr {
		out := make([]Hdr, len(hs))
		for i, h := range hs {
			out[i] = Hdr{h.Name, append([]string(nil), h.Vals...)}
			if h.Name == "Cache-Control" {
				if cv, ok := g.canon[strings.Join(h.Vals, "\x00")]; ok && (len(h.Vals) != 1 || h.Vals[0] != cv) {
					out[i].Vals = []string{cv}
					changed = true
				}
			}
		}
		return out
	}
	tw := &Case{ID: c.ID + "~c", Stream: c.Stream, SWRTimeout: c.SWRTimeout, Note: c.Note}
	for _, r := range c.Reqs {
		r2 := r
		r2.Hdrs = fixH(r.Hdrs)
		tw.Reqs = append(tw.Reqs, r2)
	}
	for _, e := range c.Script {
		e2 := e
		e2.Plain.Hdrs = fixH(e.Plain.Hdrs)
		e2.Cond.Hdrs = fixH(e.Cond.Hdrs)
		tw.Script = append(tw.Script, e2)
	}
	if !changed {
		return nil
	}
	return tw
}

// TestE2E generates VERIF_N cases for profile VERIF_PROFILE with seed VERIF_SEED, runs them against
// the real transport and writes cases.txt and impl.txt into VERIF_OUT.
func TestE2E(t *testing.T) {
	out := os.Getenv("VERIF_OUT")
	if out == "" {
		t.Skip("VERIF_OUT not set")
	}
	seed := uint64(envInt("VERIF_SEED", 1))
	n := envInt("VERIF_N", 100)
	prof := profileByName(os.Getenv("VERIF_PROFILE"))
	ropts := runOpts{kind: os.Getenv("VERIF_BACKEND")}
	g := newG(seed, 0x9e3779b97f4a7c15)
	var cases, impl []string
	// the case being run is kept on disk, so that a crash of the process (a panic in a goroutine the
	// transport started cannot be recovered) can be attributed to an input
	current := filepath.Join(out, "current.case")
	for _, c := range corpusCases() {
		_ = os.WriteFile(current, []byte(c.Encode()), 0o644)
		cases = append(cases, c.Encode())
		impl = append(impl, runCase(t, c, ropts)...)
	}
	for i := 0; i < n; i++ {
		var c *Case
		c = g.genFor(prof, fmt.Sprintf("%s-%d-%d", prof.Name, seed, i), i)
		canonCase(c)
		_ = os.WriteFile(current, []byte(c.Encode()), 0o644)
		cases = append(cases, c.Encode())
		var ops []opInfo
		ro := ropts
		// every other history runs with a debug-level logger (into io.Discard): the attribute values of the log records
		// are computed then, which they are not at the default level
		ro.debug = i%2 == 1
		if os.Getenv("VERIF_FAULTS") != "" {
			ro.ops = &ops
		}
		impl = append(impl, runCase(t, c, ro)...)
		if os.Getenv("VERIF_FAULTS") != "" {
			// the same history with store operations failing (monitor only: the model's store does not fail).
			// Plan 0: random operations; plan 1: an operation of a background revalidation when there is one
			// (the re-read of the entry, the index read, a write), else random again; plan 2: below.
			var bgOps []opInfo
			for _, o := range ops {
				if o.Bg {
					bgOps = append(bgOps, o)
				}
			}
			// Plan 2: exactly one failing write (a Set or a Delete, chosen uniformly among the writes of the history) and
			// nothing else: every write site singly — the entry or the index of a miss, of a foreground 304 write-back, of a
			// replacement, of a background write-back, a delete of an invalidation.
			var writeOps []opInfo
			for _, o := range ops {
				if o.Op == "set" || o.Op == "del" {
					writeOps = append(writeOps, o)
				}
			}
			var entryGets []opInfo
			for _, o := range ops {
				if o.Op == "get" && strings.Contains(o.Key, "#") {
					entryGets = append(entryGets, o)
				}
			}
			for rep := 0; rep < 4; rep++ {
				fc := *c
				fc.ID = fmt.Sprintf("%s~f%d", c.ID, rep)
				fc.Stream = "W"
				fc.Faults = nil
				if rep == 3 {
					// Plan 3: one read of a stored response returns its bytes with a single byte damaged
					if len(entryGets) == 0 {
						continue
					}
					o := entryGets[g.intn(len(entryGets))]
					fc.Faults = []FaultSpec{{N: o.N, Kind: fmt.Sprintf("dmg%d", g.intn(1<<20))}}
					_ = os.WriteFile(current, []byte(fc.Encode()), 0o644)
					cases = append(cases, fc.Encode())
					impl = append(impl, runCase(t, &fc, ropts)...)
					continue
				}
				if rep == 2 {
					if len(writeOps) == 0 {
						continue
					}
					o := writeOps[g.intn(len(writeOps))]
					fc.Faults = []FaultSpec{{N: o.N, Kind: "err"}}
					_ = os.WriteFile(current, []byte(fc.Encode()), 0o644)
					cases = append(cases, fc.Encode())
					impl = append(impl, runCase(t, &fc, ropts)...)
					continue
				}
				if rep == 1 && len(bgOps) > 0 {
					o := bgOps[g.intn(len(bgOps))]
					kind := "err"
					if o.Op == "get" {
						kind = g.pick("err", "err", "garbage", "trunc", fmt.Sprintf("json%d", g.intn(64)))
					}
					fc.Faults = append(fc.Faults, FaultSpec{N: o.N, Kind: kind})
				}
				nf := 1 + g.intn(4)
				if len(fc.Faults) > 0 {
					nf = g.intn(2)
				}
				maxN := len(ops) + 2
				for j := 0; j < nf; j++ {
					fc.Faults = append(fc.Faults, FaultSpec{N: g.intn(maxN), Kind: g.pick("err", "err", "garbage", "null", "trunc", fmt.Sprintf("json%d", g.intn(64)))})
				}
				_ = os.WriteFile(current, []byte(fc.Encode()), 0o644)
				cases = append(cases, fc.Encode())
				impl = append(impl, runCase(t, &fc, ropts)...)
			}
		}
		if os.Getenv("VERIF_TWINS") != "" {
			// the same history with every respelled Cache-Control field in its canonical spelling (C12)
			if tw := canonTwin(g, c); tw != nil {
				_ = os.WriteFile(current, []byte(tw.Encode()), 0o644)
				cases = append(cases, tw.Encode())
				impl = append(impl, runCase(t, tw, ropts)...)
			}
		}
	}
	_ = os.Remove(current)
	if err := writeLines(filepath.Join(out, "cases.txt"), cases); err != nil {
		t.Fatal(err)
	}
	reqNotesMu.Lock()
	notes := append([]string(nil), reqNotes...)
	reqNotesMu.Unlock()
	if err := writeLines(filepath.Join(out, "reqnotes.txt"), notes); err != nil {
		t.Fatal(err)
	}
	if err := writeLines(filepath.Join(out, "impl.txt"), impl); err != nil {
		t.Fatal(err)
	}
}

func profileByName(name string) *Profile {
	p := baseProfile
	if q, ok := profiles[name]; ok {
		p = q
	}
	return &p
}

var profiles = map[string]Profile{}
