package harness

import (
	"bytes"
	"fmt"
	"io"
	"net/http"
	"os"
	"path/filepath"
	"runtime"
	"sort"
	"strings"
	"sync"
	"testing"
	"time"
	"unicode/utf8"

	"github.com/bartventer/httpcache"
	"github.com/bartventer/httpcache/store/driver"
	"github.com/bartventer/httpcache/store/fscache"
	"github.com/bartventer/httpcache/store/memcache"
)

// ---------- deterministic scenarios that the generated histories do not reach ----------
//
// Each needs a state of the store that a history of requests against the in-memory backend does not produce: a key
// length at which the file-system backend's path fragments line up (C09), a reference whose entry has been removed
// behind the cache's back (C07), a directory holding files the cache did not write (C17), a selecting field sent on
// several lines across a write-back (C19).  One line per scenario instance: SCENARIO prop=<id> code=<code> name=... | detail ok|BAD

// scOrigin: one representation per (path, Accept-Language); every unsafe request succeeds and bumps the generation
type scOrigin struct {
	mu    sync.Mutex
	gen   int
	vary  string
	cc    string
	calls []string
}

func (o *scOrigin) RoundTrip(req *http.Request) (*http.Response, error) {
	mk := func(status int, h http.Header, body string) *http.Response {
		return &http.Response{Status: fmt.Sprintf("%d %s", status, http.StatusText(status)), StatusCode: status, Proto: "HTTP/1.1", ProtoMajor: 1, ProtoMinor: 1,
			Header: h, Body: io.NopCloser(strings.NewReader(body)), ContentLength: int64(len(body)), Request: req}
	}
	o.mu.Lock()
	defer o.mu.Unlock()
	lang := strings.Join(req.Header.Values("Accept-Language"), "|")
	o.calls = append(o.calls, fmt.Sprintf("%s lang=%s inm=%s", req.Method, lang, req.Header.Get("If-None-Match")))
	if req.Method != "GET" {
		o.gen++
		return mk(200, http.Header{"Content-Type": {"text/plain"}}, "done"), nil
	}
	first := ""
	if vs := req.Header.Values("Accept-Language"); len(vs) > 0 {
		first = vs[0]
	}
	etag := fmt.Sprintf(`"%s-g%d"`, first, o.gen)
	h := http.Header{"Etag": {etag}, "Cache-Control": {o.cc}, "Date": {time.Now().UTC().Format(http.TimeFormat)}}
	if o.vary != "" {
		h.Set("Vary", o.vary)
	}
	if inm := req.Header.Get("If-None-Match"); inm != "" && inm == etag {
		return mk(304, h, ""), nil
	}
	return mk(200, h, fmt.Sprintf("body-%s-g%d", first, o.gen)), nil
}

func (o *scOrigin) ncalls() int {
	o.mu.Lock()
	defer o.mu.Unlock()
	return len(o.calls)
}

type scResp struct{ status, body string }

func scDo(rt http.RoundTripper, method, url string, hdr http.Header) scResp {
	req, _ := http.NewRequest(method, url, nil)
	for k, vs := range hdr {
		req.Header[k] = append([]string(nil), vs...)
	}
	resp, err := rt.RoundTrip(req)
	if err != nil {
		return scResp{"ERR:" + err.Error(), ""}
	}
	b, _ := io.ReadAll(resp.Body)
	resp.Body.Close()
	return scResp{resp.Header.Get("X-Httpcache-Status"), string(b)}
}

// C09 (and the backend underneath): a fresh stored response is served from the store for every length of the URL,
// on the file-system backend too, where the key becomes a path of fragments
func scenarioLongKeys(encrypted bool) []string {
	var lines []string
	name := "fs"
	if encrypted {
		name = "fsenc"
	}
	dir, err := os.MkdirTemp("", "verif-sc-")
	if err != nil {
		return []string{fmt.Sprintf("SCENARIO prop=C09 code=C09:long-key-not-served name=long-keys-%s | harness: %v SKIP\n", name, err)}
	}
	defer os.RemoveAll(dir)
	fo := []fscache.Option{fscache.WithBaseDir(dir)}
	if encrypted {
		fo = append(fo, fscache.WithEncryption(encKey))
	}
	open := func() (http.RoundTripper, *scOrigin, func()) {
		conn, err := fscache.Open("verif", fo...)
		if err != nil {
			return nil, nil, func() {}
		}
		dsn := registerConn(conn)
		org := &scOrigin{cc: "max-age=600"}
		return httpcache.NewTransport(dsn, httpcache.WithUpstream(org)), org, func() { unregisterConn(dsn) }
	}
	rt, org, done := open()
	if rt == nil {
		return []string{fmt.Sprintf("SCENARIO prop=C09 code=C09:long-key-not-served name=long-keys-%s | harness: cannot open the backend SKIP\n", name)}
	}
	base := "http://a.test/"
	var bad []string
	n := 0
	urlOf := func(l int) string { return base + strings.Repeat("p", l-len(base)) }
	for l := 150; l <= 340; l++ {
		u := urlOf(l)
		r1 := scDo(rt, "GET", u, nil)
		r2 := scDo(rt, "GET", u, nil)
		n++
		if r1.status != "MISS" || r2.status != "HIT" || r2.body != r1.body {
			bad = append(bad, fmt.Sprintf("len=%d first=%s second=%s", l, r1.status, r2.status))
		}
	}
	before := org.ncalls()
	done()
	// a new handle on the same directory: everything is still there
	rt2, org2, done2 := open()
	if rt2 != nil {
		for l := 150; l <= 340; l++ {
			r3 := scDo(rt2, "GET", urlOf(l), nil)
			if r3.status != "HIT" {
				bad = append(bad, fmt.Sprintf("len=%d after-reopen=%s", l, r3.status))
			}
		}
		_ = org2
		done2()
	}
	v := "ok"
	if len(bad) > 0 {
		v = "BAD"
	}
	if len(bad) > 6 {
		bad = append(bad[:6], fmt.Sprintf("... %d more", len(bad)-6))
	}
	lines = append(lines, fmt.Sprintf("SCENARIO prop=C09 code=C09:long-key-not-served name=long-keys-%s | urls=%d (key lengths 150..340) origin_calls=%d not_served=%q %s\n", name, n, before, strings.Join(bad, " ; "), v))
	return lines
}

// rawConn gives the scenario direct access to what is stored
type rawConn struct {
	driver.Conn
	mu   sync.Mutex
	live map[string]bool
}

func (c *rawConn) Set(k string, v []byte) error {
	err := c.Conn.Set(k, v)
	if err == nil {
		c.mu.Lock()
		c.live[k] = true
		c.mu.Unlock()
	}
	return err
}
func (c *rawConn) Delete(k string) error {
	err := c.Conn.Delete(k)
	if err == nil {
		c.mu.Lock()
		delete(c.live, k)
		c.mu.Unlock()
	}
	return err
}
func (c *rawConn) keys() []string {
	c.mu.Lock()
	defer c.mu.Unlock()
	var ks []string
	for k := range c.live {
		ks = append(ks, k)
	}
	return ks
}

// C07: the index lists a response that is no longer there (evicted by an external clean-up, as the file-system backend's
// documentation suggests with update_mtime and find -delete): the unsafe request still invalidates everything else
func scenarioDanglingRef(victim string) string {
	rc := &rawConn{Conn: memcache.Open(), live: map[string]bool{}}
	dsn := registerConn(rc)
	defer unregisterConn(dsn)
	org := &scOrigin{vary: "Accept-Language", cc: "max-age=600"}
	rt := httpcache.NewTransport(dsn, httpcache.WithUpstream(org))
	u := "http://a.test/doc"
	en, fr := http.Header{"Accept-Language": {"en"}}, http.Header{"Accept-Language": {"fr"}}
	scDo(rt, "GET", u, en)
	scDo(rt, "GET", u, fr)
	removed := 0
	for _, k := range rc.keys() {
		if v, err := rc.Conn.Get(k); err == nil && bytes.Contains(v, []byte("body-"+victim+"-g0")) {
			if rc.Conn.Delete(k) == nil { // behind the cache's back: the tracking wrapper is bypassed on purpose
				rc.mu.Lock()
				delete(rc.live, k)
				rc.mu.Unlock()
				removed++
			}
		}
	}
	post := scDo(rt, "POST", u, nil)
	left := rc.keys()
	other := fr
	otherName := "fr"
	if victim == "fr" {
		other, otherName = en, "en"
	}
	after := scDo(rt, "GET", u, other)
	v := "ok"
	var problems []string
	if removed != 1 {
		problems = append(problems, fmt.Sprintf("harness: %d entries removed", removed))
	} else {
		if after.status == "HIT" || strings.HasSuffix(after.body, "-g0") {
			problems = append(problems, fmt.Sprintf("stale-after-unsafe: the %s variant is answered %s with %q after the successful POST", otherName, after.status, after.body))
		}
		if len(left) != 0 {
			problems = append(problems, fmt.Sprintf("%d keys left after the POST: %q", len(left), left))
		}
	}
	if len(problems) > 0 {
		v = "BAD"
	}
	return fmt.Sprintf("SCENARIO prop=C07 code=C07:dangling-reference-stops-invalidation name=dangling-ref-%s | post=%s other_variant_after=%s/%s keys_left=%d problems=%q %s\n",
		victim, post.status, after.status, after.body, len(left), strings.Join(problems, " ; "), v)
}

// C17: files the encrypting backend did not write — the plaintext files of the same cache without encryption — are not served
func scenarioPlaintextInEncryptedDir() []string {
	var lines []string
	dir, err := os.MkdirTemp("", "verif-sc-")
	if err != nil {
		return nil
	}
	defer os.RemoveAll(dir)
	u := "http://a.test/secret"
	// 1. a transport without encryption fills the directory
	plain, err := fscache.Open("verif", fscache.WithBaseDir(dir))
	if err != nil {
		return nil
	}
	d1 := registerConn(plain)
	o1 := &scOrigin{cc: "max-age=600"}
	scDo(httpcache.NewTransport(d1, httpcache.WithUpstream(o1)), "GET", u, nil)
	unregisterConn(d1)
	// 2. a transport with encryption on the same directory
	enc, err := fscache.Open("verif", fscache.WithBaseDir(dir), fscache.WithEncryption(encKey))
	if err != nil {
		return nil
	}
	d2 := registerConn(enc)
	o2 := &scOrigin{cc: "max-age=600"}
	o2.gen = 7
	r := scDo(httpcache.NewTransport(d2, httpcache.WithUpstream(o2)), "GET", u, nil)
	unregisterConn(d2)
	v := "ok"
	if r.status == "HIT" || r.status == "STALE" || r.body != "body--g7" || o2.ncalls() != 1 {
		v = "BAD"
	}
	lines = append(lines, fmt.Sprintf("SCENARIO prop=C17 code=C17:plaintext-file-served name=plaintext-dir | encrypted transport on a directory filled without encryption: status=%s body=%q origin_calls=%d %s\n", r.status, r.body, o2.ncalls(), v))
	// 3. driver level: a stored (encrypted) file is replaced wholesale by the plaintext bytes of the same value, and by other text
	value := []byte("HTTP/1.1 200 OK\r\nContent-Length: 5\r\n\r\nhello")
	for i, repl := range [][]byte{value, []byte("plain text, longer than a nonce, all of it printable"), []byte("[{\"id\":\"k#0\"}]             "), bytes.Repeat([]byte("A"), 12), bytes.Repeat([]byte("\t"), 40)} {
		line := func() string {
			dir2, err := os.MkdirTemp("", "verif-sc-")
			if err != nil {
				return ""
			}
			defer os.RemoveAll(dir2)
			enc2, err := fscache.Open("verif", fscache.WithBaseDir(dir2), fscache.WithEncryption(encKey))
			if err != nil {
				return ""
			}
			if err := enc2.Set("k", value); err != nil {
				return ""
			}
			var files []string
			_ = filepath.Walk(dir2, func(p string, info os.FileInfo, err error) error {
				if err == nil && !info.IsDir() {
					files = append(files, p)
				}
				return nil
			})
			if len(files) != 1 {
				return fmt.Sprintf("SCENARIO prop=C17 code=C17:replaced-file-accepted name=replaced-file-%d | harness: %d files after one Set SKIP\n", i, len(files))
			}
			if err := os.WriteFile(files[0], repl, 0o600); err != nil {
				return ""
			}
			got, gerr := enc2.Get("k")
			v := "ok"
			if gerr == nil {
				v = "BAD"
			}
			return fmt.Sprintf("SCENARIO prop=C17 code=C17:replaced-file-accepted name=replaced-file-%d | the file replaced by %d bytes of plain text (%q...): get error=%v returned=%d bytes %s\n", i, len(repl), string(repl[:min(12, len(repl))]), gerr != nil, len(got), v)
		}()
		if line != "" {
			lines = append(lines, line)
		}
	}
	return lines
}

// C19: a selecting field sent on several field lines, across write-backs of the selected entry: the footprint stays that of one
// variant, and an invalidation leaves nothing
func scenarioMultiLineSelecting() string {
	rc := &rawConn{Conn: memcache.Open(), live: map[string]bool{}}
	dsn := registerConn(rc)
	defer unregisterConn(dsn)
	org := &scOrigin{vary: "Accept-Language", cc: "max-age=600"}
	rt := httpcache.NewTransport(dsn, httpcache.WithUpstream(org))
	u := "http://a.test/doc"
	single := http.Header{"Accept-Language": {"en"}}
	multi := http.Header{"Accept-Language": {"en", "fr"}}
	multiNC := http.Header{"Accept-Language": {"en", "fr"}, "Cache-Control": {"no-cache"}}
	singleNC := http.Header{"Accept-Language": {"en"}, "Cache-Control": {"no-cache"}}
	var counts []int
	var statuses []string
	for _, h := range []http.Header{single, multi, multiNC, singleNC, multiNC, multi, single, multiNC} {
		r := scDo(rt, "GET", u, h)
		statuses = append(statuses, r.status)
		counts = append(counts, len(rc.keys()))
	}
	scDo(rt, "POST", u, nil)
	left := rc.keys()
	var problems []string
	for i, n := range counts {
		if n > 2 {
			problems = append(problems, fmt.Sprintf("footprint: %d keys after request %d (one resource, one variant: the index and one entry)", n, i+1))
			break
		}
	}
	if len(left) != 0 {
		problems = append(problems, fmt.Sprintf("orphan-after-invalidation: %d keys left after the unsafe request: %q", len(left), left))
	}
	v := "ok"
	if len(problems) > 0 {
		v = "BAD"
	}
	return fmt.Sprintf("SCENARIO prop=C19 code=C19:multi-line-selecting-field-footprint name=multi-line-selecting | statuses=%s keys=%v keys_after_post=%d problems=%q %s\n",
		strings.Join(statuses, ","), counts, len(left), strings.Join(problems, " ; "), v)
}

// C19: selecting values that the index does not hand back as they were written (bytes that are not UTF-8 come back from the JSON
// index as U+FFFD): the same few requests repeated — the footprint does not grow with the repetitions, and an invalidation
// leaves nothing
func scenarioUnprintableSelecting() string {
	rc := &rawConn{Conn: memcache.Open(), live: map[string]bool{}}
	dsn := registerConn(rc)
	defer unregisterConn(dsn)
	org := &scOrigin{vary: "X-Session", cc: "max-age=600"}
	rt := httpcache.NewTransport(dsn, httpcache.WithUpstream(org))
	u := "http://a.test/doc"
	a := http.Header{"X-Session": {"name=Jos\xe9"}}
	b := http.Header{"X-Session": {"name=\xff\xfe; id=1"}}
	c := http.Header{"X-Session": {"plain"}}
	var counts []int
	for round := 0; round < 12; round++ {
		for _, h := range []http.Header{a, b, c} {
			scDo(rt, "GET", u, h)
		}
		counts = append(counts, len(rc.keys()))
	}
	scDo(rt, "POST", u, nil)
	left := rc.keys()
	var problems []string
	if counts[len(counts)-1] > counts[1] {
		problems = append(problems, fmt.Sprintf("footprint grows with repetitions: %d keys after 2 rounds, %d after %d", counts[1], counts[len(counts)-1], len(counts)))
	}
	if counts[len(counts)-1] > 4 {
		problems = append(problems, fmt.Sprintf("footprint: %d keys for one resource and three variants (the index and three entries at most)", counts[len(counts)-1]))
	}
	if len(left) != 0 {
		problems = append(problems, fmt.Sprintf("orphan-after-invalidation: %d keys left after the unsafe request", len(left)))
	}
	v := "ok"
	if len(problems) > 0 {
		v = "BAD"
	}
	return fmt.Sprintf("SCENARIO prop=C19 code=C19:non-utf8-selecting-value-footprint name=unprintable-selecting | keys_per_round=%v keys_after_post=%d problems=%q %s\n",
		counts, len(left), strings.Join(problems, " ; "), v)
}

// C10: the reply that stale-if-error sets aside has a body that never ends (or ends in an error): the caller gets the stored
// response without waiting for it
type stallBody struct {
	release chan struct{}
	fail    bool
	sent    bool
}

func (b *stallBody) Read(p []byte) (int, error) {
	if !b.sent {
		b.sent = true
		return copy(p, "partial"), nil
	}
	if b.fail {
		return 0, io.ErrUnexpectedEOF
	}
	<-b.release
	return 0, io.EOF
}
func (b *stallBody) Close() error { return nil }

type sieOrigin struct {
	mu    sync.Mutex
	calls int
	body  *stallBody
}

func (o *sieOrigin) RoundTrip(req *http.Request) (*http.Response, error) {
	o.mu.Lock()
	o.calls++
	n := o.calls
	o.mu.Unlock()
	if n == 1 {
		h := http.Header{"Cache-Control": {"max-age=0, stale-if-error=600"}, "Etag": {`"v1"`}, "Date": {time.Now().UTC().Format(http.TimeFormat)}}
		return &http.Response{Status: "200 OK", StatusCode: 200, Proto: "HTTP/1.1", ProtoMajor: 1, ProtoMinor: 1, Header: h,
			Body: io.NopCloser(strings.NewReader("good")), ContentLength: 4, Request: req}, nil
	}
	return &http.Response{Status: "503 Service Unavailable", StatusCode: 503, Proto: "HTTP/1.1", ProtoMajor: 1, ProtoMinor: 1, Header: http.Header{},
		Body: o.body, ContentLength: -1, Request: req}, nil
}

func scenarioErrorBody(fail bool) string {
	dsn := registerConn(memcache.Open())
	defer unregisterConn(dsn)
	org := &sieOrigin{body: &stallBody{release: make(chan struct{}), fail: fail}}
	rt := httpcache.NewTransport(dsn, httpcache.WithUpstream(org))
	u := "http://a.test/doc"
	scDo(rt, "GET", u, nil)
	time.Sleep(1100 * time.Millisecond)
	done := make(chan scResp, 1)
	go func() { done <- scDo(rt, "GET", u, nil) }()
	var r scResp
	hung := false
	select {
	case r = <-done:
	case <-time.After(3 * time.Second):
		hung = true
	}
	close(org.body.release)
	if hung {
		r = <-done
	}
	name, prop, code := "stalled-error-body", "C10", "C10:hang"
	if fail {
		name, prop, code = "failing-error-body", "C13", "C13:stored-response-not-returned"
	}
	v := "ok"
	var problems []string
	if hung {
		problems = append(problems, "hang: RoundTrip had not returned after 3 s; it was waiting for the body of the 503 that stale-if-error sets aside")
	}
	if r.status != "STALE" || r.body != "good" {
		problems = append(problems, fmt.Sprintf("stored-response-not-returned: got %s %q", r.status, r.body))
	}
	if len(problems) > 0 {
		v = "BAD"
	}
	return fmt.Sprintf("SCENARIO prop=%s code=%s name=%s | answer=%s/%q hung=%v problems=%q %s\n", prop, code, name, r.status, r.body, hung, strings.Join(problems, " ; "), v)
}

// C14: a temporary file left in the directory of a long key by a Set that was interrupted (or is in flight) is not a key: listing
// still works and returns exactly the live keys
func scenarioKeysWithTempFile(encrypted bool) string {
	name := "temp-file-fs"
	fo := []fscache.Option{}
	if encrypted {
		name = "temp-file-fsenc"
		fo = append(fo, fscache.WithEncryption(encKey))
	}
	dir, err := os.MkdirTemp("", "verif-sc-")
	if err != nil {
		return ""
	}
	defer os.RemoveAll(dir)
	conn, err := fscache.Open("verif", append(fo, fscache.WithBaseDir(dir))...)
	if err != nil {
		return ""
	}
	long := "http://a.test/" + strings.Repeat("k", 240)
	short := "http://a.test/short"
	_ = conn.Set(long, []byte("v-long"))
	_ = conn.Set(long+"#1", []byte("v-long-entry"))
	_ = conn.Set(short, []byte("v-short"))
	planted := 0
	_ = filepath.Walk(dir, func(p string, info os.FileInfo, err error) error {
		if err == nil && info.IsDir() && p != dir {
			if os.WriteFile(filepath.Join(p, ".tmp-0123456789abcdef"), []byte("partial"), 0o600) == nil {
				planted++
			}
		}
		return nil
	})
	type lister interface {
		Keys(prefix string) ([]string, error)
	}
	l, ok := any(conn).(lister)
	if !ok {
		return fmt.Sprintf("SCENARIO prop=C14 code=C14:temp-file-listed name=%s | harness: the backend has no Keys SKIP\n", name)
	}
	keys, kerr := l.Keys("")
	sort.Strings(keys)
	want := []string{long, long + "#1", short}
	sort.Strings(want)
	v := "ok"
	problem := ""
	if kerr != nil {
		v, problem = "BAD", "Keys failed: "+kerr.Error()
	} else if fmt.Sprint(keys) != fmt.Sprint(want) {
		v, problem = "BAD", fmt.Sprintf("Keys returned %d keys, %d are live", len(keys), len(want))
	}
	return fmt.Sprintf("SCENARIO prop=C14 code=C14:temp-file-listed name=%s | temp_files_planted=%d keys=%d problem=%q %s\n", name, planted, len(keys), problem, v)
}

// C15: what Get returned stays what it was: a later Get (of another key, through the same handle) does not write into it
func scenarioGetResultStable(encrypted bool) string {
	name := "get-result-fs"
	fo := []fscache.Option{}
	if encrypted {
		name = "get-result-fsenc"
		fo = append(fo, fscache.WithEncryption(encKey))
	}
	dir, err := os.MkdirTemp("", "verif-sc-")
	if err != nil {
		return ""
	}
	defer os.RemoveAll(dir)
	conn, err := fscache.Open("verif", append(fo, fscache.WithBaseDir(dir))...)
	if err != nil {
		return ""
	}
	old := runtime.GOMAXPROCS(1)
	defer runtime.GOMAXPROCS(old)
	bad := ""
	for round := 0; round < 6 && bad == ""; round++ {
		v1 := bytes.Repeat([]byte{byte('a' + round)}, 48<<10)
		v2 := bytes.Repeat([]byte{byte('A' + round)}, 16<<10)
		_ = conn.Set("k1", v1)
		_ = conn.Set("k2", v2)
		g1, e1 := conn.Get("k1")
		g2, e2 := conn.Get("k2")
		g3, e3 := conn.Get("k2")
		if e1 != nil || e2 != nil || e3 != nil {
			bad = fmt.Sprintf("harness: get failed: %v %v %v", e1, e2, e3)
		} else if !bytes.Equal(g1, v1) {
			bad = fmt.Sprintf("the %d bytes returned for k1 changed after later Gets (first difference at %d)", len(g1), firstDiff(g1, v1))
		} else if !bytes.Equal(g2, v2) || !bytes.Equal(g3, v2) {
			bad = "the bytes returned for k2 changed after a later Get"
		}
	}
	v := "ok"
	if bad != "" {
		v = "BAD"
	}
	return fmt.Sprintf("SCENARIO prop=C15 code=C15:get-result-overwritten name=%s | problem=%q %s\n", name, bad, v)
}

// C16: the caller's request is not modified — also not when its header map holds keys that are not in canonical form (a map
// filled by hand or shared between requests): miss, hit, validation, unsafe request
func scenarioNonCanonicalRequestKeys() string {
	dsn := registerConn(memcache.Open())
	defer unregisterConn(dsn)
	org := &scOrigin{vary: "Accept-Language", cc: "max-age=600"}
	rt := httpcache.NewTransport(dsn, httpcache.WithUpstream(org))
	u := "http://a.test/doc"
	shared := http.Header{"accept-language": {"de"}, "X-TRACE": {"t1", "t2"}, "cache-control": {"max-stale=5"}, "User-Agent": {"verif"}}
	snap := func() string {
		var ks []string
		for k, vs := range shared {
			ks = append(ks, fmt.Sprintf("%q=%q", k, vs))
		}
		sort.Strings(ks)
		return strings.Join(ks, ",")
	}
	before := snap()
	var problems []string
	for i, m := range []string{"GET", "GET", "POST", "GET"} {
		req, _ := http.NewRequest(m, u, nil)
		req.Header = shared // the caller's own map, used as it is
		if i == 1 {
			req.Header = shared
		}
		resp, err := rt.RoundTrip(req)
		if err == nil {
			io.Copy(io.Discard, resp.Body)
			resp.Body.Close()
		}
		if after := snap(); after != before {
			problems = append(problems, fmt.Sprintf("request-modified: after request %d (%s) the caller's header map is {%s}, it was {%s}", i+1, m, after, before))
			break
		}
	}
	v := "ok"
	if len(problems) > 0 {
		v = "BAD"
	}
	return fmt.Sprintf("SCENARIO prop=C16 code=C16:request-modified name=non-canonical-keys | problems=%q %s\n", strings.Join(problems, " ; "), v)
}

// C17: a stored file replaced by ANOTHER stored file of the same cache (a ciphertext the backend wrote itself, for another key) is a
// modified file like any other: it is rejected on read, and the transport does not answer one URI with the response of another
func scenarioSwappedFiles() []string {
	var lines []string
	dir, err := os.MkdirTemp("", "verif-sc-")
	if err != nil {
		return nil
	}
	defer os.RemoveAll(dir)
	conn, err := fscache.Open("verif", fscache.WithBaseDir(dir), fscache.WithEncryption(encKey))
	if err != nil {
		return nil
	}
	files := func() map[string][]byte {
		m := map[string][]byte{}
		_ = filepath.Walk(dir, func(p string, info os.FileInfo, err error) error {
			if err == nil && !info.IsDir() {
				b, _ := os.ReadFile(p)
				m[p] = b
			}
			return nil
		})
		return m
	}
	// short keys (one file name each), and long keys of equal length that differ only near their start: the file-system backend
	// splits those into a chain of directories, and the two files have the same base name
	tail := strings.Repeat("p", 230)
	for _, pr := range [][3]string{{"key-a", "key-b", "moved-file"}, {"http://a.test/alice/" + tail, "http://a.test/bobby/" + tail, "moved-file-long-keys"}} {
		ka, kb, name := pr[0], pr[1], pr[2]
		before := files()
		_ = conn.Set(ka, []byte("value of a"))
		fa := files()
		_ = conn.Set(kb, []byte("value of b, another one"))
		var pa, pb string
		for p := range files() {
			if _, old := before[p]; old {
				continue
			}
			if _, ok := fa[p]; ok {
				pa = p
			} else {
				pb = p
			}
		}
		if pa == "" || pb == "" {
			lines = append(lines, fmt.Sprintf("SCENARIO prop=C17 code=C17:moved-file-accepted name=%s | harness: files not found SKIP\n", name))
			continue
		}
		bb, _ := os.ReadFile(pb)
		_ = os.WriteFile(pa, bb, 0o600)
		got, gerr := conn.Get(ka)
		v := "ok"
		if gerr == nil {
			v = "BAD"
		}
		lines = append(lines, fmt.Sprintf("SCENARIO prop=C17 code=C17:moved-file-accepted name=%s | the file of the first key (%d bytes) replaced by the file of the second: get(first) error=%v returned=%q %s\n", name, len(ka), gerr != nil, string(got), v))
	}
	var v string
	// through the transport: two URIs, their entry files exchanged
	dir2, err := os.MkdirTemp("", "verif-sc-")
	if err != nil {
		return lines
	}
	defer os.RemoveAll(dir2)
	c2, err := fscache.Open("verif", fscache.WithBaseDir(dir2), fscache.WithEncryption(encKey))
	if err != nil {
		return lines
	}
	dsn := registerConn(c2)
	defer unregisterConn(dsn)
	org := &scOrigin{cc: "max-age=600"}
	rt := httpcache.NewTransport(dsn, httpcache.WithUpstream(org))
	before := map[string]bool{}
	scDo(rt, "GET", "http://a.test/public", nil)
	_ = filepath.Walk(dir2, func(p string, info os.FileInfo, err error) error {
		if err == nil && !info.IsDir() {
			before[p] = true
		}
		return nil
	})
	org.mu.Lock()
	org.gen = 5 // the other resource has another representation
	org.mu.Unlock()
	scDo(rt, "GET", "http://a.test/secret", nil)
	var first, second []string
	_ = filepath.Walk(dir2, func(p string, info os.FileInfo, err error) error {
		if err == nil && !info.IsDir() {
			if before[p] {
				first = append(first, p)
			} else {
				second = append(second, p)
			}
		}
		return nil
	})
	// the entry files are the larger ones (index files are small JSON)
	larger := func(ps []string) string {
		best, size := "", int64(-1)
		for _, p := range ps {
			if fi, err := os.Stat(p); err == nil && fi.Size() > size {
				best, size = p, fi.Size()
			}
		}
		return best
	}
	ea, eb := larger(first), larger(second)
	if ea == "" || eb == "" {
		return append(lines, "SCENARIO prop=C17 code=C17:moved-file-served name=moved-entry | harness: entry files not found SKIP\n")
	}
	bsec, _ := os.ReadFile(eb)
	_ = os.WriteFile(ea, bsec, 0o600)
	r := scDo(rt, "GET", "http://a.test/public", nil)
	v = "ok"
	if strings.Contains(r.body, "-g5") && (r.status == "HIT" || r.status == "STALE") {
		v = "BAD"
	}
	lines = append(lines, fmt.Sprintf("SCENARIO prop=C17 code=C17:moved-file-served name=moved-entry | the entry file of /public replaced by the entry file of /secret: GET /public answered %s %q %s\n", r.status, r.body, v))
	return lines
}

// C09: a request that sends a selecting field on several lines finds the fresh response stored for that very request
func scenarioMultiLineHit() string {
	dsn := registerConn(memcache.Open())
	defer unregisterConn(dsn)
	org := &scOrigin{vary: "Accept-Language", cc: "max-age=600"}
	rt := httpcache.NewTransport(dsn, httpcache.WithUpstream(org))
	u := "http://a.test/doc"
	var bad []string
	for _, h := range []http.Header{{"Accept-Language": {"en", "fr"}}, {"Accept-Language": {"", "de"}}, {"Accept-Language": {"en", "", "fr"}, "X-Other": {"1", "2"}}} {
		r1 := scDo(rt, "GET", u, h)
		r2 := scDo(rt, "GET", u, h)
		if r2.status != "HIT" || r2.body != r1.body {
			bad = append(bad, fmt.Sprintf("%q: first=%s second=%s", h["Accept-Language"], r1.status, r2.status))
		}
	}
	v := "ok"
	if len(bad) > 0 {
		v = "BAD"
	}
	return fmt.Sprintf("SCENARIO prop=C09 code=C09:multi-line-request-not-served name=multi-line-hit | the same request twice, the stored response fresh: not_served=%q %s\n", strings.Join(bad, " ; "), v)
}

// C03: bytes above 0x7f in a query reach the key function as they are, whether or not they form UTF-8; URIs that differ in one such
// byte are different resources.  An origin that answers with the query it was asked for (in hex), every answer fresh for ten minutes.
type rawQueryOrigin struct{ calls int }

func (o *rawQueryOrigin) RoundTrip(req *http.Request) (*http.Response, error) {
	o.calls++
	body := fmt.Sprintf("q=%x", req.URL.RawQuery)
	return &http.Response{Status: "200 OK", StatusCode: 200, Proto: "HTTP/1.1", ProtoMajor: 1, ProtoMinor: 1,
		Header: http.Header{"Cache-Control": {"max-age=600"}, "Date": {time.Now().UTC().Format(http.TimeFormat)}},
		Body:   io.NopCloser(strings.NewReader(body)), ContentLength: int64(len(body)), Request: req}, nil
}

// every ordered pair (stored first, requested second, requested again) of URIs that differ only in raw query bytes; a pair whose
// first member spells out U+FFFD and whose second is not UTF-8 is reported under its own code (the index is JSON: F37)
func scenarioRawQueryBytes() []string {
	qs := []string{"caf\xe9", "caf\xe8", "caf\xc3", "caf\xc3\xa9", "caf\xef\xbf\xbd", "caf%E9", "caf\xff\xfe"}
	var plain, viaIndex []string
	n := 0
	for i, a := range qs {
		for j, b := range qs {
			if i == j {
				continue
			}
			n++
			dsn := registerConn(memcache.Open())
			org := &rawQueryOrigin{}
			rt := httpcache.NewTransport(dsn, httpcache.WithUpstream(org))
			ua, ub := "http://a.test/x?q="+a, "http://a.test/x?q="+b
			scDo(rt, "GET", ua, nil)
			r1 := scDo(rt, "GET", ub, nil)
			r2 := scDo(rt, "GET", ub, nil)
			unregisterConn(dsn)
			want := fmt.Sprintf("q=%x", "q="+b)
			if strings.HasPrefix(r1.status, "ERR") || strings.HasPrefix(r2.status, "ERR") {
				continue // the request was refused, which reuses nothing
			}
			if r1.body != want || r2.body != want {
				d := fmt.Sprintf("stored %q, requested %q: got %s %q then %s %q", a, b, r1.status, r1.body, r2.status, r2.body)
				if strings.Contains(a, "\xef\xbf\xbd") && !utf8.ValidString(b) && r1.body == want {
					viaIndex = append(viaIndex, d)
				} else {
					plain = append(plain, d)
				}
			}
		}
	}
	verdict := func(l []string) string {
		if len(l) > 0 {
			return "BAD"
		}
		return "ok"
	}
	return []string{
		fmt.Sprintf("SCENARIO prop=C03 code=C03:raw-query-bytes-confused name=raw-query-bytes | pairs=%d wrong=%q %s\n", n, strings.Join(plain, " ; "), verdict(plain)),
		fmt.Sprintf("SCENARIO prop=C03 code=C03:nonutf8-ref-id name=raw-query-bytes-index | the third request of the pair is answered from the entry of the first URI: wrong=%q %s\n", strings.Join(viaIndex, " ; "), verdict(viaIndex)),
	}
}

func TestScenarios(t *testing.T) {
	out := os.Getenv("VERIF_OUT")
	if out == "" {
		t.Skip("VERIF_OUT not set")
	}
	var lines []string
	lines = append(lines, scenarioLongKeys(false)...)
	lines = append(lines, scenarioLongKeys(true)...)
	lines = append(lines, scenarioDanglingRef("en"), scenarioDanglingRef("fr"))
	lines = append(lines, scenarioPlaintextInEncryptedDir()...)
	lines = append(lines, scenarioSwappedFiles()...)
	lines = append(lines, scenarioMultiLineSelecting())
	lines = append(lines, scenarioMultiLineHit())
	lines = append(lines, scenarioRawQueryBytes()...)
	lines = append(lines, scenarioUnprintableSelecting())
	lines = append(lines, scenarioErrorBody(false), scenarioErrorBody(true))
	lines = append(lines, scenarioNonCanonicalRequestKeys())
	lines = append(lines, scenarioKeysWithTempFile(false), scenarioKeysWithTempFile(true), scenarioGetResultStable(false), scenarioGetResultStable(true))
	if err := writeLines(filepath.Join(out, "scenarios.txt"), lines); err != nil {
		t.Fatal(err)
	}
}
