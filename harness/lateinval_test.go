package harness

import (
	"fmt"
	"io"
	"net/http"
	"os"
	"path/filepath"
	"strings"
	"sync"
	"testing"
	"testing/synctest"
	"time"

	"github.com/bartventer/httpcache"
	"github.com/bartventer/httpcache/store/memcache"
)

// ---------- C07: an invalidation that happens while a validation of the same entry is in flight ----------
//
// The origin decides its answer to the conditional request first (a 304: the representation has not changed
// yet), then processes the unsafe request, and only then does the 304 reach the cache: what the 304 says
// predates the unsafe request.  Afterwards the target is requested again.

type lateOrigin struct {
	mu       sync.Mutex
	gen      int
	hold     chan struct{}
	held     chan struct{}
	swr      bool
	status   int
	bump     bool
	locField string
	locValue string
	calls    []string
}

func (o *lateOrigin) RoundTrip(req *http.Request) (*http.Response, error) {
	mk := func(status int, h http.Header, body string) *http.Response {
		return &http.Response{Status: fmt.Sprintf("%d %s", status, http.StatusText(status)), StatusCode: status, Proto: "HTTP/1.1", ProtoMajor: 1, ProtoMinor: 1,
			Header: h, Body: io.NopCloser(strings.NewReader(body)), ContentLength: int64(len(body)), Request: req}
	}
	o.mu.Lock()
	o.calls = append(o.calls, req.Method+" "+req.URL.Path+" inm="+req.Header.Get("If-None-Match"))
	if req.Method != "GET" {
		if o.bump {
			o.gen++
		}
		o.mu.Unlock()
		h := http.Header{"Content-Type": {"text/plain"}}
		if o.locField != "" {
			h.Set(o.locField, o.locValue)
		}
		body := "done"
		if o.status == 204 {
			body = ""
		}
		return mk(o.status, h, body), nil
	}
	g := o.gen
	o.mu.Unlock()
	etag := fmt.Sprintf(`"g%d"`, g)
	h := http.Header{"Etag": {etag}, "X-Gen": {fmt.Sprint(g)}, "Date": {time.Now().UTC().Format(http.TimeFormat)}}
	inm := req.Header.Get("If-None-Match")
	if inm == "" {
		if o.swr {
			h.Set("Cache-Control", "max-age=1, stale-while-revalidate=600")
		} else {
			h.Set("Cache-Control", "max-age=1")
		}
		return mk(200, h, fmt.Sprintf("body-of-generation-%d", g)), nil
	}
	// a validation: the answer is decided now and delivered when the gate opens
	h.Set("Cache-Control", "max-age=600")
	var resp *http.Response
	if inm == etag {
		resp = mk(304, h, "")
	} else {
		resp = mk(200, h, fmt.Sprintf("body-of-generation-%d", g))
	}
	if o.hold != nil {
		select {
		case o.held <- struct{}{}:
		default:
		}
		select {
		case <-o.hold:
		case <-req.Context().Done():
			return nil, req.Context().Err()
		}
	}
	return resp, nil
}

func runLateInval(t *testing.T, swr bool, method string, status int, bump bool, via string) string {
	var line string
	synctest.Test(t, func(t *testing.T) {
		dsn := registerConn(memcache.Open())
		defer unregisterConn(dsn)
		org := &lateOrigin{held: make(chan struct{}, 1), swr: swr, status: status, bump: bump}
		rt := httpcache.NewTransport(dsn, httpcache.WithUpstream(org), httpcache.WithSWRTimeout(30*time.Second))
		target := "http://a.test/doc"
		unsafeURL := target
		switch via {
		case "location":
			unsafeURL, org.locField, org.locValue = "http://a.test/other", "Location", "/doc"
		case "content-location":
			unsafeURL, org.locField, org.locValue = "http://a.test/other", "Content-Location", "http://a.test/doc"
		case "respelled":
			unsafeURL = "http://A.TEST:80/x/../doc"
		}
		type result struct{ status, gen, body string }
		do := func(method, url string) result {
			req, _ := http.NewRequest(method, url, nil)
			resp, err := rt.RoundTrip(req)
			if err != nil {
				return result{"ERR", "", ""}
			}
			b, _ := io.ReadAll(resp.Body)
			resp.Body.Close()
			return result{resp.Header.Get("X-Httpcache-Status"), resp.Header.Get("X-Gen"), string(b)}
		}
		r1 := do("GET", target)
		time.Sleep(2 * time.Second)
		org.mu.Lock()
		org.hold = make(chan struct{})
		org.mu.Unlock()
		var r2 result
		done := make(chan struct{})
		go func() { r2 = do("GET", target); close(done) }()
		synctest.Wait()
		select {
		case <-org.held:
		default:
			line = fmt.Sprintf("LATEINVAL swr=%v method=%s status=%d bump=%v via=%s | no validation was in flight (first=%s) SKIP\n", swr, method, status, bump, via, r1.status)
			close(org.hold)
			<-done
			return
		}
		r3 := do(method, unsafeURL)
		close(org.hold)
		<-done
		synctest.Wait()
		time.Sleep(500 * time.Millisecond)
		org.mu.Lock()
		org.hold = nil
		org.mu.Unlock()
		r4 := do("GET", target)
		synctest.Wait()
		time.Sleep(time.Second)
		synctest.Wait()
		invalidates := status >= 200 && status < 400
		reused := (r4.status == "HIT" || r4.status == "STALE") && r4.body == r1.body
		verdict := "ok"
		if invalidates && reused {
			verdict = "BAD"
		}
		line = fmt.Sprintf("LATEINVAL swr=%v method=%s status=%d bump=%v via=%s | first=%s/%s second=%s/%s unsafe=%s final=%s/%s final_body=%q invalidates=%v stored_earlier_reused_without_validation=%v %s\n",
			swr, method, status, bump, via, r1.status, r1.gen, r2.status, r2.gen, r3.status, r4.status, r4.gen, r4.body, invalidates, reused, verdict)
	})
	return line
}

func TestLateInvalidation(t *testing.T) {
	out := os.Getenv("VERIF_OUT")
	if out == "" {
		t.Skip("VERIF_OUT not set")
	}
	var lines []string
	// The background validation of a stale-while-revalidate response belongs to a request that has already
	// returned: the unsafe request follows it in a plain request sequence.  (A foreground validation can only
	// overlap an unsafe request of another goroutine; such overlapping calls have no order and are not part of
	// this property's histories.)
	for _, swr := range []bool{true} {
		for _, method := range []string{"POST", "PUT", "DELETE", "PATCH", "FOO"} {
			for _, status := range []int{200, 204, 303, 404, 500} {
				for _, bump := range []bool{true, false} {
					for _, via := range []string{"target", "respelled", "location", "content-location"} {
						if method != "POST" && (via != "target" || status == 303 || !bump) {
							continue // the full grid for POST, the diagonal for the other methods
						}
						lines = append(lines, runLateInval(t, swr, method, status, bump, via))
					}
				}
			}
		}
	}
	if err := writeLines(filepath.Join(out, "lateinval.txt"), lines); err != nil {
		t.Fatal(err)
	}
}
