package harness

import (
	"context"
	"fmt"
	"io"
	"log/slog"
	"net/http"
	"os"
	"strings"
	"sync"
	"testing"
	"testing/synctest"
	"time"

	"github.com/bartventer/httpcache"
	"github.com/bartventer/httpcache/store/driver"
	"github.com/bartventer/httpcache/store/fscache"
	"github.com/bartventer/httpcache/store/memcache"
)

type runOpts struct {
	backend func() driver.Conn // default memcache
	kind    string             // "", "fs", "fsenc", "fsreopen": a file-system backend in a scratch directory
	debug   bool               // debug-level logger instead of the discard logger
	fault   func(op, key string, n int) *faultAction
	// hooks
	beforeReq func(k int, req *http.Request)
	afterResp func(k int, req *http.Request, resp *http.Response)
	onCall    func(idx int, req *http.Request)
	ops       *[]opInfo // when set: the store operations of the run, in order
}

// findings about request objects (the caller's request modified; an upstream request that changes after the caller
// reused its own), collected over all cases of a run: "N <case> <k> <code> <detail>"
var (
	reqNotesMu sync.Mutex
	reqNotes   []string
)

func addReqNote(caseID string, k int, code, detail string) {
	reqNotesMu.Lock()
	defer reqNotesMu.Unlock()
	reqNotes = append(reqNotes, fmt.Sprintf("N %s %d %s %s\n", caseID, k, code, strings.ReplaceAll(detail, "\n", " ")))
}

// runCase executes one case against the real transport inside a synctest bubble and returns the
// observation lines ("X <case> <k> ...").
func runCase(t *testing.T, c *Case, opts runOpts) []string {
	var lines []string
	synctest.Test(t, func(t *testing.T) {
		rec := &recorder{}
		var inner driver.Conn
		var reopen func() driver.Conn
		switch {
		case opts.backend != nil:
			inner = opts.backend()
		case opts.kind == "fs" || opts.kind == "fsenc" || opts.kind == "fsreopen":
			dir, err := os.MkdirTemp("", "verif-fs-")
			if err != nil {
				t.Fatal(err)
			}
			defer os.RemoveAll(dir)
			open := func() driver.Conn {
				fo := []fscache.Option{fscache.WithBaseDir(dir)}
				if opts.kind == "fsenc" {
					fo = append(fo, fscache.WithEncryption("6S-Ks2YYOW0xMvTzKSv6QD30gZeOi1c6Ydr-As5csWk="))
				}
				c, err := fscache.Open("verif", fo...)
				if err != nil {
					t.Fatal(err)
				}
				return c
			}
			inner = open()
			if opts.kind == "fsreopen" {
				reopen = open
			}
		default:
			inner = memcache.Open()
		}
		conn := &recConn{inner: inner, rec: rec, fault: opts.fault, ops: opts.ops}
		if conn.fault == nil && len(c.Faults) > 0 {
			conn.fault = faultHook(c.Faults, conn.backend)
		}
		dsn := registerConn(conn)
		defer unregisterConn(dsn)
		org := &origin{script: c.Script, rec: rec, onCall: opts.onCall}
		curK := 0
		org.note = func(code, detail string) { addReqNote(c.ID, curK, code, detail) }
		tops := []httpcache.Option{httpcache.WithUpstream(org), httpcache.WithSWRTimeout(c.SWRTimeout)}
		if opts.debug {
			tops = append(tops, httpcache.WithLogger(slog.New(slog.NewTextHandler(io.Discard,
				&slog.HandlerOptions{Level: slog.LevelDebug}))))
		}
		rt := httpcache.NewTransport(dsn, tops...)
		rec.fgID = goid()
		for k, rq := range c.Reqs {
			if reopen != nil && k > 0 {
				// a new handle on the same directory, as after a restart of the process
				conn.mu.Lock()
				conn.inner = reopen()
				conn.mu.Unlock()
			}
			time.Sleep(rq.Gap)
			req, err := buildRequest(context.Background(), rq)
			if err != nil {
				lines = append(lines, fmt.Sprintf("X %s %d 0 0 U 0 1 0\n", c.ID, k))
				return
			}
			if opts.beforeReq != nil {
				opts.beforeReq(k, req)
			}
			curK = k
			org.mu.Lock()
			org.clientURL = req.URL.String()
			org.mu.Unlock()
			reqSnap := reqSnapshot(req)
			t0 := time.Now()
			var resp *http.Response
			var rerr error
			var pv any
			func() {
				defer func() { pv = recover() }()
				resp, rerr = rt.RoundTrip(req)
			}()
			t1 := time.Now()
			var b strings.Builder
			fmt.Fprintf(&b, "X %s %d %s %s", c.ID, k, bigNs(t0), bigNs(t1))
			switch {
			case pv != nil:
				b.WriteString(" P")
			case rerr != nil:
				// an error, whatever else was returned with it: that is what net/http's Client makes of it
				// ("RoundTripper returned a response & error; ignoring response")
				if resp != nil && resp.Body != nil {
					_ = resp.Body.Close()
				}
				b.WriteString(" E")
			case resp == nil:
				b.WriteString(" Z") // neither a response nor an error
			default:
				body, berr := io.ReadAll(resp.Body)
				_ = resp.Body.Close()
				ok := 1
				if berr != nil {
					ok = 0
				}
				fmt.Fprintf(&b, " R %d %d %d%s", resp.StatusCode, bodyToken(body), ok, hdrTokens(resp.Header))
				if opts.afterResp != nil {
					opts.afterResp(k, req, resp)
				}
			}
			// RoundTrip has returned and the body is closed: the request is the caller's again.  It must be as it was ...
			if after := reqSnapshot(req); after != reqSnap {
				addReqNote(c.ID, k, "caller-request-modified", reqSnap+" -> "+after)
			}
			// ... and the caller may reuse it (net/http.RoundTripper): nothing still running may look at it
			req.URL.Path += "/reused"
			req.URL.RawQuery = "reused=1"
			for name := range req.Header {
				req.Header[name] = []string{"reused"}
			}
			req.Header.Set("X-Custom", "reused")
			fg, _ := rec.drain2fg()
			b.WriteString(evTokens(fg))
			quiesce(org, synctest.Wait)
			_, bg := rec.drainAll()
			b.WriteString(" 1")
			b.WriteString(evTokens(bg))
			b.WriteString("\n")
			lines = append(lines, b.String())
		}
	})
	return lines
}

// drain2fg returns the foreground events recorded so far (background ones stay queued).
func (r *recorder) drain2fg() ([]string, []string) {
	r.mu.Lock()
	defer r.mu.Unlock()
	fg := r.fg
	r.fg = nil
	return fg, nil
}

func (r *recorder) drainAll() ([]string, []string) {
	r.mu.Lock()
	defer r.mu.Unlock()
	fg, bg := r.fg, r.bg
	r.fg, r.bg = nil, nil
	return fg, bg
}
