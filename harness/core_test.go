// Package harness drives the real httpcache transport (public API only) in virtual time and
// records what it did, in the token format shared with the extracted Coq model (model/driver.ml).
package harness

import (
	"net"
	"bufio"
	"bytes"
	"context"
	"encoding/hex"
	"encoding/json"
	"errors"
	"fmt"
	"io"
	"math/big"
	"net/http"
	"net/url"
	"os"
	"runtime"
	"sort"
	"strconv"
	"strings"
	"sync"
	"time"

	"github.com/bartventer/httpcache/store"
	"github.com/bartventer/httpcache/store/driver"
)

// ---------- case description ----------

type Hdr struct {
	Name string
	Vals []string
}

type Req struct {
	Gap    time.Duration
	Method string
	URL    string
	Hdrs   []Hdr
}

type Rep struct {
	Err    bool
	Status int
	BodyOK bool
	Hdrs   []Hdr
}

type ScriptEntry struct {
	Delay time.Duration
	Plain Rep
	Cond  Rep
}

// FaultSpec: the N-th store operation of the case (counted from 0 over the whole case) fails.
// Kind: "err" (the operation returns an error; a Set / Delete is not performed), "garbage" (a Get returns bytes that do
// not decode), "null" (a Get returns the JSON text [null]), "trunc" (a Get returns the first half of the stored bytes), "dmg<n>" (a Get returns the stored bytes with one byte replaced or deleted).
type FaultSpec struct {
	N    int
	Kind string
}

type Case struct {
	ID         string
	Stream     string // "M" compared with the model, "W" monitor only
	SWRTimeout time.Duration
	Reqs       []Req
	Script     []ScriptEntry
	Faults     []FaultSpec
	Note       string
}

func hx(s string) string { return "x" + hex.EncodeToString([]byte(s)) }

func writeHdrs(b *strings.Builder, hs []Hdr) {
	fmt.Fprintf(b, " %d", len(hs))
	for _, h := range hs {
		fmt.Fprintf(b, " %s %d", hx(h.Name), len(h.Vals))
		for _, v := range h.Vals {
			b.WriteString(" " + hx(v))
		}
	}
}

func writeRep(b *strings.Builder, r Rep) {
	k := "R"
	if r.Err {
		k = "E"
	}
	ok := 0
	if r.BodyOK {
		ok = 1
	}
	fmt.Fprintf(b, " %s %d %d", k, r.Status, ok)
	writeHdrs(b, r.Hdrs)
}

const bubbleEpochNs = 946684800 * 1000000000

func (c *Case) Encode() string {
	var b strings.Builder
	fmt.Fprintf(&b, "CASE %s %s %d %d\n", c.ID, c.Stream, int64(c.SWRTimeout), int64(bubbleEpochNs))
	for _, r := range c.Reqs {
		fmt.Fprintf(&b, "REQ %d %s %s", int64(r.Gap), hx(r.Method), hx(r.URL))
		writeHdrs(&b, r.Hdrs)
		b.WriteString("\n")
	}
	for _, s := range c.Script {
		fmt.Fprintf(&b, "REP %d", int64(s.Delay))
		writeRep(&b, s.Plain)
		writeRep(&b, s.Cond)
		b.WriteString("\n")
	}
	for _, f := range c.Faults {
		fmt.Fprintf(&b, "FAULT %d %s\n", f.N, f.Kind)
	}
	b.WriteString("END\n")
	return b.String()
}

// faultHook turns a fault plan into the recConn hook.
func faultHook(plan []FaultSpec, inner func() driver.Conn) func(op, key string, n int) *faultAction {
	if len(plan) == 0 {
		return nil
	}
	byN := map[int]string{}
	for _, f := range plan {
		byN[f.N] = f.Kind
	}
	return func(op, key string, n int) *faultAction {
		kind, ok := byN[n]
		if !ok {
			return nil
		}
		switch {
		case kind == "err" || op != "get":
			return &faultAction{Err: errors.New("injected store fault")}
		case kind == "garbage":
			return &faultAction{Data: []byte("\x00\xffnot a stored value\n\n{")}
		case kind == "null":
			return &faultAction{Data: []byte("[null]")}
		case strings.HasPrefix(kind, "json"):
			// valid JSON of the wrong shape where an index (or an entry) is expected
			shapes := []string{`[null,7]`, `[{"id":7},null]`, `{}`, `"x"`, `[1]`, `[[]]`, `{"id":"a"}`, `[{"id":"a","vary":1}]`, `null`, `[{}]`, `[null,{"id":"k#0"}]`, `7`}
			n, _ := strconv.Atoi(kind[4:])
			return &faultAction{Data: []byte(shapes[n%len(shapes)])}
		case strings.HasPrefix(kind, "dmg"):
			// one byte of the stored value damaged: replaced or deleted, mostly a structural byte (TAB, LF, CR, ':', ' ')
			// of the first two lines
			data, err := inner().Get(key)
			if err != nil || len(data) == 0 {
				return &faultAction{Data: data, Err: err}
			}
			sel, _ := strconv.Atoi(kind[3:])
			var structural []int
			lines := 0
			for i, b := range data {
				if b == '\t' || b == '\n' || b == '\r' || b == ':' || b == ' ' || b == '/' {
					structural = append(structural, i)
				}
				if b == '\n' {
					lines++
					if lines == 2 {
						break
					}
				}
			}
			pos := (sel / 64) % len(data)
			if len(structural) > 0 && sel%4 != 0 {
				pos = structural[(sel/64)%len(structural)]
			}
			out := append([]byte(nil), data...)
			repl := []byte{' ', '\t', '\n', 'x', 0, ':'}
			if w := (sel / 4) % 8; w < len(repl) {
				out[pos] = repl[w]
			} else {
				out = append(out[:pos], out[pos+1:]...)
			}
			return &faultAction{Data: out}
		default: // trunc
			data, err := inner().Get(key)
			if err != nil {
				return &faultAction{Err: err}
			}
			return &faultAction{Data: data[:len(data)/2]}
		}
	}
}

// ---------- event recording ----------

func goid() int64 {
	var buf [64]byte
	n := runtime.Stack(buf[:], false)
	// "goroutine 123 [running]:"
	f := strings.Fields(string(buf[:n]))
	id, _ := strconv.ParseInt(f[1], 10, 64)
	return id
}

type recorder struct {
	mu   sync.Mutex
	fgID int64
	fg   []string
	bg   []string
	tap  func(goroutine int64, ev string) // optional: every event with the goroutine that produced it
}

func (r *recorder) add(ev string) {
	id := goid()
	if r.tap != nil {
		r.tap(id, ev)
	}
	r.mu.Lock()
	defer r.mu.Unlock()
	if id == r.fgID {
		r.fg = append(r.fg, ev)
	} else {
		r.bg = append(r.bg, ev)
	}
}

func (r *recorder) drain() (fg, bg []string) {
	r.mu.Lock()
	defer r.mu.Unlock()
	fg, bg = r.fg, r.bg
	r.fg, r.bg = nil, nil
	return
}

func bigNs(t time.Time) string {
	v := new(big.Int).Mul(big.NewInt(t.Unix()), big.NewInt(1000000000))
	v.Add(v, big.NewInt(int64(t.Nanosecond())))
	return v.String()
}

func hdrTokens(h http.Header) string {
	names := make([]string, 0, len(h))
	for k := range h {
		names = append(names, k)
	}
	sort.Strings(names)
	var b strings.Builder
	fmt.Fprintf(&b, " %d", len(names))
	for _, n := range names {
		fmt.Fprintf(&b, " %s %d", hx(n), len(h[n]))
		for _, v := range h[n] {
			b.WriteString(" " + hx(v))
		}
	}
	return b.String()
}

// bodyToken extracts the ghost call index from a body "b<idx>.<payload>"; -1 for empty, -2 otherwise.
func bodyToken(body []byte) int64 {
	if len(body) == 0 {
		return -1
	}
	if body[0] != 'b' {
		return -2
	}
	i := 1
	for i < len(body) && body[i] >= '0' && body[i] <= '9' {
		i++
	}
	if i == 1 || i >= len(body) || body[i] != '.' {
		return -2
	}
	n, err := strconv.ParseInt(string(body[1:i]), 10, 64)
	if err != nil {
		return -2
	}
	return n
}

type refJSON struct {
	ID       string            `json:"id"`
	Vary     string            `json:"vary"`
	Resolved map[string]string `json:"vary_resolved"`
	Recv     time.Time         `json:"received_at,omitzero"`
}

// describeSet renders a Set as the model's SetRefs / SetEntry event.
func describeSet(key string, val []byte) string {
	if !strings.Contains(key, "#") {
		var refs []*refJSON
		if err := json.Unmarshal(val, &refs); err != nil {
			return fmt.Sprintf(" I %s -1", hx(key))
		}
		var b strings.Builder
		fmt.Fprintf(&b, " I %s %d", hx(key), len(refs))
		for _, r := range refs {
			if r == nil {
				b.WriteString(" N")
				continue
			}
			fmt.Fprintf(&b, " R %s %s %s %d", hx(r.ID), hx(r.Vary), bigNs(r.Recv), len(r.Resolved))
			ks := make([]string, 0, len(r.Resolved))
			for k := range r.Resolved {
				ks = append(ks, k)
			}
			sort.Strings(ks)
			for _, k := range ks {
				fmt.Fprintf(&b, " %s %s", hx(k), hx(r.Resolved[k]))
			}
		}
		return b.String()
	}
	rd := bufio.NewReader(bytes.NewReader(val))
	meta, err := rd.ReadString('\n')
	if err != nil {
		return fmt.Sprintf(" S %s -3 0 0 0 0", hx(key))
	}
	parts := strings.Split(strings.TrimSpace(meta), "\t")
	if len(parts) != 3 {
		return fmt.Sprintf(" S %s -3 0 0 0 0", hx(key))
	}
	reqAt, _ := time.Parse(time.RFC3339Nano, parts[1])
	recvAt, _ := time.Parse(time.RFC3339Nano, parts[2])
	resp, err := http.ReadResponse(rd, nil)
	if err != nil {
		return fmt.Sprintf(" S %s -3 0 0 0 0", hx(key))
	}
	body, _ := io.ReadAll(resp.Body)
	return fmt.Sprintf(" S %s %d %d %s %s%s", hx(key), bodyToken(body), resp.StatusCode,
		bigNs(reqAt), bigNs(recvAt), hdrTokens(resp.Header))
}

// recConn wraps a real backend and records every operation.
type recConn struct {
	inner driver.Conn
	rec   *recorder
	// fault injection: called before each op; may return replacement results
	fault func(op, key string, n int) *faultAction
	nops  int
	mu    sync.Mutex
	pre   func()    // optional: called before every operation (the scheduler's point)
	ops   *[]opInfo // optional: every operation is appended here
}

type faultAction struct {
	Err  error
	Data []byte // for Get: replacement bytes (when Err == nil)
	Skip bool   // do not perform the real operation
}

func (c *recConn) backend() driver.Conn {
	c.mu.Lock()
	defer c.mu.Unlock()
	return c.inner
}

// opInfo: one store operation of a run, in order
type opInfo struct {
	N   int
	Op  string
	Key string
	Bg  bool
}

func (c *recConn) nextFault(op, key string) *faultAction {
	c.mu.Lock()
	n := c.nops
	c.nops++
	if c.ops != nil {
		*c.ops = append(*c.ops, opInfo{N: n, Op: op, Key: key, Bg: goid() != c.rec.fgID})
	}
	c.mu.Unlock()
	if c.fault == nil {
		return nil
	}
	return c.fault(op, key, n)
}

func (c *recConn) Get(key string) ([]byte, error) {
	if c.pre != nil {
		c.pre()
	}
	var data []byte
	var err error
	if fa := c.nextFault("get", key); fa != nil {
		data, err = fa.Data, fa.Err
	} else {
		data, err = c.backend().Get(key)
	}
	found := 0
	if err == nil {
		found = 1
	}
	k := "G"
	if strings.Contains(key, "#") {
		k = "g"
	}
	c.rec.add(fmt.Sprintf(" %s %s %d", k, hx(key), found))
	return data, err
}

func (c *recConn) Set(key string, val []byte) error {
	if c.pre != nil {
		c.pre()
	}
	if fa := c.nextFault("set", key); fa != nil {
		c.rec.add(" F" + describeSet(key, val))
		return fa.Err
	}
	c.rec.add(describeSet(key, val))
	return c.backend().Set(key, val)
}

func (c *recConn) Delete(key string) error {
	if c.pre != nil {
		c.pre()
	}
	if fa := c.nextFault("del", key); fa != nil {
		c.rec.add(fmt.Sprintf(" D %s 0", hx(key)))
		return fa.Err
	}
	err := c.backend().Delete(key)
	ex := 0
	if err == nil {
		ex = 1
	}
	c.rec.add(fmt.Sprintf(" D %s %d", hx(key), ex))
	return err
}

// Keys is forwarded when the backend supports listing.
func (c *recConn) Keys(prefix string) ([]string, error) {
	if kl, ok := c.inner.(interface {
		Keys(string) ([]string, error)
	}); ok {
		return kl.Keys(prefix)
	}
	return nil, errors.New("keys not supported")
}

var (
	connMu    sync.Mutex
	connTable = map[string]driver.Conn{}
	connSeq   int
)

func init() {
	store.Register("verif", driver.DriverFunc(func(u *url.URL) (driver.Conn, error) {
		connMu.Lock()
		defer connMu.Unlock()
		c, ok := connTable[u.Query().Get("id")]
		if !ok {
			return nil, errors.New("verif: unknown conn id")
		}
		return c, nil
	}))
}

func registerConn(c driver.Conn) string {
	connMu.Lock()
	defer connMu.Unlock()
	connSeq++
	id := strconv.Itoa(connSeq)
	connTable[id] = c
	return "verif://?id=" + id
}

func unregisterConn(dsn string) {
	connMu.Lock()
	defer connMu.Unlock()
	delete(connTable, strings.TrimPrefix(dsn, "verif://?id="))
}

// ---------- scripted origin ----------

type failingBody struct {
	data []byte
	pos  int
}

var errBodyBroken = errors.New("origin body broke off")

func (f *failingBody) Read(p []byte) (int, error) {
	if f.pos >= len(f.data) {
		return 0, errBodyBroken
	}
	n := copy(p, f.data[f.pos:])
	f.pos += n
	return n, nil
}
func (f *failingBody) Close() error { return nil }

type origin struct {
	mu      sync.Mutex
	script  []ScriptEntry
	n       int
	rec     *recorder
	active  int
	planned time.Time // latest planned completion instant of an active call
	// optional hook: called with the live request object at call time
	onCall func(idx int, req *http.Request)
	pre    func() // optional: called on entry, before the call takes its place in the script
	// the URL of the client request being served (set by the runner); note reports a finding about a request
	clientURL string
	note      func(code, detail string)
}

func bodyFor(idx int, hs []Hdr) []byte {
	// "b<idx>." padded with '-' to the declared Content-Length when there is one
	base := fmt.Sprintf("b%d.", idx)
	for _, h := range hs {
		if h.Name == "Content-Length" && len(h.Vals) > 0 {
			if n, err := strconv.Atoi(h.Vals[0]); err == nil && n >= len(base) && n < 1<<20 {
				return []byte(base + strings.Repeat("-", n-len(base)))
			}
		}
	}
	return []byte(base)
}

func (o *origin) RoundTrip(req *http.Request) (*http.Response, error) {
	if o.pre != nil {
		o.pre()
	}
	o.mu.Lock()
	idx := o.n
	o.n++
	var ent ScriptEntry
	exhausted := idx >= len(o.script)
	if !exhausted {
		ent = o.script[idx]
	}
	start := time.Now()
	end := start.Add(ent.Delay)
	if dl, ok := req.Context().Deadline(); ok && dl.Before(end) {
		end = dl
	}
	o.active++
	if end.After(o.planned) {
		o.planned = end
	}
	o.mu.Unlock()
	if o.onCall != nil {
		o.onCall(idx, req)
	}
	method := req.Method
	hdrSnap := hdrTokens(req.Header)
	url0 := req.URL.String()
	o.mu.Lock()
	clientURL := o.clientURL
	o.mu.Unlock()
	conditional := req.Header.Get("If-None-Match") != "" || req.Header.Get("If-Modified-Since") != ""

	var ctxErr error
	if ent.Delay > 0 {
		tm := time.NewTimer(ent.Delay)
		select {
		case <-tm.C:
		case <-req.Context().Done():
			tm.Stop()
			ctxErr = req.Context().Err()
		}
	} else if err := req.Context().Err(); err != nil {
		ctxErr = err
	}
	stop := time.Now()
	if o.note != nil {
		// the request handed to the upstream is the transport's own: it is the client's URL, and nothing the caller does
		// with its request object after RoundTrip has returned can change it while the call is in flight
		if u1, h1 := req.URL.String(), hdrTokens(req.Header); u1 != url0 || h1 != hdrSnap {
			o.note("upstream-request-changed-in-flight", fmt.Sprintf("call %d: %s%s -> %s%s", idx, url0, hdrSnap, u1, h1))
		}
		if clientURL != "" && url0 != clientURL {
			o.note("upstream-url-differs", fmt.Sprintf("call %d: client %s upstream %s", idx, clientURL, url0))
		}
	}
	rep := ent.Plain
	if conditional {
		rep = ent.Cond
	}
	kind := "R"
	if exhausted || rep.Err || ctxErr != nil {
		kind = "E"
	}
	o.rec.add(fmt.Sprintf(" C %d %s %s %s %s%s", idx, bigNs(start), bigNs(stop), kind, hx(method), hdrSnap))
	o.mu.Lock()
	o.active--
	o.mu.Unlock()
	if ctxErr != nil {
		return nil, ctxErr
	}
	if exhausted || rep.Err {
		// the ways an upstream RoundTripper fails: a plain error, one that wraps a context error although the caller's
		// context is alive (a per-attempt timeout, a closed pool), a network timeout, an unexpected end of the stream
		switch idx % 5 {
		case 1:
			return nil, fmt.Errorf("origin: attempt timed out: %w", context.DeadlineExceeded)
		case 2:
			return nil, fmt.Errorf("origin: connection pool closed: %w", context.Canceled)
		case 3:
			return nil, &net.OpError{Op: "read", Net: "tcp", Err: os.ErrDeadlineExceeded}
		case 4:
			return nil, io.ErrUnexpectedEOF
		}
		return nil, errors.New("origin: scripted transport error")
	}
	h := http.Header{}
	for _, x := range rep.Hdrs {
		h[x.Name] = append([]string(nil), x.Vals...)
	}
	body := bodyFor(idx, rep.Hdrs)
	if rep.Status < 200 || rep.Status == 204 || rep.Status == 304 {
		body = nil
	}
	var rc io.ReadCloser = io.NopCloser(bytes.NewReader(body))
	if !rep.BodyOK {
		rc = &failingBody{data: body} // every byte arrives, then the stream fails instead of ending
	}
	return &http.Response{
		Status:        strconv.Itoa(rep.Status) + " " + http.StatusText(rep.Status),
		StatusCode:    rep.Status,
		Proto:         "HTTP/1.1",
		ProtoMajor:    1,
		ProtoMinor:    1,
		Header:        h,
		Body:          rc,
		ContentLength: int64(len(body)),
		Request:       req,
	}, nil
}

func (o *origin) pending() (int, time.Time) {
	o.mu.Lock()
	defer o.mu.Unlock()
	return o.active, o.planned
}

// ---------- running one exchange ----------

type exchangeResult struct {
	line   string // the X line (without the leading "X <case> <k>")
	resp   *http.Response
	body   []byte
	err    error
	panicV any
}

func evTokens(evs []string) string {
	return fmt.Sprintf(" %d%s", len(evs), strings.Join(evs, ""))
}

func buildRequest(ctx context.Context, r Req) (*http.Request, error) {
	u, err := url.Parse(r.URL)
	if err != nil {
		return nil, err
	}
	req := &http.Request{
		Method:     r.Method,
		URL:        u,
		Proto:      "HTTP/1.1",
		ProtoMajor: 1,
		ProtoMinor: 1,
		Header:     http.Header{},
		Host:       u.Host,
	}
	for _, h := range r.Hdrs {
		req.Header[h.Name] = append([]string(nil), h.Vals...)
	}
	return req.WithContext(ctx), nil
}

// quiesce lets background work finish, advancing virtual time exactly to the completion instant of
// the outstanding origin calls (the model's clock does the same).
func quiesce(o *origin, wait func()) {
	for i := 0; i < 16; i++ {
		wait()
		n, planned := o.pending()
		if n == 0 {
			return
		}
		if d := time.Until(planned); d > 0 {
			time.Sleep(d)
		} else {
			time.Sleep(1)
		}
	}
}

func writeLines(path string, lines []string) error {
	return os.WriteFile(path, []byte(strings.Join(lines, "")), 0o644)
}
