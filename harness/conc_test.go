package harness

import (
	"context"
	"fmt"
	"io"
	"net/http"
	"os"
	"path/filepath"
	"sort"
	"strings"
	"sync"
	"testing"
	"testing/synctest"
	"time"

	"github.com/bartventer/httpcache"
	"github.com/bartventer/httpcache/store/memcache"
)

// ---------- C16: concurrent RoundTrips under a scheduler, at the granularity of store and origin operations ----------

type waiter struct {
	label string
	ch    chan struct{}
}

type sched struct {
	mu      sync.Mutex
	labels  map[int64]string
	waiting map[string]*waiter
	nbg     int
	trace   []string // "<label> <event>"
}

func newSched() *sched { return &sched{labels: map[int64]string{}, waiting: map[string]*waiter{}} }

func (s *sched) labelOf(id int64) string {
	l, ok := s.labels[id]
	if !ok {
		l = fmt.Sprintf("b%d", s.nbg)
		s.nbg++
		s.labels[id] = l
	}
	return l
}

// point blocks the calling goroutine until the scheduler releases it.
func (s *sched) point() {
	id := goid()
	s.mu.Lock()
	w := &waiter{label: s.labelOf(id), ch: make(chan struct{})}
	s.waiting[w.label] = w
	s.mu.Unlock()
	<-w.ch
}

func (s *sched) tap(id int64, ev string) {
	s.mu.Lock()
	s.trace = append(s.trace, " "+s.labelOf(id)+ev)
	s.mu.Unlock()
}

func (s *sched) waitingLabels() []string {
	s.mu.Lock()
	defer s.mu.Unlock()
	out := make([]string, 0, len(s.waiting))
	for l := range s.waiting {
		out = append(out, l)
	}
	sort.Strings(out)
	return out
}

func (s *sched) release(l string) {
	s.mu.Lock()
	w := s.waiting[l]
	delete(s.waiting, l)
	s.mu.Unlock()
	close(w.ch)
}

type CPhase struct {
	Gap  time.Duration
	Reqs []Req
}

type CCase struct {
	ID         string
	SWRTimeout time.Duration
	Phases     []CPhase
	Script     []ScriptEntry
	Seed       uint64
}

func (c *CCase) encode(scheds [][]string) string {
	var b strings.Builder
	fmt.Fprintf(&b, "CCASE %s M %d %d\n", c.ID, int64(c.SWRTimeout), int64(bubbleEpochNs))
	for i, ph := range c.Phases {
		fmt.Fprintf(&b, "PHASE %d %d\n", int64(ph.Gap), len(ph.Reqs))
		for _, r := range ph.Reqs {
			fmt.Fprintf(&b, "REQ 0 %s %s", hx(r.Method), hx(r.URL))
			writeHdrs(&b, r.Hdrs)
			b.WriteString("\n")
		}
		fmt.Fprintf(&b, "SCHED %d %s\n", len(scheds[i]), strings.Join(scheds[i], " "))
	}
	for _, s := range c.Script {
		fmt.Fprintf(&b, "REP %d", int64(s.Delay))
		writeRep(&b, s.Plain)
		writeRep(&b, s.Cond)
		b.WriteString("\n")
	}
	b.WriteString("END\n")
	return b.String()
}

type ownedResp struct {
	phase, idx int
	resp       *http.Response
	snap       http.Header
	req        *http.Request
	reqSnap    string
}

func headerEqual(a, b http.Header) bool {
	if len(a) != len(b) {
		return false
	}
	for k, v := range a {
		w, ok := b[k]
		if !ok || len(v) != len(w) {
			return false
		}
		for i := range v {
			if v[i] != w[i] {
				return false
			}
		}
	}
	return true
}

func reqSnapshot(r *http.Request) string {
	return r.Method + " " + r.URL.String() + " " + r.Host + hdrTokens(r.Header)
}

// runConcCase runs the phases under seeded random schedules; returns the schedules, the observation lines and
// the ownership findings.
func runConcCase(t *testing.T, c *CCase) (scheds [][]string, lines []string, findings []string) {
	synctest.Test(t, func(t *testing.T) {
		g := newG(c.Seed, 0xc16)
		sc := newSched()
		rec := &recorder{tap: sc.tap}
		conn := &recConn{inner: memcache.Open(), rec: rec, pre: sc.point}
		dsn := registerConn(conn)
		defer unregisterConn(dsn)
		org := &origin{script: c.Script, rec: rec, pre: sc.point}
		rt := httpcache.NewTransport(dsn, httpcache.WithUpstream(org), httpcache.WithSWRTimeout(c.SWRTimeout))
		var owned []*ownedResp
		for pi, ph := range c.Phases {
			time.Sleep(ph.Gap)
			results := make([]string, len(ph.Reqs))
			var wg sync.WaitGroup
			var omu sync.Mutex
			sc.mu.Lock()
			sc.trace = nil
			sc.labels = map[int64]string{}
			sc.nbg = 0
			sc.mu.Unlock()
			ready := make(chan struct{}, len(ph.Reqs))
			for i, rq := range ph.Reqs {
				wg.Add(1)
				go func(i int, rq Req) {
					defer wg.Done()
					sc.mu.Lock()
					sc.labels[goid()] = fmt.Sprintf("f%d", i)
					sc.mu.Unlock()
					ready <- struct{}{}
					sc.point()
					req, err := buildRequest(context.Background(), rq)
					if err != nil {
						results[i] = " U"
						return
					}
					before := reqSnapshot(req)
					var resp *http.Response
					var rerr error
					var pv any
					func() {
						defer func() { pv = recover() }()
						resp, rerr = rt.RoundTrip(req)
					}()
					switch {
					case pv != nil:
						results[i] = " P"
					case rerr != nil:
						if resp != nil && resp.Body != nil {
							_ = resp.Body.Close()
						}
						results[i] = " E"
					case resp == nil:
						results[i] = " Z"
					default:
						body, berr := io.ReadAll(resp.Body)
						_ = resp.Body.Close()
						ok := 1
						if berr != nil {
							ok = 0
						}
						results[i] = fmt.Sprintf(" R %d %d %d%s", resp.StatusCode, bodyToken(body), ok, hdrTokens(resp.Header))
						// the caller now owns the response: it marks it, and keeps it until the end
						resp.Header.Set("X-Owner-Mark", fmt.Sprintf("%d-%d", pi, i))
						omu.Lock()
						owned = append(owned, &ownedResp{phase: pi, idx: i, resp: resp, snap: resp.Header.Clone(), req: req, reqSnap: before})
						omu.Unlock()
					}
					if after := reqSnapshot(req); after != before {
						omu.Lock()
						findings = append(findings, fmt.Sprintf("REQUEST-MODIFIED phase=%d call=%d before=%q after=%q", pi, i, before, after))
						omu.Unlock()
					}
				}(i, rq)
			}
			for range ph.Reqs {
				<-ready
			}
			var schedule []string
			ticked := false
			for steps := 0; steps < 2000; steps++ {
				synctest.Wait()
				w := sc.waitingLabels()
				if len(w) == 0 {
					break
				}
				// at most once per phase a second of virtual time passes between two operations (less than every
				// stale-while-revalidate timeout in use): what is recomputed later then differs from what was returned
				if !ticked && steps > 0 && g.chance(0.12) {
					ticked = true
					time.Sleep(time.Second)
					schedule = append(schedule, "t")
					continue
				}
				pick := w[g.intn(len(w))]
				schedule = append(schedule, pick)
				sc.release(pick)
			}
			wg.Wait()
			synctest.Wait()
			scheds = append(scheds, schedule)
			sc.mu.Lock()
			tr := append([]string(nil), sc.trace...)
			sc.mu.Unlock()
			var b strings.Builder
			fmt.Fprintf(&b, "CX %s %d %d%s %d%s\n", c.ID, pi, len(results), strings.Join(results, ""), len(tr), strings.Join(tr, ""))
			lines = append(lines, b.String())
			// ownership: nothing the cache did since may have touched what was returned earlier
			omu.Lock()
			for _, o := range owned {
				if !headerEqual(o.resp.Header, o.snap) {
					findings = append(findings, fmt.Sprintf("RESPONSE-TOUCHED returned_in_phase=%d call=%d checked_after_phase=%d had=%s has=%s", o.phase, o.idx, pi, hdrTokens(o.snap), hdrTokens(o.resp.Header)))
					o.snap = o.resp.Header.Clone()
				}
				if after := reqSnapshot(o.req); after != o.reqSnap {
					findings = append(findings, fmt.Sprintf("REQUEST-MODIFIED-LATER phase=%d call=%d", o.phase, o.idx))
					o.reqSnap = after
				}
			}
			omu.Unlock()
		}
	})
	return
}

func (g *G) genConcCase(p *Profile, id string, seed uint64) *CCase {
	base := g.genCase(p, id)
	c := &CCase{ID: id, SWRTimeout: base.SWRTimeout, Seed: seed}
	for i := range base.Script {
		base.Script[i].Delay = 0
	}
	// spare replies: concurrent misses and background revalidations need more than one per request
	c.Script = append(c.Script, base.Script...)
	for i := 0; i < 6; i++ {
		e := base.Script[g.intn(len(base.Script))]
		c.Script = append(c.Script, e)
	}
	reqs := base.Reqs
	for len(reqs) > 0 {
		n := 1 + g.intn(3)
		if n > len(reqs) {
			n = len(reqs)
		}
		ph := CPhase{Gap: reqs[0].Gap}
		ph.Reqs = append(ph.Reqs, reqs[:n]...)
		// concurrent requests for one resource are the interesting ones: sometimes duplicate
		if g.chance(0.5) {
			d := ph.Reqs[g.intn(len(ph.Reqs))]
			if g.chance(0.3) {
				d.Method = "POST"
			}
			ph.Reqs = append(ph.Reqs, d)
		}
		c.Phases = append(c.Phases, ph)
		reqs = reqs[n:]
	}
	return c
}

// TestConcSched: VERIF_N cases, each phase run under one seeded schedule.
func TestConcSched(t *testing.T) {
	out := os.Getenv("VERIF_OUT")
	if out == "" {
		t.Skip("VERIF_OUT not set")
	}
	seed := uint64(envInt("VERIF_SEED", 1))
	n := envInt("VERIF_N", 100)
	g := newG(seed, 0xc16c16)
	prof := profileByName("conc")
	var cases, impl, finds []string
	for i := 0; i < n; i++ {
		c := g.genConcCase(prof, fmt.Sprintf("conc-%d-%d", seed, i), seed*1000003+uint64(i))
		for j := range c.Phases {
			for k := range c.Phases[j].Reqs {
				for h := range c.Phases[j].Reqs[k].Hdrs {
					c.Phases[j].Reqs[k].Hdrs[h].Name = http.CanonicalHeaderKey(c.Phases[j].Reqs[k].Hdrs[h].Name)
				}
			}
		}
		tmp := &Case{Script: c.Script}
		canonCase(tmp)
		scheds, lines, f := runConcCase(t, c)
		cases = append(cases, c.encode(scheds))
		impl = append(impl, lines...)
		for _, x := range f {
			finds = append(finds, fmt.Sprintf("OWN %s %s\n", c.ID, x))
		}
	}
	if err := writeLines(filepath.Join(out, "ccases.txt"), cases); err != nil {
		t.Fatal(err)
	}
	if err := writeLines(filepath.Join(out, "cimpl.txt"), impl); err != nil {
		t.Fatal(err)
	}
	if err := writeLines(filepath.Join(out, "cown.txt"), finds); err != nil {
		t.Fatal(err)
	}
}

// ---------- free-running stress (meant for the race detector) ----------

type fnOrigin struct {
	gen [4]int64
	mu  sync.Mutex
	n   int
}

func fnContent(r int, v string, g int64) string {
	unit := fmt.Sprintf("r%d-v%s-g%d|", r, v, g)
	return strings.Repeat(unit, 4096/len(unit)+1)
}

func fnETag(r int, v string, g int64) string { return fmt.Sprintf(`"e-%d-%s-%d"`, r, v, g) }

var fnPolicies = [4]string{
	"max-age=0, stale-while-revalidate=600, stale-if-error=600",
	"max-age=600",
	"no-cache",
	"max-age=0, must-revalidate",
}

func (o *fnOrigin) RoundTrip(req *http.Request) (*http.Response, error) {
	var r int
	fmt.Sscanf(req.URL.Path, "/r%d", &r)
	r &= 3
	v := req.Header.Get("X-V")
	o.mu.Lock()
	o.n++
	n := o.n
	if req.Method == "POST" && req.Header.Get("X-Bump") == "1" {
		o.gen[r]++
	}
	g := o.gen[r]
	o.mu.Unlock()
	mk := func(status int, h http.Header, body string) *http.Response {
		cl := int64(len(body))
		if v == "c" && status == 200 && req.Method == "GET" {
			cl = -1 // a response of unannounced length (chunked / close-delimited on the wire)
		}
		return &http.Response{Status: fmt.Sprintf("%d %s", status, http.StatusText(status)), StatusCode: status, Proto: "HTTP/1.1", ProtoMajor: 1, ProtoMinor: 1,
			Header: h, Body: io.NopCloser(strings.NewReader(body)), ContentLength: cl, Request: req}
	}
	if req.Method != "GET" {
		return mk(200, http.Header{"Content-Type": {"text/plain"}}, "ok"), nil
	}
	h := http.Header{"Etag": {fnETag(r, v, g)}, "Cache-Control": {fnPolicies[r]}, "Vary": {"X-V"},
		"X-Res": {fmt.Sprint(r)}, "X-Var": {v}, "X-Gen": {fmt.Sprint(g)}, "Date": {time.Now().UTC().Format(http.TimeFormat)}}
	if r == 0 && v == "b" {
		h.Del("Etag") // a variant without any validator: its background revalidation is unconditional
	}
	if inm := req.Header.Get("If-None-Match"); inm != "" && r == 0 && n%4 == 0 {
		// a failing background validation of the stale-while-revalidate + stale-if-error resource
		return mk(503, http.Header{"Content-Type": {"text/plain"}}, "unavailable"), nil
	}
	if inm := req.Header.Get("If-None-Match"); inm != "" && inm == fnETag(r, v, g) {
		return mk(304, h, ""), nil
	}
	return mk(200, h, fnContent(r, v, g)), nil
}

// TestConcRace: goroutines hammer one transport; every response must be the right resource and variant with an
// intact body that matches its own header fields, stay untouched after it was returned, and leave the request as it was.
func TestConcRace(t *testing.T) {
	out := os.Getenv("VERIF_OUT")
	if out == "" {
		t.Skip("VERIF_OUT not set")
	}
	seed := uint64(envInt("VERIF_SEED", 1))
	iters := envInt("VERIF_N", 300)
	var lines []string
	for _, backend := range []string{"mem", "fs"} {
		var rt http.RoundTripper
		org := &fnOrigin{}
		if backend == "mem" {
			dsn := registerConn(memcache.Open())
			defer unregisterConn(dsn)
			rt = httpcache.NewTransport(dsn, httpcache.WithUpstream(org))
		} else {
			dir, _ := os.MkdirTemp("", "verif-race-")
			defer os.RemoveAll(dir)
			rt = httpcache.NewTransport("fscache://"+dir+"?appname=verif", httpcache.WithUpstream(org))
		}
		var mu sync.Mutex
		var bad []string
		counts := map[string]int{}
		report := func(f string, a ...any) {
			mu.Lock()
			if len(bad) < 20 {
				bad = append(bad, fmt.Sprintf(f, a...))
			}
			mu.Unlock()
		}
		type kept struct {
			resp *http.Response
			snap http.Header
			req  *http.Request
			rs   string
		}
		var wg sync.WaitGroup
		keptAll := make([][]kept, 8)
		for w := 0; w < 8; w++ {
			wg.Add(1)
			go func(w int) {
				defer wg.Done()
				g := newG(seed*131+uint64(w), 0xace)
				var pendingRead func()
				defer func() {
					if pendingRead != nil {
						pendingRead()
					}
				}()
				for i := 0; i < iters; i++ {
					r := g.intn(4)
					v := g.pick("a", "b", "c")
					method := "GET"
					if g.chance(0.15) {
						method = "POST"
					}
					req, _ := http.NewRequest(method, fmt.Sprintf("http://a.test/r%d", r), nil)
					req.Header.Set("X-V", v)
					if method == "POST" && g.chance(0.5) {
						req.Header.Set("X-Bump", "1")
					}
					before := reqSnapshot(req)
					resp, err := rt.RoundTrip(req)
					if after := reqSnapshot(req); after != before {
						report("request modified: %q -> %q", before, after)
					}
					if err != nil || resp == nil {
						report("error from RoundTrip: %v", err)
						continue
					}
					st := resp.Header.Get("X-Httpcache-Status")
					mu.Lock()
					counts[method+":"+st]++
					mu.Unlock()
					if method != "GET" {
						io.Copy(io.Discard, resp.Body)
						resp.Body.Close()
						continue
					}
					// the body of a returned response belongs to the caller until it is closed: some are read only after
					// this goroutine's next call has returned (and while other goroutines' calls run)
					readAndCheck := func(resp *http.Response, r int, v, st, when string) {
						body, berr := io.ReadAll(resp.Body)
						resp.Body.Close()
						var gen int64
						fmt.Sscan(resp.Header.Get("X-Gen"), &gen)
						switch {
						case berr != nil:
							report("body read error (%s): %v", when, berr)
						case resp.StatusCode != 200:
							report("status %d for GET r%d v=%s (%s)", resp.StatusCode, r, v, st)
						case resp.Header.Get("X-Res") != fmt.Sprint(r) || resp.Header.Get("X-Var") != v:
							report("wrong resource or variant: asked r%d v=%s, got r%s v=%s (%s)", r, v, resp.Header.Get("X-Res"), resp.Header.Get("X-Var"), st)
						case string(body) != fnContent(r, v, gen):
							report("body does not match its header fields (%s): r%d v=%s gen=%d len=%d (%s)", when, r, v, gen, len(body), st)
						case resp.Header.Get("Etag") != fnETag(r, v, gen) && !(r == 0 && v == "b" && resp.Header.Get("Etag") == ""):
							report("ETag %s does not match X-Gen %d", resp.Header.Get("Etag"), gen)
						}
					}
					if pendingRead != nil {
						pendingRead()
						pendingRead = nil
					}
					if g.chance(0.3) {
						hr, hrr, hv, hst := resp, r, v, st
						pendingRead = func() { readAndCheck(hr, hrr, hv, hst, "read after a later call") }
						mu.Lock()
						counts["GET:deferred-body-read"]++
						mu.Unlock()
					} else {
						readAndCheck(resp, r, v, st, "read at once")
						// the body is closed: the request is the caller's again, to change or reuse (net/http.RoundTripper);
						// background work of the transport must have its own copy
						req.Header.Set("X-V", g.pick("a", "b", "c", "z"))
						req.Header.Set("X-Caller-Scratch", fmt.Sprint(i))
						before = reqSnapshot(req)
					}
					// the caller owns the response now: write to it, keep it
					resp.Header.Set("X-Owner-Mark", fmt.Sprintf("%d-%d", w, i))
					resp.Header.Add("X-Owner-Mark", "again")
					if len(keptAll[w]) < 64 {
						keptAll[w] = append(keptAll[w], kept{resp, resp.Header.Clone(), req, before})
					}
				}
			}(w)
		}
		wg.Wait()
		time.Sleep(300 * time.Millisecond) // background revalidations finish
		touched := 0
		for _, ks := range keptAll {
			for _, k := range ks {
				if !headerEqual(k.resp.Header, k.snap) {
					touched++
					report("returned response touched later: had %v, has %v", k.snap, k.resp.Header)
				}
				if reqSnapshot(k.req) != k.rs {
					report("request modified later")
				}
			}
		}
		var cs []string
		for k, n := range counts {
			cs = append(cs, fmt.Sprintf("%s=%d", k, n))
		}
		sort.Strings(cs)
		verdict := "ok"
		if len(bad) > 0 {
			verdict = "BAD"
		}
		lines = append(lines, fmt.Sprintf("RACE backend=%s workers=8 iterations=%d origin_calls=%d %s findings=%d %s\n", backend, iters, org.n, strings.Join(cs, " "), len(bad), verdict))
		for _, b := range bad {
			lines = append(lines, fmt.Sprintf("RACEFINDING backend=%s %s\n", backend, strings.ReplaceAll(b, "\n", " ")))
		}
	}
	if err := writeLines(filepath.Join(out, "race.txt"), lines); err != nil {
		t.Fatal(err)
	}
}

// ---------- directed scenario: a 304 that arrives after the entry it validated was replaced ----------

type gateOrigin struct {
	fnOrigin
	hold    chan struct{} // closed to let held replies go
	holdINM string        // conditional requests carrying this validator are held after the origin has decided its answer
	held    chan struct{} // signalled when a reply is being held
}

func (o *gateOrigin) RoundTrip(req *http.Request) (*http.Response, error) {
	resp, err := o.fnOrigin.RoundTrip(req)
	if o.holdINM != "" && req.Header.Get("If-None-Match") == o.holdINM {
		select {
		case o.held <- struct{}{}:
		default:
		}
		<-o.hold
	}
	return resp, err
}

// TestLate304 (C16/C08): the stored response is replaced while a background revalidation of its predecessor is in flight;
// the late 304 must not be merged into the successor.
func TestLate304(t *testing.T) {
	out := os.Getenv("VERIF_OUT")
	if out == "" {
		t.Skip("VERIF_OUT not set")
	}
	var lines []string
	synctest.Test(t, func(t *testing.T) {
		dsn := registerConn(memcache.Open())
		defer unregisterConn(dsn)
		org := &gateOrigin{hold: make(chan struct{}), held: make(chan struct{}, 1), holdINM: fnETag(0, "a", 0)}
		rt := httpcache.NewTransport(dsn, httpcache.WithUpstream(org))
		do := func(method string, bump bool) (string, string, string, string) {
			req, _ := http.NewRequest(method, "http://a.test/r0", nil)
			req.Header.Set("X-V", "a")
			if bump {
				req.Header.Set("X-Bump", "1")
			}
			resp, err := rt.RoundTrip(req)
			if err != nil {
				return "ERR", "", "", ""
			}
			b, _ := io.ReadAll(resp.Body)
			resp.Body.Close()
			return resp.Header.Get("X-Httpcache-Status"), resp.Header.Get("X-Gen"), resp.Header.Get("Etag"), string(b)
		}
		s1, g1, _, _ := do("GET", false) // MISS, generation 0 stored
		time.Sleep(time.Second)
		s2, g2, _, _ := do("GET", false) // STALE; background validation of generation 0 is held at the origin (its answer: 304)
		synctest.Wait()
		<-org.held
		s3, _, _, _ := do("POST", true)  // generation 1; the entry is invalidated
		s4, g4, _, _ := do("GET", false) // MISS: generation 1 stored
		close(org.hold)                  // the 304 for generation 0 arrives now
		synctest.Wait()
		time.Sleep(time.Second)
		s5, g5, e5, b5 := do("GET", false)
		synctest.Wait()
		var gen int64
		fmt.Sscan(g5, &gen)
		consistent := b5 == fnContent(0, "a", gen) && e5 == fnETag(0, "a", gen)
		verdict := "ok"
		if !consistent {
			verdict = "BAD"
		}
		lines = append(lines, fmt.Sprintf("LATE304 steps=%s/%s,%s/%s,%s,%s/%s,%s/%s final_gen_header=%s final_etag=%s body_is_generation_%d_content=%v %s\n",
			s1, g1, s2, g2, s3, s4, g4, s5, g5, g5, e5, gen, b5 == fnContent(0, "a", gen), verdict))
	})
	if err := writeLines(filepath.Join(out, "late304.txt"), lines); err != nil {
		t.Fatal(err)
	}
}
