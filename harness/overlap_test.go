package harness

import (
	"fmt"
	"io"
	"net/http"
	"os"
	"path/filepath"
	"sort"
	"strings"
	"sync"
	"testing"
	"testing/synctest"
	"time"

	"github.com/bartventer/httpcache"
	"github.com/bartventer/httpcache/store/driver"
	"github.com/bartventer/httpcache/store/memcache"
)

// ---------- requests of one client that overlap a background validation (C08, C19, C20) ----------
//
// A stale-while-revalidate answer returns at once and the validation goes on in the background: the same client's next
// requests run while it is in flight.  The generated histories let background work finish before the next request
// (the sequential model does the same), so these overlaps are separate experiments: the origin decides its answer to
// the background validation, holds it, the client goes on, the answer is released.

// trackConn knows which keys are live in the backend
type trackConn struct {
	driver.Conn
	mu   sync.Mutex
	live map[string]bool
}

func (c *trackConn) Set(k string, v []byte) error {
	err := c.Conn.Set(k, v)
	if err == nil {
		c.mu.Lock()
		c.live[k] = true
		c.mu.Unlock()
	}
	return err
}
func (c *trackConn) Delete(k string) error {
	err := c.Conn.Delete(k)
	if err == nil {
		c.mu.Lock()
		delete(c.live, k)
		c.mu.Unlock()
	}
	return err
}
func (c *trackConn) keys() []string {
	c.mu.Lock()
	defer c.mu.Unlock()
	var ks []string
	for k := range c.live {
		ks = append(ks, k)
	}
	sort.Strings(ks)
	return ks
}

// ovOrigin: one resource with language variants; every variant has a generation (its representation changes when bumped)
type ovOrigin struct {
	mu       sync.Mutex
	gen      map[string]int
	vary     bool
	holdNext int           // this many of the next conditional requests are held after their answer is decided
	release  chan struct{} // closed to release the held answers
	held     chan string   // one message per held request
	calls    []string
	cc       string // when set: the Cache-Control of every reply
}

func (o *ovOrigin) RoundTrip(req *http.Request) (*http.Response, error) {
	mk := func(status int, h http.Header, body string) *http.Response {
		return &http.Response{Status: fmt.Sprintf("%d %s", status, http.StatusText(status)), StatusCode: status, Proto: "HTTP/1.1", ProtoMajor: 1, ProtoMinor: 1,
			Header: h, Body: io.NopCloser(strings.NewReader(body)), ContentLength: int64(len(body)), Request: req}
	}
	lang := req.Header.Get("Accept-Language")
	inm := req.Header.Get("If-None-Match")
	o.mu.Lock()
	o.calls = append(o.calls, fmt.Sprintf("%s lang=%s inm=%s", req.Method, lang, inm))
	if req.Method != "GET" {
		o.mu.Unlock()
		return mk(200, http.Header{"Content-Type": {"text/plain"}}, "done"), nil
	}
	g := o.gen[lang]
	hold := false
	if inm != "" && o.holdNext > 0 {
		o.holdNext--
		hold = true
	}
	release := o.release
	o.mu.Unlock()
	etag := fmt.Sprintf(`"%s-g%d"`, lang, g)
	h := http.Header{"Etag": {etag}, "X-Gen": {fmt.Sprintf("%s-g%d", lang, g)}, "Date": {time.Now().UTC().Format(http.TimeFormat)},
		"Cache-Control": {"max-age=1, stale-while-revalidate=600"}}
	if o.vary {
		h.Set("Vary", "Accept-Language")
	}
	body := fmt.Sprintf("body-%s-g%d", lang, g)
	var resp *http.Response
	if o.cc != "" {
		h.Set("Cache-Control", o.cc)
	}
	if inm != "" {
		if o.cc == "" {
			h.Set("Cache-Control", "max-age=600")
		}
		if inm == etag {
			resp = mk(304, h, "")
		} else {
			resp = mk(200, h, body)
		}
	} else {
		resp = mk(200, h, body)
	}
	if hold {
		o.held <- lang
		select {
		case <-release:
		case <-req.Context().Done():
			return nil, req.Context().Err()
		}
	}
	return resp, nil
}

type ovResult struct{ status, gen, body string }

func runOverlap(t *testing.T, scenario string) string {
	var line string
	synctest.Test(t, func(t *testing.T) {
		tc := &trackConn{Conn: memcache.Open(), live: map[string]bool{}}
		dsn := registerConn(tc)
		defer unregisterConn(dsn)
		org := &ovOrigin{gen: map[string]int{}, vary: scenario != "replace" && !strings.HasPrefix(scenario, "foreground-"), release: make(chan struct{}), held: make(chan string, 8)}
		rt := httpcache.NewTransport(dsn, httpcache.WithUpstream(org), httpcache.WithSWRTimeout(30*time.Second))
		target := "http://a.test/doc"
		do := func(method, lang, cc string) ovResult {
			req, _ := http.NewRequest(method, target, nil)
			if lang != "" {
				req.Header.Set("Accept-Language", lang)
			}
			if cc != "" {
				req.Header.Set("Cache-Control", cc)
			}
			resp, err := rt.RoundTrip(req)
			if err != nil {
				return ovResult{"ERR", "", ""}
			}
			b, _ := io.ReadAll(resp.Body)
			resp.Body.Close()
			return ovResult{resp.Header.Get("X-Httpcache-Status"), resp.Header.Get("X-Gen"), string(b)}
		}
		countCalls := func(pred func(string) bool) int {
			org.mu.Lock()
			defer org.mu.Unlock()
			n := 0
			for _, c := range org.calls {
				if pred(c) {
					n++
				}
			}
			return n
		}
		heldNow := func() bool {
			synctest.Wait()
			select {
			case <-org.held:
				return true
			default:
				return false
			}
		}
		settle := func() {
			synctest.Wait()
			time.Sleep(500 * time.Millisecond)
			synctest.Wait()
		}
		var problems []string
		lang := ""
		if org.vary {
			lang = "en"
		}
		if scenario == "foreground-validated" {
			// C02: the stored response must be validated on every use (no-cache).  Validation A is in flight — the origin has
			// decided on its 304 — when exchange B finds the representation changed and replaces the entry; then A's 304
			// arrives.  What A may return is the response its 304 is about, not the successor nobody validated for it.
			org.cc = "no-cache"
			r1 := do("GET", lang, "")
			org.mu.Lock()
			org.holdNext = 1
			org.mu.Unlock()
			done := make(chan ovResult, 1)
			go func() { done <- do("GET", lang, "") }()
			if !heldNow() {
				line = fmt.Sprintf("OVERLAP scenario=%s | the validation did not reach the origin (first=%s) SKIP\n", scenario, r1.status)
				close(org.release)
				settle()
				return
			}
			org.mu.Lock()
			org.gen[lang]++
			org.mu.Unlock()
			rb := do("GET", lang, "")
			close(org.release)
			ra := <-done
			settle()
			rc := do("GET", lang, "")
			settle()
			if rb.gen != "-g1" {
				problems = append(problems, "harness: the second exchange did not fetch the new representation: "+rb.gen)
			}
			if ra.status == "REVALIDATED" && ra.body != "body--g0" {
				problems = append(problems, fmt.Sprintf("unvalidated-successor-returned: a 304 about %q was answered with the body %q, which no validation of this exchange is about", "-g0", ra.body))
			}
			v := "ok"
			if len(problems) > 0 {
				v = "BAD"
			}
			line = fmt.Sprintf("OVERLAP scenario=%s | first=%s/%s in_flight=%s/%s meanwhile=%s/%s later=%s/%s problems=%q %s\n", scenario, r1.status, r1.gen, ra.status, ra.body, rb.status, rb.gen, rc.status, rc.gen, strings.Join(problems, " ; "), v)
			return
		}
		if scenario == "foreground-invalidated" {
			// C19: a validation in the foreground is in flight (its 304 decided) when an unsafe request invalidates the entry;
			// the 304 arrives afterwards and is written back.  Whatever that leaves in the store, the next invalidation of the
			// URI removes it: no key without an index.
			org.cc = "no-cache"
			r1 := do("GET", lang, "")
			org.mu.Lock()
			org.holdNext = 1
			org.mu.Unlock()
			done := make(chan ovResult, 1)
			go func() { done <- do("GET", lang, "") }()
			if !heldNow() {
				line = fmt.Sprintf("OVERLAP scenario=%s | the validation did not reach the origin (first=%s) SKIP\n", scenario, r1.status)
				close(org.release)
				settle()
				return
			}
			p1 := do("POST", "", "")
			mid := len(tc.keys())
			close(org.release)
			ra := <-done
			settle()
			after304 := len(tc.keys())
			p2 := do("POST", "", "")
			settle()
			left := tc.keys()
			if len(left) != 0 {
				problems = append(problems, fmt.Sprintf("orphan-after-invalidation: %d keys left in the store after the second unsafe request: %q", len(left), left))
			}
			v := "ok"
			if len(problems) > 0 {
				v = "BAD"
			}
			line = fmt.Sprintf("OVERLAP scenario=%s | first=%s in_flight=%s post=%s keys_after_post=%d keys_after_late_304=%d second_post=%s keys_left=%d problems=%q %s\n",
				scenario, r1.status, ra.status, p1.status, mid, after304, p2.status, len(left), strings.Join(problems, " ; "), v)
			return
		}
		r1 := do("GET", lang, "")
		var rfr0 ovResult
		if scenario == "second-variant-stale" {
			rfr0 = do("GET", "fr", "")
		}
		time.Sleep(2 * time.Second)
		org.mu.Lock()
		org.holdNext = 1
		org.mu.Unlock()
		r2 := do("GET", lang, "") // stale, inside the window: answered at once, validation in the background
		if r2.status != "STALE" || !heldNow() {
			line = fmt.Sprintf("OVERLAP scenario=%s | no background validation in flight (first=%s second=%s) SKIP\n", scenario, r1.status, r2.status)
			close(org.release)
			settle()
			return
		}
		detail := ""
		switch scenario {
		case "replace":
			// the representation changes; a forced validation in the foreground fetches and stores the new one; then the
			// answer to the background validation (a 304 for the old one, decided before the change) arrives
			org.mu.Lock()
			org.gen[lang]++
			org.mu.Unlock()
			r3 := do("GET", lang, "no-cache")
			close(org.release)
			settle()
			r4 := do("GET", lang, "")
			settle()
			detail = fmt.Sprintf("first=%s/%s stale=%s/%s forced=%s/%s final=%s/%s", r1.status, r1.gen, r2.status, r2.gen, r3.status, r3.gen, r4.status, r4.gen)
			if r3.gen != "-g1" {
				problems = append(problems, "harness: the forced validation did not fetch the new representation")
			}
			if r4.gen != "-g1" || r4.body != "body--g1" {
				problems = append(problems, fmt.Sprintf("replaced-representation-served: after the full reply %s was stored, a later request got %s (%s)", r3.gen, r4.gen, r4.status))
			}
		case "second-variant-stored", "second-variant-invalidated":
			// another variant is stored while the validation is in flight; both variants must stay available
			// (second-variant-stored), and an invalidation afterwards must leave nothing behind (second-variant-invalidated:
			// the unsafe request follows at once)
			r3 := do("GET", "fr", "")
			close(org.release)
			settle()
			r4, r5 := ovResult{"HIT", "fr-g0", ""}, ovResult{"HIT", "en-g0", ""}
			if scenario == "second-variant-stored" {
				r4 = do("GET", "fr", "")
				r5 = do("GET", "en", "")
				settle()
			}
			nOrigin := countCalls(func(c string) bool { return strings.HasPrefix(c, "GET") })
			r6 := do("POST", "", "")
			settle()
			left := tc.keys()
			detail = fmt.Sprintf("first=%s stale=%s other=%s/%s other_again=%s/%s first_again=%s/%s origin_gets=%d post=%s keys_left=%d", r1.status, r2.status, r3.status, r3.gen, r4.status, r4.gen, r5.status, r5.gen, nOrigin, r6.status, len(left))
			if r4.status != "HIT" || r4.gen != "fr-g0" {
				problems = append(problems, fmt.Sprintf("variant-lost: the variant stored during the background validation is not served from the store afterwards (%s/%s)", r4.status, r4.gen))
			}
			if r5.status != "HIT" || r5.gen != "en-g0" {
				problems = append(problems, fmt.Sprintf("variant-lost: the validated variant is not served from the store afterwards (%s/%s)", r5.status, r5.gen))
			}
			if len(left) != 0 {
				problems = append(problems, fmt.Sprintf("orphan-after-invalidation: %d keys left in the store after the unsafe request: %q", len(left), left))
			}
		case "invalidated":
			// an unsafe request invalidates the entry while its validation is in flight: the background work ends there; it
			// does not go back to the origin
			r3 := do("POST", "", "")
			close(org.release)
			settle()
			ngets := countCalls(func(c string) bool { return strings.HasPrefix(c, "GET") })
			nval := countCalls(func(c string) bool { return strings.HasPrefix(c, "GET") && !strings.HasSuffix(c, "inm=") })
			left := tc.keys()
			detail = fmt.Sprintf("first=%s stale=%s post=%s origin_gets=%d validations=%d keys_left=%d", r1.status, r2.status, r3.status, ngets, nval, len(left))
			if ngets != 2 || nval != 1 {
				problems = append(problems, fmt.Sprintf("revalidation-count: %d GET requests reached the origin, %d of them conditional (the first fetch and exactly one revalidation expected)", ngets, nval))
			}
			if len(left) != 0 {
				problems = append(problems, fmt.Sprintf("orphan-after-invalidation: %d keys left in the store after the unsafe request and the end of the background work: %q", len(left), left))
			}
		case "second-variant-stale":
			// another variant, also stale inside its window, is requested while the first validation is in flight: it is
			// answered at once and gets its own validation request
			org.mu.Lock()
			org.holdNext = 1
			org.mu.Unlock()
			r3 := do("GET", "fr", "")
			held2 := heldNow()
			close(org.release)
			settle()
			nfr := countCalls(func(c string) bool { return strings.HasPrefix(c, "GET lang=fr inm=\"") })
			nen := countCalls(func(c string) bool { return strings.HasPrefix(c, "GET lang=en inm=\"") })
			detail = fmt.Sprintf("first=%s other_first=%s stale=%s other=%s/%s other_validation_in_flight=%v validations_en=%d validations_fr=%d", r1.status, rfr0.status, r2.status, r3.status, r3.gen, held2, nen, nfr)
			if r3.status != "STALE" {
				problems = append(problems, "harness: the second variant was not served stale: "+r3.status)
			} else if nfr != 1 || nen != 1 {
				problems = append(problems, fmt.Sprintf("revalidation-count: %d validation requests for the variant served stale second, %d for the first (exactly one each expected)", nfr, nen))
			}
		}
		v := "ok"
		if len(problems) > 0 {
			v = "BAD"
		}
		line = fmt.Sprintf("OVERLAP scenario=%s | %s problems=%q %s\n", scenario, detail, strings.Join(problems, " ; "), v)
	})
	return line
}

func TestOverlap(t *testing.T) {
	out := os.Getenv("VERIF_OUT")
	if out == "" {
		t.Skip("VERIF_OUT not set")
	}
	var lines []string
	for _, sc := range []string{"replace", "second-variant-stored", "second-variant-invalidated", "second-variant-stale", "invalidated", "foreground-validated", "foreground-invalidated"} {
		lines = append(lines, runOverlap(t, sc))
	}
	if err := writeLines(filepath.Join(out, "overlap.txt"), lines); err != nil {
		t.Fatal(err)
	}
}
