package harness

import (
	"errors"
	"fmt"
	"io"
	"net/http"
	"net/http/httptest"
	"net/url"
	"os"
	"path/filepath"
	"sort"
	"strings"
	"testing"
	"unicode/utf8"

	"encoding/json"

	"github.com/bartventer/httpcache/store/driver"
	"github.com/bartventer/httpcache/store/expapi"
	"github.com/bartventer/httpcache/store/fscache"
	"github.com/bartventer/httpcache/store/memcache"
)

// ---------- operation sequences on the backends (C14) ----------

type sop struct {
	Kind string // S G D K R
	Key  string
	Val  string
	API  bool // through the maintenance HTTP API instead of the driver.Conn
}

type scase struct {
	ID      string
	Backend string // mem fs fsenc
	Ops     []sop
}

func (c *scase) encode() string {
	var b strings.Builder
	fmt.Fprintf(&b, "SCASE %s %s\n", c.ID, c.Backend)
	for _, o := range c.Ops {
		api := ""
		if o.API {
			api = " A"
		}
		switch o.Kind {
		case "S":
			fmt.Fprintf(&b, "OP S %s %s\n", hx(o.Key), hx(o.Val))
		case "R":
			b.WriteString("OP R\n")
		default:
			fmt.Fprintf(&b, "OP %s %s%s\n", o.Kind, hx(o.Key), api)
		}
	}
	b.WriteString("END\n")
	return b.String()
}

// adversarial keys: lengths around the fragment (36 bytes = 48 characters) and file-name (191/192 bytes
// = 255/256 characters) boundaries, shared prefixes, every byte value, URL-shaped keys with '#'
func (g *G) storeKeyPool() []string {
	base := make([]byte, 400)
	for i := range base {
		base[i] = byte('a' + i%26)
	}
	if g.chance(0.5) {
		for i := range base {
			base[i] = byte(g.intn(256))
		}
	}
	lens := []int{0, 1, 2, 35, 36, 37, 70, 71, 72, 141, 142, 190, 191, 192, 193, 211, 212, 216, 252, 300, 400}
	var pool []string
	for _, n := range lens {
		if g.chance(0.6) {
			pool = append(pool, string(base[:n]))
		}
	}
	pool = append(pool, "http://a.test/x", "http://a.test/x#0", "http://a.test/x#123", "http://a.test/", string(base[:36])+"X", string(base[:192])+"/y")
	// a few random binary keys
	for i := 0; i < 3; i++ {
		n := g.intn(64)
		k := make([]byte, n)
		for j := range k {
			k[j] = byte(g.intn(256))
		}
		pool = append(pool, string(k))
	}
	return pool
}

func (g *G) storeValue(max int) string {
	n := g.pickI(0, 1, 2, 17, 100, max/2, max)
	if max >= 65536 && g.chance(0.004) {
		n = 1 << 20 // rarely a value of 1 MiB (thorough tier)
	}
	v := make([]byte, n)
	for i := range v {
		v[i] = byte(g.intn(256))
	}
	return string(v)
}

func (g *G) genStoreCase(id, backend string, nops, maxVal int) *scase {
	c := &scase{ID: id, Backend: backend}
	pool := g.storeKeyPool()
	for i := 0; i < nops; i++ {
		k := pool[g.intn(len(pool))]
		switch x := g.intn(20); {
		case x < 8:
			c.Ops = append(c.Ops, sop{Kind: "S", Key: k, Val: g.storeValue(maxVal)})
		case x < 13:
			c.Ops = append(c.Ops, sop{Kind: "G", Key: k, API: g.chance(0.25)})
		case x < 16:
			c.Ops = append(c.Ops, sop{Kind: "D", Key: k, API: g.chance(0.25)})
		case x < 18:
			p := k
			if len(p) > 3 && g.chance(0.7) {
				p = p[:g.intn(len(p))]
			}
			if g.chance(0.3) {
				p = ""
			}
			// the JSON listing of the maintenance API cannot carry keys that are not valid UTF-8
			// (known finding, see the probe case): use it only when every key of the pool is
			allUTF8 := true
			for _, pk := range pool {
				if !utf8.ValidString(pk) {
					allUTF8 = false
				}
			}
			c.Ops = append(c.Ops, sop{Kind: "K", Key: p, API: allUTF8 && g.chance(0.35)})
		default:
			if backend != "mem" {
				c.Ops = append(c.Ops, sop{Kind: "R"})
			}
		}
	}
	return c
}

func classify(err error) string {
	if err == nil {
		return "ok"
	}
	if errors.Is(err, driver.ErrNotExist) {
		return "notexist"
	}
	return "fail"
}

func scribble(b []byte) {
	for i := range b {
		b[i] ^= 0xA5
	}
}

// runStoreCase executes the operations on a fresh backend of the given kind.
func runStoreCase(t *testing.T, c *scase) []string {
	var lines []string
	var conn driver.Conn
	var reopen func() driver.Conn
	switch c.Backend {
	case "mem":
		conn = memcache.Open()
	default:
		dir, err := os.MkdirTemp("", "verif-store-")
		if err != nil {
			t.Fatal(err)
		}
		defer os.RemoveAll(dir)
		reopen = func() driver.Conn {
			fo := []fscache.Option{fscache.WithBaseDir(dir)}
			if c.Backend == "fsenc" {
				fo = append(fo, fscache.WithEncryption("6S-Ks2YYOW0xMvTzKSv6QD30gZeOi1c6Ydr-As5csWk="))
			}
			cc, err := fscache.Open("verif", fo...)
			if err != nil {
				t.Fatal(err)
			}
			return cc
		}
		conn = reopen()
	}
	holder := &swapConn{inner: conn}
	var reg driver.Conn = holder
	if _, ok := conn.(interface {
		Keys(string) ([]string, error)
	}); ok {
		reg = &swapConnKL{holder} // only a backend that lists keys is presented as a KeyLister
	}
	dsn := registerConn(reg)
	defer unregisterConn(dsn)
	mux := http.NewServeMux()
	expapi.Register(expapi.WithServeMux(mux))
	api := func(method, key, prefix string) (int, []byte) {
		target := "/debug/httpcache"
		if method != "LIST" {
			target += "/" + url.PathEscape(key)
		} else {
			method = "GET"
		}
		q := url.Values{"dsn": {dsn}}
		if prefix != "" {
			q.Set("prefix", prefix)
		}
		req := httptest.NewRequest(method, target+"?"+q.Encode(), nil)
		rec := httptest.NewRecorder()
		mux.ServeHTTP(rec, req)
		body, _ := io.ReadAll(rec.Result().Body)
		return rec.Code, body
	}
	for i, o := range c.Ops {
		var res string
		switch o.Kind {
		case "S":
			buf := []byte(o.Val)
			err := holder.Set(o.Key, buf)
			scribble(buf) // the caller reuses its buffer
			res = classify(err)
		case "G":
			if o.API && o.Key != "" && !strings.Contains(o.Key, "\x00") {
				code, body := api("GET", o.Key, "")
				switch code {
				case 200:
					res = "val " + hx(string(body))
				case 404:
					res = "notexist"
				default:
					res = "fail"
				}
				break
			}
			v, err := holder.Get(o.Key)
			if err == nil {
				res = "val " + hx(string(v))
				scribble(v) // the caller writes into what it was given
			} else {
				res = classify(err)
			}
		case "D":
			if o.API && o.Key != "" && !strings.Contains(o.Key, "\x00") {
				code, _ := api("DELETE", o.Key, "")
				switch code {
				case 204:
					res = "ok"
				case 404:
					res = "notexist"
				default:
					res = "fail"
				}
				break
			}
			res = classify(holder.Delete(o.Key))
		case "K":
			var keys []string
			var err error
			if o.API {
				code, body := api("LIST", "", o.Key)
				if code == 200 {
					var out map[string][]string
					err = json.Unmarshal(body, &out)
					keys = out["keys"]
				} else if code == http.StatusNotImplemented {
					err = errKeysUnsupported
				} else {
					err = fmt.Errorf("list: %d", code)
				}
			} else if kl, ok := holder.inner.(interface {
				Keys(string) ([]string, error)
			}); ok {
				keys, err = kl.Keys(o.Key)
			} else {
				err = errKeysUnsupported
			}
			switch {
			case errors.Is(err, errKeysUnsupported):
				res = "nokeys"
			case err != nil:
				res = "fail"
			default:
				sort.Strings(keys)
				var b strings.Builder
				fmt.Fprintf(&b, "keys %d", len(keys))
				for _, k := range keys {
					b.WriteString(" " + hx(k))
				}
				res = b.String()
			}
		case "R":
			holder.inner = reopen()
			res = "ok"
		}
		lines = append(lines, fmt.Sprintf("SR %s %d %s\n", c.ID, i, res))
	}
	return lines
}

var errKeysUnsupported = errors.New("keys not supported")

type swapConn struct{ inner driver.Conn }

func (s *swapConn) Get(k string) ([]byte, error) { return s.inner.Get(k) }
func (s *swapConn) Set(k string, v []byte) error { return s.inner.Set(k, v) }
func (s *swapConn) Delete(k string) error        { return s.inner.Delete(k) }

type swapConnKL struct{ *swapConn }

func (s *swapConnKL) Keys(p string) ([]string, error) {
	if kl, ok := s.inner.(interface {
		Keys(string) ([]string, error)
	}); ok {
		return kl.Keys(p)
	}
	return nil, errKeysUnsupported
}

// TestStoreOps: VERIF_N operation sequences per backend configuration.
func TestStoreOps(t *testing.T) {
	out := os.Getenv("VERIF_OUT")
	if out == "" {
		t.Skip("VERIF_OUT not set")
	}
	seed := uint64(envInt("VERIF_SEED", 1))
	n := envInt("VERIF_N", 50)
	nops := envInt("VERIF_NOPS", 30)
	maxVal := envInt("VERIF_MAXVAL", 4096)
	g := newG(seed, 0x51ed270b)
	var cases, impl []string
	// probe of the known finding: a key that is not valid UTF-8, listed through the HTTP API
	probe := &scase{ID: "st-probe-binarykey-api", Backend: "fs", Ops: []sop{
		{Kind: "S", Key: "k\xff\xfe", Val: "v"}, {Kind: "K", Key: "", API: true}, {Kind: "K", Key: ""}, {Kind: "G", Key: "k\xff\xfe"}}}
	cases = append(cases, probe.encode())
	impl = append(impl, runStoreCase(t, probe)...)
	for i := 0; i < n; i++ {
		for _, be := range []string{"mem", "fs", "fsenc"} {
			c := g.genStoreCase(fmt.Sprintf("st-%d-%d-%s", seed, i, be), be, nops, maxVal)
			cases = append(cases, c.encode())
			impl = append(impl, runStoreCase(t, c)...)
		}
	}
	if err := writeLines(filepath.Join(out, "scases.txt"), cases); err != nil {
		t.Fatal(err)
	}
	if err := writeLines(filepath.Join(out, "simpl.txt"), impl); err != nil {
		t.Fatal(err)
	}
}
