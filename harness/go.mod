module verifharness

go 1.25

require github.com/bartventer/httpcache v0.0.0

replace github.com/bartventer/httpcache => /repo

require github.com/anishathalye/porcupine v1.3.0
