package harness

import (
	"bytes"
	"crypto/aes"
	"crypto/cipher"
	"encoding/base64"
	"fmt"
	"io"
	"net/http"
	"net/url"
	"os"
	"path/filepath"
	"strings"
	"sync"
	"testing"
	"time"

	"github.com/bartventer/httpcache"
	"github.com/bartventer/httpcache/store"
	"github.com/bartventer/httpcache/store/driver"
	"github.com/bartventer/httpcache/store/fscache"
)

// ---------- C17: encryption at rest ----------

func rawFiles(dir string) map[string][]byte {
	out := map[string][]byte{}
	_ = filepath.WalkDir(dir, func(p string, d os.DirEntry, err error) error {
		if err == nil && !d.IsDir() {
			b, _ := os.ReadFile(p)
			out[p] = b
		}
		return nil
	})
	return out
}

func containsFragment(file, value []byte, n int) bool {
	if len(value) < n {
		return len(value) > 3 && bytes.Contains(file, value)
	}
	for i := 0; i+n <= len(value); i += n / 2 {
		if bytes.Contains(file, value[i:i+n]) {
			return true
		}
	}
	return false
}

func gcmFor(keyB64 string) cipher.AEAD {
	k, _ := base64.URLEncoding.DecodeString(keyB64)
	b, _ := aes.NewCipher(k)
	g, _ := cipher.NewGCM(b)
	return g
}

type oneShotOrigin struct {
	calls int
	body  string
}

func (o *oneShotOrigin) RoundTrip(req *http.Request) (*http.Response, error) {
	o.calls++
	h := http.Header{"Cache-Control": {"max-age=3600"}, "Content-Type": {"text/plain"}, "X-Secret-Field": {"field-value-0123456789"}}
	return &http.Response{Status: "200 OK", StatusCode: 200, Proto: "HTTP/1.1", ProtoMajor: 1, ProtoMinor: 1,
		Header: h, Body: io.NopCloser(strings.NewReader(o.body)), ContentLength: int64(len(o.body)), Request: req}, nil
}

func TestEncryption(t *testing.T) {
	out := os.Getenv("VERIF_OUT")
	if out == "" {
		t.Skip("VERIF_OUT not set")
	}
	thorough := os.Getenv("VERIF_TIER") == "thorough"
	seed := uint64(envInt("VERIF_SEED", 1))
	g := newG(seed, 0xc17)
	var lines []string
	add := func(format string, a ...any) { lines = append(lines, fmt.Sprintf(format, a...)+"\n") }
	verdict := func(ok bool) string {
		if ok {
			return "ok"
		}
		return "BAD"
	}
	key32 := encKey
	key16 := base64.URLEncoding.EncodeToString(bytes.Repeat([]byte{7}, 16))
	key24 := base64.URLEncoding.EncodeToString(bytes.Repeat([]byte{9}, 24))

	// ---- (1) every way of switching encryption on: it is on with a usable key, or Open fails ----
	type cfg struct {
		name    string
		open    func(dir string) (driver.Conn, error)
		key     string // the key that must be in use; "" = Open must fail
		envKey  string
		mustErr bool
	}
	dsn := func(dir, q string) string { return "fscache://" + dir + "?appname=verif" + q }
	cfgs := []cfg{
		{name: "option", key: key32, open: func(d string) (driver.Conn, error) {
			return fscache.Open("verif", fscache.WithBaseDir(d), fscache.WithEncryption(key32))
		}},
		{name: "option-aes128", key: key16, open: func(d string) (driver.Conn, error) {
			return fscache.Open("verif", fscache.WithBaseDir(d), fscache.WithEncryption(key16))
		}},
		{name: "option-aes192", key: key24, open: func(d string) (driver.Conn, error) {
			return fscache.Open("verif", fscache.WithBaseDir(d), fscache.WithEncryption(key24))
		}},
		{name: "dsn-on", key: key32, open: func(d string) (driver.Conn, error) { return store.Open(dsn(d, "&encrypt=on&encrypt_key="+key32)) }},
		{name: "dsn-aesgcm", key: key32, open: func(d string) (driver.Conn, error) { return store.Open(dsn(d, "&encrypt=aesgcm&encrypt_key="+key32)) }},
		{name: "dsn-on-envkey", key: key32, envKey: key32, open: func(d string) (driver.Conn, error) { return store.Open(dsn(d, "&encrypt=on")) }},
		{name: "dsn-key-overrides-env", key: key16, envKey: key32, open: func(d string) (driver.Conn, error) {
			return store.Open(dsn(d, "&encrypt=on&encrypt_key="+key16))
		}},
		{name: "dsn-on-nokey", mustErr: true, open: func(d string) (driver.Conn, error) { return store.Open(dsn(d, "&encrypt=on")) }},
		{name: "dsn-aesgcm-nokey", mustErr: true, open: func(d string) (driver.Conn, error) { return store.Open(dsn(d, "&encrypt=aesgcm")) }},
		{name: "option-empty-key", mustErr: true, open: func(d string) (driver.Conn, error) {
			return fscache.Open("verif", fscache.WithBaseDir(d), fscache.WithEncryption(""))
		}},
		{name: "dsn-bad-base64", mustErr: true, open: func(d string) (driver.Conn, error) {
			return store.Open(dsn(d, "&encrypt=on&encrypt_key=***notbase64***"))
		}},
		{name: "dsn-short-key", mustErr: true, open: func(d string) (driver.Conn, error) {
			return store.Open(dsn(d, "&encrypt=on&encrypt_key="+base64.URLEncoding.EncodeToString([]byte("short"))))
		}},
		{name: "dsn-33-byte-key", mustErr: true, open: func(d string) (driver.Conn, error) {
			return store.Open(dsn(d, "&encrypt=on&encrypt_key="+base64.URLEncoding.EncodeToString(bytes.Repeat([]byte{1}, 33))))
		}},
		{name: "env-bad-key", mustErr: true, envKey: "!!", open: func(d string) (driver.Conn, error) { return store.Open(dsn(d, "&encrypt=on")) }},
	}
	for _, c := range cfgs {
		dir, _ := os.MkdirTemp("", "verif-enc-")
		os.Unsetenv("FSCACHE_ENCRYPT_KEY")
		if c.envKey != "" {
			os.Setenv("FSCACHE_ENCRYPT_KEY", c.envKey)
		}
		conn, err := c.open(dir)
		os.Unsetenv("FSCACHE_ENCRYPT_KEY")
		if c.mustErr {
			// encryption was asked for without a usable key: Open must fail; if it does not, nothing may be stored in the clear
			clear := false
			if err == nil {
				val := []byte("plaintext-canary-0123456789-plaintext-canary")
				_ = conn.Set("k", val)
				for _, f := range rawFiles(dir) {
					if containsFragment(f, val, 12) {
						clear = true
					}
				}
			}
			add("CONFIG %s open_failed=%v plaintext_written=%v %s", c.name, err != nil, clear, verdict(err != nil))
			os.RemoveAll(dir)
			continue
		}
		if err != nil {
			add("CONFIG %s open_failed=true BAD", c.name)
			os.RemoveAll(dir)
			continue
		}
		aead := gcmFor(c.key)
		nvals := 6
		if thorough {
			nvals = 60
		}
		okAll := true
		detail := ""
		for i := 0; i < nvals; i++ {
			// distinct per key: the file of this key is recognised by opening to this very value
			val := []byte(fmt.Sprintf("value-%d:", i) + g.storeValue(3000) + "|canary-plaintext-fragment-0123456789|")
			key := fmt.Sprintf("http://a.test/enc/%d", i)
			if i%3 == 2 {
				// long keys are spread over a chain of directories (created on first use): 192, 300, 600 bytes
				key += "/" + strings.Repeat("k", []int{192, 300, 600}[(i/3)%3]-len(key)-1)
			}
			if err := conn.Set(key, val); err != nil {
				okAll, detail = false, "set failed"
				break
			}
			files := rawFiles(dir)
			var mine []byte
			for p, f := range files {
				if containsFragment(f, val, 16) {
					okAll, detail = false, "plaintext fragment in "+filepath.Base(p)
				}
				// the file of this key: the one that opens to val
				if len(f) >= aead.NonceSize() {
					if pt, err := aead.Open(nil, f[:aead.NonceSize()], f[aead.NonceSize():], []byte(key)); err == nil && bytes.Equal(pt, val) {
						mine = f
					}
				}
			}
			if mine == nil {
				okAll, detail = false, "no file is nonce||Seal(key, nonce, value)"
				break
			}
			// file[12:] == Seal(nil, file[:12], value, additional data = the key the value is stored under) exactly
			if !bytes.Equal(mine[aead.NonceSize():], aead.Seal(nil, mine[:aead.NonceSize()], val, []byte(key))) {
				okAll, detail = false, "ciphertext differs from an independent AES-GCM computation"
			}
			// writing the same value again gives another ciphertext
			_ = conn.Set(key, val)
			var again []byte
			for _, f := range rawFiles(dir) {
				if len(f) >= aead.NonceSize() {
					if pt, err := aead.Open(nil, f[:aead.NonceSize()], f[aead.NonceSize():], []byte(key)); err == nil && bytes.Equal(pt, val) {
						again = f
					}
				}
			}
			if again == nil || bytes.Equal(again, mine) {
				okAll, detail = false, "two writes of one value gave the same ciphertext"
			}
			got, err := conn.Get(key)
			if err != nil || !bytes.Equal(got, val) {
				okAll, detail = false, "round trip failed"
			}
		}
		add("CONFIG %s encrypted_files=%v detail=%q %s", c.name, okAll, detail, verdict(okAll))
		os.RemoveAll(dir)
	}

	// ---- (1b) the wiring grid: every combination of DSN parameters / option key / environment key ----
	// result: err (Open failed) | plain (values stored in the clear) | key:<hex> (files open under that AES key)
	candidates := map[string][]byte{}
	addCandidate := func(kb string) {
		kb = strings.NewReplacer("\r", "", "\n", "").Replace(kb)
		for _, e := range []*base64.Encoding{base64.URLEncoding, base64.RawURLEncoding, base64.StdEncoding} {
			if k, err := e.DecodeString(kb); err == nil && (len(k) == 16 || len(k) == 24 || len(k) == 32) {
				candidates[hx(string(k))] = k
			}
		}
	}
	classifyConn := func(dir string, conn driver.Conn, err error) string {
		if err != nil {
			return "err"
		}
		val := []byte("wire-canary-plaintext-0123456789-wire-canary")
		if err := conn.Set("k", val); err != nil {
			return "seterr"
		}
		for _, f := range rawFiles(dir) {
			if bytes.Equal(f, val) {
				return "plain"
			}
			for _, k := range candidates {
				b, _ := aes.NewCipher(k)
				a, _ := cipher.NewGCM(b)
				if len(f) >= 12 {
					if pt, err := a.Open(nil, f[:12], f[12:], []byte("k")); err == nil && bytes.Equal(pt, val) {
						return "key:" + hx(string(k))
					}
				}
			}
		}
		return "unknown"
	}
	pad := func(k string) string { return strings.TrimRight(k, "=") }
	encVals := []string{"on", "aesgcm", "", "off", "ON", "On", "true", "1", "aesgcm ", "AESGCM", "on,aesgcm"}
	keyVals := []string{"", key32, key16, key24, pad(key32), key32 + "\n", "***", base64.URLEncoding.EncodeToString([]byte("short")),
		base64.URLEncoding.EncodeToString(bytes.Repeat([]byte{1}, 33)), base64.StdEncoding.EncodeToString(bytes.Repeat([]byte{0xfb, 0xff}, 16)), key16[:len(key16)-3] + "A==", " " + key32, " ", "\n", " \t "}
	envVals := []string{"", key24, "!!", key32, " ", "\n"}
	for _, kv := range append(append([]string{}, keyVals...), envVals...) {
		addCandidate(kv)
		addCandidate(strings.TrimSpace(kv))
	}
	for _, ev := range encVals {
		for _, kv := range keyVals {
			for _, nv := range envVals {
				dir, _ := os.MkdirTemp("", "verif-wire-")
				os.Unsetenv("FSCACHE_ENCRYPT_KEY")
				if nv != "" {
					os.Setenv("FSCACHE_ENCRYPT_KEY", nv)
				}
				q := url.Values{"appname": {"verif"}}
				if ev != "" || g.chance(0.5) {
					q.Set("encrypt", ev)
				}
				if kv != "" || g.chance(0.5) {
					q.Set("encrypt_key", kv)
				}
				conn, err := store.Open("fscache://" + dir + "?" + q.Encode())
				os.Unsetenv("FSCACHE_ENCRYPT_KEY")
				add("WIRE U %s %s %s %s", hx(ev), hx(kv), hx(nv), classifyConn(dir, conn, err))
				os.RemoveAll(dir)
			}
		}
	}
	for _, kv := range keyVals {
		dir, _ := os.MkdirTemp("", "verif-wire-")
		os.Setenv("FSCACHE_ENCRYPT_KEY", key24) // the option never reads the environment
		conn, err := fscache.Open("verif", fscache.WithBaseDir(dir), fscache.WithEncryption(kv))
		os.Unsetenv("FSCACHE_ENCRYPT_KEY")
		add("WIRE O %s %s", hx(kv), classifyConn(dir, conn, err))
		os.RemoveAll(dir)
	}

	// ---- (2) tampering: every single-byte change, every truncation, extensions, wrong key ----
	sizes := []int{0, 1, 33}
	if thorough {
		sizes = []int{0, 1, 33, 200, 1500}
	}
	// every other documented option of the backend is combined with encryption once: options must not weaken it
	type tamperCfg struct {
		name string
		opts []fscache.Option
	}
	tcfgs := []tamperCfg{{"plain", nil}, {"update_mtime", []fscache.Option{fscache.WithUpdateMTime(true)}},
		{"timeouts", []fscache.Option{fscache.WithTimeout(time.Minute), fscache.WithConnectTimeout(time.Minute)}}}
	for _, tc := range tcfgs {
		for _, n := range sizes {
			if tc.name != "plain" && n > 33 {
				continue
			}
			dir, _ := os.MkdirTemp("", "verif-tamper-")
			conn, err := fscache.Open("verif", append([]fscache.Option{fscache.WithBaseDir(dir), fscache.WithEncryption(key32)}, tc.opts...)...)
			if err != nil {
				t.Fatal(err)
			}
			val := valueN('T', n)
			key := "http://a.test/tamper"
			if err := conn.Set(key, val); err != nil {
				t.Fatal(err)
			}
			var path string
			var orig []byte
			for p, f := range rawFiles(dir) {
				path, orig = p, f
			}
			leaks := 0
			tried := 0
			try := func(mut []byte, what string) {
				tried++
				_ = os.WriteFile(path, mut, 0o644)
				got, err := conn.Get(key)
				if err == nil {
					leaks++
					add("TAMPER len=%d options=%s %s returned %d bytes without error BAD", n, tc.name, what, len(got))
				}
			}
			for i := range orig {
				for _, x := range []byte{0x01, 0x80, 0xff} {
					m := append([]byte(nil), orig...)
					m[i] ^= x
					try(m, fmt.Sprintf("flip byte %d ^%#x", i, x))
				}
			}
			for k := 0; k < len(orig); k++ {
				try(orig[:k], fmt.Sprintf("truncate to %d", k))
			}
			try(append(append([]byte(nil), orig...), 0), "extend by one zero byte")
			try(append(append([]byte(nil), orig...), orig...), "file doubled")
			try(append(append([]byte(nil), orig[:12]...), orig...), "nonce repeated")
			// restore and check the wrong key
			_ = os.WriteFile(path, orig, 0o644)
			other, err := fscache.Open("verif", append([]fscache.Option{fscache.WithBaseDir(dir), fscache.WithEncryption(key16)}, tc.opts...)...)
			wrongKeyOK := false
			if err == nil {
				_, gerr := other.Get(key)
				wrongKeyOK = gerr != nil
			}
			plainReader, _ := fscache.Open("verif", fscache.WithBaseDir(dir))
			pr, _ := plainReader.Get(key)
			add("TAMPER len=%d options=%s modifications=%d accepted=%d wrong_key_rejected=%v plaintext_visible_without_key=%v %s",
				n, tc.name, tried, leaks, wrongKeyOK, n > 3 && bytes.Contains(pr, val), verdict(leaks == 0 && wrongKeyOK && !(n > 3 && bytes.Contains(pr, val))))
			os.RemoveAll(dir)
		}
	}

	// ---- (2b) large values: cuts at block-like boundaries (powers of two, multiples of 4 KiB and of 64 KiB plus the sizes of a
	// nonce and a tag), at random lengths, and byte changes at random positions ----
	for _, n := range []int{70000, 200000} {
		dir, _ := os.MkdirTemp("", "verif-tamper-")
		conn, err := fscache.Open("verif", fscache.WithBaseDir(dir), fscache.WithEncryption(key32))
		if err != nil {
			t.Fatal(err)
		}
		val := valueN('L', n)
		key := "http://a.test/tamper-large"
		if err := conn.Set(key, val); err != nil {
			t.Fatal(err)
		}
		var path string
		var orig []byte
		for p, f := range rawFiles(dir) {
			path, orig = p, f
		}
		cuts := map[int]bool{}
		for k := 1; k < len(orig); k *= 2 {
			for d := -1; d <= 1; d++ {
				cuts[k+d] = true
			}
		}
		for _, unit := range []int{4096, 65536} {
			for _, extra := range []int{0, 12, 16, 28} {
				for m := 1; m*(unit+extra) < len(orig)+unit; m++ {
					for d := -1; d <= 1; d++ {
						cuts[m*(unit+extra)+d] = true
						cuts[m*unit+extra+d] = true
					}
				}
			}
		}
		g := newG(uint64(n), 77)
		for i := 0; i < 300; i++ {
			cuts[g.intn(len(orig))] = true
		}
		leaks, tried := 0, 0
		try := func(mut []byte, what string) {
			tried++
			_ = os.WriteFile(path, mut, 0o644)
			got, err := conn.Get(key)
			if err == nil {
				leaks++
				add("TAMPER len=%d options=large %s returned %d bytes without error BAD", n, what, len(got))
			}
		}
		for k := range cuts {
			if k >= 0 && k < len(orig) {
				try(orig[:k], fmt.Sprintf("truncate to %d", k))
			}
		}
		for i := 0; i < 300; i++ {
			m := append([]byte(nil), orig...)
			pos := g.intn(len(orig))
			m[pos] ^= 0x01
			try(m, fmt.Sprintf("flip byte %d", pos))
		}
		try(append(append([]byte(nil), orig...), 0), "extend by one zero byte")
		_ = os.WriteFile(path, orig, 0o644)
		back, gerr := conn.Get(key)
		add("TAMPER len=%d options=large modifications=%d accepted=%d intact_value_read_back=%v %s", n, tried, leaks, gerr == nil && bytes.Equal(back, val),
			verdict(leaks == 0 && gerr == nil && bytes.Equal(back, val)))
		os.RemoveAll(dir)
	}

	// ---- (3) through the transport: a tampered entry is a miss, never served ----
	for trial := 0; trial < 4; trial++ {
		dir, _ := os.MkdirTemp("", "verif-enc-rt-")
		conn, err := fscache.Open("verif", fscache.WithBaseDir(dir), fscache.WithEncryption(key32))
		if err != nil {
			t.Fatal(err)
		}
		dsnv := registerConn(conn)
		org := &oneShotOrigin{body: "the-origin-body-0123456789-the-origin-body"}
		rt := httpcache.NewTransport(dsnv, httpcache.WithUpstream(org))
		get := func() (string, string) {
			req, _ := http.NewRequest("GET", "http://a.test/enc-rt", nil)
			resp, err := rt.RoundTrip(req)
			if err != nil {
				return "ERR", ""
			}
			b, _ := io.ReadAll(resp.Body)
			return resp.Header.Get("X-Httpcache-Status"), string(b)
		}
		s1, _ := get()
		s2, b2 := get()
		plain := false
		for _, f := range rawFiles(dir) {
			if containsFragment(f, []byte(org.body), 12) || bytes.Contains(f, []byte("field-value-0123456789")) {
				plain = true
			}
		}
		// corrupt every file a little
		for p, f := range rawFiles(dir) {
			if len(f) > 0 {
				f[(trial*7)%len(f)] ^= 0x40
				_ = os.WriteFile(p, f, 0o644)
			}
		}
		s3, b3 := get()
		ok := s1 == "MISS" && s2 == "HIT" && b2 == org.body && s3 == "MISS" && b3 == org.body && org.calls == 2 && !plain
		add("TRANSPORT trial=%d first=%s second=%s after_tamper=%s origin_calls=%d plaintext_on_disk=%v %s", trial, s1, s2, s3, org.calls, plain, verdict(ok))
		unregisterConn(dsnv)
		os.RemoveAll(dir)
	}
	if err := writeLines(filepath.Join(out, "encrypt.txt"), lines); err != nil {
		t.Fatal(err)
	}
}

// TestEncryptConcurrent (run under the race detector by the C17 check): driver.Conn must be safe for concurrent use,
// and every write must get its own nonce: several goroutines write to one encrypted cache at once; afterwards no two
// files may begin with the same nonce (GCM with a repeated nonce reveals the XOR of the plaintexts), and every value
// must read back.
func TestEncryptConcurrent(t *testing.T) {
	out := os.Getenv("VERIF_OUT")
	if out == "" {
		t.Skip("VERIF_OUT not set")
	}
	dir, err := os.MkdirTemp("", "verif-encconc-")
	if err != nil {
		t.Fatal(err)
	}
	defer os.RemoveAll(dir)
	c, err := fscache.Open("verif", fscache.WithBaseDir(dir), fscache.WithEncryption(encKey))
	if err != nil {
		t.Fatal(err)
	}
	const writers, rounds = 8, 150
	var wg sync.WaitGroup
	for w := 0; w < writers; w++ {
		wg.Add(1)
		go func(w int) {
			defer wg.Done()
			for i := 0; i < rounds; i++ {
				key := fmt.Sprintf("k-%d-%d", w, i)
				val := bytes.Repeat([]byte{byte('a' + w)}, 64)
				if err := c.Set(key, val); err != nil {
					t.Errorf("Set: %v", err)
					return
				}
				if v, err := c.Get(key); err != nil || !bytes.Equal(v, val) {
					t.Errorf("Get after Set: %v", err)
					return
				}
			}
		}(w)
	}
	wg.Wait()
	nonces := map[string]string{}
	dup := 0
	_ = filepath.Walk(dir, func(p string, info os.FileInfo, err error) error {
		if err != nil || info.IsDir() {
			return nil
		}
		raw, rerr := os.ReadFile(p)
		if rerr != nil || len(raw) < 12 {
			return nil
		}
		n := string(raw[:12])
		if other, seen := nonces[n]; seen {
			dup++
			_ = other
		}
		nonces[n] = p
		return nil
	})
	verdict := "ok"
	if dup > 0 || t.Failed() {
		verdict = "BAD"
	}
	line := fmt.Sprintf("CONCURRENT writers=%d rounds=%d files=%d repeated_nonces=%d %s\n", writers, rounds, len(nonces), dup, verdict)
	if err := writeLines(filepath.Join(out, "encconc.txt"), []string{line}); err != nil {
		t.Fatal(err)
	}
}
