package harness

import (
	"encoding/hex"
	"os"
	"path/filepath"
	"sort"
	"strconv"
	"strings"
	"testing"
	"time"
)

func unhx(t string) string {
	b, _ := hex.DecodeString(strings.TrimPrefix(t, "x"))
	return string(b)
}

type tokCur struct {
	t []string
	i int
}

func (c *tokCur) next() string { v := c.t[c.i]; c.i++; return v }
func (c *tokCur) int() int64   { n, _ := strconv.ParseInt(c.next(), 10, 64); return n }
func (c *tokCur) hdrs() []Hdr {
	n := int(c.int())
	var hs []Hdr
	for i := 0; i < n; i++ {
		h := Hdr{Name: unhx(c.next())}
		nv := int(c.int())
		for j := 0; j < nv; j++ {
			h.Vals = append(h.Vals, unhx(c.next()))
		}
		hs = append(hs, h)
	}
	return hs
}
func (c *tokCur) rep() Rep {
	k := c.next()
	r := Rep{Err: k == "E", Status: int(c.int())}
	r.BodyOK = c.int() == 1
	r.Hdrs = c.hdrs()
	return r
}

// DecodeCases parses the text produced by Case.Encode (several cases).
func DecodeCases(text string) []*Case {
	var out []*Case
	var cur *Case
	for _, line := range strings.Split(text, "\n") {
		f := strings.Fields(line)
		if len(f) == 0 {
			continue
		}
		c := &tokCur{t: f, i: 1}
		switch f[0] {
		case "CASE":
			cur = &Case{ID: c.next(), Stream: c.next()}
			cur.SWRTimeout = time.Duration(c.int())
		case "REQ":
			r := Req{Gap: time.Duration(c.int()), Method: unhx(c.next()), URL: unhx(c.next())}
			r.Hdrs = c.hdrs()
			cur.Reqs = append(cur.Reqs, r)
		case "REP":
			s := ScriptEntry{Delay: time.Duration(c.int())}
			s.Plain = c.rep()
			s.Cond = c.rep()
			cur.Script = append(cur.Script, s)
		case "FAULT":
			cur.Faults = append(cur.Faults, FaultSpec{N: int(c.int()), Kind: c.next()})
		case "END":
			out = append(out, cur)
		}
	}
	return out
}

// corpusCases loads every *.case file of the directory named by VERIF_CORPUS (run before generation).
func corpusCases() []*Case {
	dir := os.Getenv("VERIF_CORPUS")
	if dir == "" {
		return nil
	}
	files, _ := filepath.Glob(filepath.Join(dir, "*.case"))
	sort.Strings(files)
	var out []*Case
	for _, f := range files {
		b, err := os.ReadFile(f)
		if err != nil {
			continue
		}
		out = append(out, DecodeCases(string(b))...)
	}
	return out
}

// TestReplay runs the cases of the file VERIF_REPLAY and writes impl.txt.
func TestReplay(t *testing.T) {
	out := os.Getenv("VERIF_OUT")
	rp := os.Getenv("VERIF_REPLAY")
	if out == "" || rp == "" {
		t.Skip("VERIF_OUT / VERIF_REPLAY not set")
	}
	b, err := os.ReadFile(rp)
	if err != nil {
		t.Fatal(err)
	}
	var impl []string
	for _, c := range DecodeCases(string(b)) {
		impl = append(impl, runCase(t, c, runOpts{})...)
	}
	if err := writeLines(filepath.Join(out, "impl.txt"), impl); err != nil {
		t.Fatal(err)
	}
}
