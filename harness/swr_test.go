package harness

import (
	"context"
	"errors"
	"fmt"
	"io"
	"net/http"
	"os"
	"path/filepath"
	"runtime"
	"strings"
	"sync"
	"testing"
	"testing/synctest"
	"time"

	"github.com/bartventer/httpcache"
	"github.com/bartventer/httpcache/store/memcache"
)

// ---------- C20: stale-while-revalidate — latency, the single background request, its timeout ----------

type swrExp struct {
	Setting   int64 // WithSWRTimeout argument in ns; swrUnset = option not given
	Latency   int64 // origin latency of the background request in ns; -1 = never answers (until cancelled)
	Cancel    int64 // caller context: swrNoCancel, swrCancelBefore, or cancelled this many ns after the response was returned
	Outcome   string
	Validator int   // 0 none, 1 ETag, 2 Last-Modified, 3 both; +4: the stored response also says no-cache="ETag, Last-Modified"
	Deadline  int64 // the caller's context has a deadline this many ns after the second request starts; 0 = none
}

const (
	swrUnset        = int64(-1 << 62)
	swrNoCancel     = int64(-1 << 62)
	swrCancelBefore = int64(-1)
)

type swrOrigin struct {
	mu    sync.Mutex
	exp   *swrExp
	calls int
	// the background call
	bgStart, bgEnd  time.Time
	deadline        time.Time
	hasDeadline     bool
	doneAtEnd       bool
	inm, ims        string
	bgCalls         int
	bgGoroutineSame bool
}

func (o *swrOrigin) RoundTrip(req *http.Request) (*http.Response, error) {
	o.mu.Lock()
	o.calls++
	n := o.calls
	o.mu.Unlock()
	mk := func(status int, h http.Header, body string) *http.Response {
		return &http.Response{Status: fmt.Sprintf("%d %s", status, http.StatusText(status)), StatusCode: status, Proto: "HTTP/1.1", ProtoMajor: 1, ProtoMinor: 1,
			Header: h, Body: io.NopCloser(strings.NewReader(body)), ContentLength: int64(len(body)), Request: req}
	}
	if n == 1 {
		cc := "max-age=1, stale-while-revalidate=100000"
		// every third experiment: a window "for ever" — more seconds than a duration holds; it is a window all the same
		if h := (o.exp.Latency/1000000 + o.exp.Setting/1000000 + o.exp.Deadline/1000000 + int64(o.exp.Validator) + int64(len(o.exp.Outcome))); h%3 == 0 {
			cc = "max-age=1, stale-while-revalidate=" + []string{"9223372037", "99999999999", "18446744073709551617"}[((h/3)%3+3)%3]
		} else if (h%3+3)%3 == 1 {
			// ... and every third: a window that closes three seconds after the stale answer (the request comes one second into
			// it): the background request is bounded by the configured timeout, not by what is left of the window
			cc = "max-age=1, stale-while-revalidate=4"
		}
		if o.exp.Validator&4 != 0 {
			cc += `, no-cache="ETag, Last-Modified"` // qualified: the named fields are not replayed, the validators still validate
		}
		h := http.Header{"Cache-Control": {cc}, "Date": {time.Now().UTC().Format(http.TimeFormat)}}
		if o.exp.Validator&1 != 0 {
			if o.exp.Validator&8 != 0 {
				h.Set("ETag", `W/"v1"`) // a weak validator validates too
			} else {
				h.Set("ETag", `"v1"`)
			}
		}
		if o.exp.Validator&2 != 0 {
			h.Set("Last-Modified", "Sat, 01 Jan 2000 00:00:00 GMT")
		}
		return mk(200, h, "first-body"), nil
	}
	o.mu.Lock()
	o.bgCalls++
	o.bgStart = time.Now()
	o.deadline, o.hasDeadline = req.Context().Deadline()
	o.inm, o.ims = req.Header.Get("If-None-Match"), req.Header.Get("If-Modified-Since")
	o.mu.Unlock()
	ctx := req.Context()
	var err error
	switch {
	case ctx.Err() != nil:
		err = ctx.Err()
	case o.exp.Latency < 0:
		<-ctx.Done()
		err = ctx.Err()
	case o.exp.Latency > 0:
		tm := time.NewTimer(time.Duration(o.exp.Latency))
		select {
		case <-tm.C:
		case <-ctx.Done():
			tm.Stop()
			err = ctx.Err()
		}
	}
	o.mu.Lock()
	o.bgEnd = time.Now()
	o.doneAtEnd = ctx.Err() != nil
	o.mu.Unlock()
	if err != nil {
		return nil, err
	}
	switch o.exp.Outcome {
	case "304":
		return mk(304, http.Header{"Cache-Control": {"max-age=1, stale-while-revalidate=100000"}}, ""), nil
	case "200":
		return mk(200, http.Header{"Cache-Control": {"max-age=1, stale-while-revalidate=100000"}, "ETag": {`"v2"`}}, "second-body"), nil
	case "500":
		return mk(500, http.Header{}, "oops"), nil
	default:
		return nil, errors.New("origin: connection refused")
	}
}

// goroutines of the current synctest bubble with a frame of the library (other than the caller's own)
func libGoroutines() (int, string) {
	self := make([]byte, 4096)
	self = self[:runtime.Stack(self, false)]
	bubble := ""
	if i := strings.Index(string(self), "synctest bubble "); i >= 0 {
		hdr := string(self)[i:]
		if j := strings.IndexAny(hdr, "],"); j >= 0 {
			bubble = hdr[:j]
		}
	}
	buf := make([]byte, 1<<20)
	buf = buf[:runtime.Stack(buf, true)]
	n := 0
	var first string
	for _, g := range strings.Split(string(buf), "\n\n") {
		hdr, _, _ := strings.Cut(g, "\n")
		if bubble != "" && !strings.Contains(hdr, bubble+"]") && !strings.Contains(hdr, bubble+",") {
			continue
		}
		if strings.Contains(g, "bartventer/httpcache.") && !strings.Contains(g, "libGoroutines") {
			n++
			if first == "" {
				first = g
			}
		}
	}
	return n, first
}

func runSWR(t *testing.T, e *swrExp) (line string) {
	var obs string
	func() {
		defer func() {
			if r := recover(); r != nil {
				// synctest: the bubble's root function returned while goroutines of the bubble stay blocked
				obs += fmt.Sprintf(" bubble_panic=%q", fmt.Sprint(r))
			}
		}()
		synctest.Test(t, func(t *testing.T) {
			conn := memcache.Open()
			dsn := registerConn(conn)
			defer unregisterConn(dsn)
			org := &swrOrigin{exp: e}
			opts := []httpcache.Option{httpcache.WithUpstream(org)}
			if e.Setting != swrUnset {
				opts = append(opts, httpcache.WithSWRTimeout(time.Duration(e.Setting)))
			}
			rt := httpcache.NewTransport(dsn, opts...)
			do := func(ctx context.Context) (*http.Response, error, time.Duration) {
				req, _ := http.NewRequestWithContext(ctx, "GET", "http://a.test/swr", nil)
				t0 := time.Now()
				resp, err := rt.RoundTrip(req)
				return resp, err, time.Since(t0)
			}
			r1, err1, _ := do(context.Background())
			if err1 != nil || r1 == nil {
				obs = "setup_failed"
				return
			}
			io.Copy(io.Discard, r1.Body)
			r1.Body.Close()
			time.Sleep(2 * time.Second)
			synctest.Wait()
			parent := context.Background()
			if e.Deadline > 0 {
				var stop context.CancelFunc
				parent, stop = context.WithDeadline(parent, time.Now().Add(time.Duration(e.Deadline)))
				defer stop()
			}
			ctx, cancel := context.WithCancel(parent)
			defer cancel()
			if e.Cancel == swrCancelBefore {
				cancel()
			}
			resp, err, lat := do(ctx)
			switch {
			case e.Cancel == 0:
				cancel()
			case e.Cancel > 0:
				time.AfterFunc(time.Duration(e.Cancel), cancel)
			}
			status, body := "-", "-"
			if resp != nil {
				status = resp.Header.Get("X-Httpcache-Status")
				b, _ := io.ReadAll(resp.Body)
				resp.Body.Close()
				body = string(b)
			}
			// long enough for the background request to end under every setting
			time.Sleep(40 * time.Second)
			synctest.Wait()
			left, where := libGoroutines()
			org.mu.Lock()
			dl := int64(-1)
			if org.hasDeadline {
				dl = int64(org.deadline.Sub(org.bgStart))
			}
			cond := 0
			if org.inm != "" {
				cond |= 1
			}
			if org.ims != "" {
				cond |= 2
			}
			end := int64(-1)
			if !org.bgEnd.IsZero() {
				end = int64(org.bgEnd.Sub(org.bgStart))
			}
			obs = fmt.Sprintf("fg_latency=%d fg_err=%v fg_status=%s fg_body_ok=%v bg_calls=%d cond=%d deadline=%d bg_end=%d cancelled=%v goroutines_left=%d",
				int64(lat), err != nil, status, body == "first-body", org.bgCalls, cond, dl, end, org.doneAtEnd, left)
			org.mu.Unlock()
			if left > 0 {
				w := strings.Split(where, "\n")
				if len(w) > 6 {
					w = w[:6]
				}
				obs += fmt.Sprintf(" leaked_at=%q", strings.Join(w, " | "))
			}
		})
	}()
	return fmt.Sprintf("SWR %d %d %d %s %d %d | %s\n", e.Setting, e.Latency, e.Cancel, e.Outcome, e.Validator, e.Deadline, obs)
}

func TestSWR(t *testing.T) {
	out := os.Getenv("VERIF_OUT")
	if out == "" {
		t.Skip("VERIF_OUT not set")
	}
	thorough := os.Getenv("VERIF_TIER") == "thorough"
	seed := uint64(envInt("VERIF_SEED", 1))
	g := newG(seed, 0xc20)
	sec := int64(time.Second)
	settings := []int64{swrUnset, 0, -3 * sec, 2 * sec, 10 * sec, 1}
	var lines []string
	n := 0
	for _, s := range settings {
		T := s
		if s == swrUnset || s <= 0 {
			T = 5 * sec
		}
		lats := []int64{0, int64(time.Millisecond), T - 1000, T + 1000, 3 * T, -1}
		cancels := []int64{swrNoCancel, swrCancelBefore, 0, T/2 + 7, 2*T + 7}
		for _, d := range lats {
			for _, c := range cancels {
				if d == 0 && c == 0 {
					continue // the reply and the cancellation would race at one instant
				}
				if T < 1000 && (d == T-1000 || d == T+1000) {
					continue
				}
				outcomes := []string{"304", "200", "500", "err"}
				vals := []int{0, 1, 2, 3, 5, 7, 9, 11}
				if !thorough {
					outcomes = []string{outcomes[g.intn(4)]}
					vals = []int{[]int{0, 1, 2, 3, 5, 7, 9, 11}[g.intn(6)]}
				}
				for _, oc := range outcomes {
					for _, v := range vals {
						lines = append(lines, runSWR(t, &swrExp{Setting: s, Latency: d, Cancel: c, Outcome: oc, Validator: v}))
						n++
					}
				}
			}
			// caller contexts that carry a deadline of their own: earlier and later than the timeout
			for _, dl := range []int64{T/2 + 11, 3*T + 11, 35 * sec} {
				if d == dl || (T < 1000 && (d == T-1000 || d == T+1000)) {
					continue
				}
				c := swrNoCancel
				if g.chance(0.25) {
					c = 2*T + 7
				}
				lines = append(lines, runSWR(t, &swrExp{Setting: s, Latency: d, Cancel: c, Outcome: []string{"304", "200", "500", "err"}[g.intn(4)],
					Validator: []int{0, 1, 2, 3, 5, 7, 9, 11}[g.intn(6)], Deadline: dl}))
				n++
			}
		}
	}
	// random points
	extra := 40
	if thorough {
		extra = 1500
	}
	for i := 0; i < extra; i++ {
		s := settings[g.intn(len(settings))]
		if g.chance(0.4) {
			s = int64(g.intn(20_000)) * int64(time.Millisecond)
		}
		d := int64(g.intn(30_000))*int64(time.Millisecond) + 13
		if g.chance(0.15) {
			d = -1
		}
		c := swrNoCancel
		switch g.intn(4) {
		case 0:
			c = swrCancelBefore
		case 1:
			c = int64(g.intn(30_000))*int64(time.Millisecond) + 29
		}
		dl := int64(0)
		if g.chance(0.3) {
			dl = int64(1+g.intn(30_000))*int64(time.Millisecond) + 17
		}
		lines = append(lines, runSWR(t, &swrExp{Setting: s, Latency: d, Cancel: c, Outcome: g.pick("304", "200", "500", "err"), Validator: []int{0, 1, 2, 3, 5, 7, 9, 11}[g.intn(6)], Deadline: dl}))
	}
	if err := writeLines(filepath.Join(out, "swr.txt"), lines); err != nil {
		t.Fatal(err)
	}
}
