package harness

import (
	"fmt"
	"math/rand/v2"
	"net/http"
	"strconv"
	"strings"
	"time"
)

// G is the single source of randomness of a run (PCG seeded from VERIF_SEED).
type G struct {
	r *rand.Rand
	// respelled Cache-Control field lines -> the canonical single line with the same directives
	canon map[string]string
	// no Vary field nominating Cache-Control: where respelled and canonical Cache-Control request fields are compared
	// (profile spell), a nominated Cache-Control would make the spelling select the variant, which C04 allows
	noVaryCC bool
}

func newG(seed uint64, stream uint64) *G {
	return &G{r: rand.New(rand.NewPCG(seed, stream)), canon: map[string]string{}}
}

func (g *G) chance(p float64) bool { return g.r.Float64() < p }
func (g *G) intn(n int) int        { return g.r.IntN(n) }
func (g *G) pick(xs ...string) string {
	return xs[g.r.IntN(len(xs))]
}
func (g *G) pickD(xs ...time.Duration) time.Duration { return xs[g.r.IntN(len(xs))] }
func (g *G) pickI(xs ...int) int                     { return xs[g.r.IntN(len(xs))] }

// weighted choice: pairs of (weight, value)
func (g *G) weighted(ws []int, vals []string) string {
	t := 0
	for _, w := range ws {
		t += w
	}
	x := g.r.IntN(t)
	for i, w := range ws {
		if x < w {
			return vals[i]
		}
		x -= w
	}
	return vals[len(vals)-1]
}

// Profile steers the generator towards the inputs a property quantifies over.
type Profile struct {
	Name          string
	NReq          [2]int  // min,max requests per case
	PUnsafe       float64 // probability of a non-GET request
	PReqCC        float64 // request Cache-Control
	PVary         float64 // response Vary
	PDate         float64 // response carries its own Date
	PSkew         float64 // ... with a skewed value
	PAge          float64 // upstream Age
	PBigNum       float64 // huge delta-seconds / Age values
	PValidators   float64
	PSWR          float64
	PSIE          float64
	PNoCache      float64
	PMustReval    float64
	PHeuristic    float64 // Last-Modified without explicit freshness
	PErrReply     float64 // origin failures
	PBodyFail     float64
	PSpelling     float64 // alternative URL / header spellings on follow-up requests
	PLocation     float64 // Location / Content-Location on replies to unsafe requests
	POnlyIfCached float64
	PRange        float64
	PConnHdr      float64 // hop-by-hop material
	PCCSpell      float64 // alternative spellings of Cache-Control
	PRepeat       float64 // a directive occurs twice in a Cache-Control field
	PClientCond   float64 // client-supplied conditional headers
	PAdvVary      float64 // adversarial selecting header values
	PLongURL      float64 // all URLs of the case get a long last path segment (keys of 150-300 bytes: file-name limits of the file-system backend)
	WideStatus    bool    // statuses drawn from all of 100-599
	Statuses      []int
	Methods       []string
	URLs          int // number of distinct resources
	SWRTimeouts   []time.Duration
}

var baseProfile = Profile{
	Name: "mix", NReq: [2]int{3, 8}, PUnsafe: 0.12, PReqCC: 0.35, PVary: 0.3, PDate: 0.35, PSkew: 0.3,
	PAge: 0.25, PBigNum: 0.05, PValidators: 0.6, PSWR: 0.2, PSIE: 0.15, PNoCache: 0.1, PMustReval: 0.15,
	PHeuristic: 0.2, PErrReply: 0.1, PBodyFail: 0.0, PSpelling: 0.3, PLocation: 0.3, POnlyIfCached: 0.1,
	PRange: 0.03, PConnHdr: 0.1, PCCSpell: 0.15, PRepeat: 0.06, PClientCond: 0.05,
	Statuses:    []int{200, 200, 200, 200, 200, 200, 203, 204, 301, 302, 307, 308, 404, 410, 500, 503, 206},
	Methods:     []string{"POST", "PUT", "DELETE", "PATCH", "HEAD", "OPTIONS", "PROPFIND", "MKCOL", "FOO", ""}, // "": a hand-built request; net/http sends it as GET, the cache does not know that
	URLs:        2,
	SWRTimeouts: []time.Duration{0, 0, 5 * time.Second, 2 * time.Second},
}

var lifetimes = []int{0, 1, 2, 5, 10, 60, 3600}

func (g *G) seconds() int { return lifetimes[g.intn(len(lifetimes))] }

// gaps relative to the lifetimes in play, including the nanosecond-exact boundaries
func (g *G) gap() time.Duration {
	base := time.Duration(g.seconds()) * time.Second
	switch g.intn(10) {
	case 0:
		return max(base-1, 0)
	case 1:
		return base + 1
	case 2:
		return base / 2
	case 3:
		return 1
	case 4:
		return base + 500*time.Millisecond
	default:
		return base
	}
}

func (g *G) delay() time.Duration {
	return g.pickD(0, 0, 0, time.Millisecond, time.Second, 3*time.Second, 7*time.Second)
}

func httpDate(t time.Time) string { return t.UTC().Format(http.TimeFormat) }

// dateStr: an HTTP-date in the preferred form or, rarely, in one of the two obsolete forms a recipient must
// accept (RFC 9110 §5.6.7): RFC 850 (two-digit year) and asctime
func (g *G) dateStr(t time.Time) string {
	switch g.intn(10) {
	case 0:
		return t.UTC().Format("Monday, 02-Jan-06 15:04:05") + " GMT"
	case 1:
		return t.UTC().Format(time.ANSIC)
	}
	return httpDate(t)
}

var epoch = time.Unix(946684800, 0)

// respelling of a directive name / list (used by the spelling profiles)
func (g *G) spellName(n string) string {
	switch g.intn(4) {
	case 0:
		return strings.ToUpper(n)
	case 1:
		b := []byte(n)
		for i := range b {
			if g.chance(0.5) && b[i] >= 'a' && b[i] <= 'z' {
				b[i] -= 32
			}
		}
		return string(b)
	default:
		return n
	}
}

type directive struct {
	name string
	arg  string
	has  bool
}

func (d directive) String() string {
	if d.has {
		return d.name + "=" + d.arg
	}
	return d.name
}

// spellCC renders an abstract directive list in one of its many equivalent spellings
// (RFC 9111 §5.2, RFC 9110 §5.3/§5.6): any order, letter case, optional whitespace, empty list
// elements, token or quoted-string arguments, extension directives, several field lines.
func (g *G) spellCC(ds []directive) []string {
	ds = append([]directive(nil), ds...)
	orig := append([]directive(nil), ds...)
	g.r.Shuffle(len(ds), func(i, j int) { ds[i], ds[j] = ds[j], ds[i] })
	// a directive that occurs more than once keeps the relative order of its occurrences (which one comes last, or
	// first, is part of the meaning); everything else may move
	type elem struct{ text, name string }
	var elems []elem
	for _, d := range ds {
		if g.chance(0.25) {
			// extension directives, some with quoted-pairs: an escaped quote does not end the argument, an escaped
			// backslash does not escape the quote after it
			elems = append(elems, elem{g.pick("foo", "bar=1", `ext="a,b"`, "x-y=z", `community="UCI"`, `ext="a\"b"`, `ext="a\", no-store, x=\"b"`, `q="\\"`, `ext="\"", y=",no-cache,"`), ""})
		}
		elems = append(elems, elem{"", d.name})
	}
	nlines := 1 + g.intn(3)
	perLine := make([][]int, nlines)
	for i := range elems {
		l := g.intn(nlines)
		perLine[l] = append(perLine[l], i)
	}
	// the occurrences of one name, in their original order, go to the slots that name occupies, in reading order
	queue := map[string][]directive{}
	for _, d := range orig {
		queue[d.name] = append(queue[d.name], d)
	}
	for _, idxs := range perLine {
		for _, i := range idxs {
			if elems[i].name == "" {
				continue
			}
			d := queue[elems[i].name][0]
			queue[elems[i].name] = queue[elems[i].name][1:]
			elems[i].text = g.spellDirective(d)
		}
	}
	lines := make([]string, nlines)
	for l, idxs := range perLine {
		for _, i := range idxs {
			e := elems[i].text
			sep := g.pick(", ", ",", " , ", ",,", ", ,", ",\t")
			if lines[l] == "" {
				if g.chance(0.15) {
					lines[l] = g.pick(",", " ,", ", ")
				}
				lines[l] += e
			} else {
				lines[l] += sep + e
			}
		}
	}
	var out []string
	for _, l := range lines {
		if l != "" {
			if g.chance(0.1) {
				l += g.pick(",", " ,")
			}
			// a field value never has leading or trailing whitespace once parsed off the wire
			out = append(out, strings.Trim(l, " \t"))
		}
	}
	// an empty field line is a legal (empty) list: before, between or after the others
	if len(out) > 0 && g.chance(0.12) {
		i := g.intn(len(out) + 1)
		if g.chance(0.5) {
			i = 0
		}
		out = append(out[:i:i], append([]string{""}, out[i:]...)...)
	}
	return out
}

// spellDirective: one directive in one of its spellings (letter case of the name, token or quoted-string argument)
func (g *G) spellDirective(d directive) string {
	name := g.spellName(d.name)
	if !d.has {
		return name
	}
	arg := d.arg
	if strings.HasPrefix(arg, `"`) && len(arg) > 2 && g.chance(0.3) {
		// a quoted argument whose content is a token may be written as the token (a one-member field list, a number)
		inner := arg[1 : len(arg)-1]
		tok := true
		for i := 0; i < len(inner); i++ {
			ch := inner[i]
			if !(ch >= 'a' && ch <= 'z' || ch >= 'A' && ch <= 'Z' || ch >= '0' && ch <= '9' || ch == '-' || ch == '_' || ch == '.') {
				tok = false
			}
		}
		if tok {
			arg = inner
		}
	}
	if !strings.HasPrefix(arg, `"`) {
		switch g.intn(4) {
		case 0:
			arg = `"` + arg + `"`
		case 1:
			if len(arg) > 0 {
				arg = `"` + arg[:len(arg)-1] + `\` + arg[len(arg)-1:] + `"`
			}
		}
	}
	// lenient readers accept whitespace around "=" (the name and the argument are trimmed)
	switch g.intn(12) {
	case 0:
		return name + " =" + arg
	case 1:
		return name + "= " + arg
	case 2:
		return name + "\t= " + arg
	}
	return name + "=" + arg
}

// repeatDirectives: with probability p one directive of the list occurs a second time, somewhere else in the list —
// with the same argument (which changes nothing) or with another one (a later occurrence replaces an earlier one;
// the occurrences of no-cache add up: RFC 9111 §5.2.2.4) — or, when the list has no no-cache yet, both of its forms join it
func (g *G) repeatDirectives(p float64, ds []directive, response bool) []directive {
	if len(ds) == 0 || !g.chance(p) {
		return ds
	}
	insert := func(d directive) {
		i := g.intn(len(ds) + 1)
		ds = append(ds[:i:i], append([]directive{d}, ds[i:]...)...)
	}
	d := ds[g.intn(len(ds))]
	switch {
	case d.name == "no-cache" && response:
		switch {
		case !d.has:
			insert(directive{"no-cache", g.pick(`"X-Secret"`, `"Set-Cookie"`, `"ETag"`), true})
		case g.chance(0.5):
			insert(directive{"no-cache", "", false})
		default:
			insert(directive{"no-cache", g.pick(`"X-Other"`, `"Set-Cookie"`, `"X-Secret"`), true})
		}
	case d.has && g.chance(0.6):
		other := d
		if _, err := strconv.Atoi(d.arg); err == nil {
			other.arg = strconv.Itoa(g.seconds())
		}
		insert(other)
	default:
		insert(d)
	}
	return ds
}

// ccHeader renders a directive list canonically or, with probability PCCSpell, respelled.
func (g *G) ccHeader(p *Profile, ds []directive) Hdr {
	if g.chance(p.PCCSpell) {
		if lines := g.spellCC(ds); len(lines) > 0 {
			g.canon[strings.Join(lines, "\x00")] = joinDirectives(ds)
			return Hdr{"Cache-Control", lines}
		}
	}
	return Hdr{"Cache-Control", []string{joinDirectives(ds)}}
}

func joinDirectives(ds []directive) string {
	parts := make([]string, len(ds))
	for i, d := range ds {
		parts[i] = d.String()
	}
	return strings.Join(parts, ", ")
}

func (g *G) bigNum() string {
	return g.pick("2147483647", "2147483648", "4294967296", "9223372036", "9223372037",
		"18446744074", "9223372036854775807", "9223372036854775808", "99999999999999999999")
}

func (g *G) num(p *Profile) string {
	if g.chance(p.PBigNum) {
		return g.bigNum()
	}
	if g.chance(0.04) {
		// leading zeros are part of 1*DIGIT: a long digit string need not be a large number
		return strings.Repeat("0", g.pickI(1, 10, 17, 18, 19, 20, 30)) + strconv.Itoa(g.seconds())
	}
	return strconv.Itoa(g.seconds())
}

func (g *G) respDirectives(p *Profile) []directive {
	var ds []directive
	if g.chance(0.7) {
		ds = append(ds, directive{"max-age", g.num(p), true})
	}
	if g.chance(p.PMustReval) {
		ds = append(ds, directive{"must-revalidate", "", false})
	}
	if g.chance(p.PNoCache) {
		if g.chance(0.4) {
			ds = append(ds, directive{"no-cache", g.pick(`"X-Secret"`, `"X-Secret"`, `"ETag"`, `"ETag, Last-Modified"`, `"Set-Cookie"`,
				`"age"`, `"X-Secret, Age"`, `"x-httpcache-status, X-From-Cache"`, `"Date, cache-control"`,
				// several members with optional whitespace around them, any case
				`"Set-Cookie, X-Secret"`, `"ETag , x-secret"`, `" X-Secret"`, "\"X-SECRET\t,Set-Cookie\"", `"Set-Cookie,X-Secret "`), true})
		} else {
			ds = append(ds, directive{"no-cache", "", false})
		}
	}
	if g.chance(0.05) {
		ds = append(ds, directive{"no-store", "", false})
	}
	if g.chance(p.PSWR) {
		ds = append(ds, directive{"stale-while-revalidate", g.num(p), true})
	}
	if g.chance(p.PSIE) {
		ds = append(ds, directive{"stale-if-error", g.num(p), true})
	}
	if g.chance(0.08) {
		ds = append(ds, directive{"immutable", "", false})
	}
	if g.chance(0.1) {
		ds = append(ds, directive{"public", "", false})
	}
	if g.chance(0.05) {
		ds = append(ds, directive{"must-understand", "", false})
	}
	if g.chance(0.1) {
		ds = append(ds, directive{"private", "", false})
	}
	return g.repeatDirectives(p.PRepeat, ds, true)
}

func (g *G) reqDirectives(p *Profile) []directive {
	var ds []directive
	switch g.intn(7) {
	case 0:
		ds = append(ds, directive{"max-age", g.num(p), true})
	case 1:
		if g.chance(0.4) {
			ds = append(ds, directive{"max-stale", "", false})
		} else {
			ds = append(ds, directive{"max-stale", g.num(p), true})
		}
	case 2:
		ds = append(ds, directive{"min-fresh", g.num(p), true})
	case 3:
		ds = append(ds, directive{"no-cache", "", false})
	case 4:
		ds = append(ds, directive{"no-store", "", false})
	case 5:
		ds = append(ds, directive{"stale-if-error", g.num(p), true})
	default:
		ds = append(ds, directive{"max-age", g.num(p), true}, directive{"max-stale", g.num(p), true})
	}
	// combinations: a freshness demand together with another (each alone takes a different early exit)
	if g.chance(0.2) {
		has := map[string]bool{}
		for _, d := range ds {
			has[d.name] = true
		}
		for _, n := range []string{"max-age", "min-fresh", "max-stale", "stale-if-error"} {
			if !has[n] && g.chance(0.35) {
				ds = append(ds, directive{n, g.num(p), true})
			}
		}
	}
	if g.chance(p.POnlyIfCached) {
		ds = append(ds, directive{"only-if-cached", "", false})
	}
	return g.repeatDirectives(p.PRepeat, ds, false)
}

var varyFields = []string{"Accept-Encoding", "X-Custom", "Accept-Language", "User-Agent"}

func (g *G) varyValue() string {
	if !g.noVaryCC && g.chance(0.04) {
		// a selecting field that the cache itself reads for other purposes
		return g.pick("Cache-Control", "Accept-Encoding, Cache-Control", "cache-control")
	}
	switch g.intn(10) {
	case 0:
		return "*"
	case 1:
		return "Accept-Encoding, X-Custom"
	case 2:
		return "x-custom"
	case 3:
		return "Accept-Language"
	case 4:
		return "User-Agent"
	case 5:
		return g.pick("X-Custom, X-Other", "X-Custom, X-Other", "X-Custom-Id", "X-Custom-Id, X-Custom")
	case 6:
		return "Accept-Encoding, *"
	default:
		return "Accept-Encoding"
	}
}

func (g *G) selectingHeaders() []Hdr {
	var hs []Hdr
	if g.chance(0.6) {
		hs = append(hs, Hdr{"Accept-Encoding", []string{g.pick("gzip", "br", "gzip, br", "br, gzip", "x-gzip", "gzip;q=0.5, br", "identity",
			// weights: small ones are weights like any other; only q=0 (in any number of decimals) means "not acceptable"
			"x-gzip;q=0, identity", "x-gzip;q=0.5, identity", "gzip, identity", "x-gzip, identity", "gzip;q=0, identity", "x-compress;q=0.2, gzip", "compress;q=0.2, gzip",
			"gzip, br;q=0.05", "gzip, br;q=0.001", "gzip, br;q=0", "gzip, br;q=0.000", "gzip, deflate;q=0.05", "br;q=0.099", "br;q=0.01", "br;q=1.000", "gzip;q=0.50, br")}})
	}
	if g.chance(0.4) {
		hs = append(hs, Hdr{"X-Custom", []string{g.pick("a", "b", "A", "a ")}})
	}
	if g.chance(0.2) {
		hs = append(hs, Hdr{"Accept-Language", []string{g.pick("en", "en, fr;q=0.8", "fr;q=0.8, en", "de", "en, de;q=0.05", "en, fr;q=0.05", "de;q=0.05", "en, fr;q=0.0", "en;q=0.001")}})
	}
	if g.chance(0.15) {
		hs = append(hs, Hdr{"User-Agent", []string{g.pick("Agent/1", "agent/1", "Other")}})
	}
	// a selecting field sent on several field lines
	if len(hs) > 0 && g.chance(0.2) {
		i := g.intn(len(hs))
		hs[i].Vals = append(hs[i].Vals, g.pick("br", "b", "fr", "x", hs[i].Vals[0]))
		// ... some of them blank (a blank line is a line: the first line is the blank one then)
		switch g.intn(5) {
		case 0:
			hs[i].Vals = append([]string{""}, hs[i].Vals...)
		case 1:
			hs[i].Vals = []string{hs[i].Vals[0], "", hs[i].Vals[1]}
		}
	}
	return hs
}

// genRep builds the reply script entry number idx.  approx is the approximate virtual instant.
func (g *G) genRep(p *Profile, idx int, approx time.Time, conditional bool) Rep {
	if g.chance(p.PErrReply / 2) {
		return Rep{Err: true}
	}
	status := p.Statuses[g.intn(len(p.Statuses))]
	if p.WideStatus && g.chance(0.5) {
		status = 100 + g.intn(500)
		if status == 100 || status == 101 || status == 103 {
			status = 102 // final-looking 1xx that a RoundTripper can hand back as a response
		}
	}
	if g.chance(p.PErrReply / 2) {
		status = g.pickI(500, 502, 503, 504, 501, 400)
	}
	if conditional {
		switch x := g.intn(10); {
		case x < 6:
			status = 304
		case x < 8:
			status = 200
		}
	}
	var hs []Hdr
	add := func(n, v string) { hs = append(hs, Hdr{n, []string{v}}) }
	add("X-Call", strconv.Itoa(idx))
	if status != 304 && status != 204 {
		add("Content-Length", strconv.Itoa(len(fmt.Sprintf("b%d.", idx))+g.intn(4)))
	}
	ds := g.respDirectives(p)
	heur := g.chance(p.PHeuristic)
	if heur {
		// no explicit freshness
		var keep []directive
		for _, d := range ds {
			if d.name != "max-age" {
				keep = append(keep, d)
			}
		}
		ds = keep
	}
	if len(ds) > 0 && !(conditional && status == 304 && g.chance(0.5)) {
		hs = append(hs, g.ccHeader(p, ds))
	}
	date := approx
	hasDate := g.chance(p.PDate)
	if hasDate {
		if g.chance(p.PSkew) {
			date = approx.Add(g.pickD(-time.Second, -10*time.Second, -time.Hour, 5*time.Second, time.Hour,
				-100*365*24*time.Hour))
		}
		add("Date", g.dateStr(date))
	}
	if heur || g.chance(0.15) {
		add("Last-Modified", g.dateStr(date.Add(-time.Duration(g.pickI(5, 10, 20, 100, 36000, 86400*365))*time.Second)))
	}
	if g.chance(0.15) {
		switch g.intn(4) {
		case 0:
			add("Expires", "0")
		case 1:
			add("Expires", g.dateStr(date.Add(-time.Second)))
		default:
			add("Expires", g.dateStr(date.Add(time.Duration(g.seconds())*time.Second)))
		}
	}
	if g.chance(p.PAge) {
		a := g.num(p)
		if g.chance(0.1) {
			a = g.pick("-5", "abc", "1.5", "")
		}
		add("Age", a)
		add("X-Ghost-Age", a)
	}
	if g.chance(p.PValidators) {
		et := fmt.Sprintf(`"v%d"`, g.intn(3))
		if g.chance(0.2) {
			et = "W/" + et // a weak validator is a validator too (RFC 9110 §8.8.3; If-None-Match compares weakly)
		}
		add("ETag", et)
	}
	if g.chance(p.PVary) {
		if g.chance(0.15) {
			// one list split over two field lines
			hs = append(hs, Hdr{"Vary", []string{g.pick("Accept-Encoding", "X-Custom"), g.pick("Accept-Language", "User-Agent", "X-Other")}})
		} else {
			add("Vary", g.varyValue())
		}
	}
	named := false
	for _, d := range ds {
		named = named || (d.name == "no-cache" && strings.Contains(strings.ToLower(d.arg), "x-secret"))
	}
	if g.chance(p.PNoCache) || (named && g.chance(0.85)) {
		// mostly present when a qualified no-cache names it
		add("X-Secret", fmt.Sprintf("s%d", idx))
	}
	if g.chance(p.PConnHdr) {
		add("Connection", g.pick("close", "X-Hop", "keep-alive, X-Hop", "x-hop", "Keep-Alive, x-HOP"))
		add("X-Hop", "h")
		if g.chance(0.5) {
			add("Keep-Alive", "timeout=5")
		}
	}
	if g.chance(p.PLocation) {
		locs := []string{"/x", "/y", "http://a.test/y", "http://b.test/x", "http://A.test:80/x", "y", "../y", "//b.test/y", "//B.TEST:80/y", "//a.test/x", "/x?r=%a", "/y?%"}
		if g.chance(0.3) {
			// both fields, e.g. a cross-origin Location and a same-origin Content-Location
			add("Location", locs[g.intn(len(locs))])
			add("Content-Location", locs[g.intn(len(locs))])
		} else {
			add(g.pick("Location", "Content-Location"), locs[g.intn(len(locs))])
		}
	}
	return Rep{Status: status, BodyOK: !g.chance(p.PBodyFail), Hdrs: hs}
}

var hosts = []string{"a.test", "b.test"}
var paths = []string{"/x", "/y"}

// queryVariant: the same resource path with a query (another resource: the key includes the query)
func queryVariant(u string) string {
	if strings.ContainsAny(u, "?#") {
		return u
	}
	return u + "?add=1"
}

// resources beyond the first four are near misses of http://a.test/x: they differ from it (and from one
// another) in exactly one component, in ways a sloppy key function would confuse
var nearMisses = []string{
	"http://a.test/x?q=caf%C3%A9", "http://a.test/x?q=caf%E9", "http://a.test/x?q=caf\xc3\xa9",
	"http://[::1]:8080/x", "http://[::1:8080]/x", "https://a.test/x", "http://a.test:8080/x",
	"http://a.test/X", "http://a.test/x/", "http://a.test/x?q=1", "http://a.test/x?q=2", "http://a.test/%E9",
	"http://a.test/%C3%A9", "http://a.test/x%2Fy", "http://a.test/x/y",
	// empty segments and dot-segments at the root: "/..//x" is "//x", not "/x" (RFC 3986 §5.2.4)
	"http://a.test/x%3Fq=1", "http://a.test/x%2541", "http://a.test/xA", "http://a.test/y/%252E%252E/x",
	"http://a.test//x", "http://a.test/..//x", "http://a.test/.//x", "http://a.test///x", "http://a.test/x/..//x", "http://a.test/x//",
	// a query is not validated by net/url: incomplete and non-hex escapes reach the key function as they are
	"http://a.test/x?d=5%2", "http://a.test/x?d=%", "http://a.test/x?d=%zz&e=%4", "http://a.test/x?%",
	// ... and URIs that differ only inside such an escape, or from the well-formed escape a lenient reader would see
	"http://a.test/x?id=%4z", "http://a.test/x?id=%40", "http://a.test/x?d=10%&x=1", "http://a.test/x?d=10%&y=1",
	"http://a.test/x?d=%zz", "http://a.test/x?d=%yy", "http://a.test/x?d=%00",
	// ports: the default one may be left out; port 0 (in any number of digits) is a port like any other, not "none";
	// leading zeros are kept as written
	"http://a.test:0/x", "http://a.test:00/x", "http://a.test:080/x", "https://a.test:0/x", "https://a.test:443/x", "http://a.test:443/x",
	"http://[::1]:0/x", "http://[::1]/x", "http://[::1]:80/x",
	// dot-segments are a matter of the path: "." and ".." between slashes in a query are data
	// a trailing dot is part of the host name as written: "a.test." and "a.test" are different authorities to a cache
	"http://a.test./x", "http://A.TEST./x", "http://a.test.:80/x",
	"http://a.test/y?next=/../x", "http://a.test/y?next=/%2E%2E/x", "http://a.test/x?p=/.", "http://a.test/x?p=/./", "http://a.test/x?p=", "http://a.test/q/y?p=/../../x",
}

func (g *G) urlFor(res int, respell bool) string {
	if res >= 4 {
		u := nearMisses[(res-4)%len(nearMisses)]
		if !respell {
			return u
		}
		switch g.intn(4) {
		case 0:
			return strings.Replace(u, "http://a.test", "http://A.TEST", 1)
		case 1:
			return strings.Replace(strings.Replace(u, "%C3%A9", "%c3%a9", 1), "%E9", "%e9", 1)
		case 2:
			return strings.Replace(u, "http://a.test/", "http://a.test:80/", 1)
		default:
			return u + "#f"
		}
	}
	host := hosts[res%len(hosts)]
	path := paths[(res/len(hosts))%len(paths)]
	if !respell {
		return "http://" + host + path
	}
	switch g.intn(9) {
	case 7:
		return "http://" + host + "/q/%2E%2E" + path
	case 8:
		return "http://" + host + "/%2e" + path
	case 0:
		return "http://" + strings.ToUpper(host) + path
	case 1:
		return "http://" + host + ":80" + path
	case 2:
		return "http://" + host + "/./" + path[1:]
	case 3:
		return "http://" + host + "/q/.." + path
	case 4:
		return "HTTP://" + host + path
	case 5:
		return "http://" + host + "/%" + fmt.Sprintf("%02x", path[1]) + path[2:]
	default:
		return "http://" + host + path + "#frag"
	}
}

func (g *G) genCase(p *Profile, id string) *Case {
	c := &Case{ID: id, Stream: "M", SWRTimeout: p.SWRTimeouts[g.intn(len(p.SWRTimeouts))]}
	n := p.NReq[0] + g.intn(p.NReq[1]-p.NReq[0]+1)
	approx := epoch
	for i := 0; i < n; i++ {
		gap := g.gap()
		approx = approx.Add(gap)
		res := g.intn(p.URLs)
		rq := Req{Gap: gap, Method: "GET", URL: g.urlFor(res, g.chance(p.PSpelling))}
		if g.chance(p.PUnsafe) {
			rq.Method = p.Methods[g.intn(len(p.Methods))]
			if p.PLocation > 0 && res < 4 && g.chance(0.2) {
				rq.URL = queryVariant(rq.URL) // POST /x?add=1 answered with Location: /x
			}
		}
		rq.Hdrs = g.selectingHeaders()
		if g.chance(p.PReqCC) {
			rq.Hdrs = append(rq.Hdrs, g.ccHeader(p, g.reqDirectives(p)))
		}
		if g.chance(p.PRange) {
			rq.Hdrs = append(rq.Hdrs, Hdr{"Range", []string{g.pick("bytes=0-1", "bytes=0-1", "bytes=2-", "items=0-1", "Bytes=0-2", " bytes=0-2", "bytes", "bytes=0-1, 4-5")}})
		}
		if g.chance(p.PClientCond) {
			if g.chance(0.6) {
				rq.Hdrs = append(rq.Hdrs, Hdr{"If-None-Match", []string{fmt.Sprintf(`"v%d"`, g.intn(3))}})
			} else {
				rq.Hdrs = append(rq.Hdrs, Hdr{"If-Modified-Since", []string{httpDate(epoch.Add(-time.Hour))}})
			}
		}
		if g.chance(p.PAdvVary) {
			// values that look like other names and values glued together
			rq.Hdrs = append(rq.Hdrs[:0:0], Hdr{"X-Custom", []string{g.pick("1", "1X-Other2", "aAccept-Encodinggzip", "b", "-Id42", "1;X-Other=2", "1, X-Other: 2", "1&X-Other=2")}},
				Hdr{"X-Other", []string{g.pick("2", "", "b", "2")}})
			if g.chance(0.5) {
				rq.Hdrs = rq.Hdrs[:1]
			}
			if g.chance(0.4) {
				// a field whose name extends another's, with values that complete the shorter name
				rq.Hdrs = append(rq.Hdrs, Hdr{"X-Custom-Id", []string{g.pick("42", "-Id42", "1")}})
				if g.chance(0.5) {
					rq.Hdrs = rq.Hdrs[len(rq.Hdrs)-1:]
				}
			}
		}
		c.Reqs = append(c.Reqs, rq)
	}
	if g.chance(p.PLongURL) {
		// key = scheme://host + path (+ ?query): lengths on both sides of 192 and 255 bytes, and beyond
		suffix := strings.Repeat("s", g.pickI(150, 171, 176, 177, 178, 190, 200, 230, 238, 239, 240, 241, 260, 300))
		for i := range c.Reqs {
			c.Reqs[i].URL = longURL(c.Reqs[i].URL, suffix)
		}
	}
	// one script entry per request plus spares for background revalidations
	approx = epoch
	for i := 0; i < n+4; i++ {
		if i < n {
			approx = approx.Add(c.Reqs[i].Gap)
		}
		d := g.delay()
		c.Script = append(c.Script, ScriptEntry{Delay: d, Plain: g.genRep(p, i, approx, false), Cond: g.genRep(p, i, approx, true)})
	}
	return c
}

func derive(name string, f func(p *Profile)) Profile {
	p := baseProfile
	p.Name = name
	f(&p)
	return p
}

func init() {
	profiles["mix"] = baseProfile
	profiles["fresh"] = derive("fresh", func(p *Profile) {
		p.NReq = [2]int{3, 6}
		p.PUnsafe, p.PReqCC, p.PVary, p.PDate, p.PSkew = 0.02, 0.45, 0.1, 0.5, 0.5
		p.PAge, p.PBigNum, p.PHeuristic, p.PErrReply, p.URLs = 0.4, 0.15, 0.35, 0.02, 1
		p.PSpelling, p.PLocation, p.PConnHdr, p.PRange = 0.1, 0.0, 0.0, 0.0
	})
	profiles["validate"] = derive("validate", func(p *Profile) {
		p.NReq = [2]int{3, 7}
		p.PUnsafe, p.PReqCC, p.PVary, p.PNoCache, p.PMustReval = 0.02, 0.5, 0.1, 0.3, 0.4
		p.PValidators, p.PSWR, p.PSIE, p.PErrReply, p.POnlyIfCached, p.URLs = 0.75, 0.3, 0.3, 0.2, 0.15, 1
		p.PSpelling, p.PLocation, p.PConnHdr, p.PRange = 0.1, 0.0, 0.0, 0.0
		p.PClientCond = 0.12
		p.PRepeat = 0.2
	})
	profiles["spell"] = derive("spell", func(p *Profile) {
		p.NReq = [2]int{3, 6}
		p.PCCSpell, p.PReqCC, p.PBigNum, p.URLs, p.PUnsafe = 0.9, 0.6, 0.2, 1, 0.02
		p.PNoCache, p.PMustReval, p.PSWR, p.PSIE = 0.25, 0.3, 0.3, 0.25
		p.PLocation, p.PConnHdr, p.PRange = 0.0, 0.0, 0.0
		p.PRepeat = 0.25
	})
	profiles["inval"] = derive("inval", func(p *Profile) {
		p.NReq = [2]int{4, 8}
		p.PUnsafe, p.PLocation, p.URLs, p.PVary, p.PErrReply = 0.35, 0.6, 4, 0.3, 0.1
		p.PReqCC, p.PSpelling, p.PConnHdr, p.PRange = 0.15, 0.5, 0.0, 0.02
		p.Methods = []string{"POST", "PUT", "DELETE", "PATCH", "HEAD", "OPTIONS", "PROPFIND", "MKCOL", "FOO", "post", "LOCK", "QUERY", "TRACE", ""}
	})
	profiles["vary"] = derive("vary", func(p *Profile) {
		p.NReq = [2]int{4, 9}
		p.PVary, p.PAdvVary, p.URLs, p.PUnsafe, p.PReqCC = 0.75, 0.3, 1, 0.03, 0.15
		p.PLocation, p.PConnHdr, p.PRange, p.PErrReply = 0.0, 0.0, 0.0, 0.03
	})
	profiles["store"] = derive("store", func(p *Profile) {
		p.NReq = [2]int{3, 6}
		p.WideStatus, p.PBodyFail, p.PClientCond, p.PRange, p.PUnsafe = true, 0.12, 0.25, 0.1, 0.2
		p.PReqCC, p.URLs, p.PHeuristic = 0.35, 2, 0.4
		p.PLongURL = 0.1
	})
	profiles["freshen"] = derive("freshen", func(p *Profile) {
		p.NReq = [2]int{4, 9}
		p.PValidators, p.PSWR, p.PVary, p.URLs, p.PUnsafe = 0.9, 0.35, 0.35, 1, 0.02
		p.PErrReply, p.PLocation, p.PRange, p.PReqCC = 0.05, 0.0, 0.0, 0.2
	})
	profiles["conc"] = derive("conc", func(p *Profile) {
		p.NReq = [2]int{5, 10}
		p.PValidators, p.PSWR, p.PVary, p.URLs, p.PUnsafe = 0.9, 0.5, 0.35, 2, 0.12
		p.PErrReply, p.PLocation, p.PRange, p.PReqCC, p.PSpelling = 0.25, 0.0, 0.0, 0.15, 0.3
		p.PSIE = 0.45
	})
	profiles["hit"] = derive("hit", func(p *Profile) {
		p.NReq = [2]int{3, 7}
		p.PSpelling, p.PReqCC, p.PNoCache, p.PMustReval, p.PUnsafe = 0.7, 0.1, 0.03, 0.05, 0.02
		p.PHeuristic, p.URLs, p.PVary, p.PErrReply, p.PRange, p.PLocation = 0.35, 2, 0.4, 0.02, 0.06, 0.0
		p.Statuses = []int{200, 200, 200, 203, 301, 404, 405, 410, 414, 501, 308, 204, 302}
		p.PLongURL = 0.15
	})
	profiles["age"] = derive("age", func(p *Profile) {
		p.NReq = [2]int{3, 7}
		p.PAge, p.PDate, p.PSkew, p.PSWR, p.PSIE, p.POnlyIfCached = 0.5, 0.5, 0.5, 0.35, 0.3, 0.2
		p.PReqCC, p.PErrReply, p.URLs, p.PUnsafe, p.PBigNum = 0.5, 0.2, 1, 0.05, 0.1
	})
	profiles["sie"] = derive("sie", func(p *Profile) {
		p.NReq = [2]int{3, 7}
		p.PSIE, p.PErrReply, p.PReqCC, p.PMustReval, p.PNoCache = 0.6, 0.5, 0.5, 0.2, 0.15
		p.URLs, p.PUnsafe, p.PValidators, p.PLocation, p.PRange = 1, 0.02, 0.7, 0.0, 0.0
		p.PBodyFail = 0.1 // the reply that is set aside may have a body that cannot be read
	})
	profiles["urls"] = derive("urls", func(p *Profile) {
		p.NReq = [2]int{5, 10}
		p.URLs, p.PSpelling, p.PVary, p.PUnsafe, p.PReqCC = 4+len(nearMisses), 0.5, 0.0, 0.0, 0.0
		p.PNoCache, p.PMustReval, p.PSWR, p.PSIE, p.PErrReply, p.PHeuristic = 0, 0, 0, 0, 0, 0
		p.PLocation, p.PConnHdr, p.PRange, p.PDate, p.PAge = 0, 0, 0, 0, 0
		p.Statuses = []int{200}
	})
	profiles["repeat"] = derive("repeat", func(p *Profile) {
		p.PVary, p.PUnsafe, p.PReqCC, p.URLs = 0.8, 0.02, 0.1, 1
		p.PLocation, p.PConnHdr, p.PRange, p.PErrReply, p.PValidators, p.PSWR = 0, 0, 0, 0.03, 0.7, 0.3
	})
	profiles["oic"] = derive("oic", func(p *Profile) {
		p.NReq = [2]int{3, 6}
		p.PUnsafe, p.PReqCC, p.POnlyIfCached, p.PNoCache, p.PMustReval = 0.12, 0.8, 0.6, 0.25, 0.35
		p.PSWR, p.PSIE, p.URLs, p.PVary = 0.3, 0.2, 1, 0.2
		p.PLocation, p.PConnHdr, p.PRange = 0.0, 0.0, 0.08 // requests the cache never answers from its store carry only-if-cached too
		p.PCCSpell = 0.4
		p.PRepeat = 0.25
	})
}

// genRepeatCase: a long history over a small finite alphabet of requests and reply templates (C19).
// genVaryChurnCase: a finite request alphabet repeated many times against an origin whose answers to
// validations are full responses with another Vary field set (including "*") than the stored one.
func (g *G) genVaryChurnCase(p *Profile, id string) *Case {
	c := &Case{ID: id, Stream: "M", SWRTimeout: p.SWRTimeouts[g.intn(len(p.SWRTimeouts))]}
	varys := []string{"Accept-Encoding", "Accept-Encoding, *", "*", "X-Custom", "Accept-Encoding, X-Custom"}
	v1 := varys[g.intn(len(varys))]
	v2 := varys[g.intn(len(varys))]
	k := 1 + g.intn(3)
	var alphabet []Req
	for i := 0; i < k; i++ {
		alphabet = append(alphabet, Req{Method: "GET", URL: g.urlFor(0, false), Hdrs: []Hdr{{"Accept-Encoding", []string{g.pick("gzip", "br", "identity")}}, {"X-Custom", []string{g.pick("a", "b")}}}})
	}
	n := 50 + g.intn(40)
	for i := 0; i < n; i++ {
		rq := alphabet[g.intn(k)]
		rq.Gap = g.pickD(time.Second, 5*time.Second, 500*time.Millisecond)
		c.Reqs = append(c.Reqs, rq)
	}
	cc := g.pick("no-cache", "max-age=0", "max-age=1")
	mk := func(idx int, vary string) Rep {
		return Rep{Status: 200, BodyOK: true, Hdrs: []Hdr{{"X-Call", []string{strconv.Itoa(idx)}}, {"Content-Length", []string{strconv.Itoa(len(fmt.Sprintf("b%d.", idx)))}},
			{"Cache-Control", []string{cc}}, {"ETag", []string{fmt.Sprintf(`"v%d"`, idx%3)}}, {"Vary", []string{vary}}}}
	}
	for i := 0; i < n+6; i++ {
		c.Script = append(c.Script, ScriptEntry{Delay: 0, Plain: mk(i, v1), Cond: mk(i, v2)})
	}
	return c
}

func (g *G) genRepeatCase(p *Profile, id string) *Case {
	if g.chance(0.2) {
		return g.genVaryChurnCase(p, id)
	}
	c := &Case{ID: id, Stream: "M", SWRTimeout: p.SWRTimeouts[g.intn(len(p.SWRTimeouts))]}
	k := 2 + g.intn(3)
	var alphabet []Req
	for i := 0; i < k; i++ {
		rq := Req{Method: "GET", URL: g.urlFor(0, false), Hdrs: g.selectingHeaders()}
		if i > 0 && g.chance(0.15) {
			rq.Method = "POST"
		}
		alphabet = append(alphabet, rq)
	}
	m := 1 + g.intn(3)
	tseeds := make([]uint64, m)
	for i := range tseeds {
		tseeds[i] = g.r.Uint64()
	}
	n := 24 + g.intn(40)
	approx := epoch
	for i := 0; i < n; i++ {
		rq := alphabet[g.intn(k)]
		rq.Gap = g.pickD(time.Second, 5*time.Second, 61*time.Second, 500*time.Millisecond)
		approx = approx.Add(rq.Gap)
		c.Reqs = append(c.Reqs, rq)
	}
	for i := 0; i < n+6; i++ {
		ts := tseeds[g.intn(m)]
		t1 := newG(ts, 1)
		t2 := newG(ts, 2)
		c.Script = append(c.Script, ScriptEntry{Delay: 0, Plain: t1.genRep(p, i, epoch, false), Cond: t2.genRep(p, i, epoch, true)})
	}
	return c
}

// simple reply used by the targeted generators
func tRep(idx, status int, cc string, extra ...Hdr) Rep {
	hs := []Hdr{{"X-Call", []string{strconv.Itoa(idx)}}}
	if status != 304 && status != 204 {
		hs = append(hs, Hdr{"Content-Length", []string{strconv.Itoa(len(fmt.Sprintf("b%d.", idx)))}})
	}
	if cc != "" {
		hs = append(hs, Hdr{"Cache-Control", []string{cc}})
	}
	hs = append(hs, extra...)
	return Rep{Status: status, BodyOK: true, Hdrs: hs}
}

// genLateRevalCase (C07): a stale-while-revalidate background validation is still in flight when an
// unsafe request for the same target (or one naming it in Location / Content-Location) succeeds; the
// answer to the validation arrives afterwards; then the target is requested again.
func (g *G) genLateRevalCase(p *Profile, id string) *Case {
	c := &Case{ID: id, Stream: "M", SWRTimeout: g.pickD(0, 5*time.Second, 10*time.Second)}
	res := g.intn(4)
	D := g.pickD(2*time.Second, 3*time.Second, 4*time.Second)
	hdrs := g.selectingHeaders()
	get := func(gap time.Duration) Req {
		return Req{Gap: gap, Method: "GET", URL: g.urlFor(res, g.chance(0.4)), Hdrs: hdrs}
	}
	unsafe := Req{Gap: g.pickD(300*time.Millisecond, 700*time.Millisecond, time.Second), Method: g.pick("POST", "PUT", "DELETE", "PATCH", "FOO", "LOCK"),
		URL: g.urlFor(res, g.chance(0.4))}
	var loc []Hdr
	if g.chance(0.3) {
		// another resource of the same host, whose reply names the target
		other := (res + 2) % 4
		unsafe.URL = g.urlFor(other, false)
		loc = []Hdr{{g.pick("Location", "Content-Location"), []string{g.pick(paths[(res/len(hosts))%len(paths)], g.urlFor(res, false))}}}
	}
	c.Reqs = []Req{get(time.Second), get(g.pickD(2*time.Second, 3*time.Second, 5*time.Second)), unsafe, get(D + time.Second), get(g.pickD(time.Second, 10*time.Second))}
	et := Hdr{"ETag", []string{`"v1"`}}
	var vary []Hdr
	if g.chance(0.3) {
		vary = []Hdr{{"Vary", []string{g.pick("Accept-Encoding", "X-Custom", "Accept-Encoding, X-Custom")}}}
	}
	first := tRep(0, 200, g.pick("max-age=1, stale-while-revalidate=3600", "max-age=0, stale-while-revalidate=60", "max-age=2, stale-while-revalidate=3600"), append([]Hdr{et}, vary...)...)
	late := tRep(1, 304, g.pick("max-age=3600", "max-age=60", "max-age=3600, stale-while-revalidate=60"), append([]Hdr{et}, vary...)...)
	if g.chance(0.2) {
		late = tRep(1, 200, "max-age=3600", append([]Hdr{{"ETag", []string{`"v2"`}}}, vary...)...)
	}
	c.Script = []ScriptEntry{{Delay: 0, Plain: first, Cond: first}, {Delay: D, Plain: late, Cond: late},
		{Delay: 0, Plain: tRep(2, g.pickI(200, 201, 204, 303, 200), "", loc...), Cond: tRep(2, 200, "", loc...)}}
	for i := 3; i < 9; i++ {
		r := tRep(i, 200, "max-age=60", et)
		c.Script = append(c.Script, ScriptEntry{Delay: 0, Plain: r, Cond: r})
	}
	return c
}

// genTwoMatchCase (C09): two stored responses with different Vary field sets both match the final
// request; the order of their Date fields differs from the order in which they were received, and the
// one with the older Date is stale by the time of the final request.
func (g *G) genTwoMatchCase(p *Profile, id string) *Case {
	c := &Case{ID: id, Stream: "M", SWRTimeout: 0}
	res := g.intn(2)
	ae := g.pick("gzip", "br")
	ae2 := map[string]string{"gzip": "identity", "br": "gzip"}[ae]
	xc := g.pick("a", "b")
	xc2 := map[string]string{"a": "b", "b": "a"}[xc]
	// first stored: selected by Accept-Encoding; second stored: selected by X-Custom; the final request matches both
	r1 := Req{Gap: time.Second, Method: "GET", URL: g.urlFor(res, false), Hdrs: []Hdr{{"Accept-Encoding", []string{ae}}, {"X-Custom", []string{xc2}}}}
	r2 := Req{Gap: g.pickD(time.Second, 2*time.Second), Method: "GET", URL: g.urlFor(res, g.chance(0.3)), Hdrs: []Hdr{{"Accept-Encoding", []string{ae2}}, {"X-Custom", []string{xc}}}}
	r3 := Req{Gap: g.pickD(time.Second, 3*time.Second), Method: "GET", URL: g.urlFor(res, g.chance(0.3)), Hdrs: []Hdr{{"Accept-Encoding", []string{ae}}, {"X-Custom", []string{xc}}}}
	c.Reqs = []Req{r1, r2, r3, r3}
	c.Reqs[3].Gap = time.Second
	t1 := epoch.Add(time.Second)
	older := g.pickD(30*time.Second, 100*time.Second, time.Hour)
	d1 := Hdr{"Date", []string{httpDate(t1)}}
	d2 := Hdr{"Date", []string{httpDate(t1.Add(-older))}}
	long, short := "max-age=3600", g.pick("max-age=5", "max-age=20, must-revalidate", "max-age=10")
	a := tRep(0, 200, long, d1, Hdr{"Vary", []string{"Accept-Encoding"}}, Hdr{"ETag", []string{`"v1"`}})
	b := tRep(1, 200, short, d2, Hdr{"Vary", []string{"X-Custom"}}, Hdr{"ETag", []string{`"v2"`}})
	if g.chance(0.3) {
		// the other way round: the later one is the newer and the fresh one
		a = tRep(0, 200, short, d2, Hdr{"Vary", []string{"Accept-Encoding"}}, Hdr{"ETag", []string{`"v1"`}})
		b = tRep(1, 200, long, d1, Hdr{"Vary", []string{"X-Custom"}}, Hdr{"ETag", []string{`"v2"`}})
	}
	c.Script = []ScriptEntry{{Plain: a, Cond: a}, {Plain: b, Cond: b}}
	for i := 2; i < 8; i++ {
		r := tRep(i, 200, "max-age=60", Hdr{"Vary", []string{"Accept-Encoding"}})
		c.Script = append(c.Script, ScriptEntry{Plain: r, Cond: tRep(i, 304, "")})
	}
	return c
}

// genGluedVaryCase (C04): the Vary field set of a resource changes from a field to one whose name extends it
// (or the other way round), and the request values are chosen so that name and value glued together coincide:
// ("X-Custom", "-Id42") and ("X-Custom-Id", "42").  Whatever a cache derives from name and value must keep them apart.
func (g *G) genGluedVaryCase(p *Profile, id string) *Case {
	c := &Case{ID: id, Stream: "M", SWRTimeout: 0}
	res := g.intn(2)
	short, long := "X-Custom", "X-Custom-Id"
	v := g.pick("42", "1", "x")
	glued := strings.TrimPrefix(long, short) + v // the value that completes the shorter name
	get := func(h ...Hdr) Req {
		return Req{Gap: g.pickD(time.Second, 2*time.Second), Method: "GET", URL: g.urlFor(res, g.chance(0.2)), Hdrs: h}
	}
	first, second := Hdr{short, []string{glued}}, Hdr{long, []string{v}}
	varyFirst, varySecond := short, long
	probe := Hdr{long, []string{glued}}
	if g.chance(0.4) {
		first, second = second, first
		varyFirst, varySecond = long, short
		probe = Hdr{short, []string{v}}
	}
	c.Reqs = []Req{get(first), get(second), get(probe), get(second), get(first)}
	for i := 0; i < 9; i++ {
		vy := varyFirst
		if i >= 1 {
			vy = varySecond
		}
		r := tRep(i, 200, "max-age=3600", Hdr{"Vary", []string{vy}})
		c.Script = append(c.Script, ScriptEntry{Plain: r, Cond: r})
	}
	return c
}

// genSaturatedAgeCase (C01): a stored age that saturates (an Age of 2^63 ns and more, in seconds) meets directives that
// add to it or compare it with a window: stale-while-revalidate, max-stale, min-fresh.  Staleness far beyond any
// window must stay outside it, whatever the arithmetic does at the top of the range.
func (g *G) genSaturatedAgeCase(p *Profile, id string) *Case {
	c := &Case{ID: id, Stream: "M", SWRTimeout: 0}
	res := g.intn(2)
	age := g.pick("9223372037", "9223372036", "9223372036854775807", "99999999999999999999", "9223372035")
	cc := g.pick("max-age=0, stale-while-revalidate=30", "max-age=1, stale-while-revalidate=60", "max-age=60, stale-while-revalidate=3600",
		"max-age=0, stale-if-error=30", "max-age=9223372036, stale-while-revalidate=5")
	first := tRep(0, 200, cc, Hdr{"Age", []string{age}}, Hdr{"ETag", []string{`"v1"`}})
	rcc := g.pick("", "", "max-stale=30", "min-fresh=5", "max-stale")
	var h []Hdr
	if rcc != "" {
		h = []Hdr{{"Cache-Control", []string{rcc}}}
	}
	c.Reqs = []Req{{Gap: time.Second, Method: "GET", URL: g.urlFor(res, false)},
		{Gap: g.pickD(time.Second, 900*time.Millisecond, 10*time.Second), Method: "GET", URL: g.urlFor(res, false), Hdrs: h},
		{Gap: time.Second, Method: "GET", URL: g.urlFor(res, false)}}
	c.Script = []ScriptEntry{{Delay: g.pickD(0, 900*time.Millisecond), Plain: first, Cond: first}}
	for i := 1; i < 7; i++ {
		r := tRep(i, 200, "max-age=60", Hdr{"ETag", []string{`"v2"`}})
		c.Script = append(c.Script, ScriptEntry{Plain: r, Cond: r})
	}
	return c
}

// genDelimitedVaryCase (C04): one request's selecting value spells out another request's (name, value) pairs in some
// delimiter's clothing ("ios;X-Other=pro" against X-Custom: ios + X-Other: pro), the Vary field set changes between
// the two, and one of the variants is reloaded in place (no-cache, answered 200) before the other is requested again.
func (g *G) genDelimitedVaryCase(p *Profile, id string) *Case {
	c := &Case{ID: id, Stream: "M", SWRTimeout: 0}
	res := g.intn(2)
	v, w := g.pick("ios", "1", "a"), g.pick("pro", "2", "b")
	glue := g.pick(";X-Other=", "&X-Other=", ", X-Other: ", "\nX-Other=", " X-Other ", ";x-other=")
	tail := ""
	if strings.HasPrefix(glue, ";") && g.chance(0.5) {
		tail = ";"
	}
	a := []Hdr{{"X-Custom", []string{v}}, {"X-Other", []string{w}}}
	b := []Hdr{{"X-Custom", []string{v + glue + w + tail}}}
	if strings.Contains(glue, "\n") {
		b = []Hdr{{"X-Custom", []string{v + ";X-Other=" + w}}} // no line breaks in field values
	}
	get := func(h []Hdr, cc string) Req {
		hs := append([]Hdr(nil), h...)
		if cc != "" {
			hs = append(hs, Hdr{"Cache-Control", []string{cc}})
		}
		return Req{Gap: g.pickD(time.Second, 2*time.Second), Method: "GET", URL: g.urlFor(res, false), Hdrs: hs}
	}
	first, second := a, b
	if g.chance(0.5) {
		first, second = b, a
	}
	varyFirst, varySecond := "X-Custom, X-Other", "X-Custom"
	if g.chance(0.3) {
		varyFirst, varySecond = varySecond, varyFirst
	}
	c.Reqs = []Req{get(first, ""), get(second, ""), get(first, "no-cache"), get(second, ""), get(first, ""), get(second, "")}
	// which origin call answers with which Vary field set: the set changes once, at the second, third or fourth call
	change := 1 + g.intn(3)
	back := g.chance(0.3)
	for i := 0; i < 10; i++ {
		vy := varyFirst
		if i >= change && !(back && i > change) {
			vy = varySecond
		}
		r := tRep(i, 200, "max-age=3600", Hdr{"Vary", []string{vy}}, Hdr{"ETag", []string{fmt.Sprintf(`"v%d"`, i)}})
		c.Script = append(c.Script, ScriptEntry{Plain: r, Cond: r})
	}
	return c
}

// genFor: the generator of case number i of a profile (targeted shapes are mixed into some profiles)
// genBgFailureCase: a stale response inside its stale-while-revalidate window is handed out and validated in the background;
// the validation fails with a 5xx that is itself storable (explicit freshness) while stale-if-error — on the stored response
// or on the request — covers the failure; later requests inside and outside the stale-while-revalidate window follow.
func (g *G) genBgFailureCase(p *Profile, id string) *Case {
	c := &Case{ID: id, Stream: "M", SWRTimeout: p.SWRTimeouts[g.intn(len(p.SWRTimeouts))]}
	res := g.intn(2)
	storedSIE := g.chance(0.7)
	cc := "max-age=1, stale-while-revalidate=30"
	if storedSIE {
		cc += ", stale-if-error=" + g.pick("600", "600", "3600", "20")
	}
	first := tRep(0, 200, cc, Hdr{"ETag", []string{`"v1"`}})
	var h []Hdr
	if !storedSIE || g.chance(0.3) {
		h = []Hdr{{"Cache-Control", []string{"stale-if-error=" + g.pick("600", "30", "5")}}}
	}
	c.Reqs = []Req{{Gap: time.Second, Method: "GET", URL: g.urlFor(res, false)},
		{Gap: g.pickD(5*time.Second, 3*time.Second, 20*time.Second), Method: "GET", URL: g.urlFor(res, false), Hdrs: h},
		{Gap: g.pickD(2*time.Second, time.Second), Method: "GET", URL: g.urlFor(res, false), Hdrs: h},
		{Gap: g.pickD(40*time.Second, 10*time.Second, 700*time.Second), Method: "GET", URL: g.urlFor(res, false), Hdrs: h},
		{Gap: time.Second, Method: "GET", URL: g.urlFor(res, false)}}
	c.Script = []ScriptEntry{{Delay: g.pickD(0, 300*time.Millisecond), Plain: first, Cond: first}}
	for i := 1; i < 8; i++ {
		status := g.pickI(500, 502, 503, 504, 503, 501, 404)
		if i >= 4 && g.chance(0.5) {
			status = 200
		}
		r := tRep(i, status, g.pick("max-age=60", "public", "max-age=60, must-revalidate", "", "no-store", "max-age=0"), Hdr{"ETag", []string{`"v2"`}})
		c.Script = append(c.Script, ScriptEntry{Delay: g.pickD(0, 200*time.Millisecond), Plain: r, Cond: r})
	}
	return c
}

// genNoStoreBackgroundCase: the request that is answered stale under stale-while-revalidate says no-store (or the reply to the
// background validation does): what the background validation brings back is not written.
func (g *G) genNoStoreBackgroundCase(p *Profile, id string) *Case {
	c := &Case{ID: id, Stream: "M", SWRTimeout: p.SWRTimeouts[g.intn(len(p.SWRTimeouts))]}
	res := g.intn(2)
	first := tRep(0, 200, g.pick("max-age=1, stale-while-revalidate=60", "max-age=0, stale-while-revalidate=30"), Hdr{"ETag", []string{`"v1"`}})
	reqCC := g.pick("no-store", "no-store", "no-store, max-stale=5", "max-age=100, no-store", "")
	var h []Hdr
	if reqCC != "" {
		h = []Hdr{{"Cache-Control", []string{reqCC}}}
	}
	c.Reqs = []Req{{Gap: time.Second, Method: "GET", URL: g.urlFor(res, false)},
		{Gap: g.pickD(3*time.Second, 5*time.Second), Method: "GET", URL: g.urlFor(res, false), Hdrs: h},
		{Gap: g.pickD(time.Second, 2*time.Second), Method: "GET", URL: g.urlFor(res, false)},
		{Gap: time.Second, Method: "GET", URL: g.urlFor(res, false), Hdrs: h}}
	c.Script = []ScriptEntry{{Plain: first, Cond: first}}
	for i := 1; i < 6; i++ {
		cc := g.pick("max-age=60", "max-age=60, stale-while-revalidate=60", "no-store", "max-age=60")
		full := tRep(i, 200, cc, Hdr{"ETag", []string{`"v2"`}})
		nm := tRep(i, 304, cc, Hdr{"ETag", []string{`"v1"`}})
		c.Script = append(c.Script, ScriptEntry{Delay: g.pickD(0, 100*time.Millisecond), Plain: full, Cond: g.pickRep(nm, full)})
	}
	return c
}

func (g *G) pickRep(a, b Rep) Rep {
	if g.chance(0.5) {
		return a
	}
	return b
}

// genVaryCCCase: the stored response varies on Cache-Control itself; later requests carry their directives on several field
// lines with only-if-cached on a later one (what is done to the request while looking for a variant must not lose it)
func (g *G) genVaryCCCase(p *Profile, id string) *Case {
	c := &Case{ID: id, Stream: "M", SWRTimeout: p.SWRTimeouts[g.intn(len(p.SWRTimeouts))]}
	res := g.intn(2)
	vary := g.pick("Cache-Control", "Cache-Control, Accept-Encoding", "accept-encoding, cache-control")
	first := tRep(0, 200, g.pick("max-age=60", "max-age=1", "max-age=1, stale-while-revalidate=30"), Hdr{"Vary", []string{vary}}, Hdr{"ETag", []string{`"v1"`}})
	firstCC := g.pick("max-stale=5", "max-stale=5", "min-fresh=1", "")
	var h0 []Hdr
	if firstCC != "" {
		h0 = []Hdr{{"Cache-Control", []string{firstCC}}}
	}
	lines := func() []Hdr {
		a := g.pick("max-stale=5", "max-stale=5", "min-fresh=1", "max-stale=100", "max-age=3600")
		switch g.intn(3) {
		case 0:
			return []Hdr{{"Cache-Control", []string{a, "only-if-cached"}}}
		case 1:
			return []Hdr{{"Cache-Control", []string{a, "", "only-if-cached, " + a}}}
		default:
			return []Hdr{{"Cache-Control", []string{a + ", " + a, "foo=1", "only-if-cached"}}}
		}
	}
	c.Reqs = []Req{{Gap: time.Second, Method: "GET", URL: g.urlFor(res, false), Hdrs: h0},
		{Gap: g.pickD(time.Second, 3*time.Second), Method: "GET", URL: g.urlFor(res, false), Hdrs: lines()},
		{Gap: g.pickD(time.Second, 70*time.Second), Method: "GET", URL: g.urlFor(res, false), Hdrs: lines()},
		{Gap: time.Second, Method: "GET", URL: g.urlFor(res, false), Hdrs: h0}}
	c.Script = []ScriptEntry{{Plain: first, Cond: first}}
	for i := 1; i < 6; i++ {
		r := tRep(i, 200, "max-age=60", Hdr{"Vary", []string{vary}}, Hdr{"ETag", []string{`"v2"`}})
		c.Script = append(c.Script, ScriptEntry{Plain: r, Cond: r})
	}
	return c
}

// genBigAllowanceCase: a fresh stored response and requests whose max-stale / min-fresh / max-age arguments are as large as a
// directive argument gets — around and beyond what a duration holds: a fresh response stays usable under every max-stale
func (g *G) genBigAllowanceCase(p *Profile, id string) *Case {
	c := &Case{ID: id, Stream: "M", SWRTimeout: p.SWRTimeouts[g.intn(len(p.SWRTimeouts))]}
	res := g.intn(2)
	first := tRep(0, 200, g.pick("max-age=600", "max-age=3600", "max-age=9223372036", "max-age=60"), Hdr{"ETag", []string{`"v1"`}})
	big := func() string {
		return g.pick("9223372036", "9223372035", "9223372037", "9999999999", "9223372000", "18446744073709551616", "99999999999999999999", "2147483648", "4294967296")
	}
	req := func(gap time.Duration) Req {
		cc := g.pick("max-stale="+big(), "max-stale="+big(), `max-stale="`+big()+`"`, "max-stale", "max-age="+big(), "max-stale="+big()+", max-age="+big())
		return Req{Gap: gap, Method: "GET", URL: g.urlFor(res, false), Hdrs: []Hdr{{"Cache-Control", []string{cc}}}}
	}
	c.Reqs = []Req{{Gap: time.Second, Method: "GET", URL: g.urlFor(res, false)}, req(g.pickD(time.Second, 5*time.Second)), req(time.Second), req(g.pickD(10*time.Second, 100*time.Second))}
	c.Script = []ScriptEntry{{Plain: first, Cond: first}}
	for i := 1; i < 6; i++ {
		r := tRep(i, 200, "max-age=60", Hdr{"ETag", []string{`"v2"`}})
		c.Script = append(c.Script, ScriptEntry{Plain: r, Cond: r})
	}
	return c
}

// genMinFreshFailureCase: a response still inside its own lifetime is validated because the request asks for min-fresh; the
// validation fails and stale-if-error (on the response or the request) covers the failure: the stored response comes back
// after an origin contact — labelled as such, with the age at that instant
func (g *G) genMinFreshFailureCase(p *Profile, id string) *Case {
	c := &Case{ID: id, Stream: "M", SWRTimeout: p.SWRTimeouts[g.intn(len(p.SWRTimeouts))]}
	res := g.intn(2)
	storedSIE := g.chance(0.6)
	cc := g.pick("max-age=60", "max-age=120", "max-age=30")
	if storedSIE {
		cc += ", stale-if-error=" + g.pick("600", "3600")
	}
	first := tRep(0, 200, cc, Hdr{"ETag", []string{`"v1"`}})
	rcc := "min-fresh=" + g.pick("100", "600", "59", "3600")
	if !storedSIE || g.chance(0.3) {
		rcc += ", stale-if-error=" + g.pick("600", "3600")
	}
	h := []Hdr{{"Cache-Control", []string{rcc}}}
	c.Reqs = []Req{{Gap: time.Second, Method: "GET", URL: g.urlFor(res, false)},
		{Gap: g.pickD(2*time.Second, 5*time.Second, 20*time.Second), Method: "GET", URL: g.urlFor(res, false), Hdrs: h},
		{Gap: time.Second, Method: "GET", URL: g.urlFor(res, false)},
		{Gap: g.pickD(time.Second, 3*time.Second), Method: "GET", URL: g.urlFor(res, false), Hdrs: h}}
	c.Script = []ScriptEntry{{Delay: g.pickD(0, 400*time.Millisecond), Plain: first, Cond: first}}
	for i := 1; i < 6; i++ {
		r := tRep(i, g.pickI(500, 502, 503, 504, 503), g.pick("", "no-store", "max-age=5"))
		e := ScriptEntry{Delay: g.pickD(0, 2*time.Second, 500*time.Millisecond), Plain: r, Cond: r}
		if g.chance(0.25) {
			e.Plain, e.Cond = Rep{Err: true}, Rep{Err: true}
		}
		c.Script = append(c.Script, e)
	}
	return c
}

// overrides: dedicated case shapes added late.  The regular case of the slot is generated all the same (so that the random
// stream of the profile, and with it every other case, stays what it was) and then replaced by a case drawn from a generator
// of its own, seeded by the case id.
type caseOverride struct {
	profile string
	when    func(i int) bool
	gen     func(g *G, p *Profile, id string) *Case
}

var overrides []caseOverride

func (g *G) genFor(p *Profile, id string, i int) *Case {
	c := g.genForBase(p, id, i)
	for _, o := range overrides {
		if o.profile == p.Name && o.when(i) {
			h := uint64(14695981039346656037)
			for k := 0; k < len(id); k++ {
				h = (h ^ uint64(id[k])) * 1099511628211
			}
			sub := newG(h, 0x0ddc0ffee)
			sub.canon = g.canon
			sub.noVaryCC = g.noVaryCC
			return o.gen(sub, p, id)
		}
	}
	return c
}

func (g *G) genForBase(p *Profile, id string, i int) *Case {
	g.noVaryCC = p.Name == "spell"
	switch {
	case p.Name == "repeat":
		return g.genRepeatCase(p, id)
	case p.Name == "inval" && i%8 == 3:
		return g.genLateRevalCase(p, id)
	case (p.Name == "hit" || p.Name == "vary") && i%10 == 5:
		return g.genTwoMatchCase(p, id)
	case p.Name == "vary" && i%20 == 7:
		return g.genGluedVaryCase(p, id)
	case p.Name == "vary" && i%10 == 3:
		return g.genDelimitedVaryCase(p, id)
	case (p.Name == "fresh" || p.Name == "age") && i%25 == 9:
		return g.genSaturatedAgeCase(p, id)
	case p.Name == "sie" && i%8 == 5:
		return g.genBgFailureCase(p, id)
	case p.Name == "store" && i%10 == 2:
		return g.genNoStoreBackgroundCase(p, id)
	case p.Name == "oic" && i%12 == 7:
		return g.genVaryCCCase(p, id)
	case p.Name == "hit" && i%15 == 4:
		return g.genBigAllowanceCase(p, id)
	case (p.Name == "age" || p.Name == "sie") && i%25 == 14:
		return g.genMinFreshFailureCase(p, id)
	}
	return g.genCase(p, id)
}

// longURL appends a path segment to the URL's path (before any query or fragment)
func longURL(u, suffix string) string {
	cut := len(u)
	if i := strings.IndexAny(u, "?#"); i >= 0 {
		cut = i
	}
	return u[:cut] + "/" + suffix + u[cut:]
}
