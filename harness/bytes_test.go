package harness

import (
	"bufio"
	"bytes"
	"crypto/sha256"
	"fmt"
	"io"
	"net"
	"net/http"
	"net/http/httptest"
	"os"
	"path/filepath"
	"sort"
	"strings"
	"sync"
	"testing"

	"github.com/bartventer/httpcache"
	"github.com/bartventer/httpcache/store/driver"
	"github.com/bartventer/httpcache/store/fscache"
	"github.com/bartventer/httpcache/store/memcache"
)

// ---------- C05: byte-faithful copies, over real HTTP framing on the loopback interface ----------

type byteCase struct {
	Name    string
	Framing string // cl | chunked | chunked-trailer | close | http10 | h2 | h2-nolength
	Status  int
	Body    []byte
	Hdrs    [][2]string // end-to-end fields the origin sends, in order (names may repeat)
	Hop     [][2]string // hop-by-hop fields the origin sends
}

func bodyCorpus(g *G, max int) [][]byte {
	rnd := func(n int) []byte {
		b := make([]byte, n)
		for i := range b {
			b[i] = byte(g.intn(256))
		}
		return b
	}
	out := [][]byte{
		{}, []byte("x"), []byte("\r\n"), []byte("\r\n\r\n"), []byte("0\r\n\r\n"), {0}, bytes.Repeat([]byte{0}, 100),
		[]byte("HTTP/1.1 200 OK\r\nContent-Length: 3\r\n\r\nabc"),
		[]byte("5\r\nhello\r\n0\r\n\r\n"),
		[]byte("line1\nline2\r\nline3\rline4"),
		[]byte("id\t2000-01-01T00:00:00Z\t2000-01-01T00:00:00Z\nHTTP/1.1 200 OK\r\n\r\n"),
		bytes.Repeat([]byte("\r\n0\r\n\r\n"), 50),
		rnd(17), rnd(4095), rnd(4096), rnd(4097), rnd(65536),
	}
	if max >= 1<<20 {
		out = append(out, rnd(1<<20))
	}
	return out
}

func headerCorpus(g *G) [][][2]string {
	return [][][2]string{
		{{"Cache-Control", "max-age=600"}},
		{{"Cache-Control", "max-age=600"}, {"X-Multi", "a"}, {"X-Multi", "b, c"}, {"X-Multi", ""}},
		{{"Cache-Control", "max-age=600"}, {"Set-Cookie", "a=1; Path=/"}, {"Set-Cookie", "b=2; Path=/"}},
		{{"Cache-Control", "max-age=600"}, {"X-Empty", ""}, {"X-Spaces", "a   b"}, {"X-Tab", "a\tb"}},
		{{"Cache-Control", "max-age=600"}, {"X-Long", strings.Repeat("v", 9000)}},
		{{"Cache-Control", "max-age=600"}, {"x-lower", "1"}, {"X-UPPER-CASE", "2"}, {"X-Mixed-cAsE", "3"}},
		{{"Cache-Control", "max-age=600"}, {"X-Utf8", "caf\xc3\xa9"}, {"X-Latin1", "caf\xe9"}, {"X-Punct", "!#$%&'*+-.^_`|~:;,=?@[]{}()<>/\\\""}},
		{{"Cache-Control", "max-age=600"}, {"Content-Type", "application/octet-stream"}, {"Etag", `"e1"`}, {"Last-Modified", "Sat, 01 Jan 2000 00:00:00 GMT"}, {"Content-Encoding", "identity"}, {"Content-Language", "en"}},
		{{"Cache-Control", "max-age=600"}, {"Warning", `110 - "stale"`}, {"Via", "1.1 proxy"}, {"Age", "5"}},
	}
}

var hopCorpus = [][][2]string{
	nil,
	{{"Keep-Alive", "timeout=5"}, {"Proxy-Authenticate", "Basic"}, {"Proxy-Authentication-Info", "x"}, {"Upgrade", "h2c"}},
	{{"Connection", "X-Hop-One, x-hop-two"}, {"X-Hop-One", "1"}, {"X-Hop-Two", "2"}, {"Te", "trailers"}, {"Proxy-Connection", "keep-alive"}},
}

// rawResponse renders the response as the origin puts it on the wire (HTTP/1.x framings)
func (c *byteCase) raw() []byte {
	var b bytes.Buffer
	proto := "HTTP/1.1"
	if c.Framing == "http10" {
		proto = "HTTP/1.0"
	}
	fmt.Fprintf(&b, "%s %d %s\r\n", proto, c.Status, http.StatusText(c.Status))
	for _, h := range append(append([][2]string{}, c.Hdrs...), c.Hop...) {
		fmt.Fprintf(&b, "%s: %s\r\n", h[0], h[1])
	}
	switch c.Framing {
	case "cl":
		fmt.Fprintf(&b, "Content-Length: %d\r\n\r\n", len(c.Body))
		b.Write(c.Body)
	case "chunked", "chunked-trailer":
		if c.Framing == "chunked-trailer" {
			b.WriteString("Trailer: X-Checksum\r\n")
		}
		b.WriteString("Transfer-Encoding: chunked\r\n\r\n")
		body := c.Body
		for i := 0; len(body) > 0; i++ {
			n := 1 + (i*7919)%3001
			if n > len(body) {
				n = len(body)
			}
			fmt.Fprintf(&b, "%x\r\n", n)
			b.Write(body[:n])
			b.WriteString("\r\n")
			body = body[n:]
		}
		b.WriteString("0\r\n")
		if c.Framing == "chunked-trailer" {
			fmt.Fprintf(&b, "X-Checksum: %x\r\n", sha256.Sum256(c.Body))
		}
		b.WriteString("\r\n")
	default: // close-delimited
		b.WriteString("Connection: close\r\n\r\n")
		b.Write(c.Body)
	}
	return b.Bytes()
}

type byteOrigin struct {
	mu    sync.Mutex
	cases map[string]*byteCase
	hits  map[string]int
}

func (o *byteOrigin) lookup(path string) *byteCase {
	o.mu.Lock()
	defer o.mu.Unlock()
	o.hits[path]++
	return o.cases[path]
}

// rawServer: a listener that answers each connection's one request with pre-rendered bytes
func (o *byteOrigin) rawServer(t *testing.T) (addr string, stop func()) {
	ln, err := net.Listen("tcp", "127.0.0.1:0")
	if err != nil {
		t.Fatal(err)
	}
	go func() {
		for {
			conn, err := ln.Accept()
			if err != nil {
				return
			}
			go func(conn net.Conn) {
				defer conn.Close()
				br := bufio.NewReader(conn)
				for {
					req, err := http.ReadRequest(br)
					if err != nil {
						return
					}
					c := o.lookup(req.URL.Path)
					if c == nil {
						conn.Write([]byte("HTTP/1.1 404 Not Found\r\nContent-Length: 0\r\n\r\n"))
						continue
					}
					if req.Header.Get("X-Verif-Validate") != "" && req.Header.Get("If-None-Match") != "" {
						// the validation round: not modified, with a changed and a new field
						proto := "HTTP/1.1"
						if c.Framing == "http10" {
							proto = "HTTP/1.0"
						}
						// ... and, for every other case, hop-by-hop fields of its own: what its Connection field names is hop-by-hop in
						// THIS message — also when the stored response carries a field of that name end to end, which stays
						hop := ""
						sum := 0
						for i := 0; i < len(c.Name); i++ {
							sum += int(c.Name[i])
						}
						if sum%2 == 0 {
							named := "X-Hop-304"
							for _, h := range c.Hdrs {
								switch strings.ToLower(h[0]) {
								case "etag", "cache-control", "date", "content-type", "content-length", "age", "vary", "expires", "last-modified":
								default:
									if !isHopName(http.CanonicalHeaderKey(h[0]), nil) {
										named += ", " + h[0]
									}
								}
								if named != "X-Hop-304" {
									break
								}
							}
							hop = "Connection: " + named + "\r\nX-Hop-304: 1\r\nKeep-Alive: timeout=5\r\nProxy-Authenticate: Basic\r\n"
						}
						fmt.Fprintf(conn, "%s 304 Not Modified\r\nCache-Control: max-age=700\r\nEtag: %s\r\nX-Fresh: 1\r\n%s\r\n", proto, req.Header.Get("If-None-Match"), hop)
						if c.Framing == "close" || c.Framing == "http10" {
							return
						}
						continue
					}
					conn.Write(c.raw())
					if c.Framing == "close" || c.Framing == "http10" {
						return
					}
				}
			}(conn)
		}
	}()
	return ln.Addr().String(), func() { ln.Close() }
}

func (o *byteOrigin) h2Handler() http.Handler {
	return http.HandlerFunc(func(w http.ResponseWriter, r *http.Request) {
		c := o.lookup(r.URL.Path)
		if c == nil {
			w.WriteHeader(404)
			return
		}
		if r.Header.Get("X-Verif-Validate") != "" && r.Header.Get("If-None-Match") != "" {
			w.Header().Set("Cache-Control", "max-age=700")
			w.Header().Set("Etag", r.Header.Get("If-None-Match"))
			w.Header().Set("X-Fresh", "1")
			w.WriteHeader(304)
			return
		}
		for _, h := range c.Hdrs {
			w.Header()[h[0]] = append(w.Header()[h[0]], h[1])
		}
		if c.Framing == "h2" {
			w.Header().Set("Content-Length", fmt.Sprint(len(c.Body)))
		}
		w.WriteHeader(c.Status)
		// several writes with a flush: no Content-Length is added when it was not set
		half := len(c.Body) / 2
		w.Write(c.Body[:half])
		if f, ok := w.(http.Flusher); ok {
			f.Flush()
		}
		w.Write(c.Body[half:])
	})
}

// recUpstream records every response as net/http delivered it to the cache: status, header fields, trailer, body bytes
type recUpstream struct {
	inner http.RoundTripper
	mu    sync.Mutex
	last  map[string]*deliveredResp
}

type deliveredResp struct {
	status  int
	proto   string
	header  http.Header
	body    *bytes.Buffer
	readErr error
}

type teeBody struct {
	rc io.ReadCloser
	d  *deliveredResp
}

func (t *teeBody) Read(p []byte) (int, error) {
	n, err := t.rc.Read(p)
	t.d.body.Write(p[:n])
	if err != nil && err != io.EOF {
		t.d.readErr = err
	}
	return n, err
}
func (t *teeBody) Close() error { return t.rc.Close() }

func (u *recUpstream) RoundTrip(req *http.Request) (*http.Response, error) {
	resp, err := u.inner.RoundTrip(req)
	if err != nil {
		return resp, err
	}
	d := &deliveredResp{status: resp.StatusCode, proto: resp.Proto, header: resp.Header.Clone(), body: &bytes.Buffer{}}
	resp.Body = &teeBody{rc: resp.Body, d: d}
	u.mu.Lock()
	u.last[req.URL.Path] = d
	u.mu.Unlock()
	return resp, nil
}

// capConn keeps the bytes of every stored entry
type capConn struct {
	driver.Conn
	mu   sync.Mutex
	sets [][]byte
}

func (c *capConn) Set(key string, val []byte) error {
	if strings.Contains(key, "#") {
		c.mu.Lock()
		if len(c.sets) < 4000 {
			c.sets = append(c.sets, append([]byte(nil), val...))
		}
		c.mu.Unlock()
	}
	return c.Conn.Set(key, val)
}

// goReading: the metadata line split off, then http.ReadResponse and the body read to its end
func goReading(raw []byte) string {
	rd := bufio.NewReader(bytes.NewReader(raw))
	meta, err := rd.ReadBytes('\n')
	if err != nil {
		return "WR fail"
	}
	parts := bytes.Split(bytes.TrimSpace(meta), []byte("\t"))
	if len(parts) != 3 {
		return "WR fail"
	}
	resp, err := http.ReadResponse(rd, nil)
	if err != nil {
		return "WR fail"
	}
	body, err := io.ReadAll(resp.Body)
	if err != nil {
		return "WR fail"
	}
	h := resp.Header.Clone()
	// fields net/http moves out of the header while reading
	if len(resp.TransferEncoding) > 0 {
		h["Transfer-Encoding"] = resp.TransferEncoding
	}
	names := make([]string, 0, len(h))
	for k := range h {
		names = append(names, k)
	}
	sort.Strings(names)
	var b strings.Builder
	fmt.Fprintf(&b, "WR ok %s %d %d", hx(string(parts[0])), resp.StatusCode, len(names))
	for _, n := range names {
		fmt.Fprintf(&b, " %s %d", hx(n), len(h[n]))
		for _, v := range h[n] {
			b.WriteString(" " + hx(v))
		}
	}
	b.WriteString(" " + hx(string(body)))
	return b.String()
}

func canonFields(fs [][2]string) map[string][]string {
	m := map[string][]string{}
	for _, f := range fs {
		k := http.CanonicalHeaderKey(f[0])
		m[k] = append(m[k], strings.TrimSpace(f[1]))
	}
	return m
}

// isHopName: the fixed hop-by-hop fields, and the fields named by the Connection lines of the response as net/http
// delivered it to the cache (net/http deletes every Connection line of an HTTP/1.1 response when one of them says
// "close"; names listed there are then unknowable to anything behind http.Transport)
func isHopName(name string, connLines []string) bool {
	switch http.CanonicalHeaderKey(name) {
	case "Connection", "Keep-Alive", "Te", "Transfer-Encoding", "Upgrade", "Proxy-Connection", "Proxy-Authenticate", "Proxy-Authentication-Info", "Proxy-Authorization", "Trailer":
		return true
	}
	for _, line := range connLines {
		for _, n := range strings.Split(line, ",") {
			if strings.EqualFold(strings.TrimSpace(n), name) {
				return true
			}
		}
	}
	return false
}

func TestBytes(t *testing.T) {
	out := os.Getenv("VERIF_OUT")
	if out == "" {
		t.Skip("VERIF_OUT not set")
	}
	thorough := os.Getenv("VERIF_TIER") == "thorough"
	seed := uint64(envInt("VERIF_SEED", 1))
	g := newG(seed, 0xc05)
	max := 1 << 16
	if thorough {
		max = 1 << 20
	}
	bodies := bodyCorpus(g, max)
	hdrs := headerCorpus(g)
	org := &byteOrigin{cases: map[string]*byteCase{}, hits: map[string]int{}}
	addr, stop := org.rawServer(t)
	defer stop()
	h2 := httptest.NewUnstartedServer(org.h2Handler())
	h2.EnableHTTP2 = true
	h2.StartTLS()
	defer h2.Close()

	var cases []*byteCase
	n := 0
	add := func(framing string, status int, body []byte, hs [][2]string, hop [][2]string) {
		n++
		hasTag := false
		for _, h := range hs {
			hasTag = hasTag || strings.EqualFold(h[0], "Etag")
		}
		if !hasTag && n%2 == 0 {
			hs = append(append([][2]string{}, hs...), [2]string{"Etag", fmt.Sprintf(`"t%d"`, n)})
		}
		c := &byteCase{Name: fmt.Sprintf("/c%d", n), Framing: framing, Status: status, Body: body, Hdrs: hs, Hop: hop}
		cases = append(cases, c)
		org.cases[c.Name] = c
	}
	framings := []string{"cl", "chunked", "chunked-trailer", "close", "http10", "h2", "h2-nolength"}
	for _, f := range framings {
		for i, b := range bodies {
			hs := hdrs[i%len(hdrs)]
			hop := hopCorpus[i%len(hopCorpus)]
			if strings.HasPrefix(f, "h2") {
				hop = nil // connection-specific fields are not allowed in HTTP/2
			}
			add(f, 200, b, hs, hop)
		}
	}
	for i, hs := range hdrs {
		add("cl", []int{200, 203, 404, 410, 301}[i%5], bodies[7+i%5], hs, hopCorpus[(i+1)%len(hopCorpus)])
	}
	_ = seed

	var lines, wire []string
	backends := []string{"mem", "fs", "fsenc"}
	for _, be := range backends {
		var conn driver.Conn
		switch be {
		case "mem":
			conn = memcache.Open()
		default:
			dir, _ := os.MkdirTemp("", "verif-bytes-")
			defer os.RemoveAll(dir)
			fo := []fscache.Option{fscache.WithBaseDir(dir)}
			if be == "fsenc" {
				fo = append(fo, fscache.WithEncryption(encKey))
			}
			var err error
			conn, err = fscache.Open("verif", fo...)
			if err != nil {
				t.Fatal(err)
			}
		}
		rec := &recorder{}
		capc := &capConn{Conn: conn}
		rc := &recConn{inner: capc, rec: rec}
		dsn := registerConn(rc)
		up1 := &recUpstream{inner: &http.Transport{DisableCompression: true}, last: map[string]*deliveredResp{}}
		up2 := &recUpstream{inner: h2.Client().Transport, last: map[string]*deliveredResp{}}
		h1rt := httpcache.NewTransport(dsn, httpcache.WithUpstream(up1))
		h2rt := httpcache.NewTransport(dsn, httpcache.WithUpstream(up2))
		for _, c := range cases {
			url := "http://" + addr + c.Name
			rt, up := h1rt, up1
			if strings.HasPrefix(c.Framing, "h2") {
				url = h2.URL + c.Name
				rt, up = h2rt, up2
			}
			var problems []string
			var statuses []string
			var lastDelivered *deliveredResp
			hasTag := false
			for _, h := range c.Hdrs {
				hasTag = hasTag || strings.EqualFold(h[0], "Etag")
			}
			rounds := 2
			if hasTag {
				// 2: a hit whose body is read only after the entry has been rewritten; 3: a forced validation answered 304
				// (the freshened entry is written back); 4: a hit on the freshened entry
				rounds = 5
			}
			var d0 *deliveredResp      // the full response as net/http delivered it to the cache
			var d304 *deliveredResp    // the 304 of the validation round
			var held *http.Response    // round 2: returned, body not read yet
			for round := 0; round < rounds; round++ {
				req, _ := http.NewRequest("GET", url, nil)
				if round == 3 {
					req.Header.Set("Cache-Control", "no-cache")
					req.Header.Set("X-Verif-Validate", "1")
				}
				resp, err := rt.RoundTrip(req)
				if err != nil {
					problems = append(problems, fmt.Sprintf("round %d: error %v", round, err))
					break
				}
				if round == 2 {
					held = resp
					statuses = append(statuses, resp.Header.Get("X-Httpcache-Status")+"(held)")
					continue
				}
				body, berr := io.ReadAll(resp.Body)
				resp.Body.Close()
				st := resp.Header.Get("X-Httpcache-Status")
				statuses = append(statuses, st)
				if berr != nil {
					problems = append(problems, fmt.Sprintf("round %d (%s): body read error %v", round, st, berr))
				}
				if resp.StatusCode != c.Status {
					problems = append(problems, fmt.Sprintf("round %d (%s): status %d, origin sent %d", round, st, resp.StatusCode, c.Status))
				}
				if !bytes.Equal(body, c.Body) {
					problems = append(problems, fmt.Sprintf("round %d (%s): body differs: %d bytes, origin sent %d (first difference at %d)", round, st, len(body), len(c.Body), firstDiff(body, c.Body)))
				}
				if round == 3 && held != nil {
					// the response returned in round 2 is the caller's: rewriting the entry must not reach its body
					hb, herr := io.ReadAll(held.Body)
					held.Body.Close()
					if herr != nil || !bytes.Equal(hb, c.Body) {
						problems = append(problems, fmt.Sprintf("round 2 (%s): body read after the entry was rewritten differs: %d bytes, origin sent %d (first difference at %d, error %v)",
							held.Header.Get("X-Httpcache-Status"), len(hb), len(c.Body), firstDiff(hb, c.Body), herr))
					}
				}
				// the reference: the response as the cache received it from net/http
				up.mu.Lock()
				dl := up.last[c.Name]
				up.mu.Unlock()
				if dl == nil {
					problems = append(problems, "no origin response recorded")
					break
				}
				if round == 0 {
					d0 = dl
				}
				if round == 3 {
					if dl.status != 304 {
						problems = append(problems, fmt.Sprintf("harness: the validation round got status %d from the origin", dl.status))
						break
					}
					d304 = dl
				}
				if d0 == nil {
					break
				}
				lastDelivered = d0
				if !bytes.Equal(d0.body.Bytes(), c.Body) || d0.status != c.Status {
					problems = append(problems, fmt.Sprintf("harness: net/http delivered %d bytes status %d, the origin wrote %d bytes status %d", d0.body.Len(), d0.status, len(c.Body), c.Status))
				}
				// the fields the response must carry: the origin's, those of a 304 taking the place of the stored ones
				// (except Content-Length and hop-by-hop fields)
				d := &deliveredResp{header: d0.header.Clone()}
				if d304 != nil {
					for k, vs := range d304.header {
						if k == "Content-Length" || isHopName(k, d304.header["Connection"]) {
							continue
						}
						d.header[k] = vs
					}
				}
				for k, vs := range d.header {
					if isHopName(k, d.header["Connection"]) {
						continue
					}
					if k == "Age" && st != "MISS" {
						continue // the cache's own field
					}
					if k == "Date" && d304 != nil {
						continue // a 304 without Date is dated by its receipt
					}
					if fmt.Sprint(resp.Header[k]) != fmt.Sprint(vs) {
						problems = append(problems, fmt.Sprintf("round %d (%s): field %s: %q, the origin response had %q", round, st, k, resp.Header[k], vs))
					}
				}
				for k := range resp.Header {
					if isHopName(k, d.header["Connection"]) && (round >= 1 || k != "Connection") {
						problems = append(problems, fmt.Sprintf("round %d (%s): hop-by-hop field %s in the returned response: %q", round, st, k, resp.Header[k]))
					}
					if _, ok := d.header[k]; !ok && !isHopName(k, d.header["Connection"]) {
						switch k {
						case "Age", "X-Httpcache-Status", "X-From-Cache", "Date":
						default:
							problems = append(problems, fmt.Sprintf("round %d (%s): field %s: %q is not in the origin response", round, st, k, resp.Header[k]))
						}
					}
				}
			}
			if rounds == 5 && len(problems) == 0 && strings.Join(statuses, ",") != "MISS,HIT,HIT(held),REVALIDATED,HIT" {
				problems = append(problems, "rounds went "+strings.Join(statuses, ","))
			}
			// what was stored must not carry hop-by-hop fields
			fg, bg := rec.drainAll()
			for _, ev := range append(fg, bg...) {
				if strings.HasPrefix(ev, " S ") {
					for _, h := range c.Hop {
						if lastDelivered != nil && !isHopName(h[0], lastDelivered.header["Connection"]) {
							continue
						}
						if strings.Contains(ev, hx(http.CanonicalHeaderKey(h[0]))+" ") && !strings.EqualFold(h[0], "Connection") {
							problems = append(problems, fmt.Sprintf("hop-by-hop field %s stored", h[0]))
						}
					}
				}
			}
			sort.Strings(problems)
			v := "ok"
			if len(problems) > 0 {
				v = "BAD"
			}
			sum := sha256.Sum256(c.Body)
			lines = append(lines, fmt.Sprintf("BYTES backend=%s case=%s framing=%s status=%d body_len=%d body_sha=%x fields=%d hop=%d rounds=%s problems=%q %s\n",
				be, c.Name, c.Framing, c.Status, len(c.Body), sum[:4], len(c.Hdrs), len(c.Hop), strings.Join(statuses, ","), strings.Join(problems, " ; "), v))
		}
		unregisterConn(dsn)
		if be == "mem" {
			for _, raw := range capc.sets {
				wire = append(wire, fmt.Sprintf("WIRE %s | %s\n", hx(string(raw)), goReading(raw)))
			}
		}
	}
	if err := writeLines(filepath.Join(out, "wire.txt"), wire); err != nil {
		t.Fatal(err)
	}
	if err := writeLines(filepath.Join(out, "bytes.txt"), lines); err != nil {
		t.Fatal(err)
	}
}

func firstDiff(a, b []byte) int {
	for i := 0; i < len(a) && i < len(b); i++ {
		if a[i] != b[i] {
			return i
		}
	}
	if len(a) < len(b) {
		return len(a)
	}
	return len(b)
}
