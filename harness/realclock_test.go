package harness

import (
	"fmt"
	"io"
	"net/http"
	"os"
	"path/filepath"
	"strconv"
	"strings"
	"sync"
	"testing"
	"time"

	"github.com/bartventer/httpcache"
	"github.com/bartventer/httpcache/store/memcache"
)

// ---------- C01 with the real clock ----------
//
// Inside a testing/synctest bubble no time passes between two clock readings of one RoundTrip; with the real clock a
// few nanoseconds do.  An age that already saturates must stay saturated when those nanoseconds are added: a response
// received with an Age of 2^63 ns and more is older than any lifetime plus any window, whatever the request allows
// short of "any staleness".

type rcOrigin struct {
	mu    sync.Mutex
	calls int
	age   string
	cc    string
}

func (o *rcOrigin) RoundTrip(req *http.Request) (*http.Response, error) {
	o.mu.Lock()
	o.calls++
	n := o.calls
	o.mu.Unlock()
	body := fmt.Sprintf("b%d", n)
	h := http.Header{"Cache-Control": {o.cc}, "Etag": {fmt.Sprintf(`"v%d"`, n)}, "Date": {time.Now().UTC().Format(http.TimeFormat)}}
	if n == 1 {
		h.Set("Age", o.age)
	}
	return &http.Response{Status: "200 OK", StatusCode: 200, Proto: "HTTP/1.1", ProtoMajor: 1, ProtoMinor: 1, Header: h,
		Body: io.NopCloser(strings.NewReader(body)), ContentLength: int64(len(body)), Request: req}, nil
}

func TestRealClock(t *testing.T) {
	out := os.Getenv("VERIF_OUT")
	if out == "" {
		t.Skip("VERIF_OUT not set")
	}
	var lines []string
	for _, age := range []string{"9223372037", "9223372036", "9223372036854775807", "99999999999999999999"} {
		for _, cc := range []string{"max-age=0, stale-while-revalidate=30", "max-age=1, stale-while-revalidate=60", "max-age=60, stale-while-revalidate=3600", "max-age=86400, stale-while-revalidate=5", "max-age=0"} {
			for _, rcc := range []string{"", "max-stale=30", "min-fresh=5", "max-stale=9223372036", "max-stale", "only-if-cached"} {
				dsn := registerConn(memcache.Open())
				org := &rcOrigin{age: age, cc: cc}
				rt := httpcache.NewTransport(dsn, httpcache.WithUpstream(org))
				ageField := ""
				get := func(h string) (string, string) {
					req, _ := http.NewRequest("GET", "http://a.test/x", nil)
					if h != "" {
						req.Header.Set("Cache-Control", h)
					}
					resp, err := rt.RoundTrip(req)
					if err != nil {
						return "ERR", ""
					}
					b, _ := io.ReadAll(resp.Body)
					resp.Body.Close()
					ageField = strings.Join(resp.Header.Values("Age"), "|")
					return resp.Header.Get("X-Httpcache-Status"), string(b)
				}
				s1, _ := get("")
				time.Sleep(2 * time.Millisecond)
				s2, b2 := get(rcc)
				time.Sleep(20 * time.Millisecond) // background work, if any
				org.mu.Lock()
				calls := org.calls
				org.mu.Unlock()
				unregisterConn(dsn)
				// the stored response's age is saturated: it is beyond every finite lifetime and window; only a request that
				// accepts a staleness of 2^63 ns and more (max-stale=9223372036 saturates too) may get it from the store
				verdict := "ok"
				fromStore := s2 == "HIT" || s2 == "STALE"
				anyStaleness := rcc == "max-stale=9223372036" || rcc == "max-stale" || rcc == "only-if-cached"
				if fromStore && b2 == "b1" && !anyStaleness {
					verdict = "BAD"
				}
				// ... and when it is served, its Age field says so (C11): the age is at least the one it was received with,
				// which is beyond 2^31 s; the nanoseconds that passed since must not wrap it around
				if fromStore && b2 == "b1" && verdict == "ok" {
					if n, err := strconv.ParseInt(ageField, 10, 64); err != nil || n < 1<<31 {
						verdict = "BADAGE"
					}
				}
				lines = append(lines, fmt.Sprintf("REALCLOCK age=%s cc=%q req=%q | first=%s second=%s body=%s age_field=%q origin_calls=%d %s\n", age, cc, rcc, s1, s2, b2, ageField, calls, verdict))
			}
		}
	}
	if err := writeLines(filepath.Join(out, "realclock.txt"), lines); err != nil {
		t.Fatal(err)
	}
}
