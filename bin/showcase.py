#!/usr/bin/env python3
"""Pretty-print one case: requests, script, observation lines, monitor lines."""
import sys
def unhex(t):
    if t.startswith('x'):
        try: return repr(bytes.fromhex(t[1:]).decode('latin1'))[1:-1] or "''"
        except Exception: return t
    return t
def pretty(l): return ' '.join(unhex(t) for t in l.rstrip('\n').split(' '))
cases, obs, cid = sys.argv[1], sys.argv[2], sys.argv[3]
mon = sys.argv[4] if len(sys.argv) > 4 else None
on=False
for l in open(cases):
    if l.startswith('CASE '): on = (l.split(' ')[1]==cid)
    if on: print(pretty(l))
for l in open(obs):
    if l.split(' ')[1]==cid: print(pretty(l))
if mon:
    for l in open(mon):
        if l.split(' ')[1]==cid: print(l.rstrip())
