#!/bin/sh
# usage (inside `vp run --with-repo -- sh bin/sweep_seeds.sh <suffixes...>`): runs every stored seeded change of the given
# rounds ("" b c d) against a private copy of the repository ($VP_RUN_REPO) with this snapshot of /verif, never touching /repo.
set -u
R=${VP_RUN_REPO:?needs vp run --with-repo}
sed -i "s#=> /repo#=> $R#" harness/go.mod
export VERIF_REPO=$R
for suf in "$@"; do
  [ "$suf" = "a" ] && suf=""
  for n in 01 02 03 04 05 06 07 08 09 10 11 12 13 14 15 16 17 18 19 20; do
    id=C$n; d=/verif/seeded/$id$suf
    [ -f $d/patch.diff ] || continue
    git -C $R apply $d/patch.diff || { echo "<$id$suf> patch does not apply"; continue; }
    python3 bin/check $id 2>&1 | grep -E "VIOLATION|KNOWN|quick:|ERROR" | sed "s/^/<$id$suf> /"
    git -C $R checkout -- .
  done
done
echo finished
