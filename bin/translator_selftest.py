#!/usr/bin/env python3
"""translator_selftest.py — does the translator look at the source?  Each mutation below is applied to a scratch copy of
/repo's sources (outside /repo and /verif, removed afterwards); the translator runs on the copy; the generated file named
must differ from the one generated from the unchanged tree (or the group must fail to translate).  Exit 0 when every mutation
is noticed."""
import os, shutil, subprocess, sys, tempfile
sys.path.insert(0, os.path.dirname(__file__))
import vlib
MUT = [
    ('internal/cacheinvalidator.go', '\tr.invalidateLocationHeaders(reqURL, respHeader, del)\n\tdel(key)', '\tdel(key)\n\tr.invalidateLocationHeaders(reqURL, respHeader, del)', 'SrcInval.v'),
    ('internal/cacheinvalidator.go', 'if sameOrigin(reqURL, locURL) {', 'if true || sameOrigin(reqURL, locURL) {', 'SrcInval.v'),
    ('internal/helpers.go', 'strings.EqualFold(a.Hostname(), b.Hostname())', 'a.Hostname() == b.Hostname()', 'SrcOrigin.v'),
    ('internal/helpers.go', 'omitted["Content-Length"] = struct{}{}', 'omitted["Content-Type"] = struct{}{}', 'SrcHeaderSets.v'),
    ('internal/helpers.go', '"Keep-Alive":        {},', '', 'SrcHeaderSets.v'),
    ('internal/helpers.go', 'saturatingAdd(age.Value, max(clock.Since(age.Timestamp), 0))', 'age.Value + max(clock.Since(age.Timestamp), 0)', 'SrcHeaderProgs.v'),
    ('internal/header.go', 'header.Del(FromCacheHeader)', 'header.Set(FromCacheHeader, "0")', 'SrcHeaderProgs.v'),
    ('internal/clock.go', '!valid || date.IsZero()', '!valid', 'SrcHeaderProgs.v'),
    ('helpers.go', 'req2.Header.Set("If-Modified-Since", lastModified)', 'req2.Header.Set("If-Unmodified-Since", lastModified)', 'SrcHeaderProgs.v'),
    ('internal/cacheabilityevaluator.go', 'if age < saturatingAdd(freshness.UsefulLife, dur) {', 'if age <= saturatingAdd(freshness.UsefulLife, dur) {', 'SrcStaleIfError.v'),
    ('roundtripper.go', '\tend = r.clock.Now()\n\tif resp != nil {', '\tif resp != nil {\n\t\tend = r.clock.Now()', 'SrcTimed.v'),
    ('internal/freshness.go', 'if a > maxDuration-b {', 'if a >= maxDuration-b {', 'SrcHelpers.v'),
    ('internal/cacheabilityevaluator.go', 'http.StatusNotImplemented', 'http.StatusBadGateway', 'SrcStatus.v'),
    ('internal/responsestorerer.go', '\t_ = r.cache.Set(responseID, respEntry)\n', '', 'SrcEffects.v'),
    ('roundtripper.go', 'resp.StatusCode != http.StatusNotModified && r.ce.CanStoreResponse(resp, ccReq, ccResp)', 'r.ce.CanStoreResponse(resp, ccReq, ccResp)', 'SrcEffects.v'),
    ('roundtripper.go', 'if !freshness.IsStale || ccReq.OnlyIfCached() {', 'if !freshness.IsStale {', 'SrcEffects.v'),
    ('internal/varymatcher.go', '!entry.ReceivedAt.Before(entries[best].ReceivedAt)', 'entry.ReceivedAt.After(entries[best].ReceivedAt)', 'SrcVary.v'),
    ('internal/varymatcher.go', 'case aIsStar && !bIsStar:\n\t\t\treturn 1', 'case aIsStar && !bIsStar:\n\t\t\treturn -1', 'SrcVary.v'),
    ('internal/varymatcher.go', 'return a.ReceivedAt.Compare(b.ReceivedAt)', 'return b.ReceivedAt.Compare(a.ReceivedAt)', 'SrcVary.v'),
    ('internal/varymatcher.go', '\tslices.SortFunc(entries, func', '\tentries = slices.Clone(entries)\n\tslices.SortFunc(entries, func', 'SrcVary.v'),
]
def main():
    binp = os.path.join(vlib.BUILD, 'translate-bin')
    ok, log = vlib.translate_source()
    if not ok:
        print('the translator does not run on the unchanged tree:', log); return 1
    base = tempfile.mkdtemp(prefix='trself-')
    try:
        ref = os.path.join(base, 'ref'); os.makedirs(ref)
        subprocess.run([binp, vlib.REPO, ref], env=vlib.go_env(), capture_output=True)
        bad = 0
        for i, (f, old, new, gen) in enumerate(MUT):
            src = os.path.join(base, 'src%d' % i)
            shutil.copytree(vlib.REPO, src, ignore=shutil.ignore_patterns('.git'))
            p = os.path.join(src, f); s = open(p).read()
            if old not in s:
                print('mutation %d: the text to change is not in %s (the source has moved on: adapt this self-test)' % (i, f)); bad += 1; continue
            open(p, 'w').write(s.replace(old, new, 1))
            out = os.path.join(base, 'out%d' % i); os.makedirs(out)
            r = subprocess.run([binp, src, out], env=vlib.go_env(), capture_output=True, text=True)
            a, b = open(os.path.join(ref, gen)).read(), open(os.path.join(out, gen)).read()
            noticed = a != b
            print('mutation %2d %-38s %-20s %s' % (i, f, gen, 'noticed' + (' (group fails to translate)' if 'translation_failed' in b else '') if noticed else 'NOT NOTICED'))
            bad += 0 if noticed else 1
            shutil.rmtree(src); shutil.rmtree(out)
        print('%d of %d mutations noticed' % (len(MUT) - bad, len(MUT)))
        return 1 if bad else 0
    finally:
        shutil.rmtree(base, ignore_errors=True)
if __name__ == '__main__':
    sys.exit(main())
