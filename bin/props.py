"""Per-property configuration of bin/check."""
import vlib

TRUSTED_BASE = [
    'Coq 8.16.1 kernel (coqc; full .vo build, no -vos); vm_compute is used in finite sweeps and witnesses; native_compute is not used',
    'axioms: none declared by the development; Print Assumptions of every property theorem is re-run in each check (see last entry)',
    'extraction: Require ExtrOcamlBasic only (Extract Inductive bool/option/unit/list/prod/sumbool/sumor, Extract Inlined Constant fst/snd/andb/orb... as that file lists them); Z/positive/N stay Coq data types; OCaml 4.13.1 ocamlfind ocamlopt',
    'the extracted model is cross-checked against the kernel on every e2e run: a sample of the cases is evaluated by vm_compute inside coqc (cases.v) and compared with the OCaml model (coverage.kernel_crosscheck)',
    'the translator translate/*.go (main.go, effects.go, inval.go, maps.go, hdrprog.go, vary.go) with its symbol and operation tables (DESIGN.md section 9: which model term a Go accessor or callee denotes; the iteration order of a Go map does not matter in the two folds of helpers.go; url.Parse is parse_url with its error branch not represented): the generated definitions are proved equal to the hand-written model (Cxx_source_* theorems)',
    'hand-written glue: model/driver.ml (token parser/printer), bin/vlib.py (projection, comparison, known-finding filter), harness/*.go (generators, scripted origin, recording Conn, testing/synctest virtual clock)',
    'modelled, not verified: net/url.Parse/ResolveReference/EscapedPath (re-implemented for the generated grammar), http.ParseTime (IMF-fixdate, RFC 850 and asctime in their strict spellings with zone GMT), http.CanonicalHeaderKey, strconv.ParseInt/Atoi, Duration.Seconds float rounding, encoding/json of the index (identity on ASCII), httputil.DumpResponse/http.ReadResponse (typed store in the transport model; byte level in Wire.v), slog (no effect), Go scheduler/memory model, kernel file system, AES-GCM',
]

E2E_RULE = ('histories of 3-8 timed requests against a scripted origin, generated from one PCG stream (VERIF_SEED); '
            'a case is non-trivial when the property monitor returned a verdict other than "not applicable" on at least one '
            'exchange; distinct = distinct case text')

PROPS = {
    'C01': dict(
        engines=['e2e'],
        e2e=[dict(profile='fresh', n_quick=1500, n_thorough=20000),
             dict(profile='mix', n_quick=500, n_thorough=5000)],
        monitors=['C01'], projection=['outcome', 'ncalls', 'cache_status', 'age'],
        rule=E2E_RULE,
        assumptions=['virtual time of testing/synctest equals the clock the transport reads',
                     'the scripted origin is the only source of responses'],
    ),
    'C02': dict(
        engines=['e2e'],
        e2e=[dict(profile='validate', n_quick=1500, n_thorough=20000),
             dict(profile='mix', n_quick=500, n_thorough=5000)],
        monitors=['C02'], projection=['outcome', 'calls', 'cache_status'],
        rule=E2E_RULE, assumptions=[],
    ),
    'C18': dict(
        engines=['e2e'],
        e2e=[dict(profile='oic', n_quick=1500, n_thorough=20000)],
        monitors=['C18'], projection=['outcome', 'ncalls', 'cache_status'],
        rule=E2E_RULE, assumptions=[],
    ),
}

ENGINES = {'e2e': vlib.e2e_engine, 'store': vlib.store_engine, 'atomic': vlib.atomic_engine, 'encrypt': vlib.encrypt_engine, 'swr': vlib.swr_engine, 'conc': vlib.conc_engine, 'bytes': vlib.bytes_engine, 'lateinval': vlib.lateinval_engine, 'overlap': vlib.overlap_engine, 'realclock': vlib.realclock_engine, 'scenario': vlib.scenario_engine}


def _e2e(profiles, monitors, projection, nq=1500, nt=20000, extra=None):
    d = dict(engines=['e2e'] + (extra or []),
             e2e=[dict(profile=p, n_quick=(nq if i == 0 else max(300, nq // 3)),
                       n_thorough=(nt if i == 0 else nt // 4)) for i, p in enumerate(profiles)],
             monitors=monitors, projection=projection, rule=E2E_RULE, assumptions=[])
    return d


PROPS.update({
    'C03': _e2e(['urls', 'hit', 'inval'], ['C03'], ['outcome', 'ncalls', 'store']),
    'C04': _e2e(['vary', 'mix'], ['C04'], ['outcome', 'ncalls', 'store']),
    'C05': _e2e(['store', 'mix'], ['C05'], ['outcome', 'headers', 'writes']),
    'C06': _e2e(['store', 'mix'], ['C06'], ['outcome', 'writes']),
    'C07': _e2e(['inval'], ['C07'], ['outcome', 'ncalls', 'store']),
    'C08': _e2e(['freshen', 'mix'], ['C08', 'C04'], ['outcome', 'calls', 'store_full']),   # mon_C04: what a later request gets from the store is its own variant's (freshened or replaced) response
    'C09': _e2e(['hit', 'mix'], ['C09'], ['outcome', 'ncalls', 'cache_status']),
    'C11': _e2e(['age', 'mix'], ['C11'], ['outcome', 'cache_status', 'age', 'ncalls']),
    'C12': _e2e(['spell'], ['C01', 'C02', 'C06', 'C09', 'C13', 'C18'], ['outcome', 'calls', 'cache_status', 'age', 'store']),
    'C13': _e2e(['sie', 'mix'], ['C13'], ['outcome', 'calls', 'cache_status', 'age']),
    'C19': dict(engines=['e2e'], e2e=[dict(profile='repeat', n_quick=200, n_thorough=3000), dict(profile='vary', n_quick=800, n_thorough=8000)],
                monitors=['C19'], projection=['store'], rule=E2E_RULE, assumptions=[]),
})

PROPS['C07']['engines'] = ['e2e', 'lateinval']
PROPS['C07']['rule'] = (E2E_RULE + '; plus the experiment TestLateInvalidation (virtual time): GET, GET in the stale-while-revalidate window with the answer to the background validation '
                        'held at the origin, an unsafe request (method x status x same/respelled URI or Location / Content-Location of a sibling x representation changed or not), '
                        'the answer released, GET: what was stored before the unsafe request must not be served from the store')
PROPS['C10'] = _e2e(['store', 'mix'], ['C10'], ['outcome', 'ncalls'])
PROPS['C10']['e2e'][0]['faults'] = True
PROPS['C10']['e2e'][1]['faults'] = True
PROPS['C10']['e2e'].append(dict(profile='conc', n_quick=500, n_thorough=5000, faults=True))
PROPS['C10']['e2e'].append(dict(profile='urls', n_quick=300, n_thorough=3000))   # unusual but legal URLs (the key function must not fail on any)   # stale-while-revalidate with failing origins: background faults
PROPS['C10']['rule'] = E2E_RULE + '; every generated history is run twice more with 1-4 store operations failing (error; for Get also undecodable bytes, the JSON text [null], the first half of the stored bytes) at seeded positions: monitor mon_C10 only (no panic, a definite outcome, an error only when an origin call of the exchange failed)'

for _b in ('fs', 'fsenc', 'fsreopen'):
    PROPS['C09']['e2e'].append(dict(profile='hit', backend=_b, n_quick=120, n_thorough=3000))
    PROPS['C05']['e2e'].append(dict(profile='store', backend=_b, n_quick=80, n_thorough=2000))

PROPS['C14'] = dict(engines=['store'], store=dict(n_quick=120, n_thorough=2500, nops=30, maxval_quick=4096, maxval_thorough=65536),
                    rule=('sequences of 30 Set/Get/Delete/Keys/Reopen operations (a quarter through the maintenance HTTP API) over an adversarial key pool '
                          '(lengths around 36, 191/192, 216 bytes; shared prefixes; all byte values; URL-shaped keys with #; the empty key) on memcache, fscache and '
                          'encrypted fscache; every case is non-trivial; distinct = distinct operation text'),
                    assumptions=['the kernel file system behaves as the tree model (openat/rename/unlink/mkdir semantics)'])

PROPS['C15'] = dict(engines=['atomic'],
                    rule=('experiments on the real fscache: CUT = a child process performs one Set under RLIMIT_FSIZE=k for every (quick: a spread of) k in 0..len, '
                          'with/without a previous value, with/without encryption, then the parent reads; KILL = a process looping over Sets is SIGKILLed at a random moment; '
                          'STORM = 6 goroutines x 40 Set/Get/Delete on one key checked for linearizability with porcupine; every experiment is non-trivial; distinct = distinct parameters'),
                    assumptions=['each system call is atomic; rename is atomic; an open file keeps its inode (kernel semantics assumed, not verified)'])

PROPS['C17'] = dict(engines=['encrypt'],
                    rule=('experiments on the real fscache with encryption: CONFIG = each documented way of enabling it (option, DSN on/aesgcm, environment key, AES-128/192/256, '
                          'malformed and missing keys): the files are re-derived with an independent AES-GCM computation and scanned for plaintext fragments; WIRE = a grid of '
                          'DSN encrypt / encrypt_key / FSCACHE_ENCRYPT_KEY values (and option keys) classified as err / plain / key and compared with Crypto.from_url; TAMPER = every '
                          'single-byte change (3 masks), every truncation, extensions, wrong key, reader without key; TRANSPORT = a tampered entry through the RoundTripper; '
                          'every experiment is non-trivial; distinct = distinct result line'),
                    assumptions=['AES-GCM (crypto/aes, crypto/cipher) is an authenticated cipher: open(seal) = id, only seal outputs open, wrong keys fail; ciphertext reveals no plaintext (cryptographic assumptions, stated as hypotheses of the theorems)',
                                 'crypto/rand delivers nonces that do not repeat'])

PROPS['C12']['e2e'][0]['twins'] = True
PROPS['C12']['rule'] = E2E_RULE + '; every history whose Cache-Control fields were respelled is run a second time with the canonical spelling of the same directive lists and the two runs of the implementation are compared exchange by exchange (outcome, cache status, Age, origin calls, store operations)'

PROPS['C20'] = dict(engines=['e2e', 'swr'],
                    e2e=[dict(profile='freshen', n_quick=500, n_thorough=6000)],
                    monitors=['C20'], projection=['outcome', 'calls', 'cache_status', 'times'],
                    rule=(E2E_RULE + '; plus experiments in virtual time (testing/synctest): a grid of SWR timeout settings (unset, 0, negative, 1 ns, 2 s, 10 s) x origin latencies '
                          '(0, 1 ms, T-1us, T+1us, 3T, never) x caller contexts (not cancelled, cancelled before the call, at once after the return, at T/2, at 2T) x background outcomes '
                          '(304, 200, 500, transport error) x stored validators, plus random points; observed: foreground latency, status and body, number of background requests, their '
                          'conditional fields, the deadline of their context, when they ended, goroutines of the library left in the bubble; every experiment is non-trivial'),
                    assumptions=['the upstream RoundTripper returns once the request context is done (net/http.Transport does); testing/synctest virtual time equals the clock the transport reads'])

PROPS['C16'] = dict(engines=['conc'], conc=dict(n_quick=400, n_thorough=8000, race_iters_quick=400, race_iters_thorough=6000),
                    rule=('(a) generated histories cut into phases of 1-4 concurrent RoundTrip calls (same and different URIs and variants, GET and unsafe methods, stale-while-revalidate '
                          'background work) run on the real transport inside a testing/synctest bubble where every store and origin operation of every goroutine waits for a seeded scheduler: '
                          'one operation at a time, all interleavings at that granularity reachable, the schedule recorded and replayed on the extracted concurrent model; results and the '
                          'labelled operation trace are compared; every returned response and request is kept and compared with its snapshot after each later phase; a case is non-trivial when '
                          'a phase has at least two concurrent calls; (b) 8 free-running goroutines x N requests on memcache and fscache against a functional origin under the Go race '
                          'detector, each response checked for resource, variant, body/ETag/generation consistency and for not being touched after return'),
                    assumptions=['the Go race detector reports the races of the executions it observes (not all possible ones)',
                                 'store operations are atomic (memcache mutex; fscache: C15)'])

PROPS['C05']['engines'] = ['e2e', 'bytes']
PROPS['C05']['rule'] = (E2E_RULE + '; plus real HTTP messages over the loopback interface: a raw TCP origin writing Content-Length, chunked (with and without trailer), close-delimited and HTTP/1.0 '
                        'framings byte by byte, and an HTTP/2 (TLS) origin with and without declared length; bodies: empty, CR/LF runs, NUL, text that looks like a status line, a chunk, a '
                        'stored-entry metadata line, random bytes of 17..65536 (thorough: 1 MiB); header corpora with repeated, empty, long, non-ASCII, oddly cased fields; hop-by-hop corpora incl. '
                        'fields named by Connection; on memcache, fscache and encrypted fscache; each case: GET (MISS) then GET (HIT), both compared with the response as net/http delivered it to the cache; '
                        'every stored entry is parsed by the extracted reader and by Go')
PROPS['C05']['assumptions'] = ['net/http (http.Transport, ReadResponse, DumpResponse) delivers and frames messages as it documents; the reference for a replay is the response as net/http handed it to the cache']

for _p in ('C08', 'C19', 'C20'):
    PROPS[_p]['engines'] = PROPS[_p]['engines'] + ['overlap']
    PROPS[_p]['rule'] += ('; plus the experiment TestOverlap (virtual time): requests of the same client while a stale-while-revalidate background validation is in flight '
                          '(its answer decided by the origin, held, released afterwards): a forced validation that replaces the entry, another variant stored and a later invalidation, '
                          'another variant served stale')

# only-if-cached while the store fails (index or entry reads returning errors or undecodable bytes): monitor only
PROPS['C18']['e2e'][0]['faults'] = True
PROPS['C18']['rule'] = E2E_RULE + '; every generated history is run again with store operations failing (plans as for C10): mon_C18 on what the implementation did'
# C03: the method / Range gate needs Range requests in the histories that hit; C19: invalidation through Location / Content-Location
PROPS['C19']['e2e'].append(dict(profile='inval', n_quick=500, n_thorough=5000))

PROPS['C01']['engines'] = ['e2e', 'realclock']
PROPS['C11']['engines'] = PROPS['C11'].get('engines', ['e2e']) + ['realclock']
PROPS['C02']['engines'] = PROPS['C02'].get('engines', ['e2e']) + ['overlap']
for _p in ('C03', 'C07', 'C09', 'C10', 'C13', 'C14', 'C15', 'C16', 'C17', 'C19'):
    PROPS[_p]['engines'] = PROPS[_p].get('engines', ['e2e']) + ['scenario']
PROPS['C01']['rule'] += ('; plus TestRealClock: responses received with a saturating Age (2^63 ns and more) and a stale-while-revalidate / max-age / request max-stale / min-fresh '
                         'combination, requested again with the real clock (between two clock readings of one RoundTrip a few nanoseconds pass, which inside the virtual-time bubble they do not)')
