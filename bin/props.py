"""Per-property configuration of bin/check."""
import vlib

TRUSTED_BASE = [
    'Coq 8.16.1 kernel (coqc; full .vo build, no -vos); vm_compute is used in finite sweeps and witnesses; native_compute is not used',
    'axioms: none declared by the development; Print Assumptions of every property theorem is re-run in each check (see last entry)',
    'extraction: Require ExtrOcamlBasic only (Extract Inductive bool/option/unit/list/prod/sumbool/sumor, Extract Inlined Constant fst/snd/andb/orb... as that file lists them); Z/positive/N stay Coq data types; OCaml 4.13.1 ocamlfind ocamlopt',
    'hand-written glue: model/driver.ml (token parser/printer), bin/vlib.py (projection, comparison, known-finding filter), harness/*.go (generators, scripted origin, recording Conn, testing/synctest virtual clock)',
    'modelled, not verified: net/url.Parse/ResolveReference/EscapedPath (re-implemented for the generated grammar), http.ParseTime (IMF-fixdate only), http.CanonicalHeaderKey, strconv.ParseInt/Atoi, Duration.Seconds float rounding, encoding/json of the index (identity on ASCII), httputil.DumpResponse/http.ReadResponse (typed store in the transport model; byte level in Wire.v), slog (no effect), Go scheduler/memory model, kernel file system, AES-GCM',
]

E2E_RULE = ('histories of 3-8 timed requests against a scripted origin, generated from one PCG stream (VERIF_SEED); '
            'a case is non-trivial when the property monitor returned a verdict other than "not applicable" on at least one '
            'exchange; distinct = distinct case text')

PROPS = {
    'C01': dict(
        engines=['e2e'],
        e2e=[dict(profile='fresh', n_quick=1500, n_thorough=20000),
             dict(profile='mix', n_quick=500, n_thorough=5000)],
        monitors=['C01'], projection=['outcome', 'ncalls', 'cache_status', 'age'],
        rule=E2E_RULE,
        assumptions=['virtual time of testing/synctest equals the clock the transport reads',
                     'the scripted origin is the only source of responses'],
    ),
    'C02': dict(
        engines=['e2e'],
        e2e=[dict(profile='validate', n_quick=1500, n_thorough=20000),
             dict(profile='mix', n_quick=500, n_thorough=5000)],
        monitors=['C02'], projection=['outcome', 'calls', 'cache_status'],
        rule=E2E_RULE, assumptions=[],
    ),
    'C18': dict(
        engines=['e2e'],
        e2e=[dict(profile='oic', n_quick=1500, n_thorough=20000)],
        monitors=['C18'], projection=['outcome', 'ncalls', 'cache_status'],
        rule=E2E_RULE, assumptions=[],
    ),
}

ENGINES = {'e2e': vlib.e2e_engine}
