import sys
def unhex(t):
    try: return bytes.fromhex(t[1:]).decode('latin1') if t.startswith('x') else t
    except Exception: return t
def pretty(l): return ' '.join(unhex(t) for t in l.split(' '))
impl=open('/tmp/vout/impl.txt').read().splitlines()
model=open('/tmp/vout/model.txt').read().splitlines()
def key(l):
    t=l.split(' '); return (t[1],t[2])
mi={key(l):l for l in impl}; mm={key(l):l for l in model}
unm=set(k[0] for k,l in mm.items() if l.split(' ')[5]=='U')
print('cases unmodelled',len(unm))
bad=0; seen=set()
maxshow=int(sys.argv[1]) if len(sys.argv)>1 else 3
for k in mi:
    if k[0] in unm or k[0] in seen: continue
    if k not in mm or mi[k]!=mm[k]:
        seen.add(k[0]); bad+=1
        if bad<=maxshow:
            print('DIFF',k); a=pretty(mi[k]).split(' '); b=pretty(mm.get(k,'-')).split(' ')
            i=0
            while i<min(len(a),len(b)) and a[i]==b[i]: i+=1
            print(' common prefix tokens',i); print(' impl :',' '.join(a[max(0,i-12):i+25])); print(' model:',' '.join(b[max(0,i-12):i+25]))
print('total diff cases',bad,'of',len(set(k[0] for k in mi)))
