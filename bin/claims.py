"""What MANIFEST.json claims per property (text, trusted-base note)."""
COMMON_NOTE = ('Trusted: Coq 8.16.1 kernel (vm_compute used, native_compute not), no axioms (Print Assumptions re-run every check), '
               'ExtrOcamlBasic extraction + OCaml driver, the hand-written model of the Go code (tied to /repo on every run by running '
               'model and implementation on the same generated histories and comparing projected observables), the Go harness '
               '(scripted origin, recording Conn, testing/synctest virtual clock). net/http, net/url, encoding/json, strconv are modelled, not verified.')
CLAIMS = {
    'C18': dict(
        text=('Theorem C18_no_origin: for every request carrying only-if-cached — a plain GET or a request the cache never answers from its store (another method, a Range request; fix F35) — the effect tree of RoundTrip has no origin call '
              'on any path, for every store answer and clock reading (structural, unbounded); C18_answer: every leaf is a response; C18_history: along EVERY sequential history such an exchange logs no origin call in the foreground or in background work and returns the 504 or the served form of a stored entry with a known source (Src) that does not need validation by the specification. '
              'Each run re-checks the proofs, runs generated histories on the real transport and on the extracted model, and '
              'evaluates the extracted monitor mon_C18 (no origin call in foreground or background; answer is a usable stored '
              'response or the synthesised 504) on what the implementation did.'),
        note=COMMON_NOTE),
}
CLAIMS.update({
    'C01': dict(
        text=('Theorems C01_local (for every request, stored entry and clock reading: the hit decision answers from the store '
              'without an origin call only if spec age < spec lifetime (request max-age/min-fresh applied) or an explicit '
              'allowance — max-stale, only-if-cached, the stored stale-while-revalidate window — covers the staleness; saturating '
              'arithmetic), C01_age_conservative, C01_lifetime_conservative, C01_only_by_decision, and at history level C01_history_times '
              '(after EVERY sequential history from an empty store each stored entry carries as request/response instants the start/end of one '
              'origin call of that history: the instants ages are measured from cannot be anything else) and C01_history (along EVERY sequential history from an empty store, '
              'an exchange that answers without contacting the origin returns the synthesised 504 or the served form of an entry that (a) is exactly what StoreResponse files for the reply of one origin call of '
              'the history — status, body, header block after Date repair and hop-by-hop removal, instants of that very call — or such an entry freshened by the 304s of other calls of the history '
              '(inductive evidence Src; C01_history_sources, C01_history_store) and (b) is fresh by the specification or explicitly allowed to be stale at the instant the exchange started). '
              'Unbounded in header values, instants, history length. The extracted monitor mon_C01 evaluates the same statement on the real transport each run.'),
        note=COMMON_NOTE + ' C01_local assumes of the stored entry what every entry written by the transport satisfies (parsable Date, status not 304).'),
    'C02': dict(
        text=('Theorems C02_local (answering from the store implies the specification\'s needs_validation is false: unqualified no-cache, '
              'stale+must-revalidate, request no-cache, exceeded request max-age are never overridden), C02_no_stale_fallback, C02_qualified_not_replayed (the three ways a stored response leaves the cache without a successful validation — serveFromCache, the stale-while-revalidate path, the stale-if-error path — carry none of the fields a stored no-cache="..." names, other than the cache\'s own Age and status fields), '
              'C02_mandatory_validation_outcome (mandatory validation that fails returns the origin\'s answer or error, never the stored response), '
              'C02_validation_request (every origin call carries the client\'s method, URL and header fields plus only If-None-Match / '
              'If-Modified-Since from the stored validators; request values are immutable in the model), and at history level C02_history_unvalidated (along EVERY sequential history from an empty store a response returned without contacting the origin is the synthesised 504 or the served form of an entry whose fields and instants are those of origin calls of the history (Src) and which does not need validation by the specification at that instant) and C02_history_validated (a response returned marked REVALIDATED carries the status and body of such an entry, and the origin was contacted in that exchange with exactly the client\'s request plus If-None-Match / If-Modified-Since from that entry\'s validators and answered 304: the call is in the log). Monitor mon_C02 (with age_inputs: what a 304 leaves in the store) on the real transport each run; the runner snapshots the caller\'s request around every RoundTrip and reuses it afterwards.'),
        note=COMMON_NOTE + ' That Go\'s cloneRequest copies the header map (client request left unmodified) is observed by the harness, not proved.'),
    'C10': dict(
        text=('Theorems C10_no_panic / C10_no_panic_background (no panic node on any path of the round-trip and background programs, for every '
              'store answer incl. errors, undecodable values and indexes with null elements, every origin answer and clock reading), '
              'C10_err_only_origin (an error is returned only on a path where an origin call failed; never neither-response-nor-error), '
              'C10_store_faults (unreadable index => exactly one origin call with the client request, its reply is returned). '
              'Partial: panics/hangs inside net/http, encoding/json, slog and goroutine scheduling are not expressible in the model; '
              'they are exercised by the run: recover() around RoundTrip, body-stream failures, a crash of the process attributed to the case being run, and every generated history '
              'run twice more with 1-4 store operations failing at seeded positions (error; for Get also undecodable bytes, the text [null], a truncated value), monitor mon_C10.'),
        note=COMMON_NOTE),
    'C13': dict(
        text=('Theorems C13_only_eligible_failures, C13_shape, C13_within_window (CanStaleOnError over the stored response\'s and the request\'s '
              'stale-if-error implies the specification window  age(now\') < lifetime + N  in saturating arithmetic, for all values), '
              'C13_not_when_validation_demanded, and at history level C13_history (along EVERY sequential history a response returned marked STALE by an exchange that contacted the origin is the stale-if-error answer for a stored entry with a known source (Src): the decision at the start of the exchange was to validate without validation being demanded, the conditional request built from its validators was sent in that exchange and failed or was answered 500/502/503/504, and CanStaleOnError held for the stored response\'s or the request\'s stale-if-error). Monitor mon_C13 (both directions, boundary instants; with age_inputs) on the real transport each run.'),
        note=COMMON_NOTE),
})
CLAIMS.update({
    'C06': dict(
        text=('Theorems C06_storability_sound (every reply the property forbids to store is refused by the storability test), C06_miss / '
              'C06_miss_is_the_code, C06_validation, C06_other_methods: for every request and every must-not-store origin reply '
              '(no-store either side; not a plain GET; status 1xx/206/304; must-understand with a status not understood; no explicit '
              'freshness and not heuristically cacheable; broken body) the program after the reply contains no entry write on any path. '
              'C06_history_stored: along every sequential history every entry of the store has the status and body of a full response to a plain GET that the '
              'property allows to store (inductive evidence Stor: stored after passing the storability test, then freshened only by 304s without no-store); '
              'the same invariant under every interleaving (C16_store_invariant). '
              'Monitor mon_C06 checks every Set the real store receives (recording driver.Conn, statuses 100-599, body streams that fail) each run.'),
        note=COMMON_NOTE),
    'C11': dict(
        text=('Theorems C11_status_exactly_one, C11_legacy (X-From-Cache "1" exactly for HIT/STALE/REVALIDATED, removed otherwise), '
              'C11_served_fields / C11_swr_fields (one Age value = int(Seconds(age at this exchange)), replacing the origin\'s; HIT or STALE), '
              'C11_hit_is_fresh (HIT only while spec age < spec lifetime), C11_age_exact (the age is RFC 9111 section 4.2.3 current_age when '
              'the stored Age field is absent or digits and Date parses), and at history level C11_history (along EVERY sequential history a response returned without contacting the origin is the synthesised 504 or carries '
              'the status and body of an entry whose fields and instants are those of origin calls of the history (Src, see C01_history), exactly one Age value — the age of that entry at the instant the exchange started —, '
              'exactly one status value HIT or STALE, and X-From-Cache 1). Monitor mon_C11 compares Age with its own age computation within 1 s on the real transport.'),
        note=COMMON_NOTE + ' int(Duration.Seconds()) is modelled with its IEEE rounding (seconds_trunc); its distance from d/1e9 (at most 1) is checked by the run, not proved.'),
})
CLAIMS.update({
    'C04': dict(
        text=('Theorems C04_match_sound / C04_variant_match (a stored reference matches a request only if no Vary member is "*" and the two '
              'requests agree after the documented normalisation on every nominated field; all Vary lines count), C04_star, '
              'C04_encoding_injective (NUL-delimited name/value encoding determines the variant map), C04_id_injective (equal variant ids '
              'imply equal maps, under the stated hypothesis that FNV-64a does not collide on the two encodings), C04_history_variant (along every sequential history the entry under a matching reference was filed for a request that was sent to the origin for the same URL key and selects the same variant, given that equal keys mean equal maps for the two; store invariant InvS, kept under every interleaving too: C16_store_invariant). Monitor mon_C04 on the real '
              'transport over histories with changing Vary values and adversarial header values.'),
        note=COMMON_NOTE + ' The 64-bit FNV-1a digest is not injective; collision-freeness on the encodings at hand is a named hypothesis of C04_id_injective.'),
    'C07': dict(
        text=('Theorems C07_unsafe_methods (unsafe = not in the IANA safe column), C07_shape, C07_invalidates (after InvalidateCache, for every '
              'store content: the target index, every entry it listed, every same-origin Location/Content-Location index and its entries are gone, '
              'and only those keys were removed), C07_cross_origin_untouched, C07_later (the next GET for the key goes to the origin), C07_late_validation_discarded (a background validation whose answer arrives after the invalidation writes nothing). '
              'Monitor mon_C07 over histories with arbitrary method tokens and Location forms on the real transport; experiment with the answer to a background validation held across the unsafe request.'),
        note=COMMON_NOTE + ' URL parsing/resolution of Location values is the model\'s re-implementation of net/url for the generated grammar; other values are OutOfModel.'),
    'C08': dict(
        text=('Theorems C08_freshen (after a 304 the store holds the merged entry with the stored status/body and the instants of this exchange), '
              'C08_merged_fields (field-by-field characterisation of the merge), C08_replace (StoreResponse writes entry and index, keeps the other '
              'references), C08_index_no_loss, C08_index_unique, C08_background_uses_current_index, C08_background_replaces_own_reference, '
              'C08_date_codec (http.ParseTime reads back what http.TimeFormat writes, for every second 1970-9999), C08_missing_date_is_receipt / '
              'C08_usable_date_kept (FixDateHeader). '
              'Monitor mon_C08 checks write-back contents/instants and index frames on the real store each run.'),
        note=COMMON_NOTE),
    'C19': dict(
        text=('Theorems C19_index_unique (one reference per response id in every index written), C19_keys_written (a round trip writes only the '
              'request\'s URI key and variant keys derived from it, on every path), C19_invalidation; over whole histories C19_history / C19_history_every_point '
              '(store invariant InvF of Proofs/FootProofs.v, tree predicate SafeF proved of round_trip q for every q and preserved by run, run_pending, exchange, run_history: '
              'for every history from the empty store, every origin script and configuration, if reqs covers the requests sent to the origin up to URL key and header block and '
              'varies the Vary values of the origin\'s replies, then after the history and after every prefix of it every key of the store is in candidate_keys reqs varies, the '
              'number of distinct keys and the length of every index are at most its length <= |reqs| * (1 + |varies|), and no index lists a response id twice or holds a null element; '
              'C19_history_nonvacuous: six alternating requests, three keys, an index of two); C19_concurrent: the same invariant and bound under every schedule of concurrent calls and background revalidations (Proofs/FootConc.v). Monitor mon_C19 bounds live keys and index '
              'length independently of history length on long repetitive histories (profile repeat) on the real store.'),
        note=COMMON_NOTE + ' Orphaned entries whose reference was replaced by a reply with a different Vary are bounded by the distinct variants but not collected; the monitor bound allows them.'),
})
CLAIMS.update({
    'C09': dict(
        text=('Theorems C09_decision (fresh by more than a second under the documented lifetime and nothing demanding validation => the hit decision '
              'is to serve; for all header values and instants), C09_match_complete (equal normalised selecting fields => the stored reference matches), '
              'C09_run_hit (index lists a selected reference, entry present, decision serve => no origin call, store unchanged, that entry returned), '
              'C09_key_respellings. The run drives histories with respelled URIs and selecting headers on the memory backend and on the file-system '
              'backend plain, encrypted and reopened between every two requests; monitor mon_C09 demands a store answer whenever the spec premises hold.'),
        note=COMMON_NOTE + ' URI-key completeness is shown on concrete respellings and by the run, not as a general theorem; C14 covers the backends as maps.'),
})
CLAIMS.update({
    'C14': dict(
        text=('Theorems C14_base64_roundtrip, C14_key_from_file_name, C14_file_name_injective, C14_path_shape (a directory component is never '
              'a file component: no key\'s file is a directory of another key\'s path; the empty key has a file name), C14_fs_refines_map (for every '
              'sequence of Set/Get/Delete/Keys/Reopen over arbitrary byte-string keys and values the directory-tree model of fscache answers exactly '
              'as a map; listings as sets), C14_get_after_set. The run executes generated operation sequences over adversarial key pools on memcache, '
              'fscache and encrypted fscache with reopen, partly through the maintenance HTTP API, scribbling over every buffer, and compares with the '
              'extracted tree model and with the map.'),
        note=COMMON_NOTE + ' The kernel file system is assumed to behave as the tree model (mkdir/openat/rename/unlink); AES-GCM is the identity at this level (C17). Known finding F27 (API listing of non-UTF-8 keys) is reported as KNOWN-FINDING.'),
})
CLAIMS.update({
    'C15': dict(
        text=('Theorems C15_atomic (for every interleaving of any number of Set/Get/Delete threads on one key, expressed as a schedule over the system-call '
              'programs of fscache — create private temp file, write, fsync, close, rename over the final name; open final, read; unlink — and for a crash after '
              'any prefix of it: the final name, when it exists, holds exactly the complete value of one Set whose rename happened (or the initial value), and every '
              'completed Get returned one such complete value or not-found) and C15_no_partial_value. The run (a) compares the system-call program of each operation, '
              'obtained with strace from the real backend, with the model\'s programs; (b) cuts a Set at every byte position with RLIMIT_FSIZE in a child process, kills '
              'writers with SIGKILL, and checks concurrent storms for linearizability with porcupine.'),
        note=COMMON_NOTE + ' Assumed of the kernel: each system call is atomic, rename replaces atomically, an open descriptor keeps its inode. Durability across power loss (fsync ordering on a real disk) is outside the model: partial there.'),
    'C17': dict(
        text=('Theorems over a symbolic AES-GCM (seal/open with the laws of an authenticated cipher as explicit hypotheses): C17_wiring / C17_option_wiring (for every DSN encrypt / '
              'encrypt_key / environment key and every option key: if encryption is requested, Open fails or the handle encrypts under a key of 16/24/32 bytes — never silently off), '
              'C17_files (what is written is nonce||seal(key, nonce, value)), C17_roundtrip, C17_tamper (whatever byte string get accepts is exactly nonce||seal(key, nonce, v) for '
              'the value v returned: any altered, truncated or extended file is an error, never data), C17_short_file_rejected, C17_wrong_key, C17_moved_file (the key an entry is stored under is additional authenticated data: a file written for one key never opens under the name of another; fix F36), C17_distinct. The run re-derives the '
              'real backend\'s files with an independent AES-GCM computation, scans them for plaintext, applies every single-byte change and truncation, and compares a grid of '
              'configurations with the extracted wiring model.'),
        note=COMMON_NOTE + ' That AES-GCM is an authenticated cipher hiding its plaintext, and that crypto/rand nonces do not repeat, are cryptographic assumptions (hypotheses of the theorems): partial in that sense.'),
})
CLAIMS.update({
    'C12': dict(
        text=('Theorems C12_any_spelling (for every Cache-Control field given as an abstract directive list and EVERY spelling of it — letter case of names, none/token/quoted-string '
              'arguments with any quoted-pairs, optional whitespace, empty list elements, any split over field lines — parse_cc yields for each name exactly the argument of the last '
              'directive of that name), C12_order, C12_extensions, C12_same_decisions (two readings with the same meaning give identical storability, freshness record, hit decision, '
              'qualified no-cache fields, stale-if-error decision, only-if-cached / no-store flags, for every entry, response and instant), C12_decisions_are_the_code, C12_large_delta '
              '(a delta-seconds of any number of digits is min(2^63-1 ns, value): never wrapped). The run drives respelled histories on the real transport against the model and the '
              'monitors, and runs every respelled history again in canonical spelling, comparing the two runs of the implementation.'),
        note=COMMON_NOTE + ' The abstract syntax covers RFC 9111 §5.2 fields whose names are tokens and whose arguments are tokens or quoted-strings; field values that are not well-formed lists are outside the theorem (their handling is compared by the run only).'),
})
CLAIMS.update({
    'C20': dict(
        text=('Theorems C20_answers_at_once (serving under stale-while-revalidate = spawn the background program, return the stored response: nothing in between), C20_run (in the '
              'sequential semantics the exchange returns at the clock reading it started at, consuming no origin reply, for every origin script, leaving exactly one pending background '
              'program), C20_one_background_request (exactly one origin call on every path of it), C20_conditional (If-None-Match / If-Modified-Since whenever ETag / Last-Modified are stored), '
              'C20_request_bounded + C20_timeout_default (a background call lasts min(latency, T), T = setting or 5 s for non-positive/missing), and over the goroutine transition system of '
              'backgroundRevalidate (supervisor, worker, errc, context, origin; all interleavings): C20_no_deadlock, C20_short, C20_all_goroutines_end (every maximal execution ends within '
              'five steps with both goroutines returned, whether the origin answers, fails or never answers), C20_one_call; C20_unbuffered_can_leak shows the channel capacity is necessary; '
              'C20_timing. The run evaluates monitor mon_C20 on generated histories and compares swr_predict with the real transport in virtual time over settings x latencies (0 .. beyond '
              'the timeout, never) x caller-context cancellations x outcomes x validators, counting the library goroutines left in the synctest bubble.'),
        note=COMMON_NOTE + ' The goroutine system is a hand-written abstraction of backgroundRevalidate at the granularity of channel/context operations; its tie to the code is the observed absence of '
             'leftover goroutines and the timing correspondence, not a translation. Assumed: the upstream RoundTripper returns once its request context is done.'),
})
CLAIMS.update({
    'C16': dict(
        text=('Concurrent model Conc.v: RoundTrip calls and the background revalidations they spawn are threads over one store and origin, stepped one store/origin operation at a time by an '
              'arbitrary schedule. Theorems, for EVERY schedule: C16_thread_follows_its_tree (what a call returns is a leaf of its own sequential effect tree), C16_sequential_rules (every '
              'property proved of all leaves of the sequential tree for all store answers — the form of the theorems of C01..C19 — holds for concurrent calls), instances C16_no_panic, '
              'C16_only_if_cached, C16_background_no_panic; C16_store_keys (no interleaving makes a call write under a key of a URI it was not asked for); '
              'C16_background_ignores_the_returned_response (the background program depends on the value handed to the caller only through its identifier), C16_late_304_not_merged, and '
              'C16_right_resource (under every schedule, what a finished call returned has no body or the body of an origin call for a request with the same URL key: the store invariant — every entry under a '
              'variant key of the URL key whose request produced its body, every index listing variant keys of its own URL key — is kept by every single step of every thread). The run executes generated '
              'concurrent phases on the real transport under a seeded scheduler at exactly that granularity (testing/synctest), replays the recorded schedules on the extracted model and '
              'compares results and labelled operation traces; snapshots every returned response and request and re-checks them after all later activity; and runs a free-running stress on '
              'memcache and fscache under the Go race detector with per-response consistency checks.'),
        note=COMMON_NOTE + ' Partial: data races and writes through aliased Go pointers cannot be expressed in the value-based model; they are searched for by the run (race detector, snapshots), '
             'not proved absent. Store operations are taken as atomic (memcache mutex; fscache by C15).'),
})
CLAIMS.update({
    'C03': dict(
        text=('Theorems C03_key_sound (for all pairs of http/https URLs of the domain url_wf — reg-name or bracketed IP-literal host, optional numeric port, empty or absolute path with '
              'well-formed escapes, any query bytes — equal cache keys imply equal RFC 3986 §6.2.2-6.2.3 normal forms: URLs differing in scheme, host, port, path bytes or query bytes after '
              'normalisation never share a key), C03_key_complete (the converse), C03_different_uris_different_keys, C03_lookup_by_key (a plain GET consults exactly the index under the key '
              'of its URL), C03_not_plain_get_bypasses_store (a request that is not a GET without Range never reads or writes a stored response and is answered by the origin), and at history level '
              'C03_history_provenance / C03_history_equivalent_uri: along EVERY sequential history from an empty store (any requests, origin script, timing) a response handed to the caller carries '
              'no body or the body of an origin call made for a request with the same URL key — hence, by key soundness, an equivalent URI. The normal form '
              'is written after the RFC, not after the code. The run evaluates monitor mon_C03 (the body served was produced by an earlier plain GET for an equivalent URI) on generated '
              'histories with near-miss URLs (case, escapes, default and explicit ports, IPv6 literals, dot and empty segments, non-ASCII bytes), reports how many generated URLs lie in '
              'url_wf, and compares model and implementation.'),
        note=COMMON_NOTE + ' The key theorems speak about parsed URLs (net/url.Parse is modelled for the generated grammar: no userinfo, no opaque form); URLs outside url_wf (e.g. a bracketed host '
             'without a colon) are covered by the run only. The variant and plain-GET parts of the history-level statement are checked by the monitor (C04 / mon_C03), the resource part is proved.'),
})
CLAIMS.update({
    'C05': dict(
        text=('Byte level, over the reader of a stored entry (metadata line + http.ReadResponse + reading the body to its end, modelled in Wire.v): C05_read_length_framed, C05_read_chunked, '
              'C05_read_close_delimited — for EVERY body (any bytes: CR/LF, NUL, text that looks like a status line, a chunk or a metadata line; any length), every status line and field lines, every '
              'cutting of the body into chunks and every trailer section, reading a message of the grammar returns exactly its status line, fields and body; C05_read_bodiless; C05_read_entry. '
              'Field level: C05_hop_by_hop_removed, C05_end_to_end_kept, C05_hop_by_hop_names (Connection, everything the Connection lines name, Keep-Alive, TE, Transfer-Encoding, Upgrade, Proxy-*), '
              'C05_stored_is_origin, C05_served_is_stored (a hit returns the stored status and body and every stored field except Age, the status fields and fields named by a qualified no-cache). '
              'The run sends real HTTP messages over the loopback interface in every framing (Content-Length, chunked with and without trailers, close-delimited, HTTP/1.0, HTTP/2 with and without length) '
              'with adversarial bodies up to 1 MiB and header corpora on memcache, fscache and encrypted fscache, compares MISS and HIT byte for byte with the response as net/http delivered it, and '
              'parses every stored entry with the extracted reader and with Go; monitor mon_C05 on generated histories.'),
        note=COMMON_NOTE + ' httputil.DumpResponse and net/http framing are modelled as "any message of the grammar" and tied by parsing what was really stored; trailers are compared for presence of the body only (net/http keeps them outside the header map).'),
})
NOT_YET = {}

# the part of the model each property rests on that is regenerated from /repo's Go source on every run (DESIGN.md section 9)
_TIE = ' Source tie: %s — the translator translate/main.go re-derives %s from /repo before every build and the theorem proves the hand-written model equal to it, so a source change that alters it breaks this obligation.'
_TIES = {
    'C01': ('C01_source_decision', 'the branch structure of handleCacheHit (which tests, in which order, lead to serving / background revalidation / 504 / validation)'),
    'C02': ('C02_source_decision', 'the branch structure of handleCacheHit'),
    'C18': ('C18_source_decision', 'the branch structure of handleCacheHit'),
    'C09': ('C09_source_decision, C09_source_heuristic_statuses', 'the branch structure of handleCacheHit and the table of heuristically cacheable statuses'),
    'C13': ('C13_source_decision, C13_source_error_statuses', 'the branch structure of handleCacheHit and isStaleErrorAllowed'),
    'C06': ('C06_source_storability, C06_source_status_tables, C06_source_method_gate', 'canStoreResponse, the status tables and isRequestMethodUnderstood'),
    'C03': ('C03_source_method_gate', 'isRequestMethodUnderstood (GET without Range)'),
    'C07': ('C07_source_tables', 'IsUnsafeMethod, IsNonErrorStatus and the Location / Content-Location table'),
    'C05': ('C05_source_hop_by_hop', 'the fixed hop-by-hop field table'),
    'C11': ('C11_source_status_fields', 'the status field names and the five CacheStatus values'),
    'C12': ('C12_source_max_delta', 'maxDeltaSeconds and maxDuration'),
    'C14': ('C14_source_fragments', 'fragmentSize and dirMarker of the file namer'),
    'C20': ('C20_source_default_timeout', 'DefaultSWRTimeout'),
}
for _pid, (_thm, _what) in _TIES.items():
    CLAIMS[_pid]['text'] += _TIE % (_thm, _what)
for _pid in ('C08', 'C19', 'C20'):
    CLAIMS[_pid]['text'] += (' The run also executes TestOverlap: the same client\'s requests while a stale-while-revalidate background validation is in flight '
                             '(forced validation replacing the entry; another variant stored, then an invalidation; another variant served stale).')

_EFF = (' Cxx_source_effects: the effect trees this property is stated about (every store / origin / clock operation of %s, in source order, under the source\'s conditions, '
        'and what every path returns) are re-derived from /repo by translate/effects.go before every build and proved equal (up to ProgEq.peq, which run respects) to the hand-written model\'s.')
_EFFN = {'C01': 'handleCacheHit', 'C02': 'handleCacheHit and HandleValidationResponse', 'C03': 'RoundTrip', 'C04': 'RoundTrip', 'C06': 'handleCacheMiss, HandleValidationResponse and handleUnrecognizedMethod',
         'C07': 'handleUnrecognizedMethod and HandleValidationResponse', 'C08': 'HandleValidationResponse and backgroundRevalidate', 'C09': 'RoundTrip and handleCacheHit',
         'C10': 'all six transport functions', 'C11': 'handleCacheHit and HandleValidationResponse', 'C13': 'HandleValidationResponse', 'C16': 'all six transport functions',
         'C18': 'RoundTrip, handleCacheMiss and handleCacheHit', 'C19': 'RoundTrip, HandleValidationResponse and backgroundRevalidate', 'C20': 'handleCacheHit and backgroundRevalidate'}
for _pid, _w in _EFFN.items():
    CLAIMS[_pid]['text'] += _EFF.replace('Cxx', _pid) % _w

for _pid, _t in {'C07': 'a reference whose entry was removed behind the cache\'s back (two variants, one entry deleted, POST: the other variant and the index must be gone)',
                 'C09': 'every URL length 150..340 over the real fscache backend, plain and encrypted, GET / GET / new handle / GET: the second and third must be HIT',
                 'C17': 'an encrypted transport on a directory filled without encryption must miss; the file of a key replaced wholesale by plain text must be rejected',
                 'C19': 'a selecting field sent on several lines across write-backs of the selected entry: keys counted after every request, none left after a POST'}.items():
    CLAIMS[_pid]['text'] += ' Engine scenario (harness/scenario_test.go, real transport, real backends): ' + _t + '.'
CLAIMS['C11']['text'] += ' Engine realclock: the Age field of an answer from the store whose entry was received with a saturating Age (real clock, any staleness allowed) is at least 2^31.'

CLAIMS['C07']['text'] += (' Across exchanges (Proofs/InvalProofs.v): C07_exchange_invalidates (from any world, the exchange of an unsafe request that ends with the origin\'s non-error response '
                          'leaves no index under the request\'s URL key: the path spawns nothing, so nothing writes after the invalidation) and C07_next_exchange (the next exchange, after any gap, for any '
                          'understood request with that key ends in the 504 of only-if-cached or logs an origin call with exactly that request). C07_source_same_origin: sameOrigin and defaultPort regenerated from internal/helpers.go.')
for _pid in ('C11', 'C13'):
    CLAIMS[_pid]['text'] += ' %s_source_saturating_add: saturatingAdd regenerated from internal/freshness.go and proved equal to the model\'s on non-negative durations.' % _pid
for _pid in ('C05', 'C08'):
    CLAIMS[_pid]['text'] += (' %s_source_header_sets: hopByHopHeaders, removeHopByHopHeaders and updateStoredHeaders are re-derived from internal/helpers.go by translate/maps.go before every build '
                             'and proved equal to hop_by_hop_headers, remove_hop_by_hop, update_stored_headers (Proofs/TieHeaderSets.v).' % _pid)
CLAIMS['C11']['text'] += ' C11_source_header_writers: CacheStatus.ApplyTo and SetAgeHeader re-derived from the source (translate/hdrprog.go) and proved equal to apply_status and the Age field of the model.'
CLAIMS['C02']['text'] += ' C02_source_conditional_request: withConditionalHeaders re-derived from helpers.go and proved equal to with_conditional_headers.'
CLAIMS['C08']['text'] += ' C08_source_fix_date_header: FixDateHeader re-derived from internal/clock.go and proved equal to fix_date_header.'
CLAIMS['C13']['text'] += ' C13_source_window: CanStaleOnError re-derived from internal/cacheabilityevaluator.go and proved equal to can_stale_on_error.'
CLAIMS['C01']['text'] += ' C01_source_timed_call: roundTripTimed (the clock readings around the origin call, the Date repair) re-derived from roundtripper.go; syntactically the model\'s round_trip_timed.'
CLAIMS['C05']['text'] += (' C05_history: over every sequential history from the empty store, an answer given without contacting the origin is the 504 or has the status and body of a full reply of a logged origin call and, '
                          'for every field name other than Age, the two status fields and the names of a qualified no-cache, the values of a stored entry whose header block is that reply\'s (Date repaired, hop-by-hop fields removed) '
                          'or such a block with the fields of logged 304s merged in (Src).')
for _pid in ('C07', 'C19'):
    CLAIMS[_pid]['text'] += (' %s_source_invalidation: InvalidateCache and invalidateLocationHeaders (which keys are deleted, in which order, after which reads of the store, none twice) '
                             'are re-derived from internal/cacheinvalidator.go by translate/inval.go before every build and proved equal up to peq to invalidate_cache (Proofs/TieInval.v).' % _pid)

for _pid in ('C01', 'C02', 'C09', 'C11', 'C13', 'C18'):
    CLAIMS[_pid]['text'] += (' %s_source_freshness: CalculateFreshness, calculateCurrentAge and heuristicFreshness (precedence of max-age / Expires / heuristics, request max-age / min-fresh / max-stale, '
                             'saturating sums, wrapping multiplication, truncating division) are re-derived from internal/freshness.go before every build and proved equal to the model for all inputs.' % _pid)

CLAIMS['C09']['text'] += (' C09_store_then_hit: what StoreResponse wrote for (q, r) under a key without an index is served — no origin call, r\'s status and body — to every later request with the same key '
                          'that the written reference matches and for which the decision is to serve, in every later world where that index and entry are unchanged.')
_RANK = (' {0}_source_ranking: the ranking of VaryHeadersMatch (the comparator closure handed to slices.SortFunc, where `best` starts, when the scan moves it, the test in the return statement) '
         're-derived from internal/varymatcher.go (Generated/SrcVary.v); the model\'s vary_headers_match is the sort by that comparator followed by the scan with that step (Proofs/TieVary.v).')
CLAIMS['C04']['text'] += _RANK.format('C04')
CLAIMS['C09']['text'] += _RANK.format('C09')

