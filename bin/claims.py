"""What MANIFEST.json claims per property (text, trusted-base note)."""
COMMON_NOTE = ('Trusted: Coq 8.16.1 kernel (vm_compute used, native_compute not), no axioms (Print Assumptions re-run every check), '
               'ExtrOcamlBasic extraction + OCaml driver, the hand-written model of the Go code (tied to /repo on every run by running '
               'model and implementation on the same generated histories and comparing projected observables), the Go harness '
               '(scripted origin, recording Conn, testing/synctest virtual clock). net/http, net/url, encoding/json, strconv are modelled, not verified.')
CLAIMS = {
    'C18': dict(
        text=('Theorem C18_no_origin: for every plain GET carrying only-if-cached the effect tree of RoundTrip has no origin call '
              'on any path, for every store answer and clock reading (structural, unbounded); C18_answer: every leaf is a response. '
              'Each run re-checks the proofs, runs generated histories on the real transport and on the extracted model, and '
              'evaluates the extracted monitor mon_C18 (no origin call in foreground or background; answer is a usable stored '
              'response or the synthesised 504) on what the implementation did.'),
        note=COMMON_NOTE),
}
NOT_YET = {}
