#!/bin/sh
# usage (inside `vp run -- sh bin/sweep_clean.sh <seed>...`): all twenty quick checks on the unchanged tree under other seeds
for s in "$@"; do
  for n in 01 02 03 04 05 06 07 08 09 10 11 12 13 14 15 16 17 18 19 20; do
    VERIF_SEED=$s python3 bin/check C$n 2>&1 | grep -E "VIOLATION|quick:|ERROR" | sed "s/^/[seed $s] /"
  done
done
echo finished
