#!/bin/sh
# usage (inside `vp run --with-repo -- sh bin/sweep_clean.sh <seed>...`): all twenty quick checks on the unchanged tree under other
# seeds, against the private copy of the repository ($VP_RUN_REPO) so that work going on in /repo meanwhile does not disturb them
if [ -n "${VP_RUN_REPO:-}" ]; then
  sed -i "s#=> /repo#=> $VP_RUN_REPO#" harness/go.mod
  export VERIF_REPO=$VP_RUN_REPO
fi
for s in "$@"; do
  for n in 01 02 03 04 05 06 07 08 09 10 11 12 13 14 15 16 17 18 19 20; do
    VERIF_SEED=$s python3 bin/check C$n 2>&1 | grep -E "VIOLATION|quick:|ERROR" | sed "s/^/[seed $s] /"
  done
done
echo finished
