#!/bin/sh
# usage (inside `vp run --with-repo -- sh bin/sweep_thorough.sh <ids...>`): the thorough tier of the given checks on the unchanged tree
if [ -n "${VP_RUN_REPO:-}" ]; then
  sed -i "s#=> /repo#=> $VP_RUN_REPO#" harness/go.mod
  export VERIF_REPO=$VP_RUN_REPO
fi
for id in "$@"; do
  VERIF_NO_CLEAN=1 python3 bin/check $id --tier thorough 2>&1 | grep -E "VIOLATION|thorough:|ERROR|KNOWN" | cut -c1-220
done
echo finished
