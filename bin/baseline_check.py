#!/usr/bin/env python3
"""Run /repo's test suite (guard off) and compare with /root/.vp/BASELINE.json stable_pass."""
import json, subprocess, os, sys
base = json.load(open('/root/.vp/BASELINE.json'))
want = set(base['stable_pass'])
env = dict(os.environ, GOFLAGS='-mod=mod', GOPROXY='off')
p = subprocess.run(['go', 'test', '-json', '-vet=off', '-count=1', '-timeout', '25m', './...'],
                   cwd='/repo', env=env, capture_output=True, text=True)
passed = set()
for line in p.stdout.splitlines():
    try: ev = json.loads(line)
    except Exception: continue
    if ev.get('Action') == 'pass' and ev.get('Test'):
        passed.add(ev['Package'] + '::' + ev['Test'])
missing = sorted(want - passed)
print('baseline stable_pass:', len(want), 'passed now:', len(want & passed), 'missing:', len(missing))
for m in missing[:20]: print('  MISSING', m)
sys.exit(1 if missing else 0)
