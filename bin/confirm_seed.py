#!/usr/bin/env python3
"""confirm_seed.py <id> <outdir> [tag]: in a scratch worktree, confirm that the seeded change compiles, keeps the baseline suite
passing, and that its demonstration fails with it and passes without it; then store it under /verif/seeded/<tag>/."""
import json, os, shutil, subprocess, sys, glob
pid, outdir = sys.argv[1], sys.argv[2]
tag = sys.argv[3] if len(sys.argv) > 3 else pid
wt = '/tmp/confirm-' + tag
env = dict(os.environ, GOFLAGS='-mod=mod', GOPROXY='off')
def sh(cmd, cwd=wt):
    return subprocess.run(cmd, cwd=cwd, env=env, shell=True, capture_output=True, text=True)
subprocess.run('git -C /repo worktree remove --force %s 2>/dev/null; git -C /repo worktree add -q %s HEAD' % (wt, wt), shell=True)
base = set(json.load(open('/root/.vp/BASELINE.json'))['stable_pass'])
def suite():
    p = sh('go test -json -vet=off -count=1 ./...')
    passed = set()
    for line in p.stdout.splitlines():
        try: ev = json.loads(line)
        except Exception: continue
        if ev.get('Action') == 'pass' and ev.get('Test'): passed.add(ev['Package'] + '::' + ev['Test'])
    return passed
demos = [f for f in glob.glob(os.path.join(outdir, '*_test.go'))]
res = {}
r = sh('git apply %s' % os.path.join(outdir, 'patch.diff'))
res['applies'] = r.returncode == 0
res['builds'] = sh('go build ./...').returncode == 0
passed = suite()
res['baseline_missing_with_patch'] = sorted(base - passed)
# demo with patch
def place(f):
    # package clause decides the directory
    src = open(f).read()
    pkg = [l for l in src.splitlines() if l.startswith('package ')][0].split()[1]
    d = wt if pkg.startswith('httpcache') else os.path.join(wt, 'internal') if pkg == 'internal' else wt
    if 'fscache' in pkg: d = os.path.join(wt, 'store', 'fscache')
    if 'memcache' in pkg: d = os.path.join(wt, 'store', 'memcache')
    if 'expapi' in pkg: d = os.path.join(wt, 'store', 'expapi')
    dst = os.path.join(d, os.path.basename(f)); shutil.copy(f, dst); return d, dst
placed = [place(f) for f in demos]
def run_demo():
    ok = True; out = ''
    for d, dst in placed:
        names = [l.split('(')[0].split()[1] for l in open(dst) if l.startswith('func Test')]
        p = sh("go test -count=1 -run '^(%s)$' ." % '|'.join(names), cwd=d)
        ok = ok and p.returncode == 0; out += p.stdout[-600:]
    return ok, out
ok_with, out_with = run_demo()
sh('git checkout -- .')
ok_without, out_without = run_demo()
res['demo_fails_with_patch'] = not ok_with
res['demo_passes_without_patch'] = ok_without
subprocess.run('git -C /repo worktree remove --force %s' % wt, shell=True)
print(json.dumps(res, indent=1))
good = res['applies'] and res['builds'] and not res['baseline_missing_with_patch'] and res['demo_fails_with_patch'] and res['demo_passes_without_patch']
if good:
    dst = '/verif/seeded/' + tag
    os.makedirs(dst, exist_ok=True)
    shutil.copy(os.path.join(outdir, 'patch.diff'), dst)
    for f in demos: shutil.copy(f, os.path.join(dst, os.path.basename(f) + '.txt'))
    notes = open(os.path.join(outdir, 'notes.md')).read() if os.path.exists(os.path.join(outdir, 'notes.md')) else ''
    meta = dict(property=pid, needs=notes[:1500], confirmed=res,
                ran=['git apply patch.diff in a scratch worktree of /repo', 'go build ./... ; go test -json ./... compared with BASELINE stable_pass (343 tests)',
                     'demo test with the change (fails) and without (passes)'])
    json.dump(meta, open(os.path.join(dst, 'meta.json'), 'w'), indent=1)
    print('stored', dst)
sys.exit(0 if good else 1)
