#!/bin/sh
# usage: bin/try_seed.sh <patch.diff> <property-id>...   — apply a seeded change to /repo, run checks, undo
patch=$1; shift
cd /verif
git -C /repo apply "$patch" || { echo "patch does not apply"; exit 2; }
for p in "$@"; do
  python3 bin/check $p 2>&1 | grep -E "VIOLATION|KNOWN|quick:|ERROR" | sed "s/^/[$p] /"
done
git -C /repo checkout -- .
git -C /repo status --short | head -3
