#!/bin/sh
# usage: bin/try_seed.sh <patch.diff> <property-id>...   — apply a seeded change to /repo, run checks, undo.
# The evidence files such a run writes describe a patched tree: the committed ones are restored afterwards.
patch=$1; shift
cd /verif
git -C /repo apply "$patch" || { echo "patch does not apply"; exit 2; }
for p in "$@"; do
  python3 bin/check $p 2>&1 | grep -E "VIOLATION|KNOWN|quick:|ERROR" | sed "s/^/[$p] /"
  git checkout -- evidence/$p.json 2>/dev/null
done
git -C /repo checkout -- .
git -C /repo status --short | head -3
