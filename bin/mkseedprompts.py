#!/usr/bin/env python3
"""mkseedprompts.py <round-tag>: scratch worktrees /tmp/seedwt<tag>-Cxx of /repo and one prompt file per property under
/tmp/seedprompts<tag>/ for the sub-agents that propose breaking changes (they get the property text only, nothing of /verif)."""
import json, os, subprocess, sys
tag = sys.argv[1]
props = {}
for l in open('/verif/properties.jsonl'):
    p = json.loads(l); props[p['id']] = p
T = '''You are helping to test a verification framework by playing the role of a developer who introduces a subtle regression.

Repository: a Go library, github.com/bartventer/httpcache (an RFC 9111 private HTTP cache implemented as an http.RoundTripper, with in-memory and file-system backends). You have your OWN scratch git worktree of it at {wt} . Work ONLY there and in your output directory {out} . Do NOT read, list or touch /verif or /repo (never edit /repo; never read anything under /verif) and do not look at other /tmp/seed* directories. Do NOT use `git stash` (the stash is shared between worktrees and other people are working in parallel): to revert your change use `git diff > /tmp/{pid}-{tag}.patch && git checkout -- .`, to re-apply it `git apply /tmp/{pid}-{tag}.patch`.

Toolchain (offline sandbox; set in every shell call): `export GOFLAGS=-mod=mod GOPROXY=off` then run go commands from inside {wt} (the default `go` picks the go1.25 toolchain from the module cache; do not set GOSUMDB or GOTOOLCHAIN). `go build ./... && go test -vet=off -count=1 ./...` runs the existing suite (takes ~10 s). On the unchanged tree exactly these tests fail already and are not your concern: store/fscache TestOpen (Invalid_Root_Directory, because we run as root), Test_transport_CacheHit_MustRevalidate_Stale, Test_transport_CacheHit_NoCacheUnqualified. Every other test that passes on the unchanged tree must still pass with your change.

The semantic property under test ({pid}: {title}):

"{statement}"

It is meant to hold {quant}.

Relevant source files (start here, but the whole repository is in scope): {files}

YOUR TASK: produce a realistic change to the library's non-test source (not to tests, not adding build tags) that BREAKS this property while the code still compiles and every currently-passing existing test still passes. The change must look like something a developer could plausibly commit and a reviewer could plausibly approve (a refactor, an optimisation, a "fix", a clean-up) — small (typically 1-25 changed lines, one or two sites). IMPORTANT: it must need something SPECIFIC to manifest — a particular interleaving, a fault or crash at a particular point, a multi-step sequence of operations, an unusual-but-valid input shape, a rare pairing of options, or two cooperating sites that each look fine alone — and must NOT be something that ordinary use (a plain GET, store, hit) would expose at once. {steer}

Then write a demonstration: a Go test file (package httpcache_test or the package's own internal test package, your choice; file name seed_demo_test.go; test function names starting with TestSeedDemo) that FAILS with your change applied and PASSES on the unchanged tree, demonstrating the property violation through the library's behaviour (prefer the public API: httpcache.NewTransport with a memcache:// or fscache:// DSN and httpcache.WithUpstream(<your scripted http.RoundTripper>); look at the existing *_test.go files and README for usage). The test must be deterministic (no reliance on wall-clock races; use channels / synctest / explicit ordering where needed) and finish within ~20 s. If the demo registers store drivers or imports a backend, put it in that backend's directory (a second driver registration breaks a root-package test).

Verify all of this yourself in {wt}: (1) with the change: go build ./... ok, the whole existing suite has no new failures, your demo test fails; (2) with the change reverted: your demo passes. Iterate until all of that is true.

Deliverables in {out} (create exactly these files):
  - patch.diff : output of `git diff` in {wt} containing ONLY the library change (not the demo test file; the patch must apply with `git apply` to a clean checkout of the same commit)
  - seed_demo_test.go : the demonstration test (self-contained; first line of code is its package clause; say in a comment which directory of the repo it belongs in if not the repo root)
  - notes.md : what you changed (file, function), why it breaks the property, exactly what is needed for it to manifest (the specific sequence / interleaving / input), and the commands you ran with their outcome.
Leave the worktree with the change reverted and the demo file removed when you are done (git status clean). Your final message should be a 5-line summary (what the change is, what it needs to manifest, that you verified fail-with/pass-without).'''
steers = json.load(open(sys.argv[2])) if len(sys.argv) > 2 else {}
os.makedirs('/tmp/seedprompts' + tag, exist_ok=True)
os.makedirs('/tmp/seedout' + tag, exist_ok=True)
for pid, p in props.items():
    wt = '/tmp/seedwt%s-%s' % (tag, pid)
    subprocess.run('git -C /repo worktree add -q %s HEAD' % wt, shell=True)
    os.makedirs('/tmp/seedout%s/%s' % (tag, pid), exist_ok=True)
    s = T.format(wt=wt, out='/tmp/seedout%s/%s' % (tag, pid), pid=pid, tag=tag, title=p['title'], statement=p['statement'],
                 quant=p['quantifier']['text'], files=', '.join(p['anchors']['files']), steer=steers.get(pid, ''))
    open('/tmp/seedprompts%s/%s.txt' % (tag, pid), 'w').write(s)
print('prompts in /tmp/seedprompts' + tag)
