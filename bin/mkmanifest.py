#!/usr/bin/env python3
"""Regenerate MANIFEST.json from bin/props.py and the claims table below."""
import json, os, sys
ROOT = os.path.dirname(os.path.dirname(os.path.abspath(__file__)))
sys.path.insert(0, os.path.join(ROOT, 'bin'))
from claims import CLAIMS, NOT_YET
props = [json.loads(l) for l in open(os.path.join(ROOT, 'properties.jsonl'))]
checks, na = [], []
for p in props:
    pid = p['id']
    if pid in CLAIMS:
        c = CLAIMS[pid]
        checks.append(dict(
            property_id=pid,
            quick_cmd='bin/check %s --tier quick' % pid,
            thorough_cmd='bin/check %s --tier thorough' % pid,
            evidence_file='evidence/%s.json' % pid,
            replay_cmd_template='bin/check %s --replay {path}' % pid,
            engine='coq-model',
            level_claimed=dict(category='proof', text=c['text'], design_ref=c.get('design_ref', 'DESIGN.md §3 ' + pid)),
            level_note=c['note'],
            technique=c.get('technique', 'Coq 8.16 theorems over a Gallina model of the code; the model is tied to /repo on every run two ways: parts of it are regenerated from the Go source by a translator and proved equal to the hand-written definitions (Cxx_source_* theorems), and the extracted model and monitors are run against the real transport on generated histories and experiments (correspondence)')))
    else:
        na.append(dict(property_id=pid, reason=NOT_YET.get(pid, 'check under construction in this session; not yet claimed')))
m = dict(
    version=1, setup_cmd='bin/setup',
    hooks=dict(guard='verif',
               enable='none needed: the harness module (harness/go.mod, replace => /repo) drives the public API; nothing is added to /repo',
               baseline_off_cmd='cd /repo && GOFLAGS=-mod=mod GOPROXY=off go test -vet=off -count=1 ./...',
               source_commits=[], add_only=True),
    engines=[dict(name='coq-model', path='coq/', serves_properties=sorted(CLAIMS),
                  kind_free_text='Gallina model + theorems (coq/theories), extracted with ExtrOcamlBasic to model/modelbin; Go harness in harness/ runs the real transport in virtual time; bin/check compares and evaluates the extracted monitors')],
    checks=checks, not_applicable=na,
    notes='See DESIGN.md. Genuine defects found in the pinned tree were repaired by fix: commits in /repo and are listed in known_findings.json.')
json.dump(m, open(os.path.join(ROOT, 'MANIFEST.json'), 'w'), indent=1)
print('claimed:', sorted(CLAIMS), 'not claimed:', [x['property_id'] for x in na])
