"""Orchestration library of bin/check (see DESIGN.md §2.5)."""
import os, sys, json, subprocess, time, hashlib, fcntl, shutil, re, glob

ROOT = os.path.dirname(os.path.dirname(os.path.abspath(__file__)))
COQ = os.path.join(ROOT, 'coq')
MODEL = os.path.join(ROOT, 'model')
HARNESS = os.path.join(ROOT, 'harness')
BUILD = os.path.join(ROOT, 'build')
EVID = os.path.join(ROOT, 'evidence')
REPLAYS = os.path.join(ROOT, 'replays')
REPO = os.environ.get('VERIF_REPO', '/repo')   # bin/sweep_seeds.sh points this at a private copy

GO125 = '/root/go/pkg/mod/golang.org/toolchain@v0.0.1-go1.25.0.linux-amd64/bin/go'


def go_cmd():
    if os.path.exists(GO125):
        return GO125
    for c in ('go1.26', 'go1.26.8', 'go'):
        p = shutil.which(c)
        if p:
            return p
    return 'go'


def go_env():
    env = dict(os.environ)
    env.update(GOTOOLCHAIN='local', GOFLAGS='-mod=mod', GOPROXY='off')
    env.pop('GOSUMDB', None)
    return env


# the extracted model is ordinary (not tail-recursive) recursion over byte lists: large stored bodies need a deep stack
try:
    import resource
    _soft, _hard = resource.getrlimit(resource.RLIMIT_STACK)
    resource.setrlimit(resource.RLIMIT_STACK, (_hard, _hard))
except Exception:
    pass


def sh(cmd, cwd=None, env=None, timeout=3600, stdin=None):
    p = subprocess.run(cmd, cwd=cwd, env=env, capture_output=True, text=True, timeout=timeout,
                       shell=isinstance(cmd, str), input=stdin)
    return p.returncode, p.stdout, p.stderr


class Lock:
    def __init__(self, name):
        os.makedirs(BUILD, exist_ok=True)
        self.path = os.path.join(BUILD, name + '.lock')

    def __enter__(self):
        self.f = open(self.path, 'w')
        fcntl.flock(self.f, fcntl.LOCK_EX)
        return self

    def __exit__(self, *a):
        fcntl.flock(self.f, fcntl.LOCK_UN)
        self.f.close()


# ---------------------------------------------------------------- Coq

def coq_sources():
    return sorted(glob.glob(os.path.join(COQ, 'theories', '**', '*.v'), recursive=True))


TRANSLATE = os.path.join(ROOT, 'translate')
GENERATED = os.path.join(COQ, 'theories', 'Generated')


def translate_source():
    """Regenerate coq/theories/Generated/*.v from /repo's working tree with the Go-subset translator.
    Returns (ok, log).  A group of definitions that has left the subset is written as a file that does not type-check,
    so that exactly the theorems about it break."""
    os.makedirs(BUILD, exist_ok=True)
    with Lock('translate'):
        binp = os.path.join(BUILD, 'translate-bin')
        srcs = [os.path.join(TRANSLATE, f) for f in os.listdir(TRANSLATE) if f.endswith('.go')]
        if not os.path.exists(binp) or os.path.getmtime(binp) < max(os.path.getmtime(f) for f in srcs):
            rc, out, err = sh([go_cmd(), 'build', '-o', binp, '.'], cwd=TRANSLATE, env=go_env(), timeout=600)
            if rc != 0:
                return False, 'the translator does not build: ' + (out + err)[-1500:]
        rc, out, err = sh([binp, REPO, GENERATED], env=go_env(), timeout=300)
        return rc == 0, (out + err)[-3000:]


def build_coq(clean=False):
    """Full .vo build of the development (never -vos).  Returns (ok, log, cmd).  The generated part of the model is
    re-derived from /repo first.  make -k: what does not depend on a failing file is built all the same."""
    tok, tlog = translate_source()
    with Lock('coq'):
        cmd = 'coq_makefile -f _CoqProject -o Makefile > /dev/null && timeout 3000 make -k -j16'
        if clean:
            sh('test -f Makefile && make clean > /dev/null 2>&1; true', cwd=COQ)
        rc, out, err = sh(cmd, cwd=COQ, timeout=3300)
        return rc == 0, ('' if tok else 'translate: ' + tlog + '\n') + out + err, 'translate/translate /repo coq/theories/Generated && cd coq && ' + cmd


FORBIDDEN = re.compile(r'\b(Admitted|admit|Axioms?|Parameters?|Conjectures?|Unset Guard|Unset Positivity|Unset Universe|bypass_check|'
                       r'type-in-type|Admit Obligations|impredicative-set)\b')
SECTION_VAR = re.compile(r'^\s*(Local\s+|Global\s+)?(Variables?|Hypothes[ie]s|Context)\b')


def scan_forbidden():
    """Forbidden constructs anywhere in the development (comments of one line are ignored), and Variable / Hypothesis /
    Context declarations outside a Section (those would be axioms)."""
    hits = []
    for f in coq_sources() + [os.path.join(COQ, '_CoqProject')]:
        depth = 0
        in_comment = 0
        for i, line in enumerate(open(f, encoding='utf-8', errors='replace'), 1):
            code = re.sub(r'\(\*.*?\*\)', '', line)
            # multi-line comments: track nesting roughly
            opens, closes = code.count('(*'), code.count('*)')
            was_in = in_comment > 0
            in_comment = max(0, in_comment + opens - closes)
            if was_in or (opens > closes):
                continue
            if FORBIDDEN.search(code):
                hits.append('%s:%d: %s' % (os.path.relpath(f, ROOT), i, line.strip()))
            if re.match(r'^\s*Section\s+\w+\s*\.', code):
                depth += 1
            elif re.match(r'^\s*End\s+\w+\s*\.', code) and depth > 0:
                depth -= 1
            elif depth == 0 and SECTION_VAR.match(code):
                hits.append('%s:%d: outside a Section: %s' % (os.path.relpath(f, ROOT), i, line.strip()))
    return hits


def run_coqchk():
    """Thorough tier: re-check every compiled file of the development with the independent checker, once per source hash.
    Returns (ok, summary)."""
    h = hashlib.sha1()
    for f in coq_sources():
        h.update(open(f, 'rb').read())
    cache = os.path.join(BUILD, 'coqchk-%s.txt' % h.hexdigest()[:16])
    with Lock('coqchk'):
        if not os.path.exists(cache):
            mods = ['HC.Props.' + os.path.basename(f)[:-2] for f in coq_sources() if '/Props/' in f]
            rc, out, err = sh(['coqchk', '-silent', '-o', '-Q', 'theories', 'HC'] + mods, cwd=COQ, timeout=6000)
            txt = out + err
            i = txt.find('CONTEXT SUMMARY')
            summary = ' '.join(txt[i:].split()) if i >= 0 else txt[-800:]
            open(cache, 'w').write('%d\n%s\n' % (rc, summary))
        lines = open(cache).read().split('\n', 1)
    ok = lines[0].strip() == '0' and 'Axioms: <none>' in lines[1]
    return ok, 'coqchk -silent -o over all Props modules and their dependencies: ' + lines[1].strip()[:700]


STMT = re.compile(r'^\s*(Theorem|Lemma|Corollary|Example|Fact|Remark|Proposition)\s+([A-Za-z0-9_\']+)', re.M)


def cone_of(vfile):
    """Transitive dependencies of a .v file inside the development (via coqdep)."""
    rc, out, err = sh(['coqdep', '-Q', 'theories', 'HC'] + [os.path.relpath(f, COQ) for f in coq_sources()], cwd=COQ)
    deps = {}
    for line in out.splitlines():
        if ':' not in line:
            continue
        lhs, rhs = line.split(':', 1)
        tgt = [t for t in lhs.split() if t.endswith('.vo')]
        if not tgt:
            continue
        src = tgt[0][:-1]
        deps[src] = [d[:-1] for d in rhs.split() if d.endswith('.vo') and d.startswith('theories/')]
    seen, todo = set(), [os.path.relpath(vfile, COQ)]
    while todo:
        f = todo.pop()
        if f in seen:
            continue
        seen.add(f)
        todo.extend(deps.get(f, []))
    return sorted(seen)


def check_props(pid, build_ok):
    """Re-check Props/<pid>.v with coqc, collect Print Assumptions; count obligations of its cone."""
    vfile = os.path.join(COQ, 'theories', 'Props', pid + '.v')
    info = dict(obligations=0, discharged=0, assumptions=[], theorems=[], checker_cmd='', ok=False, log='')
    if not os.path.exists(vfile):
        info['log'] = 'no Props/%s.v' % pid
        return info
    cone = cone_of(vfile)
    n = 0
    for f in cone:
        src = open(os.path.join(COQ, f), encoding='utf-8', errors='replace').read()
        n += len(STMT.findall(src))
    info['obligations'] = n
    info['theorems'] = [m[1] for m in STMT.findall(open(vfile).read())]
    cmd = ['timeout', '900', 'coqc', '-Q', 'theories', 'HC', os.path.relpath(vfile, COQ)]
    info['checker_cmd'] = 'cd coq && make -j16 (full .vo build) && ' + ' '.join(cmd)
    if not build_ok:
        # some file of the development does not compile: this property is affected when its own cone is not up to date
        with Lock('coq'):
            rc, out, err = sh(['make', '-q', os.path.relpath(vfile, COQ) + 'o'], cwd=COQ, timeout=600)
        if rc != 0:
            info['log'] = 'the development does not build, and Props/%s.v depends on what fails' % pid
            return info
    with Lock('coq'):
        rc, out, err = sh(cmd, cwd=COQ, timeout=1000)
    info['log'] = (out + err)[-4000:]
    if rc != 0:
        return info
    vos = all(os.path.exists(os.path.join(COQ, f + 'o')) for f in cone)
    info['ok'] = vos
    info['discharged'] = n if vos else 0
    # Print Assumptions output: "Closed under the global context" or "Axioms:" blocks
    blocks = []
    cur = None
    for line in out.splitlines():
        if line.startswith('Closed under the global context'):
            blocks.append('Closed under the global context')
            cur = None
        elif line.startswith('Axioms:') or line.startswith('Section Variables:'):
            cur = [line]
            blocks.append(cur)
        elif cur is not None and (line.startswith(' ') or line.strip() == '' or ':' in line):
            cur.append(line)
    info['assumptions'] = ['\n'.join(b) if isinstance(b, list) else b for b in blocks]
    return info


# ---------------------------------------------------------------- model (extraction + OCaml)

def build_model():
    with Lock('model'):
        h = hashlib.sha256()
        for f in coq_sources() + [os.path.join(COQ, 'extract', 'Extract.v'), os.path.join(MODEL, 'driver.ml')]:
            h.update(open(f, 'rb').read())
        stamp = os.path.join(MODEL, '.stamp')
        binp = os.path.join(MODEL, 'modelbin')
        if os.path.exists(binp) and os.path.exists(stamp) and open(stamp).read() == h.hexdigest():
            return True, 'cached'
        rc, out, err = sh('coqc -Q ../coq/theories HC ../coq/extract/Extract.v && '
                          'ocamlfind ocamlopt -w -a model.mli model.ml driver.ml -o modelbin',
                          cwd=MODEL, timeout=900)
        if rc != 0:
            return False, out + err
        open(stamp, 'w').write(h.hexdigest())
        return True, out + err


# ---------------------------------------------------------------- Go harness

def build_harness():
    """go test -c against /repo's current working tree."""
    os.makedirs(BUILD, exist_ok=True)
    with Lock('harness'):
        out_bin = os.path.join(BUILD, 'harness.test')
        rc, out, err = sh([go_cmd(), 'test', '-c', '-o', out_bin, '.'], cwd=HARNESS, env=go_env(), timeout=900)
        return rc == 0, out + err, out_bin


def run_harness(test, env_extra, outdir, timeout=3000, race=False):
    env = go_env()
    env.update(env_extra)
    env['VERIF_OUT'] = outdir
    binp = os.path.join(BUILD, 'harness.test')
    rc, out, err = sh([binp, '-test.run', '^' + test + '$', '-test.count=1', '-test.timeout', '50m'],
                      cwd=HARNESS, env=env, timeout=timeout)
    return rc, out + err


def run_model(cases, out):
    rc, o, e = sh('./modelbin %s > %s' % (cases, out), cwd=MODEL, timeout=3000)
    return rc == 0, e


def run_monitor(cases, obs, out):
    rc, o, e = sh('./modelbin --monitor %s %s > %s' % (cases, obs, out), cwd=MODEL, timeout=3000)
    return rc == 0, e


# ---------------------------------------------------------------- observation lines

def _coq_bytes(tok):
    b = bytes.fromhex(tok[1:])
    return '[' + '; '.join(str(x) for x in b) + ']'


def _coq_headers(toks, i):
    nh = int(toks[i]); i += 1
    hs = []
    for _ in range(nh):
        name = _coq_bytes(toks[i]); nv = int(toks[i + 1]); i += 2
        vals = [_coq_bytes(toks[i + j]) for j in range(nv)]
        i += nv
        hs.append('(%s, [%s])' % (name, '; '.join(vals)))
    return '[' + '; '.join(hs) + ']', i


def kernel_crosscheck(cases_p, model_p, n, workdir):
    """The extracted model against the kernel: the first n sequential cases are written as Gallina terms, evaluated by
    vm_compute inside coqc, and the projected observations compared with what the extracted OCaml model printed.
    Returns (checked, problems)."""
    cases, order = load_cases(cases_p)
    model = load_obs(model_p)
    chosen = []
    defs = []
    for cid in order:
        if len(chosen) >= n:
            break
        lines = cases[cid].splitlines()
        head = lines[0].split()
        if head[0] != 'CASE' or head[2] != 'M' or cid not in model or any(o['res'] == 'U' for o, _ in model[cid]):
            continue
        reqs, script = [], []
        for l in lines[1:]:
            t = l.split()
            if not t:
                continue
            if t[0] == 'REQ':
                h, _ = _coq_headers(t, 4)
                reqs.append('mkreq (%s) %s %s %s' % (t[1], _coq_bytes(t[2]), _coq_bytes(t[3]), h))
            elif t[0] == 'REP':
                i = 2
                reps = []
                for _ in range(2):
                    kind, status, bodyok = t[i], t[i + 1], t[i + 2]
                    h, i = _coq_headers(t, i + 3)
                    reps.append('RErr' if kind == 'E' else
                                'RResp {| p_status := %s; p_hdr := %s; p_body := 0; p_body_ok := %s |}' % (status, h, 'true' if bodyok == '1' else 'false'))
                script.append('((%s), %s, %s)' % (t[1], reps[0], reps[1]))
        name = 'case_%d' % len(chosen)
        defs.append('Definition %s := run_case (%s) (%s) [%s] [%s].\nEval vm_compute in %s.\n' %
                    (name, head[3], head[4], '; '.join(reqs), '; '.join(script), name))
        chosen.append(cid)
    if not chosen:
        return 0, []
    src = ('From HC Require Import Transport Run.\nOpen Scope Z_scope.\n'
           'Definition mkreq (gap : Z) (m u : bytes) (h : headers) : option (Z * request) :=\n'
           '  match parse_url u with Some ((url, true), true) => Some (gap, {| q_method := m; q_url := url; q_hdr := h |}) | _ => None end.\n'
           'Fixpoint all_some {X} (l : list (option X)) : option (list X) :=\n'
           '  match l with [] => Some [] | Some x :: r => option_map (cons x) (all_some r) | None :: _ => None end.\n'
           'Definition proj (o : exchange_obs) :=\n'
           '  (x_t0 o, x_t1 o, match x_result o with Done (OResp r) => (1, p_status r, p_body r) | Done OErr => (2, 0, 0) | Done OPanic => (3, 0, 0) | Crashed => (3, 0, 0) | OutOfModel => (4, 0, 0) end,\n'
           '   Z.of_nat (List.length (x_events o)), Z.of_nat (List.length (x_bg_events o))).\n'
           'Definition run_case (cfg t0 : Z) (reqs : list (option (Z * request))) (script : list (Z * origin_reply * origin_reply)) :=\n'
           '  match all_some reqs with Some rs => map proj (run_history {| cfg_swr_timeout := cfg |} rs (init_world t0 script)) | None => [] end.\n'
           + ''.join(defs))
    vdir = os.path.join(workdir, 'kernel')
    os.makedirs(vdir, exist_ok=True)
    open(os.path.join(vdir, 'cases.v'), 'w').write(src)
    with Lock('coq'):
        rc, out, err = sh(['timeout', '900', 'coqc', '-Q', os.path.join(COQ, 'theories'), 'HC', 'cases.v'], cwd=vdir, timeout=1000)
    if rc != 0:
        return 0, ['coqc failed on the generated cases.v: ' + (out + err)[-600:]]
    blocks = re.split(r'\n\s*= ', '\n' + out)[1:]
    problems = []
    if len(blocks) != len(chosen):
        return 0, ['expected %d results from coqc, got %d' % (len(chosen), len(blocks))]
    code = {'R': 1, 'E': 2, 'P': 3, 'U': 4}
    for cid, blk in zip(chosen, blocks):
        nums = [int(x) for x in re.findall(r'-?\d+', blk.split(': list')[0])]
        want = []
        for o, _ in model[cid]:
            want += [o['t0'], o['t1'], code[o['res']], o.get('status', 0) if o['res'] == 'R' else 0, o.get('body', 0) if o['res'] == 'R' else 0,
                     len(o['fg']), len(o['bg'])]
        if nums != want:
            problems.append('case %s: the kernel computes %s, the extracted model printed %s' % (cid, nums[:40], want[:40]))
    return len(chosen), problems


def unhex(t):
    return bytes.fromhex(t[1:]).decode('latin1')


class Cur:
    def __init__(self, line):
        self.t = line.split()
        self.i = 0

    def next(self):
        v = self.t[self.i]
        self.i += 1
        return v

    def int(self):
        return int(self.next())

    def b(self):
        return unhex(self.next())


def read_headers(c):
    h = {}
    for _ in range(c.int()):
        name = c.b()
        h[name] = [c.b() for _ in range(c.int())]
    return h


def read_event(c):
    k = c.next()
    if k in ('G', 'g', 'D'):
        return dict(k=k, key=c.b(), f=c.int())
    if k == 'S':
        ev = dict(k='S', key=c.b(), body=c.int(), status=c.int(), req_at=c.int(), recv_at=c.int())
        ev['hdr'] = read_headers(c)
        return ev
    if k == 'I':
        key = c.b()
        n = c.int()
        refs = []
        for _ in range(max(n, 0)):
            t = c.next()
            if t == 'N':
                refs.append(None)
            else:
                r = dict(id=c.b(), vary=c.b(), recv=c.int())
                r['res'] = {}
                for _ in range(c.int()):
                    a = c.b()
                    r['res'][a] = c.b()
                refs.append(r)
        return dict(k='I', key=key, n=n, refs=refs)
    if k == 'C':
        ev = dict(k='C', idx=c.int(), t0=c.int(), t1=c.int(), kind=c.next(), method=c.b())
        ev['hdr'] = read_headers(c)
        return ev
    if k == 'F':
        ev = read_event(c)
        ev['suppressed'] = True
        return ev
    raise ValueError('event ' + k)


def parse_obs(line):
    c = Cur(line)
    c.next()
    o = dict(case=c.next(), k=c.int(), t0=c.int(), t1=c.int(), res=c.next())
    if o['res'] == 'R':
        o['status'] = c.int()
        o['body'] = c.int()
        o['bodyok'] = c.int()
        o['hdr'] = read_headers(c)
    n = c.int()
    o['fg'] = [read_event(c) for _ in range(max(n, 0))]
    o['bgok'] = c.int()
    n = c.int()
    o['bg'] = [read_event(c) for _ in range(max(n, 0))]
    return o


def load_obs(path):
    by_case = {}
    for line in open(path):
        if not line.strip():
            continue
        o = parse_obs(line)
        by_case.setdefault(o['case'], []).append((o, line))
    return by_case


def load_cases(path):
    cases, cur, cid = {}, [], None
    order = []
    for line in open(path):
        if line.startswith('CASE '):
            cid = line.split()[1]
            cur = [line]
        elif line.startswith('END'):
            cur.append(line)
            cases[cid] = ''.join(cur)
            order.append(cid)
        else:
            cur.append(line)
    return cases, order


def load_monitor(path):
    by_case = {}
    for line in open(path):
        t = line.split()
        if not t or t[0] != 'M':
            continue
        d = dict(kv.split('=', 1) for kv in t[3:])
        by_case.setdefault(t[1], {})[int(t[2])] = d
    return by_case


# ---------------------------------------------------------------- projections

class Renamer:
    """bijective renaming of store keys by first occurrence (a collision shows as unequal renamings)"""

    def __init__(self):
        self.m = {}

    def __call__(self, k):
        if k not in self.m:
            self.m[k] = len(self.m)
        return self.m[k]


def proj_event(ev, rn, full):
    k = ev['k']
    if k in ('G', 'g', 'D'):
        return (k, rn(ev['key']), ev['f'])
    if k == 'S':
        base = ('S', rn(ev['key']), ev['body'], ev['status'])
        if full:
            return base + (ev['req_at'], ev['recv_at'], tuple(sorted((a, tuple(b)) for a, b in ev['hdr'].items())))
        return base
    if k == 'I':
        refs = tuple(None if r is None else ((rn(r['id']), r['vary'], r['recv'], tuple(sorted(r['res'].items())))
                                               if full else (rn(r['id']), r['vary'])) for r in ev['refs'])
        return ('I', rn(ev['key']), ev['n'], refs)
    if k == 'C':
        h = ev['hdr']
        base = ('C', ev['idx'], ev['kind'], ev['method'], tuple(h.get('If-None-Match', [])),
                tuple(h.get('If-Modified-Since', [])))
        if full:
            return base + (ev['t0'], ev['t1'], tuple(sorted((a, tuple(b)) for a, b in h.items())))
        return base
    return (k,)


def project(o, parts, rn):
    out = []
    for p in parts:
        if p == 'outcome':
            out.append((o['res'], o.get('status'), o.get('body'), o.get('bodyok')))
        elif p == 'cache_status':
            h = o.get('hdr', {})
            out.append((tuple(h.get('X-Httpcache-Status', [])), tuple(h.get('X-From-Cache', []))))
        elif p == 'age':
            out.append(tuple(o.get('hdr', {}).get('Age', [])))
        elif p == 'headers':
            out.append(tuple(sorted((a, tuple(b)) for a, b in o.get('hdr', {}).items())))
        elif p == 'calls':
            out.append(tuple(proj_event(e, rn, False) for e in o['fg'] if e['k'] == 'C'))
            out.append(tuple(proj_event(e, rn, False) for e in o['bg'] if e['k'] == 'C'))
        elif p == 'ncalls':
            out.append((sum(1 for e in o['fg'] if e['k'] == 'C'), sum(1 for e in o['bg'] if e['k'] == 'C')))
        elif p == 'store':
            out.append(tuple(proj_event(e, rn, False) for e in o['fg'] if e['k'] != 'C'))
            out.append(tuple(proj_event(e, rn, False) for e in o['bg'] if e['k'] != 'C'))
        elif p == 'store_full':
            out.append(tuple(proj_event(e, rn, True) for e in o['fg'] if e['k'] != 'C'))
            out.append(tuple(proj_event(e, rn, True) for e in o['bg'] if e['k'] != 'C'))
        elif p == 'writes':
            out.append(tuple(proj_event(e, rn, False) for e in o['fg'] + o['bg'] if e['k'] in ('S', 'I', 'D')))
        elif p == 'times':
            out.append((o['t0'], o['t1']))
        elif p == 'all':
            out.append((o['t0'], o['t1'], o['res'], o.get('status'), o.get('body'), o.get('bodyok'),
                        tuple(sorted((a, tuple(b)) for a, b in o.get('hdr', {}).items())),
                        tuple(proj_event(e, rn, True) for e in o['fg']), o['bgok'],
                        tuple(proj_event(e, rn, True) for e in o['bg'])))
    return tuple(out)


def pretty_line(line):
    out = []
    for t in line.split():
        if t.startswith('x') and len(t) % 2 == 1 and re.fullmatch(r'x[0-9a-f]*', t):
            try:
                out.append(repr(unhex(t)))
                continue
            except Exception:
                pass
        out.append(t)
    return ' '.join(out)


# ---------------------------------------------------------------- known findings

def load_known():
    p = os.path.join(ROOT, 'known_findings.json')
    if not os.path.exists(p):
        return []
    return json.load(open(p)).get('findings', [])


def known_open(pid, code, known):
    for f in known:
        if f.get('status') == 'open' and f['property'] == pid and str(code) in [str(c) for c in f.get('codes', [])]:
            return f
    return None


# ---------------------------------------------------------------- the e2e engine

FAULT_RUN_CODES = {'C18': ('C18:1',)}


def e2e_engine(pid, spec, tier, seed, workdir, res):
    """Generated histories: implementation vs model (projected) and monitors on the implementation."""
    runs = spec['e2e']
    known = load_known()
    for r in runs:
        prof = r['profile']
        n = r['n_thorough'] if tier == 'thorough' else r['n_quick']
        out = os.path.join(workdir, prof + '-' + r.get('backend', 'mem'))
        os.makedirs(out, exist_ok=True)
        env = dict(VERIF_PROFILE=prof, VERIF_N=str(n), VERIF_SEED=str(seed), VERIF_CORPUS=os.path.join(ROOT, 'corpus', pid),
                   VERIF_BACKEND=r.get('backend', ''))
        if r.get('twins'):
            env['VERIF_TWINS'] = '1'
        if r.get('faults'):
            env['VERIF_FAULTS'] = '1'
        res['distribution']['backend:' + r.get('backend', 'mem')] = res['distribution'].get('backend:' + r.get('backend', 'mem'), 0) + n
        rc, log = run_harness(r.get('test', 'TestE2E'), env, out)
        if rc != 0 or not os.path.exists(os.path.join(out, 'impl.txt')):
            cur = os.path.join(out, 'current.case')
            if 'panic:' in log and os.path.exists(cur):
                # the process died of a panic outside the calling goroutine: a violation of "no panic" with this input
                trace = log[log.index('panic:'):][:1800]
                code = 'C10:process-panic'
                kf = known_open(pid, code, known)
                if 'C10' in spec.get('monitors', []) and not kf:
                    res['violations'].append(dict(kind='monitor', code=code, case=open(cur).read().split()[1], profile=prof,
                                                  payload=dict(case=open(cur).read(), panic=trace,
                                                               note='the harness process crashed while running this case: a panic in a goroutine started by the transport')))
                    continue
            res['errors'].append('harness run failed for profile %s: %s' % (prof, log[-2000:]))
            continue
        cases_p, impl_p = os.path.join(out, 'cases.txt'), os.path.join(out, 'impl.txt')
        model_p, mon_p = os.path.join(out, 'model.txt'), os.path.join(out, 'mon_impl.txt')
        ok, e = run_model(cases_p, model_p)
        if not ok:
            res['errors'].append('model run failed: ' + e[-1000:])
            continue
        ok, e = run_monitor(cases_p, impl_p, mon_p)
        if not ok:
            res['errors'].append('monitor run failed: ' + e[-1000:])
            continue
        cases, order = load_cases(cases_p)
        impl = load_obs(impl_p)
        model = load_obs(model_p)
        mon = load_monitor(mon_p)
        # the extraction itself: a sample of the cases re-evaluated by the kernel (vm_compute) and compared with the OCaml model
        kn = 150 if tier == 'thorough' else 12
        if not res['extra'].get('kernel_crosscheck'):
            checked, kprob = kernel_crosscheck(cases_p, model_p, kn, out)
            res['extra']['kernel_crosscheck'] = dict(cases=checked, problems=kprob[:5],
                                                     what='run_history evaluated by vm_compute inside coqc on the same cases; compared with the extracted OCaml model: instants, outcome, status, body token, numbers of store/origin events')
            for kp in kprob[:1]:
                res['errors'].append('extraction cross-check: ' + kp)
        parts = r.get('projection', spec.get('projection', ['outcome', 'ncalls']))
        mkeys = r.get('monitors', spec.get('monitors', [pid]))
        dist = res['distribution']
        nontrivial = set()
        for cid in order:
            res['evaluations'] += 1
            io = impl.get(cid, [])
            mo = model.get(cid, [])
            unmodelled = any(o['res'] == 'U' for o, _ in mo) or cases[cid].split()[2] == 'W'
            # monitors on the implementation
            for k, d in sorted(mon.get(cid, {}).items()):
                dist['how:' + re.sub(r':\d+$', '', d.get('how', '?'))] = dist.get('how:' + re.sub(r':\d+$', '', d.get('how', '?')), 0) + 1
                if 'urlwf' in d and pid == 'C03':
                    dist['url-in-theorem-domain:' + d['urlwf']] = dist.get('url-in-theorem-domain:' + d['urlwf'], 0) + 1
                for mk in mkeys:
                    v = d.get(mk, 'na')
                    dist[mk + ':' + v.split(':')[0]] = dist.get(mk + ':' + v.split(':')[0], 0) + 1
                    if v != 'na':
                        nontrivial.add(hashlib.sha1(cases[cid].split('\n', 1)[1].encode()).hexdigest())
                    if v.startswith('bad'):
                        code = mk + ':' + v.split(':', 1)[1]
                        # histories run with store faults: what a read returns may differ from what was written (damaged
                        # or undecodable bytes), so verdicts that compare with the stored response as written do not apply;
                        # what does: no panic / definite outcome (C10), no origin call under only-if-cached (C18 code 1)
                        if '~f' in cid and code not in FAULT_RUN_CODES.get(mk, ()) and mk != 'C10':
                            continue
                        kf = known_open(pid, code, known)
                        if kf:
                            res['known'].setdefault(kf['id'], dict(finding=kf, count=0, example=cid))
                            res['known'][kf['id']]['count'] += 1
                        else:
                            res['violations'].append(dict(kind='monitor', code=code, case=cid, exchange=k,
                                                          profile=prof, dir=out))
            if unmodelled:
                res['unmodelled'] += 1
                continue
            res['traces_validated'] += 1
            rn_i, rn_m = Renamer(), Renamer()
            if len(io) != len(mo):
                res['mismatches'].append(dict(case=cid, exchange=min(len(io), len(mo)), profile=prof, dir=out,
                                              why='different number of exchanges'))
                continue
            for (a, _), (b, _) in zip(io, mo):
                if project(a, parts, rn_i) != project(b, parts, rn_m):
                    res['mismatches'].append(dict(case=cid, exchange=a['k'], profile=prof, dir=out,
                                                  why='projected observables differ: ' + ','.join(parts)))
                    break
        res['nontrivial'] |= nontrivial
        # request objects: the caller's request is never modified, and the request handed to the upstream neither is the
        # caller's object nor goes anywhere but to the client's URL.  For C02 / C16 (and C03 for the URL) that is the
        # property itself; for the other properties it is a difference between the implementation and the model, whose
        # requests are immutable values
        notes_p = os.path.join(out, 'reqnotes.txt')
        if os.path.exists(notes_p):
            for line in open(notes_p):
                t = line.rstrip('\n').split(' ', 4)
                if len(t) < 5 or t[0] != 'N' or t[1] not in cases:
                    continue
                dist['reqnote:' + t[3]] = dist.get('reqnote:' + t[3], 0) + 1
                direct = pid in ('C02', 'C16') or (pid == 'C03' and t[3] != 'caller-request-modified')
                if direct:
                    res['violations'].append(dict(kind='monitor', code=pid + ':' + t[3], case=t[1], exchange=int(t[2]), profile=prof, dir=out,
                                                  payload=dict(request_objects=t[4][:1500])))
                else:
                    res['mismatches'].append(dict(case=t[1], exchange=int(t[2]), profile=prof, dir=out,
                                                  why='request objects: ' + t[3] + ' (the model treats requests as immutable values): ' + t[4][:600]))
        # metamorphic twins (C12): the same history with canonical Cache-Control spelling must behave identically
        if r.get('twins'):
            tparts = ['outcome', 'cache_status', 'age', 'calls', 'store']
            for cid in order:
                if not cid.endswith('~c'):
                    continue
                base = cid[:-2]
                a_obs, b_obs = impl.get(base, []), impl.get(cid, [])
                dist['twin:pairs'] = dist.get('twin:pairs', 0) + 1
                rn_a, rn_b = Renamer(), Renamer()
                bad = None
                if len(a_obs) != len(b_obs):
                    bad = min(len(a_obs), len(b_obs))
                else:
                    for (a, _), (b, _) in zip(a_obs, b_obs):
                        if project(a, tparts, rn_a) != project(b, tparts, rn_b):
                            bad = a['k']
                            break
                if bad is not None:
                    code = 'C12:spelling-changes-behaviour'
                    if not known_open(pid, code, known):
                        res['violations'].append(dict(kind='monitor', code=code, case=base, exchange=bad, profile=prof, dir=out, twin=cid))
        # samples
        for cid in order[:2]:
            res['samples'].append(dict(case=cid, profile=prof,
                                       requests=[pretty_line(l) for l in cases[cid].splitlines() if l.startswith('REQ')][:4],
                                       observed=[pretty_line(l)[:400] for _, l in impl.get(cid, [])][:3]))


# ---------------------------------------------------------------- the store engine (C14)

def store_engine(pid, spec, tier, seed, workdir, res):
    """Operation sequences on memcache / fscache / encrypted fscache (with reopen) against the extracted
    tree model (tie) and the map specification (property)."""
    known = load_known()
    out = os.path.join(workdir, 'store')
    os.makedirs(out, exist_ok=True)
    cfg = spec['store']
    n = cfg['n_thorough'] if tier == 'thorough' else cfg['n_quick']
    env = dict(VERIF_N=str(n), VERIF_SEED=str(seed), VERIF_NOPS=str(cfg.get('nops', 30)),
               VERIF_MAXVAL=str(cfg['maxval_thorough'] if tier == 'thorough' else cfg['maxval_quick']))
    rc, log = run_harness('TestStoreOps', env, out)
    if rc != 0 or not os.path.exists(os.path.join(out, 'simpl.txt')):
        res['errors'].append('store harness failed: ' + log[-1500:])
        return
    rc2, o, e = sh('./modelbin %s > %s' % (os.path.join(out, 'scases.txt'), os.path.join(out, 'smodel.txt')), cwd=MODEL)
    if rc2 != 0:
        res['errors'].append('store model failed: ' + e[-800:])
        return
    impl = {tuple(l.split()[1:3]): l.strip() for l in open(os.path.join(out, 'simpl.txt'))}
    mod, spc = {}, {}
    for l in open(os.path.join(out, 'smodel.txt')):
        t = l.split()
        if t[0] == 'SR':
            mod[(t[1], t[2])] = l.strip()
        elif t[0] == 'SS':
            spc[(t[1], t[2])] = 'SR' + l.strip()[2:]
    cases = {}
    cur = None
    for l in open(os.path.join(out, 'scases.txt')):
        if l.startswith('SCASE'):
            cur = l.split()[1]; cases[cur] = [l]
        else:
            cases[cur].append(l)
    kinds = res['distribution']
    for cid, lines in cases.items():
        res['evaluations'] += 1
        res['traces_validated'] += 1
        for l in lines:
            t = l.split()
            if t[0] == 'OP':
                kinds['op:' + t[1] + (':api' if t[-1] == 'A' else '')] = kinds.get('op:' + t[1] + (':api' if t[-1] == 'A' else ''), 0) + 1
        res['nontrivial'].add(hashlib.sha1(''.join(lines[1:]).encode()).hexdigest())
    bad_spec = [k for k in impl if impl[k] != spc.get(k)]
    bad_model = [k for k in impl if impl[k] != mod.get(k)]
    for k in bad_spec:
        code = 'C14:api-list-nonutf8' if k[0] == 'st-probe-binarykey-api' and 'efbfbd' in impl[k] else 'C14:map'
        kf = known_open(pid, code, known)
        if kf:
            res['known'].setdefault(kf['id'], dict(finding=kf, count=0, example=k[0]))
            res['known'][kf['id']]['count'] += 1
            continue
        res['violations'].append(dict(kind='monitor', code=code, case=k[0], exchange=int(k[1]),
                                      payload=dict(store_case=''.join(cases.get(k[0], [])), op_index=int(k[1]),
                                                   implementation=pretty_line(impl[k])[:600], map_spec=pretty_line(spc.get(k, '-'))[:600])))
    for k in bad_model:
        if k in bad_spec:
            continue
        res['mismatches'].append(dict(case=k[0], exchange=int(k[1]), why='store model and implementation differ',
                                      payload=dict(store_case=''.join(cases.get(k[0], [])), implementation=impl[k][:400], model=mod.get(k, '-')[:400])))
    first = sorted(cases)[1] if len(cases) > 1 else sorted(cases)[0]
    res['samples'].append(dict(case=first, ops=[pretty_line(l)[:160] for l in cases[first][:8]],
                               results=[pretty_line(impl[k])[:120] for k in sorted(impl) if k[0] == first][:8]))


# ---------------------------------------------------------------- the atomicity engine (C15)

def canon_strace(path):
    """segments of the traced little program -> canonical system-call names"""
    pending = {}
    lines = []
    for raw in open(path, errors='replace'):
        m = re.match(r'^(\d+)\s+(.*)$', raw.rstrip())
        if not m:
            continue
        pid, rest = m.group(1), m.group(2)
        if rest.endswith('<unfinished ...>'):
            # the call keeps the position of its start: a marker written before an operation must stay before it
            pending[pid] = (len(lines), rest[:-len('<unfinished ...>')])
            lines.append('')
            continue
        r = re.match(r'<\.\.\. \w+ resumed>(.*)$', rest)
        if r and pid in pending:
            pos, head = pending.pop(pid)
            lines[pos] = head.rstrip() + r.group(1)
            continue
        lines.append(rest)
    segs, cur, fds = {}, None, {}
    for l in lines:
        mk = re.match(r'write\(1, "MARK-(\w+)', l)
        if mk:
            cur = mk.group(1)
            segs[cur] = []
            continue
        if cur is None or cur == 'END':
            continue
        m = re.match(r'openat\((\d+|AT_FDCWD), "([^"]*)", ([A-Z_|0-9]+)(?:, \d+)?\)\s+= (-?\d+)', l)
        if m:
            name, flags, fd = m.group(2), m.group(3), int(m.group(4))
            base = name.rsplit('/', 1)[-1]
            if fd < 0 or 'O_DIRECTORY' in flags or '/proc' in name or '/sys' in name or name.startswith('/dev'):
                continue
            tmp = base.startswith('.tmp-')
            if 'O_EXCL' in flags and 'O_CREAT' in flags:
                segs[cur].append('open_excl_tmp' if tmp else 'open_excl_final'); fds[fd] = 1
            elif 'O_TRUNC' in flags or 'O_CREAT' in flags or 'O_WRONLY' in flags or 'O_RDWR' in flags:
                segs[cur].append('open_write_' + ('tmp' if tmp else 'final') + ('_trunc' if 'O_TRUNC' in flags else '')); fds[fd] = 1
            elif 'verif' in name or not name.startswith('/'):
                segs[cur].append('open_read_' + ('tmp' if tmp else 'final')); fds[fd] = 1
            continue
        m = re.match(r'(write|read|fsync|close|ftruncate)\((\d+)', l)
        if m and int(m.group(2)) in fds:
            op = m.group(1)
            if op == 'read' and segs[cur] and segs[cur][-1] == 'read':
                continue
            if op == 'write' and segs[cur] and segs[cur][-1] == 'write':
                continue
            segs[cur].append(op)
            if op == 'close':
                fds.pop(int(m.group(2)), None)
            continue
        m = re.match(r'renameat2?\((?:\d+|AT_FDCWD), "([^"]*)", (?:\d+|AT_FDCWD), "([^"]*)"', l)
        if m:
            a, b = m.group(1).rsplit('/', 1)[-1], m.group(2).rsplit('/', 1)[-1]
            segs[cur].append('rename_%s_%s' % ('tmp' if a.startswith('.tmp-') else 'final', 'tmp' if b.startswith('.tmp-') else 'final'))
            continue
        m = re.match(r'unlinkat\((?:\d+|AT_FDCWD), "([^"]*)"', l)
        if m:
            segs[cur].append('unlink_' + ('tmp' if m.group(1).rsplit('/', 1)[-1].startswith('.tmp-') else 'final'))
    return segs


def atomic_engine(pid, spec, tier, seed, workdir, res):
    known = load_known()
    out = os.path.join(workdir, 'atomic')
    os.makedirs(out, exist_ok=True)
    rc, log = run_harness('TestAtomicity', dict(VERIF_SEED=str(seed), VERIF_TIER=tier), out, timeout=3400)
    if rc != 0 or not os.path.exists(os.path.join(out, 'atomic.txt')):
        res['errors'].append('atomicity harness failed: ' + log[-1500:])
        return
    kinds = res['distribution']
    for l in open(os.path.join(out, 'atomic.txt')):
        t = l.split()
        res['evaluations'] += 1
        kinds['exp:' + t[0]] = kinds.get('exp:' + t[0], 0) + 1
        res['nontrivial'].add(hashlib.sha1(l.rsplit(' ', 1)[0].encode()).hexdigest())
        if len(res['samples']) < 4 and (t[0] != 'CUT' or 'limit=3 ' in l):
            res['samples'].append(l.strip())
        if t[-1] == 'BAD':
            code = 'C15:' + t[0].lower()
            if not known_open(pid, code, known):
                res['violations'].append(dict(kind='monitor', code=code, case=l.strip()[:80],
                                              payload=dict(experiment=l.strip(), meaning='CUT: child process wrote under RLIMIT_FSIZE=limit; KILL: writer killed; STORM: concurrent operations checked with porcupine')))
    # system-call programs
    rc, log = run_harness('TestSyscallProgram', {}, out, timeout=600)
    rc2, o, e = sh('echo SYSCALLS | ./modelbin', cwd=MODEL)
    want = {}
    for l in o.splitlines():
        t = l.split()
        want[t[0]] = t[1:]
    for enc in ('0', '1'):
        p = os.path.join(out, 'strace-%s.txt' % enc)
        if not os.path.exists(p) or os.path.getsize(p) == 0:
            res['errors'].append('no strace output (strace missing or failed): ' + log[-300:])
            continue
        segs = canon_strace(p)
        got = {'SET': segs.get('SET1'), 'SET(overwrite)': segs.get('SET2'), 'GET': segs.get('GET'), 'DELETE': segs.get('DEL')}
        res['extra'].setdefault('syscall_programs', {})['enc=' + enc] = got
        for name, prog in got.items():
            res['traces_validated'] += 1
            exp = want[name.split('(')[0]]
            if prog != exp:
                res['mismatches'].append(dict(case='syscalls-' + name, exchange=0, why='system-call program differs from the model',
                                              payload=dict(operation=name, encryption=enc, observed=prog, model=exp,
                                                           strace=[l.rstrip()[:300] for l in open(p, errors='replace')][:400])))


def encrypt_engine(pid, spec, tier, seed, workdir, res):
    """C17: experiments on the encrypted backend + the wiring grid compared with the model (Crypto.from_url)."""
    known = load_known()
    out = os.path.join(workdir, 'encrypt')
    os.makedirs(out, exist_ok=True)
    rc, log = run_harness('TestEncryption', dict(VERIF_SEED=str(seed), VERIF_TIER=tier), out, timeout=3400)
    if rc != 0 or not os.path.exists(os.path.join(out, 'encrypt.txt')):
        res['errors'].append('encryption harness failed: ' + log[-1500:])
        return
    kinds = res['distribution']
    wires = []
    for l in open(os.path.join(out, 'encrypt.txt')):
        t = l.split()
        if not t:
            continue
        res['evaluations'] += 1
        kinds['exp:' + t[0]] = kinds.get('exp:' + t[0], 0) + 1
        res['nontrivial'].add(hashlib.sha1(l.encode()).hexdigest())
        if t[0] == 'WIRE':
            wires.append(t)
            continue
        if len(res['samples']) < 5 and t[0] in ('TAMPER', 'CONFIG', 'TRANSPORT') and kinds['exp:' + t[0]] <= 2:
            res['samples'].append(l.strip())
        if t[-1] == 'BAD':
            code = 'C17:' + t[0].lower()
            if not known_open(pid, code, known):
                res['violations'].append(dict(kind='monitor', code=code, case=l.strip()[:80],
                                              payload=dict(experiment=l.strip(), meaning='CONFIG: a way of enabling encryption; TAMPER: a modified file was accepted / wrong key / plaintext; TRANSPORT: tampered entry through the RoundTripper')))
    # concurrent writers under the race detector: one nonce per write, no shared state between operations
    ok, blog, _ = build_race_harness()
    if not ok:
        res['errors'].append('race-detector build of the harness failed: ' + blog[-800:])
    else:
        env = go_env()
        env.update(dict(VERIF_OUT=out, VERIF_SEED=str(seed)))
        rc3, o3, e3 = sh([os.path.join(BUILD, 'harness.race.test'), '-test.run', '^TestEncryptConcurrent$', '-test.count=1', '-test.timeout', '20m'], cwd=HARNESS, env=env, timeout=1500)
        rlog = o3 + e3
        res['evaluations'] += 1
        kinds['exp:CONCURRENT'] = kinds.get('exp:CONCURRENT', 0) + 1
        cp = os.path.join(out, 'encconc.txt')
        cline = open(cp).read().strip() if os.path.exists(cp) else ''
        if 'WARNING: DATA RACE' in rlog:
            i = rlog.index('WARNING: DATA RACE')
            if not known_open(pid, 'C17:concurrent-writers-race', known):
                res['violations'].append(dict(kind='monitor', code='C17:concurrent-writers-race', case='encrypt-concurrent',
                                              payload=dict(race_report=rlog[i:i + 5000], experiment=cline, how='harness/encrypt_test.go TestEncryptConcurrent built with -race: 8 goroutines x 150 Set/Get on one encrypted fscache')))
        elif cline.endswith('BAD') or rc3 != 0:
            if not known_open(pid, 'C17:concurrent', known):
                res['violations'].append(dict(kind='monitor', code='C17:concurrent', case='encrypt-concurrent', payload=dict(experiment=cline, log=rlog[-1500:])))
        elif not cline:
            res['errors'].append('concurrent-writers experiment did not complete: ' + rlog[-800:])
    # the wiring grid against the model
    q = ''.join('ENC %s\n' % ' '.join(t[1:-1]) for t in wires)
    rc2, o, e = sh('./modelbin', cwd=MODEL, stdin=q)
    got = [x.split()[1] for x in o.splitlines() if x.startswith('W ')]
    if len(got) != len(wires):
        res['errors'].append('model wiring output: %d lines for %d queries: %s' % (len(got), len(wires), e[-300:]))
        return
    for t, m in zip(wires, got):
        res['traces_validated'] += 1
        obs = t[-1]
        kinds['wire:' + obs.split(':')[0]] = kinds.get('wire:' + obs.split(':')[0], 0) + 1
        requested = t[1] == 'O' or unhex(t[2]) in ('on', 'aesgcm')
        if requested and not (obs == 'err' or obs.startswith('key:')):
            code = 'C17:requested-but-off' if obs == 'plain' else 'C17:unusable-key-accepted'
            if not known_open(pid, code, known):
                res['violations'].append(dict(kind='monitor', code=code, case=' '.join(t)[:80],
                                              payload=dict(wire=' '.join(t), meaning=('encryption was requested, Open succeeded and values are stored without it' if obs == 'plain' else
                                                                                      'encryption was requested with a key that is not a base64url AES key of 16/24/32 bytes; Open succeeded and the files open under none of the well-formed keys of the configuration'),
                                                           parameters=[unhex(x) for x in t[2:-1]])))
        if obs != m:
            res['mismatches'].append(dict(case='wire-' + '-'.join(t[1:-1])[:60], exchange=0, why='encryption wiring differs from the model',
                                          payload=dict(parameters=[unhex(x) for x in t[2:-1]], how=t[1], observed=obs, model=m)))


def swr_engine(pid, spec, tier, seed, workdir, res):
    """C20: stale-while-revalidate experiments in virtual time against Swr.swr_predict."""
    known = load_known()
    out = os.path.join(workdir, 'swr')
    os.makedirs(out, exist_ok=True)
    rc, log = run_harness('TestSWR', dict(VERIF_SEED=str(seed), VERIF_TIER=tier), out, timeout=3400)
    if rc != 0 or not os.path.exists(os.path.join(out, 'swr.txt')):
        res['errors'].append('stale-while-revalidate harness failed: ' + log[-1500:])
        return
    UNSET = str(-1 << 62)
    exps = []
    for l in open(os.path.join(out, 'swr.txt')):
        left, _, right = l.partition(' | ')
        t = left.split()
        obs = dict(kv.split('=', 1) for kv in re.findall(r'(\w+=(?:"(?:[^"\\]|\\.)*"|\S+))', right))
        exps.append((t[1:], obs, l.strip()))
    q = ''.join('SWRX %s %s %s %s\n' % ('U' if t[0] == UNSET else t[0], 'N' if t[1] == '-1' else t[1], 'N' if t[2] == UNSET else t[2],
                                          'N' if t[5] == '0' else t[5]) for t, _, _ in exps)
    rc2, o, e = sh('./modelbin', cwd=MODEL, stdin=q)
    preds = [dict(kv.split('=', 1) for kv in x.split()[1:]) for x in o.splitlines() if x.startswith('P ')]
    if len(preds) != len(exps):
        res['errors'].append('model prediction output: %d lines for %d experiments: %s' % (len(preds), len(exps), e[-300:]))
        return
    kinds = res['distribution']
    for (t, obs, line), p in zip(exps, preds):
        res['evaluations'] += 1
        res['traces_validated'] += 1
        res['nontrivial'].add(hashlib.sha1(line.encode()).hexdigest())
        lat_kind = 'never' if t[1] == '-1' else ('beyond-timeout' if p['cancelled'] == 'true' else 'within-timeout')
        kinds['latency:' + lat_kind] = kinds.get('latency:' + lat_kind, 0) + 1
        kinds['cancel:' + ('none' if t[2] == UNSET else 'before' if t[2] == '-1' else 'after')] = kinds.get('cancel:' + ('none' if t[2] == UNSET else 'before' if t[2] == '-1' else 'after'), 0) + 1
        kinds['setting:' + ('unset' if t[0] == UNSET else 'nonpositive' if int(t[0]) <= 0 else 'positive')] = kinds.get('setting:' + ('unset' if t[0] == UNSET else 'nonpositive' if int(t[0]) <= 0 else 'positive'), 0) + 1
        kinds['outcome:' + t[3]] = kinds.get('outcome:' + t[3], 0) + 1
        dk = 'caller-deadline:' + ('none' if t[5] == '0' else 'before-timeout' if p['deadline'] == t[5] else 'after-timeout')
        kinds[dk] = kinds.get(dk, 0) + 1
        if len(res['samples']) < 4 and kinds['latency:' + lat_kind] <= 1:
            res['samples'].append(line[:400])
        # the property, on the implementation
        bad = []
        if 'fg_latency' not in obs:
            bad.append(('experiment-failed', 'the experiment did not complete: ' + line[-200:]))
        else:
            if obs['fg_latency'] != '0':
                bad.append(('foreground-waited', 'the caller waited %s ns for the stale response' % obs['fg_latency']))
            if obs['fg_err'] != 'false' or obs['fg_status'] != 'STALE' or obs['fg_body_ok'] != 'true':
                bad.append(('foreground-failed', 'the foreground response: err=%s status=%s body_ok=%s' % (obs['fg_err'], obs['fg_status'], obs['fg_body_ok'])))
            if obs['bg_calls'] != '1':
                bad.append(('revalidation-count', '%s background revalidation requests were sent' % obs['bg_calls']))
            want_cond = int(t[4]) & 3
            if obs['bg_calls'] == '1' and int(obs['cond']) != want_cond:
                bad.append(('not-conditional', 'validators stored: %d (1=ETag, 2=Last-Modified), conditional fields sent: %s' % (want_cond, obs['cond'])))
            if obs['bg_calls'] == '1' and (obs['deadline'] != p['deadline'] or int(obs['bg_end']) > int(p['deadline'])):
                bad.append(('timeout', 'deadline %s ns after the start of the background request (expected %s); it ended after %s ns' % (obs['deadline'], p['deadline'], obs['bg_end'])))
            if obs['goroutines_left'] != '0' or 'bubble_panic' in obs:
                bad.append(('goroutine-leak', '%s goroutines of the library left after the background request ended: %s' % (obs['goroutines_left'], obs.get('leaked_at', obs.get('bubble_panic', '')))))
        for code, what in bad:
            code = 'C20:' + code
            if not known_open(pid, code, known):
                res['violations'].append(dict(kind='monitor', code=code, case=' '.join(t),
                                              payload=dict(experiment=line, what=what, parameters=dict(swr_timeout_setting_ns=('unset' if t[0] == UNSET else int(t[0])),
                                                           origin_latency_ns=('never' if t[1] == '-1' else int(t[1])),
                                                           caller_context=('not cancelled' if t[2] == UNSET else 'cancelled before the call' if t[2] == '-1' else 'cancelled %s ns after the response was returned' % t[2]),
                                                           caller_deadline_ns=('none' if t[5] == '0' else int(t[5])),
                                                           background_outcome=t[3], validators=int(t[4])))))
        # correspondence with the model's prediction
        if 'fg_latency' in obs:
            for k in ('fg_latency', 'bg_calls', 'deadline', 'bg_end', 'cancelled', 'goroutines_left'):
                if obs.get(k) != p[k]:
                    res['mismatches'].append(dict(case='swr-' + '-'.join(t), exchange=0, why='%s: observed %s, model %s' % (k, obs.get(k), p[k]),
                                                  payload=dict(experiment=line, model=p)))
                    break


def lateinval_engine(pid, spec, tier, seed, workdir, res):
    """C07: an unsafe request that succeeds while a stale-while-revalidate background validation of the target is in
    flight; the answer to the validation (decided by the origin before the unsafe request) arrives afterwards."""
    known = load_known()
    out = os.path.join(workdir, 'lateinval')
    os.makedirs(out, exist_ok=True)
    rc, log = run_harness('TestLateInvalidation', {}, out, timeout=900)
    lp = os.path.join(out, 'lateinval.txt')
    if rc != 0 or not os.path.exists(lp):
        res['errors'].append('late-invalidation experiment failed to run: ' + log[-800:])
        return
    kinds = res['distribution']
    for line in open(lp):
        res['evaluations'] += 1
        if line.split()[-1] == 'SKIP':
            res['errors'].append('late-invalidation experiment did not reach the in-flight validation: ' + line.strip()[:300])
            continue
        res['nontrivial'].add(hashlib.sha1(line.encode()).hexdigest())
        kinds['scenario:late-validation-after-invalidation'] = kinds.get('scenario:late-validation-after-invalidation', 0) + 1
        if line.split()[-1] == 'BAD':
            code = 'C07:late-validation-restores'
            if not known_open(pid, code, known):
                res['violations'].append(dict(kind='monitor', code=code, case='lateinval',
                                              payload=dict(scenario=line.strip(), how='harness/lateinval_test.go TestLateInvalidation: GET (stored), GET in the stale-while-revalidate window with the '
                                                           'answer to the background validation held at the origin, the unsafe request (2xx/3xx: invalidates), the answer released, GET: the response stored '
                                                           'before the unsafe request is served again without validation; model: Props/C07.v C07_late_validation_discarded')))
    if len(res['samples']) < 6:
        res['samples'].append(open(lp).readline().strip()[:400])


OVERLAP_SCENARIOS = {
    'C02': ['foreground-validated'],
    'C08': ['replace', 'second-variant-stored'],
    'C19': ['second-variant-stored', 'second-variant-invalidated', 'invalidated', 'foreground-invalidated'],
    'C20': ['second-variant-stale', 'invalidated'],
}
OVERLAP_CODES = {
    'C02': ['unvalidated-successor-returned'],
    'C08': ['replaced-representation-served', 'variant-lost'],
    'C19': ['orphan-after-invalidation'],
    'C20': ['revalidation-count'],
}


def overlap_engine(pid, spec, tier, seed, workdir, res):
    """C08 / C19 / C20: requests of the same client while a stale-while-revalidate background validation is in flight
    (its answer decided by the origin, held, released afterwards)."""
    known = load_known()
    out = os.path.join(workdir, 'overlap')
    os.makedirs(out, exist_ok=True)
    rc, log = run_harness('TestOverlap', {}, out, timeout=900)
    lp = os.path.join(out, 'overlap.txt')
    if rc != 0 or not os.path.exists(lp):
        res['errors'].append('overlap experiment failed to run: ' + log[-800:])
        return
    kinds = res['distribution']
    for line in open(lp):
        m = re.match(r'OVERLAP scenario=(\S+) \| (.*) (ok|BAD|SKIP)$', line.strip())
        if not m or m.group(1) not in OVERLAP_SCENARIOS.get(pid, []):
            continue
        res['evaluations'] += 1
        kinds['overlap:' + m.group(1) + ':' + m.group(3)] = kinds.get('overlap:' + m.group(1) + ':' + m.group(3), 0) + 1
        if m.group(3) == 'SKIP':
            res['errors'].append('overlap experiment %s did not reach its overlap: %s' % (m.group(1), m.group(2)))
            continue
        res['nontrivial'].add('overlap-' + m.group(1))
        if m.group(3) == 'BAD':
            pm = re.search(r'problems="(.*)"', m.group(2))
            probs = [x.strip() for x in (pm.group(1) if pm else '').split(' ; ') if x.strip()]
            mine = [x for x in probs if x.split(':')[0] in OVERLAP_CODES[pid]]
            other = [x for x in probs if x not in mine]
            for x in mine:
                code = pid + ':' + x.split(':')[0]
                if not known_open(pid, code, known):
                    res['violations'].append(dict(kind='monitor', code=code, case='overlap-' + m.group(1),
                                                  payload=dict(experiment=line.strip(), what=x,
                                                               note='harness/overlap_test.go, TestOverlap, scenario ' + m.group(1))))
            if other and not mine:
                res['mismatches'].append(dict(case='overlap-' + m.group(1), exchange=0, why='overlap experiment: ' + '; '.join(other)[:600],
                                              payload=dict(experiment=line.strip())))


def realclock_engine(pid, spec, tier, seed, workdir, res):
    """C01: saturated ages with the real clock (between two clock readings of one RoundTrip time passes)."""
    known = load_known()
    out = os.path.join(workdir, 'realclock')
    os.makedirs(out, exist_ok=True)
    rc, log = run_harness('TestRealClock', {}, out, timeout=900)
    lp = os.path.join(out, 'realclock.txt')
    if rc != 0 or not os.path.exists(lp):
        res['errors'].append('real-clock experiment failed to run: ' + log[-800:])
        return
    for line in open(lp):
        if not line.startswith('REALCLOCK'):
            continue
        res['evaluations'] += 1
        res['nontrivial'].add(hashlib.sha1(line.encode()).hexdigest())
        v = line.split()[-1]
        res['distribution']['realclock:' + v] = res['distribution'].get('realclock:' + v, 0) + 1
        if v == 'BAD' and pid == 'C01' and not known_open(pid, 'C01:saturated-age-served', known):
            res['violations'].append(dict(kind='monitor', code='C01:saturated-age-served', case='realclock',
                                          payload=dict(experiment=line.strip(), how='harness/realclock_test.go TestRealClock: GET (stored with a saturating Age), GET; real clock, memcache')))
        if v == 'BADAGE' and pid == 'C11' and not known_open(pid, 'C11:saturated-age-field', known):
            res['violations'].append(dict(kind='monitor', code='C11:saturated-age-field', case='realclock',
                                          payload=dict(experiment=line.strip(), how='harness/realclock_test.go TestRealClock: GET (stored with a saturating Age), GET allowing any staleness; real clock, memcache; the Age field of the answer from the store must be at least 2^31')))


def scenario_engine(pid, spec, tier, seed, workdir, res):
    """Deterministic scenarios on store states the generated histories do not reach (harness/scenario_test.go)."""
    known = load_known()
    out = os.path.join(workdir, 'scenarios')
    os.makedirs(out, exist_ok=True)
    rc, log = run_harness('TestScenarios', {}, out, timeout=900)
    lp = os.path.join(out, 'scenarios.txt')
    if rc != 0 or not os.path.exists(lp):
        res['errors'].append('scenario experiments failed to run: ' + log[-800:])
        return
    for line in open(lp):
        if not line.startswith('SCENARIO prop=%s ' % pid):
            continue
        res['evaluations'] += 1
        res['nontrivial'].add(hashlib.sha1(line.encode()).hexdigest())
        v = line.split()[-1]
        code = line.split()[2].split('=', 1)[1]
        res['distribution']['scenario:' + v] = res['distribution'].get('scenario:' + v, 0) + 1
        kf = known_open(pid, code, known) if v == 'BAD' else None
        if kf:
            res['known'].setdefault(kf['id'], dict(finding=kf, count=0, example='scenario ' + line.split('name=', 1)[-1].split()[0]))
            res['known'][kf['id']]['count'] += 1
        if v == 'BAD' and not kf:
            res['violations'].append(dict(kind='monitor', code=code, case='scenario',
                                          payload=dict(experiment=line.strip(), how='harness/scenario_test.go TestScenarios (VERIF_OUT=<dir> go test -run TestScenarios ./harness): the named scenario, real transport, real backends')))


def build_race_harness():
    with Lock('harness-race'):
        out_bin = os.path.join(BUILD, 'harness.race.test')
        rc, out, err = sh([go_cmd(), 'test', '-race', '-c', '-o', out_bin, '.'], cwd=HARNESS, env=go_env(), timeout=900)
        return rc == 0, out + err, out_bin


def parse_cx(line):
    """CX <case> <phase> <nres> results... <ntrace> (label event)... [| extras]"""
    main, _, extra = line.partition(' | ')
    c = Cur(main)
    c.next()
    o = dict(case=c.next(), phase=c.int())
    t = c.next()
    if t == 'U':
        o['unmodelled'] = True
        return o
    res = []
    for _ in range(int(t)):
        k = c.next()
        r = dict(res=k)
        if k == 'R':
            r['status'] = c.int()
            r['body'] = c.int()
            r['bodyok'] = c.int()
            r['hdr'] = read_headers(c)
        res.append(r)
    o['results'] = res
    tr = []
    for _ in range(c.int()):
        lab = c.next()
        tr.append((lab, read_event(c)))
    o['trace'] = tr
    o['extra'] = dict(kv.split('=', 1) for kv in extra.split()) if extra else {}
    return o


def conc_engine(pid, spec, tier, seed, workdir, res):
    """C16: (a) phases of concurrent RoundTrips under seeded schedules at store/origin-operation granularity, compared
    with the extracted concurrent model (Conc.run_phases) on the same schedules; ownership of returned responses and
    of the caller's request checked; (b) a free-running stress under the race detector."""
    known = load_known()
    out = os.path.join(workdir, 'conc')
    os.makedirs(out, exist_ok=True)
    kinds = res['distribution']
    n = spec['conc']['n_thorough' if tier == 'thorough' else 'n_quick']
    rc, log = run_harness('TestConcSched', dict(VERIF_SEED=str(seed), VERIF_N=str(n)), out, timeout=3400)
    if rc != 0 or not os.path.exists(os.path.join(out, 'cimpl.txt')):
        if 'panic:' in log:
            code = 'C16:process-panic'
            if not known_open(pid, code, known):
                res['violations'].append(dict(kind='monitor', code=code, case='conc', payload=dict(panic=log[log.index('panic:'):][:2500])))
        else:
            res['errors'].append('concurrency harness failed: ' + log[-1500:])
        return
    rc2, o, e = sh('./modelbin %s > %s' % (os.path.join(out, 'ccases.txt'), os.path.join(out, 'cmodel.txt')), cwd=MODEL, timeout=3000)
    if rc2 != 0:
        res['errors'].append('model run failed on concurrent cases: ' + e[-800:])
        return
    cases = {}
    cur, cid = [], None
    for line in open(os.path.join(out, 'ccases.txt')):
        if line.startswith('CCASE '):
            cid, cur = line.split()[1], [line]
        else:
            cur.append(line)
            if line.startswith('END'):
                cases[cid] = ''.join(cur)
    impl, model = {}, {}
    for path, d in ((os.path.join(out, 'cimpl.txt'), impl), (os.path.join(out, 'cmodel.txt'), model)):
        for line in open(path):
            if line.startswith('CX '):
                o = parse_cx(line)
                d.setdefault(o['case'], []).append((o, line))

    def proj(o, rn):
        rs = tuple((r['res'], r.get('status'), r.get('body'), r.get('bodyok'),
                    tuple(r.get('hdr', {}).get('X-Httpcache-Status', [])), tuple(r.get('hdr', {}).get('Age', []))) for r in o['results'])
        tr = tuple((lab,) + proj_event(ev, rn, False) for lab, ev in o['trace'])
        return rs, tr

    for cid, text in cases.items():
        res['evaluations'] += 1
        io, mo = impl.get(cid, []), model.get(cid, [])
        nthreads = sum(len(o['results']) for o, _ in io)
        nsteps = sum(len(o['trace']) for o, _ in io)
        nbg = sum(1 for o, _ in io for lab, _ in o['trace'] if lab.startswith('b'))
        kinds['conc:phases'] = kinds.get('conc:phases', 0) + len(io)
        kinds['conc:calls'] = kinds.get('conc:calls', 0) + nthreads
        kinds['conc:operations'] = kinds.get('conc:operations', 0) + nsteps
        kinds['conc:background-operations'] = kinds.get('conc:background-operations', 0) + nbg
        if any(len(o['results']) > 1 for o, _ in io):
            res['nontrivial'].add(hashlib.sha1(text.encode()).hexdigest())
        for o, _ in io:
            for r in o['results']:
                if r['res'] in ('P', 'Z'):
                    code = 'C16:panic' if r['res'] == 'P' else 'C16:no-response-no-error'
                    if not known_open(pid, code, known):
                        res['violations'].append(dict(kind='monitor', code=code, case=cid, payload=dict(case=text, observed=[pretty_line(l)[:3000] for _, l in io])))
        if any(o.get('unmodelled') for o, _ in mo):
            res['unmodelled'] += 1
            continue
        res['traces_validated'] += 1
        rn_i, rn_m = Renamer(), Renamer()
        if len(io) != len(mo):
            res['mismatches'].append(dict(case=cid, exchange=0, why='different number of phases', payload=dict(case=text)))
            continue
        for (a, la), (b, lb) in zip(io, mo):
            if proj(a, rn_i) != proj(b, rn_m) or b['extra'].get('quiescent') != 'true':
                res['mismatches'].append(dict(case=cid, exchange=a['phase'], why='concurrent phase: results or operation trace differ from the model under the same schedule',
                                              payload=dict(case=text, phase=a['phase'], implementation=pretty_line(la)[:6000], model=pretty_line(lb)[:6000])))
                break
    for line in open(os.path.join(out, 'cown.txt')):
        t = line.split()
        code = 'C16:returned-response-touched' if 'RESPONSE-TOUCHED' in line else 'C16:request-modified'
        if not known_open(pid, code, known):
            res['violations'].append(dict(kind='monitor', code=code, case=t[1],
                                          payload=dict(finding=pretty_line(line)[:4000], case=cases.get(t[1], ''), observed=[pretty_line(l)[:3000] for _, l in impl.get(t[1], [])],
                                                       meaning='after RoundTrip returned, the header map of the returned response (or the caller\'s request) was changed by the transport; the schedule in the case reproduces it')))
    if len(res['samples']) < 3 and cases:
        cid = sorted(cases)[0]
        res['samples'].append(dict(case=cid, schedule=[l for l in cases[cid].splitlines() if l.startswith('SCHED')][:3]))
    # directed scenario: a 304 arriving after the entry it validated was replaced
    rcl, logl = run_harness('TestLate304', {}, out, timeout=600)
    lp = os.path.join(out, 'late304.txt')
    if rcl != 0 or not os.path.exists(lp):
        res['errors'].append('late-304 scenario failed to run: ' + logl[-800:])
    else:
        for line in open(lp):
            res['evaluations'] += 1
            res['nontrivial'].add(hashlib.sha1(line.encode()).hexdigest())
            kinds['scenario:late-304'] = kinds.get('scenario:late-304', 0) + 1
            if line.split()[-1] == 'BAD':
                code = 'C16:late-304-merged'
                if not known_open(pid, code, known):
                    res['violations'].append(dict(kind='monitor', code=code, case='late304',
                                                  payload=dict(scenario=line.strip(), how='harness/conc_test.go TestLate304: GET (stored), GET in the stale-while-revalidate window with the background 304 held at the origin, '
                                                               'POST (invalidates), GET (successor stored), the 304 released, GET: its header fields / ETag and its body are of different generations')))
    # (b) free-running stress under the race detector
    ok, blog, _ = build_race_harness()
    if not ok:
        res['errors'].append('race-detector build of the harness failed: ' + blog[-800:])
        return
    env = go_env()
    env.update(dict(VERIF_OUT=out, VERIF_SEED=str(seed), VERIF_N=str(spec['conc']['race_iters_thorough' if tier == 'thorough' else 'race_iters_quick'])))
    rc3, o3, e3 = sh([os.path.join(BUILD, 'harness.race.test'), '-test.run', '^TestConcRace$', '-test.count=1', '-test.timeout', '50m'], cwd=HARNESS, env=env, timeout=3400)
    rlog = o3 + e3
    if 'WARNING: DATA RACE' in rlog:
        code = 'C16:data-race'
        if not known_open(pid, code, known):
            i = rlog.index('WARNING: DATA RACE')
            res['violations'].append(dict(kind='monitor', code=code, case='race-stress', payload=dict(race_report=rlog[i:i + 6000], how='harness/conc_test.go TestConcRace built with -race; VERIF_SEED=%d' % seed)))
    rp = os.path.join(out, 'race.txt')
    if not os.path.exists(rp):
        if 'WARNING: DATA RACE' not in rlog:
            res['errors'].append('race stress did not complete: ' + rlog[-1200:])
        return
    for line in open(rp):
        if line.startswith('RACE '):
            res['evaluations'] += 1
            res['nontrivial'].add(hashlib.sha1(line.encode()).hexdigest())
            for kv in line.split():
                if ':' in kv and '=' in kv and kv.split(':')[0] in ('GET', 'POST'):
                    kinds['race:' + kv.split('=')[0]] = kinds.get('race:' + kv.split('=')[0], 0) + int(kv.split('=')[1])
            res['samples'].append(line.strip()[:300])
        elif line.startswith('RACEFINDING'):
            code = 'C16:' + ('returned-response-touched' if 'touched later' in line else 'request-modified' if 'request modified' in line else 'inconsistent-response')
            if not known_open(pid, code, known):
                res['violations'].append(dict(kind='monitor', code=code, case='race-stress', payload=dict(finding=line.strip()[:3000], how='harness/conc_test.go TestConcRace; VERIF_SEED=%d (free-running goroutines: the interleaving is not replayed exactly)' % seed)))


def parse_wr(line):
    t = line.split()
    if len(t) < 2 or t[1] != 'ok':
        return None
    c = Cur(' '.join(t[2:]))
    o = dict(id=c.b(), status=c.int())
    o['hdr'] = read_headers(c)
    o['body'] = c.next()
    return o


def bytes_engine(pid, spec, tier, seed, workdir, res):
    """C05: real HTTP framings over the loopback interface; replays compared byte for byte with what the cache received;
    the bytes it stored are parsed by the extracted reader (Wire.parse_entry) and by Go's own."""
    known = load_known()
    out = os.path.join(workdir, 'bytes')
    os.makedirs(out, exist_ok=True)
    rc, log = run_harness('TestBytes', dict(VERIF_SEED=str(seed), VERIF_TIER=tier), out, timeout=3400)
    if rc != 0 or not os.path.exists(os.path.join(out, 'bytes.txt')):
        res['errors'].append('byte-faithfulness harness failed: ' + log[-1500:])
        return
    kinds = res['distribution']
    for l in open(os.path.join(out, 'bytes.txt')):
        res['evaluations'] += 1
        d = dict(kv.split('=', 1) for kv in re.findall(r'(\w+=(?:"(?:[^"\\]|\\.)*"|\S+))', l))
        kinds['framing:' + d.get('framing', '?')] = kinds.get('framing:' + d.get('framing', '?'), 0) + 1
        kinds['backend:' + d.get('backend', '?')] = kinds.get('backend:' + d.get('backend', '?'), 0) + 1
        n = int(d.get('body_len', '0'))
        b = 'body:0' if n == 0 else 'body:1-99' if n < 100 else 'body:100-4095' if n < 4096 else 'body:4096-65535' if n < 65536 else 'body:>=65536'
        kinds[b] = kinds.get(b, 0) + 1
        res['nontrivial'].add(hashlib.sha1((d.get('framing', '') + d.get('body_sha', '') + d.get('fields', '') + d.get('backend', '')).encode()).hexdigest())
        if len(res['samples']) < 3 and kinds['framing:' + d.get('framing', '?')] == 1:
            res['samples'].append(l.strip()[:300])
        if l.split()[-1] == 'BAD':
            probs = d.get('problems', '')
            code = 'C05:' + ('hop-by-hop' if 'hop-by-hop' in probs else 'body' if 'body' in probs else 'status' if 'status' in probs else 'field')
            if not known_open(pid, code, known):
                res['violations'].append(dict(kind='monitor', code=code, case=d.get('case', '?') + '-' + d.get('backend', '?'),
                                              payload=dict(experiment=l.strip()[:3000], how='harness/bytes_test.go TestBytes: the case names framing, status, body (length, first bytes of its SHA-256; bodies come from bodyCorpus with VERIF_SEED=%d), header corpus entry' % seed)))
    # the stored bytes, read by the model and by Go
    wp = os.path.join(out, 'wire.txt')
    raws, goes = [], []
    for l in open(wp):
        a, _, b = l.partition(' | ')
        raws.append(a)
        goes.append(b.strip())
    rc2, o, e = sh('./modelbin', cwd=MODEL, stdin='\n'.join(raws) + '\n', timeout=1200)
    mods = [x for x in o.splitlines() if x.startswith('WR ')]
    if len(mods) != len(goes):
        res['errors'].append('model reading of stored bytes: %d lines for %d entries: %s' % (len(mods), len(goes), e[-300:]))
        return
    for raw, g, m in zip(raws, goes, mods):
        res['traces_validated'] += 1
        go, mo = parse_wr(g), parse_wr(m)
        same = (go is None) == (mo is None)
        if same and go is not None:
            # net/http moves Trailer into Response.Trailer and drops "Connection: close" for HTTP/1.1 while reading
            mh = {k: v for k, v in mo['hdr'].items() if k not in ('Trailer', 'Connection')}
            gh = {k: v for k, v in go['hdr'].items() if k not in ('Trailer', 'Connection')}
            same = (go['id'], go['status'], go['body']) == (mo['id'], mo['status'], mo['body']) and mh == gh
        kinds['wire:entries'] = kinds.get('wire:entries', 0) + 1
        if not same:
            res['mismatches'].append(dict(case='wire-' + hashlib.sha1(raw.encode()).hexdigest()[:10], exchange=0, why='a stored entry is read differently by the model (Wire.parse_entry) and by Go',
                                          payload=dict(stored_bytes_hex=raw.split()[1][:20000], go=g[:3000], model=m[:3000])))


# ---------------------------------------------------------------- replay files

def write_replay(pid, name, payload):
    os.makedirs(REPLAYS, exist_ok=True)
    p = os.path.join(REPLAYS, '%s-%s.json' % (pid, name))
    json.dump(payload, open(p, 'w'), indent=1)
    return p


def case_payload(v):
    d = v['dir']
    cases, _ = load_cases(os.path.join(d, 'cases.txt'))
    cid = v['case']
    pl = dict(case_id=cid, profile=v.get('profile'), case=cases.get(cid, ''))
    m = re.match(r'^[a-z]+-\d+-(\d+)', cid or '')
    if m:
        pl['logger'] = ('debug-level slog logger into io.Discard (WithLogger)' if int(m.group(1)) % 2 == 1 else 'default (discard) logger')
    for nm in ('impl', 'model', 'mon_impl'):
        p = os.path.join(d, nm + '.txt')
        if os.path.exists(p):
            pl[nm] = [pretty_line(l) for l in open(p) if len(l.split()) > 1 and l.split()[1] == cid]
    if v.get('twin'):
        pl['twin_case'] = cases.get(v['twin'], '')
        pl['twin_impl'] = [pretty_line(l) for l in open(os.path.join(d, 'impl.txt')) if len(l.split()) > 1 and l.split()[1] == v['twin']]
        pl['note'] = 'twin_case is the same history with every Cache-Control field in canonical spelling; the implementation behaved differently on the two'
    return pl


# ---------------------------------------------------------------- top level

def setup():
    os.makedirs(BUILD, exist_ok=True)
    ok, log, _ = build_coq()
    if not ok:
        print(log[-3000:])
        return 1
    ok, log = build_model()
    if not ok:
        print(log[-3000:])
        return 1
    ok, log, _ = build_harness()
    if not ok:
        print(log[-3000:])
        return 1
    print('setup ok')
    return 0


def run_check(pid, tier, seed):
    from props import PROPS, ENGINES
    t0 = time.time()
    spec = PROPS.get(pid)
    if spec is None:
        print('unknown property', pid)
        return 2
    os.makedirs(EVID, exist_ok=True)
    # replay files of earlier runs of this property are out of date
    for old in glob.glob(os.path.join(REPLAYS, pid + '-*.json')):
        try:
            os.remove(old)
        except OSError:
            pass
    workdir = os.path.join(BUILD, 'run-%s-%s-%d' % (pid, tier, os.getpid()))
    shutil.rmtree(workdir, ignore_errors=True)
    os.makedirs(workdir)
    res = dict(errors=[], violations=[], mismatches=[], known={}, evaluations=0, unmodelled=0,
               traces_validated=0, nontrivial=set(), samples=[], distribution={}, extra={})
    build_ok, build_log, make_cmd = build_coq(clean=(tier == 'thorough' and os.environ.get('VERIF_NO_CLEAN') != '1'))
    forbidden = scan_forbidden()
    pinfo = check_props(pid, build_ok)
    chk_ok, chk_summary = (True, 'coqchk: thorough tier only')
    if tier == 'thorough' and build_ok:
        try:
            chk_ok, chk_summary = run_coqchk()
        except Exception as ex:
            chk_ok, chk_summary = False, 'coqchk could not be run: %s' % ex
        if not chk_ok:
            pinfo['ok'] = False
            pinfo['log'] = (pinfo.get('log') or '') + '\n' + chk_summary
    mok, mlog = build_model()   # needs the model files only; fails by itself when they do not compile
    hok, hlog, _ = build_harness()
    if not hok:
        print('ERROR: the harness does not build against /repo:\n' + hlog[-3000:])
    if mok and hok:
        for eng in spec.get('engines', ['e2e']):
            try:
                ENGINES[eng](pid, spec, tier, seed, workdir, res)
            except Exception as ex:  # an engine crash is an error of the machinery, reported as such
                import traceback
                res['errors'].append('engine %s crashed: %s' % (eng, traceback.format_exc()[-1500:]))
    exit_code = 0
    lines = []
    # 1. property violations found on the implementation
    seen_codes = set()
    for v in res['violations']:
        if v['code'] in seen_codes:
            continue
        seen_codes.add(v['code'])
        payload = dict(property=pid, kind='monitor violation on the implementation', code=v['code'],
                       exchange=v.get('exchange'), tier=tier, seed=seed)
        if 'dir' in v:
            payload.update(case_payload(v))
        payload.update(v.get('payload', {}))
        rp = write_replay(pid, re.sub(r'[^A-Za-z0-9]+', '_', v['code']), payload)
        lines.append('VIOLATION property=%s replay=%s' % (pid, rp))
        exit_code = 1
    # 2. broken tie: proof or correspondence
    if not res['violations']:
        broken = None
        if not pinfo['ok'] or forbidden:
            errs = re.findall(r'(?:translate: [^\n]*\n|File "[^"]+", line[^\n]*\n(?:[^\n]*\n){0,14})', build_log)
            broken = dict(property=pid, kind='proof obligation does not check',
                          theorem_file='coq/theories/Props/%s.v' % pid, theorems=pinfo['theorems'],
                          forbidden=forbidden, first_errors=[e[:1200] for e in errs[:3]],
                          log=(build_log[-1500:] + '\n' + pinfo['log'][-1500:]))
        elif not mok:
            broken = dict(property=pid, kind='model extraction/build failed', log=mlog[-2000:])
        elif not hok:
            broken = dict(property=pid, kind='harness does not build against /repo', log=hlog[-2000:])
        elif res['errors']:
            broken = dict(property=pid, kind='correspondence run failed', errors=res['errors'])
        elif res['mismatches']:
            m = res['mismatches'][0]
            broken = dict(property=pid, kind='correspondence model/implementation', why=m['why'],
                          exchange=m['exchange'], n_mismatching_cases=len(res['mismatches']))
            if 'dir' in m:
                broken.update(case_payload(m))
            broken.update(m.get('payload', {}))
        if broken:
            broken['note'] = ('no monitor failure was found on the implementation in this run (corpus + %d generated cases); '
                              'the property is no longer shown to hold' % res['evaluations'])
            rp = write_replay(pid, 'tie', broken)
            lines.append('VIOLATION property=%s replay=%s no-failing-input-found' % (pid, rp))
            exit_code = 1
    for kid, k in sorted(res['known'].items()):
        lines.append('KNOWN-FINDING: property=%s %s (%s; seen %d times this run, e.g. case %s)' %
                     (pid, k['finding']['what'], kid, k['count'], k['example']))
    wall = time.time() - t0
    from props import TRUSTED_BASE
    cov = dict(
        obligations=pinfo['obligations'], discharged=pinfo['discharged'],
        checker_cmd=pinfo['checker_cmd'] or make_cmd,
        trusted_base=TRUSTED_BASE + ['Print Assumptions of Props/%s.v this run: %s' % (pid, ' | '.join(pinfo['assumptions']) or 'n/a'), chk_summary],
        theorems=pinfo['theorems'],
        evaluations=res['evaluations'], distinct_nontrivial=len(res['nontrivial']),
        rule=spec.get('rule', ''), samples=res['samples'][:6] or [dict(note='no cases ran')],
        traces_validated_against_impl=res['traces_validated'], unmodelled_cases=res['unmodelled'],
        model_impl_mismatches=len(res['mismatches']), distribution=res['distribution'],
        known_findings_seen=[k['finding']['id'] for k in res['known'].values()],
        errors=res['errors'][:5], forbidden_constructs=forbidden,
    )
    cov['model_regenerated_from_source'] = dict(
        translator='translate/main.go (Go subset -> Gallina), run on /repo before every build',
        files=sorted(os.path.relpath(f, ROOT) for f in glob.glob(os.path.join(GENERATED, '*.v'))),
        status=('ok' if not build_log.startswith('translate: ') else build_log.split('\n\n')[0][:600]),
        tie_theorems=[t for t in pinfo['theorems'] if '_source_' in t])
    cov.update(res['extra'])
    ev = dict(property_id=pid, tier=tier, seed=seed, level='proof', coverage=cov,
              assumptions=spec.get('assumptions', []), wall_s=round(wall, 1),
              violations=len(seen_codes) + (1 if exit_code and not seen_codes else 0))
    json.dump(ev, open(os.path.join(EVID, pid + '.json'), 'w'), indent=1, default=str)
    for l in lines:
        print(l)
    print('%s %s: obligations %d/%d, %d cases (%d compared with the model, %d non-trivial), %d mismatches, %.0fs' %
          (pid, tier, pinfo['discharged'], pinfo['obligations'], res['evaluations'], res['traces_validated'],
           len(res['nontrivial']), len(res['mismatches']), wall))
    if exit_code == 0:
        shutil.rmtree(workdir, ignore_errors=True)
    else:
        # keep only what the replay needs
        shutil.rmtree(workdir, ignore_errors=True)
    return exit_code


def replay(pid, path):
    """Re-run one recorded case on the implementation and on the model and print both."""
    from props import PROPS
    pl = json.load(open(path))
    if 'case' not in pl or not pl['case']:
        print(json.dumps(pl, indent=1)[:4000])
        return 0
    ok, log, _ = build_coq()
    mok, mlog = build_model()
    hok, hlog, _ = build_harness()
    wd = os.path.join(BUILD, 'replay-%d' % os.getpid())
    os.makedirs(wd, exist_ok=True)
    cf = os.path.join(wd, 'replay_cases.txt')
    open(cf, 'w').write(pl['case'])
    rc, log = run_harness('TestReplay', dict(VERIF_REPLAY=cf), wd)
    run_model(cf, os.path.join(wd, 'model.txt'))
    if os.path.exists(os.path.join(wd, 'impl.txt')):
        run_monitor(cf, os.path.join(wd, 'impl.txt'), os.path.join(wd, 'mon.txt'))
    for nm in ('impl', 'model', 'mon'):
        p = os.path.join(wd, nm + '.txt')
        if os.path.exists(p):
            print('--- ' + nm)
            for l in open(p):
                print(pretty_line(l)[:3000])
    # verdict of the replay: the monitors of this property on what the implementation did now
    rc_out = 0
    mp = os.path.join(wd, 'mon.txt')
    if os.path.exists(mp):
        mkeys = PROPS.get(pid, {}).get('monitors', [pid])
        for cid, per in load_monitor(mp).items():
            for k, d in sorted(per.items()):
                for mk in mkeys:
                    if d.get(mk, 'na').startswith('bad'):
                        print('VIOLATION property=%s replay=%s' % (pid, path))
                        rc_out = 1
                        break
                if rc_out:
                    break
            if rc_out:
                break
    if rc_out == 0:
        print('replay: no monitor of %s fails on this input with the current tree' % pid)
    shutil.rmtree(wd, ignore_errors=True)
    return rc_out
