(* Extraction of the executable model and the monitors.  ExtrOcamlBasic only: bool, option, unit,
   list, prod, sumbool, sumor are mapped to OCaml's own types; numbers stay Coq's binary Z/positive/N. *)
From Coq Require Import ExtrOcamlBasic.
From HC Require Import SpecMon Store FsAtomic Crypto Swr Conc Wire.
Extraction Language OCaml.
Extraction "model.ml" monitor_all set_program get_program delete_program run_sched parse_entry canonical_key tp_trim cut url_wf run_phases effective_swr_timeout swr_predict from_url_go with_encryption_go run_ops spec_step fs_step file_path run_history init_world parse_url make_url_key digits_val dec_of_Z bs
  parse_directives normalize_header_value parse_imf_fixdate format_imf_fixdate.
