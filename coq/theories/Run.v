(* Run.v — sequential history semantics of the effect trees: a store, a virtual clock, a scripted
   origin.  Background programs (stale-while-revalidate) run to completion right after the exchange
   that spawned them, as the correspondence harness arranges by waiting for quiescence. *)
From HC Require Export Transport.
Open Scope Z_scope.

Inductive sval := SRefs (l : list (option ref)) | SEntry (e : stored_entry).
Definition store := list (bytes * sval).

Inductive event :=
| EvGetRefs (k : bytes) (found : bool)
| EvGetEntry (k : bytes) (found : bool)
| EvSetEntry (k : bytes) (e : stored_entry)
| EvSetRefs (k : bytes) (l : list (option ref))
| EvDel (k : bytes) (existed : bool)
| EvCall (idx : Z) (q : request) (t_start t_end : Z) (rep : origin_reply).

Record world := {
  w_store : store;
  w_clock : Z;
  w_script : list (Z * origin_reply * origin_reply);
     (* remaining origin script: (delay in ns, reply to an unconditional request,
        reply to a request carrying If-None-Match or If-Modified-Since) *)
  w_calls : Z;                          (* origin calls made so far *)
  w_log : list event;                   (* reversed *)
  w_pending : list (prog unit)          (* spawned, not yet run *)
}.

Definition set_store (w : world) (s : store) (ev : event) : world :=
  {| w_store := s; w_clock := w_clock w; w_script := w_script w; w_calls := w_calls w;
     w_log := ev :: w_log w; w_pending := w_pending w |}.
Definition log_event (w : world) (ev : event) : world := set_store w (w_store w) ev.

Definition get_refs (s : store) (k : bytes) : option (list (option ref)) :=
  match alookup k s with Some (SRefs l) => Some l | _ => None end.
Definition get_entry (s : store) (k : bytes) : option stored_entry :=
  match alookup k s with Some (SEntry e) => Some e | _ => None end.

(* statuses whose responses never carry a body (the scripted origin sends none) *)
Definition no_body_status (s : Z) : bool := (s <? 200) || (s =? 204) || (s =? 304).

(* the reply of origin call number [idx]: its body is the ghost token [idx] *)
Definition tag_reply (idx : Z) (rep : origin_reply) : origin_reply :=
  match rep with
  | RErr => RErr
  | RResp r => RResp {| p_status := p_status r; p_hdr := p_hdr r;
                        p_body := if no_body_status (p_status r) then -1 else idx;
                        p_body_ok := p_body_ok r |}
  end.

(* One origin call.  [limit]: None in the foreground; Some T for a background call whose context is
   cancelled after T — a reply that would arrive later is replaced by an error at T. *)
Definition do_origin (limit : option Z) (q : request) (w : world) : origin_reply * world :=
  let idx := w_calls w in
  let conditional := negb (beq (hget (bs "If-None-Match") (q_hdr q)) []) ||
                     negb (beq (hget (bs "If-Modified-Since") (q_hdr q)) []) in
  let '(delay, rep0, rest) :=
    match w_script w with
    | (d, r, rc) :: t => (d, (if conditional then rc else r), t)
    | [] => (0, RErr, [])
    end in
  let '(delay', rep) :=
    match limit with
    | Some T => if T <? delay then (T, RErr) else (delay, tag_reply idx rep0)
    | None => (delay, tag_reply idx rep0)
    end in
  let t0 := w_clock w in
  let t1 := t0 + delay' in
  (rep, {| w_store := w_store w; w_clock := t1; w_script := rest; w_calls := idx + 1;
           w_log := EvCall idx q t0 t1 rep :: w_log w; w_pending := w_pending w |}).

Inductive result (A : Type) := Done (a : A) | Crashed | OutOfModel.
Arguments Done {A} a.
Arguments Crashed {A}.
Arguments OutOfModel {A}.

Fixpoint run {A : Type} (limit : option Z) (p : prog A) (w : world) : result A * world :=
  match p with
  | Ret a => (Done a, w)
  | GetRefs k c =>
      let ans := get_refs (w_store w) k in
      run limit (c ans) (log_event w (EvGetRefs k (match ans with Some _ => true | None => false end)))
  | GetEntry k c =>
      let ans := get_entry (w_store w) k in
      run limit (c ans) (log_event w (EvGetEntry k (match ans with Some _ => true | None => false end)))
  | SetEntry k e c => run limit c (set_store w (aset k (SEntry e) (w_store w)) (EvSetEntry k e))
  | SetRefs k l c => run limit c (set_store w (aset k (SRefs l) (w_store w)) (EvSetRefs k l))
  | Del k c => run limit c (set_store w (aremove k (w_store w)) (EvDel k (amem k (w_store w))))
  | Origin q c => let '(rep, w') := do_origin limit q w in run limit (c rep) w'
  | Now c => run limit (c (w_clock w)) w
  | Spawn bg c =>
      run limit c {| w_store := w_store w; w_clock := w_clock w; w_script := w_script w;
                     w_calls := w_calls w; w_log := w_log w; w_pending := w_pending w ++ [bg] |}
  | Crash => (Crashed, w)
  | Unmodelled => (OutOfModel, w)
  end.

Definition clear_log_pending (w : world) : world :=
  {| w_store := w_store w; w_clock := w_clock w; w_script := w_script w; w_calls := w_calls w;
     w_log := []; w_pending := [] |}.

Fixpoint run_pending (T : Z) (ps : list (prog unit)) (w : world) : bool * world :=
  match ps with
  | [] => (true, w)
  | p :: r =>
      let t0 := w_clock w in
      let '(res, w1) := run (Some T) p w in
      match res with
      | Done _ => run_pending T r w1
      | _ => (false, w1)
      end
  end.

Record exchange_obs := {
  x_t0 : Z;                          (* clock when RoundTrip was called *)
  x_t1 : Z;                          (* clock when it returned *)
  x_result : result outcome;
  x_events : list event;             (* foreground, in order *)
  x_bg_ok : bool;                    (* background work neither crashed nor left the model *)
  x_bg_events : list event           (* background, in order *)
}.

Definition exchange (cfg : config) (q : request) (w : world) : exchange_obs * world :=
  let w0 := clear_log_pending w in
  let '(res, w1) := run None (round_trip q) w0 in
  let fg := rev (w_log w1) in
  let t1 := w_clock w1 in
  let pend := w_pending w1 in
  let '(ok, w2) := run_pending (effective_swr_timeout (cfg_swr_timeout cfg)) pend (clear_log_pending w1) in
  ({| x_t0 := w_clock w; x_t1 := t1; x_result := res; x_events := fg; x_bg_ok := ok;
      x_bg_events := rev (w_log w2) |}, w2).

(* a history: client requests, each preceded by a gap (ns) after the previous exchange went quiescent *)
Definition history := list (Z * request).

Fixpoint run_history (cfg : config) (h : history) (w : world) : list exchange_obs :=
  match h with
  | [] => []
  | (gap, q) :: r =>
      let w' := {| w_store := w_store w; w_clock := w_clock w + gap; w_script := w_script w;
                   w_calls := w_calls w; w_log := []; w_pending := [] |} in
      let '(obs, w'') := exchange cfg q w' in
      obs :: run_history cfg r w''
  end.

Definition init_world (t0 : Z) (script : list (Z * origin_reply * origin_reply)) : world :=
  {| w_store := []; w_clock := t0; w_script := script; w_calls := 0; w_log := []; w_pending := [] |}.
