(* Swr.v — the goroutine structure of backgroundRevalidate (roundtripper.go) and its timing (C20).

   supervisor:  ctx, cancel := WithTimeout(req.Context(), T); defer cancel()
                errc := make(chan error, cap)          (cap = 1 in the code)
                go worker
                select { case <-ctx.Done(): case <-errc: }
   worker:      defer close(errc)
                resp, err := upstream.RoundTrip(req)   (returns when the origin answers or, the upstream
                                                         honouring the context, once ctx is done)
                ... store operations (no blocking on the context or the channel) ...
                errc <- err                             (exactly one send on every path)

   The transition system below interleaves the two goroutines, the context and the environment
   (the origin answering, the timer / the caller cancelling) at the granularity of channel and
   context operations. *)
From HC Require Export Transport.
Open Scope Z_scope.

Inductive sup_pc := SWait | SDone.
Inductive wrk_pc := WCall | WSend | WClose | WDone.

Record gstate := {
  g_sup : sup_pc; g_wrk : wrk_pc;
  g_len : nat;          (* values buffered in errc *)
  g_closed : bool;
  g_ctx_done : bool;
  g_calls : nat         (* origin calls started by the worker *)
}.

Definition g_init : gstate :=
  {| g_sup := SWait; g_wrk := WCall; g_len := 0; g_closed := false; g_ctx_done := false; g_calls := 1 |}.

Section Sys.
  Variable cap : nat.          (* capacity of errc *)
  Variable answers : bool.     (* the origin would answer by itself at some time *)

  Inductive gstep : gstate -> gstate -> Prop :=
  | G_ctx s : g_ctx_done s = false ->                       (* the timeout elapses or the caller cancels *)
      gstep s {| g_sup := g_sup s; g_wrk := g_wrk s; g_len := g_len s; g_closed := g_closed s; g_ctx_done := true; g_calls := g_calls s |}
  | G_answer s : g_wrk s = WCall -> answers = true ->       (* the origin answers: RoundTrip returns *)
      gstep s {| g_sup := g_sup s; g_wrk := WSend; g_len := g_len s; g_closed := g_closed s; g_ctx_done := g_ctx_done s; g_calls := g_calls s |}
  | G_abort s : g_wrk s = WCall -> g_ctx_done s = true ->   (* RoundTrip returns the context's error *)
      gstep s {| g_sup := g_sup s; g_wrk := WSend; g_len := g_len s; g_closed := g_closed s; g_ctx_done := g_ctx_done s; g_calls := g_calls s |}
  | G_send_buffered s : g_wrk s = WSend -> (g_len s < cap)%nat ->
      gstep s {| g_sup := g_sup s; g_wrk := WClose; g_len := S (g_len s); g_closed := g_closed s; g_ctx_done := g_ctx_done s; g_calls := g_calls s |}
  | G_send_rendezvous s : g_wrk s = WSend -> cap = O -> g_sup s = SWait ->   (* unbuffered: sender meets the receiving select *)
      gstep s {| g_sup := SDone; g_wrk := WClose; g_len := g_len s; g_closed := g_closed s; g_ctx_done := true; g_calls := g_calls s |}
  | G_close s : g_wrk s = WClose ->
      gstep s {| g_sup := g_sup s; g_wrk := WDone; g_len := g_len s; g_closed := true; g_ctx_done := g_ctx_done s; g_calls := g_calls s |}
  | G_sup_ctx s : g_sup s = SWait -> g_ctx_done s = true ->  (* select takes <-ctx.Done(); deferred cancel *)
      gstep s {| g_sup := SDone; g_wrk := g_wrk s; g_len := g_len s; g_closed := g_closed s; g_ctx_done := true; g_calls := g_calls s |}
  | G_sup_recv s n : g_sup s = SWait -> g_len s = S n ->      (* select takes <-errc; deferred cancel *)
      gstep s {| g_sup := SDone; g_wrk := g_wrk s; g_len := n; g_closed := g_closed s; g_ctx_done := true; g_calls := g_calls s |}
  | G_sup_closed s : g_sup s = SWait -> g_closed s = true -> g_len s = O ->
      gstep s {| g_sup := SDone; g_wrk := g_wrk s; g_len := O; g_closed := true; g_ctx_done := true; g_calls := g_calls s |}.

  Inductive greach : gstate -> Prop :=
  | GR_init : greach g_init
  | GR_step s s' : greach s -> gstep s s' -> greach s'.

  Definition g_final (s : gstate) : Prop := g_sup s = SDone /\ g_wrk s = WDone.

  (* steps left at most: bounds every execution *)
  Definition g_measure (s : gstate) : nat :=
    (if g_ctx_done s then 0 else 1) +
    (match g_wrk s with WCall => 3 | WSend => 2 | WClose => 1 | WDone => 0 end) +
    (match g_sup s with SWait => 1 | SDone => 0 end).
End Sys.

(* ---------- timing, as the check observes it (all times in ns relative to the start of the background request) ---------- *)
Record swr_exp := {
  xp_setting : option Z;        (* WithSWRTimeout argument; None = option not given *)
  xp_latency : option Z;        (* origin latency; None = never answers *)
  xp_cancel : option Z;         (* the caller's context is cancelled at this time (negative: before the call) *)
  xp_deadline : option Z        (* the caller's context has this deadline (positive), if any *)
}.
Definition xp_timeout (x : swr_exp) : Z :=
  effective_swr_timeout (match xp_setting x with Some t => t | None => 0 end).
(* when the context of the background request is done *)
(* the deadline of the context of the background request: the timeout, or the caller's own deadline when
   that is earlier (context.WithTimeout never extends a deadline) *)
Definition xp_bg_deadline (x : swr_exp) : Z :=
  match xp_deadline x with Some d => Z.min (xp_timeout x) (Z.max d 0) | None => xp_timeout x end.
Definition xp_cut (x : swr_exp) : Z :=
  match xp_cancel x with Some c => Z.min (xp_bg_deadline x) (Z.max c 0) | None => xp_bg_deadline x end.
Definition xp_request_end (x : swr_exp) : Z :=
  match xp_latency x with Some d => Z.min d (xp_cut x) | None => xp_cut x end.
(* the request ends in the context's error: the context was done before the origin answered, or already
   when the request started (latency = cut > 0 is a tie the check does not generate) *)
Definition xp_cancelled (x : swr_exp) : bool :=
  match xp_latency x with
  | Some d => (xp_cut x <? d) || match xp_cancel x with Some c => c <? 0 | None => false end
  | None => true
  end.

Record swr_obs := {
  so_fg_latency : Z; so_bg_calls : Z; so_deadline : Z; so_request_end : Z; so_cancelled : bool; so_goroutines_left : Z
}.
Definition swr_predict (x : swr_exp) : swr_obs :=
  {| so_fg_latency := 0; so_bg_calls := 1; so_deadline := xp_bg_deadline x; so_request_end := xp_request_end x;
     so_cancelled := xp_cancelled x; so_goroutines_left := 0 |}.
