(* Header.v — header maps, Go's CanonicalHeaderKey, TrimmedCSVSeq, ParseQuotedString.
   Mirrors internal/helpers.go (TrimmedCSVSeq, TrimmedCSVCanonicalSeq) and internal/quotedstring.go. *)
From HC Require Export Base.
Open Scope Z_scope.

(* ---- RFC 9110 token characters (net/textproto's valid header field byte) ---- *)
Definition is_tchar (c : Z) : bool :=
  is_digit c || is_alpha c ||
  (c =? 33) || (c =? 35) || (c =? 36) || (c =? 37) || (c =? 38) || (c =? 39) ||
  (c =? 42) || (c =? 43) || (c =? 45) || (c =? 46) || (c =? 94) || (c =? 95) ||
  (c =? 96) || (c =? 124) || (c =? 126).

(* textproto.CanonicalMIMEHeaderKey *)
Fixpoint canon_case (upper : bool) (s : bytes) : bytes :=
  match s with
  | [] => []
  | c :: r =>
      let c' := if upper then to_upper c else to_lower c in
      c' :: canon_case (c =? 45) r
  end.
Definition canonical_key (s : bytes) : bytes :=
  if forallb is_tchar s then canon_case true s else s.

(* ---- header maps: canonical field name -> list of field lines ---- *)
Definition headers := list (bytes * list bytes).

Definition hvalues (n : bytes) (h : headers) : list bytes :=
  match alookup n h with Some vs => vs | None => [] end.
(* http.Header.Get: first value or "" *)
(* http.Header.Get / Set / Del canonicalise the name they are given; direct map access does not *)
Definition hget (n : bytes) (h : headers) : bytes :=
  match hvalues (canonical_key n) h with v :: _ => v | [] => [] end.
Definition hset (n v : bytes) (h : headers) : headers := aset (canonical_key n) [v] h.
Definition hdel (n : bytes) (h : headers) : headers := aremove (canonical_key n) h.

(* ---- TrimmedCSVSeq: split on commas outside quotes, trim, drop empty parts ---- *)
Record csv_state := { cs_part : bytes (* reversed *); cs_inq : bool; cs_esc : bool; cs_out : list bytes (* reversed *) }.

Definition csv_flush (st : csv_state) : list bytes :=
  let p := tp_trim (rev (cs_part st)) in
  match p with [] => cs_out st | _ => p :: cs_out st end.

Definition csv_step (st : csv_state) (c : Z) : csv_state :=
  if cs_esc st then
    {| cs_part := c :: cs_part st; cs_inq := cs_inq st; cs_esc := false; cs_out := cs_out st |}
  else if c =? 92 then
    {| cs_part := c :: cs_part st; cs_inq := cs_inq st; cs_esc := true; cs_out := cs_out st |}
  else if c =? 34 then
    {| cs_part := c :: cs_part st; cs_inq := negb (cs_inq st); cs_esc := false; cs_out := cs_out st |}
  else if (c =? 44) && negb (cs_inq st) then
    {| cs_part := []; cs_inq := false; cs_esc := false; cs_out := csv_flush st |}
  else
    {| cs_part := c :: cs_part st; cs_inq := cs_inq st; cs_esc := false; cs_out := cs_out st |}.

Definition csv_init : csv_state := {| cs_part := []; cs_inq := false; cs_esc := false; cs_out := [] |}.

Definition trimmed_csv (s : bytes) : list bytes :=
  rev (csv_flush (fold_left csv_step s csv_init)).

Definition trimmed_csv_canonical (s : bytes) : list bytes := map canonical_key (trimmed_csv s).

(* ---- ParseQuotedString ---- *)
Definition valid_qdtext (b : Z) : bool :=
  (b =? 9) || (b =? 32) || (b =? 33) ||
  ((35 <=? b) && (b <=? 91)) || ((93 <=? b) && (b <=? 126)) || (128 <=? b).

(* the inner loop over the content between the quotes *)
(* [esc] = the previous byte was an unconsumed backslash *)
Fixpoint unquote_inner (esc : bool) (s : bytes) : option bytes :=
  match s with
  | [] => if esc then None else Some []
  | c :: r =>
      if esc then option_map (cons c) (unquote_inner false r)
      else if c =? 92 then unquote_inner true r
      else if valid_qdtext c then option_map (cons c) (unquote_inner false r)
      else None
  end.

Definition parse_quoted_string_e (s : bytes) : option bytes :=
  match s with
  | q :: r =>
      if q =? 34 then
        match rev r with
        | q2 :: mid_rev => if q2 =? 34 then unquote_inner false (rev mid_rev) else None
        | [] => None
        end
      else None
  | [] => None
  end.

(* returns the original string when it is not a valid quoted-string *)
Definition parse_quoted_string (s : bytes) : bytes :=
  match parse_quoted_string_e s with Some r => r | None => s end.
