(* Url.v — internal/urlkeyer.go (makeURLKey, normalizePercentEncoding), internal/helpers.go
   (splitHostPort, sameOrigin, defaultPort), and the part of net/url they rest on:
   a parser for the URL grammar the correspondence run generates (no userinfo, no opaque form),
   resolvePath (RFC 3986 §5.2.4 as Go implements it), setPath/EscapedPath, ResolveReference. *)
From HC Require Export Base.
Open Scope Z_scope.

Definition is_hex (c : Z) : bool :=
  is_digit c || ((65 <=? c) && (c <=? 70)) || ((97 <=? c) && (c <=? 102)).
Definition from_hex (c : Z) : Z :=
  if is_digit c then c - 48
  else if (97 <=? c) && (c <=? 102) then c - 97 + 10
  else if (65 <=? c) && (c <=? 70) then c - 65 + 10 else 0.
Definition hex_digit (n : Z) : Z := if n <? 10 then 48 + n else 65 + (n - 10).
Definition pct_upper (b : Z) : bytes := [37; hex_digit (b / 16); hex_digit (b mod 16)].

(* unicode.IsLetter / unicode.IsDigit on a rune in 0..255 *)
Definition is_letter_latin1 (r : Z) : bool :=
  is_alpha r || (r =? 170) || (r =? 181) || (r =? 186) ||
  ((192 <=? r) && (r <=? 214)) || ((216 <=? r) && (r <=? 246)) || ((248 <=? r) && (r <=? 255)).
Definition is_unreserved_impl (r : Z) : bool :=
  is_alpha r || is_digit r || (r =? 45) || (r =? 46) || (r =? 95) || (r =? 126).
(* strings.Builder.WriteRune for r < 256 *)
Definition write_rune (r : Z) : bytes :=
  if r <? 128 then [r] else [192 + r / 64; 128 + r mod 64].

(* normalizePercentEncoding; [skip] bytes are consumed without output *)
Fixpoint norm_pct (skip : nat) (s : bytes) : bytes :=
  match s with
  | [] => []
  | c :: r =>
      match skip with
      | S k => norm_pct k r
      | O =>
          match r with
          | h1 :: h2 :: _ =>
              if (c =? 37) && is_hex h1 && is_hex h2 then
                let v := from_hex h1 * 16 + from_hex h2 in
                (if is_unreserved_impl v then write_rune v else pct_upper v) ++ norm_pct 2 r
              else c :: norm_pct 0 r
          | _ => c :: norm_pct 0 r
          end
      end
  end.
Definition normalize_percent_encoding (s : bytes) : bytes := norm_pct 0 s.

(* ---- net/url: shouldEscape(c, encodePath), validEncoded, unescape, escape ---- *)
Definition is_unreserved_ascii (c : Z) : bool :=
  is_alpha c || is_digit c || (c =? 45) || (c =? 46) || (c =? 95) || (c =? 126).
Definition should_escape_path (c : Z) : bool :=
  if is_unreserved_ascii c then false
  else if (c =? 36) || (c =? 38) || (c =? 43) || (c =? 44) || (c =? 47) || (c =? 58) ||
          (c =? 59) || (c =? 61) || (c =? 64) then false
  else true.
Definition valid_encoded_byte (c : Z) : bool :=
  (c =? 33) || (c =? 36) || (c =? 38) || (c =? 39) || (c =? 40) || (c =? 41) || (c =? 42) ||
  (c =? 43) || (c =? 44) || (c =? 59) || (c =? 61) || (c =? 58) || (c =? 64) ||
  (c =? 91) || (c =? 93) || (c =? 37) || negb (should_escape_path c).
Definition valid_encoded_path (s : bytes) : bool := forallb valid_encoded_byte s.

Fixpoint unescape_path (skip : nat) (s : bytes) : option bytes :=
  match s with
  | [] => Some []
  | c :: r =>
      match skip with
      | S k => unescape_path k r
      | O =>
          if c =? 37 then
            match r with
            | h1 :: h2 :: _ =>
                if is_hex h1 && is_hex h2
                then option_map (cons (from_hex h1 * 16 + from_hex h2)) (unescape_path 2 r)
                else None
            | _ => None
            end
          else option_map (cons c) (unescape_path 0 r)
      end
  end.
Definition escape_path (s : bytes) : bytes :=
  flat_map (fun c => if should_escape_path c then pct_upper c else [c]) s.

(* setPath followed by EscapedPath; [None] when the escapes are malformed (url.Parse fails) *)
Definition escaped_path_of (p : bytes) : option bytes :=
  match unescape_path 0 p with
  | None => None
  | Some raw => Some (if valid_encoded_path p then p else escape_path raw)
  end.

(* ---- resolvePath ---- *)
Fixpoint last_index (c : Z) (s : bytes) (i : Z) (acc : Z) : Z :=
  match s with
  | [] => acc
  | x :: r => last_index c r (i + 1) (if x =? c then i else acc)
  end.
Definition take (n : Z) (s : bytes) : bytes := firstn (Z.to_nat n) s.

Record rp_state := { rp_dst : bytes; rp_first : bool }.
Definition rp_step (st : rp_state) (elem : bytes) : rp_state :=
  if beq elem [46] then {| rp_dst := rp_dst st; rp_first := false |}
  else if beq elem [46; 46] then
    let str := tl (rp_dst st) in
    let idx := last_index 47 str 0 (-1) in
    if idx =? -1 then {| rp_dst := [47]; rp_first := true |}
    else {| rp_dst := 47 :: take idx str; rp_first := rp_first st |}
  else
    {| rp_dst := rp_dst st ++ (if rp_first st then [] else [47]) ++ elem; rp_first := false |}.

Definition resolve_path (base ref : bytes) : bytes :=
  let full :=
    match ref with
    | [] => base
    | c :: _ =>
        if c =? 47 then ref
        else take (last_index 47 base 0 (-1) + 1) base ++ ref
    end in
  match full with
  | [] => []
  | _ =>
      let elems := split_on 47 full in
      let st := fold_left rp_step elems {| rp_dst := [47]; rp_first := true |} in
      let last_elem := last elems [] in
      let r := if beq last_elem [46] || beq last_elem [46; 46] then rp_dst st ++ [47] else rp_dst st in
      match r with
      | a :: b :: rest => if b =? 47 then b :: rest else r
      | _ => r
      end
  end.

(* ---- URLs ---- *)
Record url := {
  u_scheme : bytes;       (* lower-cased by url.Parse *)
  u_host : bytes;         (* URL.Host: host or host:port, brackets kept *)
  u_path : bytes;         (* EscapedPath() *)
  u_query : bytes;        (* RawQuery *)
  u_force_query : bool
}.

Definition is_scheme_char (c : Z) : bool := is_alpha c || is_digit c || (c =? 43) || (c =? 45) || (c =? 46).

(* getScheme, restricted: Some (scheme, rest) | None (no scheme).  *)
Fixpoint get_scheme (s : bytes) (acc : bytes) : option (bytes * bytes) :=
  match s with
  | [] => None
  | c :: r =>
      if c =? 58 then (match acc with [] => None | _ => Some (rev acc, r) end)
      else if is_alpha c then get_scheme r (c :: acc)
      else if is_scheme_char c then (match acc with [] => None | _ => get_scheme r (c :: acc) end)
      else None
  end.

(* bytes accepted in the modelled URL grammar *)
Definition url_byte_ok (c : Z) : bool := ((128 <=? c) && (c <=? 255)) || (33 <=? c) && (c <=? 126) && negb (c =? 34) && negb (c =? 60)
  && negb (c =? 62) && negb (c =? 92) && negb (c =? 94) && negb (c =? 96) && negb (c =? 123)
  && negb (c =? 124) && negb (c =? 125).

Definition valid_optional_port (p : bytes) : bool :=
  match p with
  | [] => true
  | c :: r => (c =? 58) && all_digits r
  end.

Definition host_byte_ok (c : Z) : bool :=
  is_alpha c || is_digit c || (c =? 45) || (c =? 46) || (c =? 95) || (c =? 126).
Definition ip6_byte_ok (c : Z) : bool := is_hex c || (c =? 58) || (c =? 46).

(* split at index *)
Definition drop (n : Z) (s : bytes) : bytes := skipn (Z.to_nat n) s.

(* authority without userinfo: reg-name[:port] or [ip6][:port] *)
Definition host_ok (h : bytes) : bool :=
  match h with
  | [] => true
  | c :: r =>
      if c =? 91 then
        let i := last_index 93 h 0 (-1) in
        if i =? -1 then false
        else forallb ip6_byte_ok (take (i - 1) r) && valid_optional_port (drop (i + 1) h)
      else
        let i := last_index 58 h 0 (-1) in
        if i =? -1 then forallb host_byte_ok h
        else forallb host_byte_ok (take i h) && valid_optional_port (drop i h)
  end.

Fixpoint index_byte (c : Z) (s : bytes) (i : Z) : Z :=
  match s with
  | [] => -1
  | x :: r => if x =? c then i else index_byte c r (i + 1)
  end.

(* url.Parse on the modelled grammar.  Returns (url, has_scheme, has_authority). *)
Definition parse_url (s0 : bytes) : option (url * bool * bool) :=
  if negb (forallb url_byte_ok s0) then None else
  let s := match cut 35 s0 with Some (a, _) => a | None => s0 end in
  let '(scheme, rest0, has_scheme) :=
    match get_scheme s [] with
    | Some (sc, r) => (lower sc, r, true)
    | None => ([], s, false)
    end in
  let '(rest1, query, force) :=
    if has_suffix [63] rest0 && (count_byte 63 rest0 =? 1) then (removelast rest0, [], true)
    else match cut 63 rest0 with
         | Some (a, q) => (a, q, false)
         | None => (rest0, [], false)
         end in
  if has_scheme && negb (has_prefix [47] rest1) then None (* opaque or empty: not modelled *)
  else if negb has_scheme && negb (has_prefix [47] rest1) &&
          (let seg := match cut 47 rest1 with Some (a, _) => a | None => rest1 end in contains_byte 58 seg)
  then None
  else
    let '(host, path0, has_auth) :=
      if has_prefix [47; 47] rest1 && (has_scheme || negb (has_prefix [47; 47; 47] rest1)) then
        let a := drop 2 rest1 in
        let i := index_byte 47 a 0 in
        if i =? -1 then (a, [], true) else (take i a, drop i a, true)
      else ([], rest1, false) in
    if contains_byte 64 host || negb (host_ok host) then None
    else match escaped_path_of path0 with
         | None => None
         | Some p =>
             Some ({| u_scheme := scheme; u_host := host; u_path := p; u_query := query;
                      u_force_query := force |}, has_scheme, has_auth)
         end.

(* ---- internal/helpers.go ---- *)
Definition default_port (scheme : bytes) : bytes :=
  if beq scheme (bs "http") then bs "80" else if beq scheme (bs "https") then bs "443" else [].

Definition split_host_port (hp : bytes) : bytes * bytes :=
  let colon := last_index 58 hp 0 (-1) in
  let '(host, port) :=
    if negb (colon =? -1) && valid_optional_port (drop colon hp)
    then (take colon hp, drop (colon + 1) hp) else (hp, []) in
  let host' :=
    if has_prefix [91] host && has_suffix [93] host then removelast (tl host) else host in
  (host', port).

(* makeURLKey for a URL with empty Opaque *)
(* removeDotSegments (RFC 3986 §5.2.4 on the segments of the path; the output segments reversed) *)
Fixpoint rds (segs : list bytes) (out : list bytes) : list bytes :=
  match segs with
  | [] => out
  | [s] =>
      if beq s [46] then [] :: out
      else if beq s [46; 46] then [] :: tl out
      else s :: out
  | s :: r =>
      if beq s [46] then rds r out
      else if beq s [46; 46] then rds r (tl out)
      else rds r (s :: out)
  end.
Definition remove_dot_segments (p : bytes) : bytes :=
  match p with
  | [] => []
  | c :: r =>
      let p' := if c =? 47 then r else p in
      47 :: join [47] (rev (rds (split_on 47 p') []))
  end.

Definition make_url_key (u : url) : bytes :=
  (* percent-decoding of unreserved characters happens before dot-segment removal *)
  let path1 := remove_dot_segments (normalize_percent_encoding (u_path u)) in
  let scheme := u_scheme u in
  let '(host, port0) := split_host_port (u_host u) in
  let defp := default_port scheme in
  let port := match port0 with [] => defp | _ => port0 end in
  let lhost := lower host in
  let bhost := if contains_byte 58 lhost then [91] ++ lhost ++ [93] else lhost in
  let hostport :=
    bhost ++ (if negb (beq port []) && negb (beq port defp) then 58 :: port else []) in
  let path2 :=
    match path1 with
    | [] => if beq scheme (bs "http") || beq scheme (bs "https") then [47] else []
    | _ => path1
    end in
  scheme ++ bs "://" ++ hostport ++ normalize_percent_encoding path2 ++
  (match u_query u with [] => [] | q => 63 :: normalize_percent_encoding q end).

(* URL.ResolveReference(ref) for a base with scheme and host *)
Definition resolve_reference (base : url) (r : url * bool * bool) : url :=
  let '(ref, has_scheme, has_auth) := r in
  let rp p := match escaped_path_of p with Some x => x | None => p end in
  if has_scheme || has_auth then
    {| u_scheme := if has_scheme then u_scheme ref else u_scheme base;
       u_host := u_host ref; u_path := rp (resolve_path (u_path ref) []);
       u_query := u_query ref; u_force_query := u_force_query ref |}
  else
    let inherit_q := beq (u_path ref) [] && negb (u_force_query ref) && beq (u_query ref) [] in
    {| u_scheme := u_scheme base; u_host := u_host base;
       u_path := rp (resolve_path (u_path base) (u_path ref));
       u_query := if inherit_q then u_query base else u_query ref;
       u_force_query := u_force_query ref |}.

(* URL.Port() / URL.Hostname() use net/url's splitHostPort, the same function *)
Fixpoint eq_fold (a b : bytes) : bool :=
  match a, b with
  | [], [] => true
  | x :: a', y :: b' => (to_lower x =? to_lower y) && eq_fold a' b'
  | _, _ => false
  end.

Definition same_origin (a b : url) : bool :=
  let '(ha, pa0) := split_host_port (u_host a) in
  let '(hb, pb0) := split_host_port (u_host b) in
  let pa := match pa0 with [] => default_port (u_scheme a) | _ => pa0 end in
  let pb := match pb0 with [] => default_port (u_scheme b) | _ => pb0 end in
  eq_fold (u_scheme a) (u_scheme b) && eq_fold ha hb && beq pa pb.
