(* C15 — store writes are atomic under concurrency, failed writes and crashes.

   Model (FsAtomic.v): fscache's set / get / delete for one key as sequences of system calls
   (set = create a temporary file exclusively, write in arbitrary pieces, fsync, close, rename onto the
   name; get = open the name, read in arbitrary pieces; delete = unlink), executed by any number of
   threads under any schedule; a write may be short or fail (disk full: the temporary is unlinked), and
   any thread may be killed before any system call.  The kernel is assumed to execute each system call
   atomically, to keep an open file's inode alive and unchanged by rename/unlink of its name, and to
   make rename atomic — these are the assumptions of the theorem (DESIGN.md, C15 "partial").

   C15_atomic: in every execution, from an empty directory or one holding a complete previous value,
   every Get that completes returns a byte string that is exactly a value passed to some Set for the key
   (or the previous value) — never a prefix, never a mixture — or reports the key absent.
   The proof is an invariant over all reachable states: an inode reachable from the key's name, or
   being read, holds a complete value and has no writer.
   The run (1) obtains the real system-call sequences of Set/Get/Delete with strace and compares them
   with set_program / get_program / delete_program, (2) cuts writes at every byte with RLIMIT_FSIZE in a
   child process, with and without a previous value, with and without encryption, (3) kills a writing
   process at random moments, (4) checks concurrent Set/Get/Delete storms for linearizability against a
   register with porcupine. The memory backend holds one mutex around every operation: each of its
   operations is a single atomic step. *)
From HC Require Import FsAtomic.
From HC.Proofs Require Import AtomicProofs.
Open Scope Z_scope.

(* initial states: nothing stored, or a complete previous value v0 *)
Definition initial_state (prev : option bytes) : sysstate :=
  match prev with
  | None => {| final := None; inodes := []; next := 0 |}
  | Some v0 => {| final := Some 0%nat; inodes := [(0%nat, v0)]; next := 1 |}
  end.

Definition initial_thread (V : bytes -> Prop) (t : tstate) : Prop :=
  match t with TSet0 v => V v | TGet0 | TDel0 => True | _ => False end.

Lemma initial_inv (V : bytes -> Prop) prev ts :
  (forall v0, prev = Some v0 -> V v0) -> Forall (initial_thread V) ts -> Inv V (initial_state prev) ts.
Proof.
  intros Hp Hts. rewrite Forall_forall in Hts.
  assert (Hnw : forall j t n, nth_error ts j = Some t -> ~ writes t n).
  { intros j t n Hj Hw. apply nth_error_In in Hj. specialize (Hts _ Hj). destruct t; cbn in *; contradiction. }
  constructor.
  - destruct prev as [v0|]; cbn; intros n c H; [|discriminate].
    destruct n; [lia|discriminate].
  - intros i t Hi. pose proof (Hts _ (nth_error_In _ _ Hi)) as Ht. destruct t; cbn in *; try contradiction; auto.
  - destruct prev as [v0|]; cbn; intros n H; [|discriminate]. inversion H; subst.
    exists v0. split; [reflexivity|]. split; [apply Hp; reflexivity|]. intros j t Hj. eapply Hnw; eauto.
Qed.

Theorem C15_atomic : forall (V : bytes -> Prop) prev ts sched,
  (forall v0, prev = Some v0 -> V v0) ->
  Forall (initial_thread V) ts ->
  let '(s', ts') := run_sched (initial_state prev) ts sched in
  forall i r, nth_error ts' i = Some (TGetDone (Some r)) -> V r.
Proof.
  intros V prev ts sched Hp Hts.
  pose proof (run_sched_inv V sched _ _ (initial_inv V prev ts Hp Hts)) as H.
  destruct (run_sched (initial_state prev) ts sched) as [s' ts'].
  intros i r Hi. apply (inv_threads V _ _ H i _ Hi).
Qed.
Print Assumptions C15_atomic.

(* the same, with the set of values written out *)
Corollary C15_no_partial_value : forall prev (values : list bytes) ts sched,
  Forall (fun t => match t with TSet0 v => In v values | TGet0 | TDel0 => True | _ => False end) ts ->
  let '(s', ts') := run_sched (initial_state prev) ts sched in
  forall i r, nth_error ts' i = Some (TGetDone (Some r)) -> prev = Some r \/ In r values.
Proof.
  intros prev values ts sched Hts.
  apply (C15_atomic (fun v => prev = Some v \/ In v values)).
  - intros v0 E; left; exact E.
  - eapply Forall_impl; [|exact Hts]. intros t Ht. destruct t; cbn in *; auto.
Qed.
Print Assumptions C15_no_partial_value.

(* an acknowledged Set is visible to a Get that starts afterwards (no other writer): sequential sanity *)
Example C15_example :
  let ts := [TSet0 (bs "new value"); TGet0; TGet0] in
  let sched := [(1%nat, 1); (0%nat, 1); (0%nat, 3); (1%nat, 2); (0%nat, 100); (1%nat, 100); (1%nat, 1);
                (0%nat, 1); (0%nat, 1); (2%nat, 1); (2%nat, 4); (2%nat, 100); (2%nat, 1)] in
  snd (run_sched (initial_state (Some (bs "old"))) ts sched) =
  [TSetDone true (bs "new value"); TGetDone (Some (bs "old")); TGetDone (Some (bs "new value"))].
Proof. vm_compute. reflexivity. Qed.

