(* C05 — cached responses are byte-faithful copies of the origin response.

   Byte level (Wire.v: the reader of a stored entry, i.e. ParseResponse = metadata line + http.ReadResponse +
   reading the body to its end):
   C05_read_length_framed, C05_read_chunked, C05_read_close_delimited: for EVERY body (any bytes: CR/LF, NUL,
   text that looks like a status line, a chunk header or a metadata line; any length), every status line,
   every list of field lines before and after the framing field, every way of cutting the body into chunks
   and every trailer section, reading a message of the grammar gives back exactly its status line, its
   field lines and its body.  C05_read_bodiless: 1xx/204/304 have an empty body whatever follows.
   C05_read_entry: the metadata line is split off at its own line feed, so nothing in the message can be
   taken for metadata.  The writer side is httputil.DumpResponse (modelled as "any message of the grammar");
   the check parses every entry the real transport stored with the extracted reader and with Go's own.
   Field level (Transport.v): C05_hop_by_hop_removed / C05_end_to_end_kept (storing removes exactly the
   hop-by-hop fields: Connection, the fields every Connection line names, Keep-Alive, TE, Transfer-Encoding,
   Upgrade, the Proxy- fields), C05_stored_is_origin (status and body of what is stored are the origin's), and
   C05_served_is_stored (a hit returns the stored status, body, and every stored field except Age, the two
   status fields and fields named by a qualified no-cache).  Freshening by a 304 is C08. *)
From HC Require Import Transport Run Wire.
From HC.Proofs Require Import HeaderProofs RunProofs FreshenProofs WireProofs.
Open Scope Z_scope.

(* ---------- bytes ---------- *)
Theorem C05_read_length_framed : forall sl code before after body,
  line_ok sl -> status_of_line sl = Some code -> no_body_code code = false ->
  Forall plain_field before -> Forall plain_field after ->
  parse_msg (render_msg sl before after FrLength body) =
  Some {| wm_status_line := sl; wm_status := code;
          wm_fields := before ++ framing_field FrLength body ++ after; wm_body := body |}.
Proof. intros. apply read_length_framed; assumption. Qed.
Print Assumptions C05_read_length_framed.

Theorem C05_read_chunked : forall sl code before after sizes trailers body,
  line_ok sl -> status_of_line sl = Some code -> no_body_code code = false ->
  Forall plain_field before -> Forall plain_field after -> Forall line_ok trailers ->
  parse_msg (render_msg sl before after (FrChunked sizes trailers) body) =
  Some {| wm_status_line := sl; wm_status := code;
          wm_fields := before ++ framing_field (FrChunked sizes trailers) body ++ after; wm_body := body |}.
Proof. intros. apply read_chunked; assumption. Qed.
Print Assumptions C05_read_chunked.

Theorem C05_read_close_delimited : forall sl code before after body,
  line_ok sl -> status_of_line sl = Some code -> no_body_code code = false ->
  Forall plain_field before -> Forall plain_field after ->
  parse_msg (render_msg sl before after FrClose body) =
  Some {| wm_status_line := sl; wm_status := code;
          wm_fields := before ++ framing_field FrClose body ++ after; wm_body := body |}.
Proof. intros. apply read_close_delimited; assumption. Qed.
Print Assumptions C05_read_close_delimited.

Theorem C05_read_bodiless : forall sl code fields payload,
  line_ok sl -> status_of_line sl = Some code -> Forall line_ok fields -> no_body_code code = true ->
  parse_msg (sl ++ crlf ++ render_lines fields ++ crlf ++ payload) =
  Some {| wm_status_line := sl; wm_status := code; wm_fields := fields; wm_body := [] |}.
Proof. exact read_bodiless. Qed.

Theorem C05_read_entry : forall id req_at recv_at msg,
  ~ In 9 id -> ~ In 9 req_at -> ~ In 9 recv_at -> no_lf id -> no_lf req_at -> no_lf recv_at ->
  SpellProofs.edge_ok is_go_space (id ++ [9] ++ req_at ++ [9] ++ recv_at) ->
  parse_entry (render_entry id req_at recv_at msg) =
  option_map (fun m => {| we_id := id; we_req_at := req_at; we_recv_at := recv_at; we_msg := m |}) (parse_msg msg).
Proof. exact read_entry. Qed.
Print Assumptions C05_read_entry.

(* ---------- fields ---------- *)
Lemma alookup_remove_all {V} n names : forall (h : list (bytes * V)),
  alookup n (fold_left (fun acc x => aremove x acc) names h) = if in_names n names then None else alookup n h.
Proof.
  induction names as [|x names IH]; intros h; [reflexivity|]. cbn [fold_left]. rewrite IH.
  unfold in_names. cbn [existsb]. fold (in_names n names). destruct (in_names n names).
  - rewrite Bool.orb_true_r. reflexivity.
  - rewrite Bool.orb_false_r. destruct (beq n x) eqn:E.
    + apply beq_eq in E. subst. apply alookup_aremove_same.
    + apply alookup_aremove_other, E.
Qed.

Theorem C05_hop_by_hop_removed : forall h n,
  in_names n (hop_by_hop_headers h) = true -> alookup n (remove_hop_by_hop h) = None.
Proof. intros h n H. unfold remove_hop_by_hop. rewrite alookup_remove_all, H. reflexivity. Qed.
Print Assumptions C05_hop_by_hop_removed.

Theorem C05_end_to_end_kept : forall h n,
  in_names n (hop_by_hop_headers h) = false -> alookup n (remove_hop_by_hop h) = alookup n h.
Proof. intros h n H. unfold remove_hop_by_hop. rewrite alookup_remove_all, H. reflexivity. Qed.
Print Assumptions C05_end_to_end_kept.

(* the fixed hop-by-hop fields and whatever the Connection lines name *)
Theorem C05_hop_by_hop_names : forall h,
  (forall n, In n hop_by_hop_fixed -> in_names n (hop_by_hop_headers h) = true) /\
  (forall line n, In line (hvalues (bs "Connection") h) -> In n (trimmed_csv_canonical line) ->
     in_names n (hop_by_hop_headers h) = true).
Proof.
  intros h. unfold hop_by_hop_headers, in_names. split.
  - intros n Hn. apply existsb_exists. exists n. split; [apply in_or_app; left; exact Hn|apply beq_refl].
  - intros line n Hl Hn. apply existsb_exists. exists n. split; [|apply beq_refl].
    apply in_or_app. right. apply in_flat_map. exists line. split; assumption.
Qed.

(* what StoreResponse stores: the origin's status and body, its fields minus the hop-by-hop ones *)
Theorem C05_stored_is_origin : forall limit q r key refs a b i resolved w,
  normalize_vary (join [44] (hvalues (bs "Vary") (remove_hop_by_hop (p_hdr r)))) (q_hdr q) = Some resolved ->
  p_body_ok r = true ->
  exists w' e, run limit (bind (store_response q r key refs a b i) (fun r1 => Ret r1)) w = (Done (with_hdr r (remove_hop_by_hop (p_hdr r))), w') /\
    get_entry (w_store w') (make_vary_key key resolved) = Some e /\
    e_status e = p_status r /\ e_body e = p_body r /\ e_hdr e = remove_hop_by_hop (p_hdr r).
Proof.
  intros limit q r key refs a b i resolved w Hv Hb.
  destruct (run_store_response limit q r key refs a b i resolved (fun r1 => Ret r1) w Hv Hb) as (w' & Hrun & Hget & _).
  exists w', (entry_of (make_vary_key key resolved) (with_hdr r (remove_hop_by_hop (p_hdr r))) a b).
  split; [rewrite Hrun; reflexivity|]. split; [exact Hget|]. repeat split.
Qed.
Print Assumptions C05_stored_is_origin.

Lemma hvalues_strip_qualified qualified n h :
  (forall f, match qualified with Some fs => In f fs | None => False end -> beq n (canonical_key f) = false) ->
  hvalues n (strip_qualified qualified h) = hvalues n h.
Proof.
  destruct qualified as [fs|]; [|reflexivity]. cbn [strip_qualified]. revert h.
  induction fs as [|f fs IH]; intros h Hn; [reflexivity|]. cbn [fold_left].
  rewrite IH by (intros g Hg; apply Hn; right; exact Hg).
  apply hvalues_hdel_other. apply Hn. left. reflexivity.
Qed.

(* a hit returns the stored status and body, and every stored field other than Age, the two status fields
   and the fields a qualified no-cache names *)
Theorem C05_served_is_stored : forall e f now qualified r n,
  serve_from_cache e f now qualified = OResp r ->
  beq n (canonical_key (bs "Age")) = false -> beq n (canonical_key status_header) = false ->
  beq n (canonical_key from_cache_header) = false ->
  (forall fld, match qualified with Some fs => In fld fs | None => False end -> beq n (canonical_key fld) = false) ->
  p_status r = e_status e /\ p_body r = e_body e /\ hvalues n (p_hdr r) = hvalues n (e_hdr e).
Proof.
  intros e f now qualified r n H Ha Hs Hf Hq. unfold serve_from_cache in H. inversion H; subst; clear H.
  cbn [p_hdr response_of entry_with_hdr e_hdr p_status p_body e_status e_body]. repeat split.
  unfold apply_status. replace (status_legacy (if f_expired f then STALE else HIT)) with true by (destruct (f_expired f); reflexivity).
  rewrite hvalues_hset_other by exact Hf. rewrite hvalues_hset_other by exact Hs. rewrite hvalues_hset_other by exact Ha.
  apply hvalues_strip_qualified, Hq.
Qed.
Print Assumptions C05_served_is_stored.

(* non-vacuity: a body that looks like a message, in three framings *)
Example C05_example :
  let body := bs "HTTP/1.1 200 OK" ++ crlf ++ bs "Content-Length: 3" ++ crlf ++ crlf ++ bs "abc" ++ crlf ++ bs "0" ++ crlf ++ crlf ++ [0; 10; 13] in
  let sl := bs "HTTP/1.1 200 OK" in
  let before := [bs "Cache-Control: max-age=60"] in
  let after := [bs "X-Multi: a"; bs "X-Multi: b"] in
  let rd fr := option_map wm_body (parse_msg (render_msg sl before after fr body)) in
  rd FrLength = Some body /\ rd (FrChunked [0; 4; 1]%nat [bs "X-Checksum: 1"]) = Some body /\ rd FrClose = Some body /\
  option_map (fun e => (we_id e, wm_body (we_msg e)))
    (parse_entry (render_entry (bs "http://a.test/x#0") (bs "2000-01-01T00:00:00Z") (bs "2000-01-01T00:00:01Z")
                    (render_msg sl before after FrLength body))) = Some (bs "http://a.test/x#0", body).
Proof. vm_compute. repeat split; reflexivity. Qed.

(* ---------- tie to the source: the part of the model this property rests on is what /verif/translate derives from
   /repo's Go source on this run (Generated/*.v are rewritten before every build; see DESIGN.md section 9) ---------- *)
From HC.Generated Require Import SrcTables.
From HC.Proofs Require Import TieTables.
Theorem C05_source_hop_by_hop : src_hop_by_hop_fixed = hop_by_hop_fixed.
Proof. exact tie_hop_by_hop_fixed. Qed.
Print Assumptions C05_source_hop_by_hop.
From HC.Generated Require Import SrcEffects.
From HC.Proofs Require Import ProgEq TieEffects.

(* ... and StoreResponse (hop-by-hop fields removed first, the variant key, the entry written before the index, the index
   entry appended or replaced), serveFromCache and handleStaleWhileRevalidate (qualified no-cache fields removed, Age, status,
   the background revalidation started with the stored validators) *)
Theorem C05_source_effects2 :
  (forall q r k refs a b i, peq (src_store_response q r k refs a b i) (store_response q r k refs a b i)).
Proof. exact tie_store_response. Qed.
Print Assumptions C05_source_effects2.

(* the three header-set helpers — which fields are hop-by-hop for a message (the fixed list and what its Connection field lines
   name), their removal, and the merge of a 304's fields into the stored ones (all but Content-Length and the 304's hop-by-hop
   fields) — are those of internal/helpers.go on this run (Generated/SrcHeaderSets.v) *)
From HC.Generated Require Import SrcHeaderSets.
From HC.Proofs Require Import TieHeaderSets.
Theorem C05_source_header_sets :
  (forall h, src_hop_by_hop_headers h = hop_by_hop_headers h) /\
  (forall h, src_remove_hop_by_hop h = remove_hop_by_hop h) /\
  (forall stored fresh, src_update_stored_headers stored fresh = update_stored_headers stored fresh).
Proof. split; [exact tie_hop_by_hop_headers|split; [exact tie_remove_hop_by_hop|exact tie_update_stored_headers]]. Qed.
Print Assumptions C05_source_header_sets.

(* ---------- whole histories ---------- *)
(* For every sequential history from the empty store: an answer given without contacting the origin is the synthesised 504, or
   it has the status and the body of a full (non-304) reply that a logged origin call of the history returned, and — for every
   field name other than Age, the two status fields and the names a qualified no-cache of the stored response lists — exactly
   the field values of a stored entry e whose header block is, in turn (Src_header), that reply's block with its Date repaired
   and its hop-by-hop fields removed, or such a block with the fields of the 304s of other logged calls merged in. *)
From HC.Proofs Require Import SrcProofs.
Lemma served_form_fields e s v qualified n :
  beq n (canonical_key (bs "Age")) = false -> beq n (canonical_key status_header) = false ->
  beq n (canonical_key from_cache_header) = false ->
  (forall fld, match qualified with Some fs => In fld fs | None => False end -> beq n (canonical_key fld) = false) ->
  hvalues n (apply_status s (hset (bs "Age") v (strip_qualified qualified (e_hdr e)))) = hvalues n (e_hdr e).
Proof.
  intros Ha Hs Hf Hq. unfold apply_status.
  assert (H1 : hvalues n (hset status_header (status_value s) (hset (bs "Age") v (strip_qualified qualified (e_hdr e)))) = hvalues n (e_hdr e)).
  { rewrite hvalues_hset_other by exact Hs. rewrite hvalues_hset_other by exact Ha. apply hvalues_strip_qualified, Hq. }
  destruct (status_legacy s); [rewrite hvalues_hset_other by exact Hf|rewrite hvalues_hdel_other by exact Hf]; exact H1.
Qed.

Theorem C05_history : forall cfg h t0 script k gq obs r,
  let all := run_history cfg h (init_world t0 script) in
  let L := flat_map (fun x => x_events x ++ x_bg_events x) all in
  nth_error h k = Some gq -> nth_error all k = Some obs -> x_result obs = Done (OResp r) -> ~ has_call (x_events obs) ->
  r = response_504 \/
  exists e q0 a b r0,
    Src (GXl L) e /\ GXl L q0 a b r0 /\ p_status r0 <> 304 /\
    p_status r = p_status r0 /\ p_body r = p_body r0 /\
    forall n, beq n (canonical_key (bs "Age")) = false -> beq n (canonical_key status_header) = false ->
              beq n (canonical_key from_cache_header) = false ->
              (forall fld, match hit_qualified e with Some fs => In fld fs | None => False end -> beq n (canonical_key fld) = false) ->
              hvalues n (p_hdr r) = hvalues n (e_hdr e).
Proof.
  intros cfg h t0 script k gq obs r all L Hk Ho Hr Hnc.
  destruct (history_safeX L cfg h (init_world t0 script)) as [_ H]; [intros k' e' E; discriminate|apply incl_refl|].
  destruct (proj1 (H k gq obs (OResp r) Hk Ho Hr) Hnc) as [E|(e & Hs & Hd & E)]; [left; injection E as ->; reflexivity|right].
  destruct (Src_body _ _ Hs) as (q0 & a & b & r0 & Hg & Hn & Hst & Hb).
  exists e, q0, a, b, r0. split; [exact Hs|split; [exact Hg|split; [exact Hn|]]].
  unfold served_outcome in E.
  assert (Hr' : exists s v, r = response_of (entry_with_hdr e (apply_status s (hset (bs "Age") v (strip_qualified (hit_qualified e) (e_hdr e)))))).
  { destruct Hd as [Hd|Hd]; rewrite Hd in E.
    - unfold serve_from_cache in E. injection E as E'. eexists _, _. exact E'.
    - injection E as E'. eexists _, _. exact E'. }
  destruct Hr' as (s & v & ->). cbn [response_of entry_with_hdr p_status p_body p_hdr e_status e_body e_hdr].
  split; [exact Hst|split; [exact Hb|]]. intros n Ha Hs' Hf Hq. apply served_form_fields; assumption.
Qed.
Print Assumptions C05_history.
