(* C13 — stale-if-error serves the stored response on origin failure, within its window.

   C13_only_eligible_failures: the stored response comes back from a failed validation only when the
   failure is a transport error or a 500/502/503/504 and the validation was not mandatory; for every
   other status, and whenever must-revalidate / no-cache / the request's max-age made validation
   mandatory (C02), the origin's own answer or error is returned.
   C13_shape: on an eligible failure the handler reads the clock once and returns the stored response
   (marked STALE, Age recomputed) iff CanStaleOnError holds for the stale-if-error of the *stored
   response* or of the *request* (never the one on the error reply), else the origin's answer.
   C13_within_window: whenever CanStaleOnError holds, the specification's window test holds:
   some stale-if-error=N on the stored response or the request has  age(now') < lifetime + N
   in saturating arithmetic — for all header values, windows and instants. *)
From HC Require Import Transport Spec.
From HC.Proofs Require Import Paths FreshProofs DecisionProofs ValidationProofs.
Open Scope Z_scope.

Theorem C13_only_eligible_failures : forall ctx q r,
  (is_get (q_method q) && (p_status r =? 304)) = false ->
  rc_no_stale ctx = true \/ is_stale_error_allowed (p_status r) = false ->
  Leaves (origin_answer r) (handle_validation_response ctx q (RResp r)).
Proof. exact hvr_origin_answer. Qed.
Print Assumptions C13_only_eligible_failures.

Theorem C13_shape : forall ctx q rep,
  rc_no_stale ctx = false -> is_get (q_method q) = true ->
  match rep with RErr => True | RResp r => is_stale_error_allowed (p_status r) = true /\ (p_status r =? 304) = false end ->
  exists after,
    handle_validation_response ctx q rep =
    Now (fun now =>
      if can_stale_on_error (rc_fresh ctx)
           [resp_stale_if_error (parse_cc (e_hdr (rc_stored ctx))); req_stale_if_error (rc_cc_req ctx)] now
      then Ret (OResp (response_of (entry_with_hdr (rc_stored ctx)
             (apply_status STALE (hset (bs "Age") (age_header_value (rc_fresh ctx) now) (e_hdr (rc_stored ctx)))))))
      else after)
    /\ match rep with RErr => after = Ret OErr | RResp r => Leaves (origin_answer r) after end.
Proof. exact hvr_sie_shape. Qed.
Print Assumptions C13_shape.

Theorem C13_within_window : forall q e now now',
  valid_date (e_hdr e) -> e_status e <> 304 ->
  req_max_age (parse_cc (q_hdr q)) <> Some 0 ->
  can_stale_on_error (calculate_freshness e (parse_cc (q_hdr q)) (parse_cc (e_hdr e)) now)
    [resp_stale_if_error (parse_cc (e_hdr e)); req_stale_if_error (parse_cc (q_hdr q))] now' = true ->
  exists n, (sd_duration (bs "stale-if-error") (parse_cc (e_hdr e)) = Some n \/
             sd_duration (bs "stale-if-error") (parse_cc (q_hdr q)) = Some n)
            /\ within_window (sv_age (view_of e) now') (sv_life (view_of e)) n = true.
Proof. intros q e now now' Hd Hs. apply sie_within_window; assumption. Qed.
Print Assumptions C13_within_window.

(* the fallback is permitted only when the specification does not demand validation *)
Theorem C13_not_when_validation_demanded : forall q e now,
  valid_date (e_hdr e) -> e_status e <> 304 ->
  decide_hit q e now = DRevalidate false ->
  needs_validation (view_of e) q now = false.
Proof.
  intros q e now Hd Hs H. apply no_must_validate_spec; auto.
  unfold decide_hit in H. destruct (hit_must_validate _ _ _); [|reflexivity].
  destruct (req_only_if_cached _); discriminate.
Qed.
Print Assumptions C13_not_when_validation_demanded.

(* non-vacuity: a stale entry with stale-if-error=60, 10 s past its lifetime: the policy allows it 10 s
   later and refuses it 100 s later *)
Example C13_window_example :
  let e := {| e_id := bs "k#0"; e_status := 200;
              e_hdr := [(bs "Cache-Control", [bs "max-age=5, stale-if-error=60"]);
                        (bs "Date", [bs "Sat, 01 Jan 2000 00:00:00 GMT"])];
              e_body := 0; e_req_at := 946684800 * second; e_recv_at := 946684800 * second |} in
  let q := {| q_method := bs "GET";
              q_url := {| u_scheme := bs "http"; u_host := bs "a.test"; u_path := bs "/x"; u_query := []; u_force_query := false |};
              q_hdr := [] |} in
  let f := calculate_freshness e (parse_cc (q_hdr q)) (parse_cc (e_hdr e)) (946684815 * second) in
  decide_hit q e (946684815 * second) = DRevalidate false /\
  can_stale_on_error f [resp_stale_if_error (parse_cc (e_hdr e)); None] (946684825 * second) = true /\
  can_stale_on_error f [resp_stale_if_error (parse_cc (e_hdr e)); None] (946684925 * second) = false.
Proof. repeat split; vm_compute; reflexivity. Qed.

(* ---------- tie to the source: the part of the model this property rests on is what /verif/translate derives from
   /repo's Go source on this run (Generated/*.v are rewritten before every build; see DESIGN.md section 9) ---------- *)
From HC.Generated Require Import SrcHit SrcStatus.
From HC.Proofs Require Import TieHit TieStatus.
Theorem C13_source_decision : forall q e now, src_decide_hit q e now = decide_hit q e now.
Proof. exact tie_decide_hit. Qed.
Theorem C13_source_error_statuses : forall code, src_is_stale_error_allowed code = is_stale_error_allowed code.
Proof. exact tie_is_stale_error_allowed. Qed.
Print Assumptions C13_source_decision.
Print Assumptions C13_source_error_statuses.
