(* C13 — stale-if-error serves the stored response on origin failure, within its window.

   C13_only_eligible_failures: the stored response comes back from a failed validation only when the
   failure is a transport error or a 500/502/503/504 and the validation was not mandatory; for every
   other status, and whenever must-revalidate / no-cache / the request's max-age made validation
   mandatory (C02), the origin's own answer or error is returned.
   C13_shape: on an eligible failure the handler reads the clock once and returns the stored response
   (marked STALE, Age recomputed) iff CanStaleOnError holds for the stale-if-error of the *stored
   response* or of the *request* (never the one on the error reply), else the origin's answer.
   C13_within_window: whenever CanStaleOnError holds, the specification's window test holds:
   some stale-if-error=N on the stored response or the request has  age(now') < lifetime + N
   in saturating arithmetic — for all header values, windows and instants. *)
From HC Require Import Transport Spec.
From HC.Proofs Require Import Paths FreshProofs DecisionProofs ValidationProofs.
Open Scope Z_scope.

Theorem C13_only_eligible_failures : forall ctx q r,
  (is_get (q_method q) && (p_status r =? 304)) = false ->
  rc_no_stale ctx = true \/ is_stale_error_allowed (p_status r) = false ->
  Leaves (origin_answer r) (handle_validation_response ctx q (RResp r)).
Proof. exact hvr_origin_answer. Qed.
Print Assumptions C13_only_eligible_failures.

Theorem C13_shape : forall ctx q rep,
  rc_no_stale ctx = false -> is_get (q_method q) = true ->
  match rep with RErr => True | RResp r => is_stale_error_allowed (p_status r) = true /\ (p_status r =? 304) = false end ->
  exists after,
    handle_validation_response ctx q rep =
    Now (fun now =>
      if can_stale_on_error (rc_fresh ctx)
           [resp_stale_if_error (parse_cc (e_hdr (rc_stored ctx))); req_stale_if_error (rc_cc_req ctx)] now
      then Ret (OResp (response_of (entry_with_hdr (rc_stored ctx)
             (apply_status STALE (hset (bs "Age") (age_header_value (rc_fresh ctx) now)
                (strip_qualified (match resp_no_cache (parse_cc (e_hdr (rc_stored ctx))) with Some raw => no_cache_fields raw | None => None end)
                   (e_hdr (rc_stored ctx))))))))
      else after)
    /\ match rep with RErr => after = Ret OErr | RResp r => Leaves (origin_answer r) after end.
Proof. exact hvr_sie_shape. Qed.
Print Assumptions C13_shape.

Theorem C13_within_window : forall q e now now',
  valid_date (e_hdr e) -> e_status e <> 304 ->
  req_max_age (parse_cc (q_hdr q)) <> Some 0 ->
  can_stale_on_error (calculate_freshness e (parse_cc (q_hdr q)) (parse_cc (e_hdr e)) now)
    [resp_stale_if_error (parse_cc (e_hdr e)); req_stale_if_error (parse_cc (q_hdr q))] now' = true ->
  exists n, (sd_duration (bs "stale-if-error") (parse_cc (e_hdr e)) = Some n \/
             sd_duration (bs "stale-if-error") (parse_cc (q_hdr q)) = Some n)
            /\ within_window (sv_age (view_of e) now') (sv_life (view_of e)) n = true.
Proof. intros q e now now' Hd Hs. apply sie_within_window; assumption. Qed.
Print Assumptions C13_within_window.

(* the fallback is permitted only when the specification does not demand validation *)
Theorem C13_not_when_validation_demanded : forall q e now,
  valid_date (e_hdr e) -> e_status e <> 304 ->
  decide_hit q e now = DRevalidate false ->
  needs_validation (view_of e) q now = false.
Proof.
  intros q e now Hd Hs H. apply no_must_validate_spec; auto.
  unfold decide_hit in H. destruct (hit_must_validate _ _ _); [|reflexivity].
  destruct (req_only_if_cached _); discriminate.
Qed.
Print Assumptions C13_not_when_validation_demanded.

(* non-vacuity: a stale entry with stale-if-error=60, 10 s past its lifetime: the policy allows it 10 s
   later and refuses it 100 s later *)
Example C13_window_example :
  let e := {| e_id := bs "k#0"; e_status := 200;
              e_hdr := [(bs "Cache-Control", [bs "max-age=5, stale-if-error=60"]);
                        (bs "Date", [bs "Sat, 01 Jan 2000 00:00:00 GMT"])];
              e_body := 0; e_req_at := 946684800 * second; e_recv_at := 946684800 * second |} in
  let q := {| q_method := bs "GET";
              q_url := {| u_scheme := bs "http"; u_host := bs "a.test"; u_path := bs "/x"; u_query := []; u_force_query := false |};
              q_hdr := [] |} in
  let f := calculate_freshness e (parse_cc (q_hdr q)) (parse_cc (e_hdr e)) (946684815 * second) in
  decide_hit q e (946684815 * second) = DRevalidate false /\
  can_stale_on_error f [resp_stale_if_error (parse_cc (e_hdr e)); None] (946684825 * second) = true /\
  can_stale_on_error f [resp_stale_if_error (parse_cc (e_hdr e)); None] (946684925 * second) = false.
Proof. repeat split; vm_compute; reflexivity. Qed.

(* ---------- history level ---------- *)
From HC Require Import Run.
From HC.Proofs Require Import ProvProofs TimeProofs SrcProofs.

(* Along EVERY sequential history from an empty store: a response that is returned marked STALE by an exchange that
   contacted the origin is the stale-if-error answer — the stored entry e (with a known source: Src) served with a
   recomputed Age — and this happens only when (1) the decision for e at the start of the exchange was to validate
   WITHOUT demanding validation (DRevalidate false: no unqualified no-cache, not stale-and-must-revalidate, no request
   no-cache, no exceeded request max-age — C13_not_when_validation_demanded), (2) the conditional request built from e's
   validators was sent in this exchange and failed or was answered 500 / 502 / 503 / 504, and (3) CanStaleOnError holds
   for the stale-if-error of the stored response or of the request at a clock reading of the exchange — which implies
   the specification's window (C13_within_window). *)
Theorem C13_history : forall cfg h t0 script k gq obs r,
  let all := run_history cfg h (init_world t0 script) in
  let L := flat_map (fun x => x_events x ++ x_bg_events x) all in
  nth_error h k = Some gq -> nth_error all k = Some obs -> x_result obs = Done (OResp r) -> has_call (x_events obs) ->
  hvalues status_header (p_hdr r) = [bs "STALE"] ->
  exists e now a b rep,
    let f := calculate_freshness e (parse_cc (q_hdr (snd gq))) (parse_cc (e_hdr e)) (x_t0 obs) in
    Src (GXl L) e /\ decide_hit (snd gq) e (x_t0 obs) = DRevalidate false /\
    reply_known (GXl L) (with_conditional_headers (snd gq) (e_hdr e)) a b rep /\ sie_failure rep /\
    can_stale_on_error f [resp_stale_if_error (parse_cc (e_hdr e)); req_stale_if_error (parse_cc (q_hdr (snd gq)))] now = true /\
    OResp r = stale_if_error_outcome e f now.
Proof.
  intros cfg h t0 script k gq obs r all L Hk Ho Hr Hc Hv.
  destruct (history_safeX L cfg h (init_world t0 script)) as [_ H]; [intros k' e' E; discriminate|apply incl_refl|].
  exact (after_call_stale _ _ _ _ (proj2 (H k gq obs (OResp r) Hk Ho Hr) Hc) Hv).
Qed.
Print Assumptions C13_history.

(* non-vacuity: stored, then a validation that fails 100 s later, inside the stale-if-error window *)
Example C13_history_nonvacuous :
  let rep := RResp {| p_status := 200; p_hdr := [(bs "Cache-Control", [bs "max-age=60, stale-if-error=600"]); (bs "Date", [bs "Sat, 01 Jan 2000 00:00:00 GMT"])];
                      p_body := 0; p_body_ok := true |} in
  let q := {| q_method := bs "GET";
              q_url := {| u_scheme := bs "http"; u_host := bs "a.test"; u_path := bs "/x"; u_query := []; u_force_query := false |};
              q_hdr := [] |} in
  exists o1 o2 r,
    run_history {| cfg_swr_timeout := 0 |} [(0, q); (100 * second, q)] (init_world (946684800 * second) [(second, rep, rep); (second, RErr, RErr)]) = [o1; o2] /\
    x_result o2 = Done (OResp r) /\ has_call (x_events o2) /\ hvalues status_header (p_hdr r) = [bs "STALE"] /\
    hvalues (bs "Age") (p_hdr r) = [bs "102"].
Proof.
  cbv zeta. eexists _, _, _. split; [vm_compute; reflexivity|]. split; [reflexivity|]. split; [|split; reflexivity].
  rewrite has_callb_spec. vm_compute. reflexivity.
Qed.

(* ---------- tie to the source: the part of the model this property rests on is what /verif/translate derives from
   /repo's Go source on this run (Generated/*.v are rewritten before every build; see DESIGN.md section 9) ---------- *)
From HC.Generated Require Import SrcEffects SrcStatus.
From HC.Proofs Require Import ProgEq TieEffects TieStatus.
Theorem C13_source_decision : forall q e k refs i, peq (src_handle_cache_hit q e k refs i) (handle_cache_hit q e k refs i).
Proof. exact tie_handle_cache_hit. Qed.
Theorem C13_source_error_statuses : forall code, src_is_stale_error_allowed code = is_stale_error_allowed code.
Proof. exact tie_is_stale_error_allowed. Qed.
Print Assumptions C13_source_decision.
Print Assumptions C13_source_error_statuses.

(* the effect trees this property is stated about — which store / origin / clock operations happen, in which order, under
   which conditions, and what every path returns — are those /verif/translate derives from the Go source on this run
   (Generated/SrcEffects.v; equal up to the extensional equality of continuations, ProgEq.peq, which [run] respects) *)
From HC.Generated Require Import SrcEffects.
From HC.Proofs Require Import ProgEq TieEffects.
Theorem C13_source_effects :
  (forall ctx q rep, peq (src_handle_validation_response ctx q rep) (handle_validation_response ctx q rep)).
Proof. exact tie_handle_validation_response. Qed.
Print Assumptions C13_source_effects.

(* the freshness computation itself — CalculateFreshness with its precedence of max-age / Expires / heuristics, the request's
   max-age, min-fresh and max-stale, and the flags the hit decision reads; calculateCurrentAge with its saturating sums and
   Go's wrapping multiplication; heuristicFreshness with Go's truncating division — is what /verif/translate derives from
   internal/freshness.go on this run, for every stored entry, directive set and clock reading *)
Theorem C13_source_freshness :
  (forall e rq rs now, src_calculate_freshness e rq rs now = calculate_freshness e rq rs now) /\
  (forall h date rt st now, src_current_age h date rt st now = (current_age h date rt st now, now)) /\
  (forall h date, src_heuristic_freshness h date = heuristic_freshness h date).
Proof. split; [exact tie_calculate_freshness|split; [exact tie_current_age|exact tie_heuristic_freshness]]. Qed.
Print Assumptions C13_source_freshness.

(* the saturating addition used for ages and windows is the one of internal/freshness.go on this run (Generated/SrcHelpers.v),
   on the non-negative durations it is documented for *)
From HC.Generated Require Import SrcHelpers.
From HC.Proofs Require Import TieHelpers.
Theorem C13_source_saturating_add :
  forall a b, 0 <= a <= max64 -> 0 <= b <= max64 -> src_saturating_add a b = go_sat_add a b.
Proof. exact tie_saturating_add. Qed.
Print Assumptions C13_source_saturating_add.

(* the window test itself — some source (the stored response's stale-if-error, the request's) with a usable value for which the
   age at the clock reading is below lifetime plus window, both sums saturating — is the CanStaleOnError of
   internal/cacheabilityevaluator.go on this run (Generated/SrcStaleIfError.v) *)
From HC.Generated Require Import SrcStaleIfError.
From HC.Proofs Require Import TieStaleIfError.
Theorem C13_source_window : forall f sies now, src_can_stale_on_error f sies now = can_stale_on_error f sies now.
Proof. exact tie_can_stale_on_error. Qed.
Print Assumptions C13_source_window.
