(* C18 — only-if-cached never touches the network.
   For every request that carries only-if-cached (in any spelling parse_cc accepts, see C12) — a plain GET, or a request
   the cache never answers from its store (another method, a Range request; those forwarded it to the origin on the pinned
   tree: fix F35) — the effect tree of RoundTrip contains no origin call on any path: whatever the store
   answers (absent, corrupted, any index, any entry) and whatever the clock reads, and no background
   task containing one is spawned. *)
From HC Require Import Transport.
From HC.Proofs Require Import Paths.
Open Scope Z_scope.

Lemma miss_no_origin q k refs i :
  req_only_if_cached (parse_cc (q_hdr q)) = true -> NoOrigin (handle_cache_miss q k refs i).
Proof. intros H; unfold handle_cache_miss; rewrite H; constructor. Qed.

Lemma decide_hit_oic q stored now :
  req_only_if_cached (parse_cc (q_hdr q)) = true ->
  decide_hit q stored now = DServe \/ decide_hit q stored now = D504.
Proof.
  intros H; unfold decide_hit; rewrite H.
  destruct (hit_must_validate _ _ _); [right; reflexivity|].
  rewrite Bool.orb_true_r; left; reflexivity.
Qed.

Lemma hit_no_origin q stored k refs i :
  req_only_if_cached (parse_cc (q_hdr q)) = true -> NoOrigin (handle_cache_hit q stored k refs i).
Proof.
  intros H; unfold handle_cache_hit; constructor; intros now; cbv zeta.
  destruct (decide_hit_oic q stored now H) as [E|E]; rewrite E; constructor.
Qed.

Theorem C18_no_origin : forall q,
  req_only_if_cached (parse_cc (q_hdr q)) = true ->
  NoOrigin (round_trip q).
Proof.
  intros q H; unfold round_trip. destruct (is_request_method_understood q); cbn [negb];
    [|unfold handle_unrecognized_method; rewrite H; constructor]. unfold get_refs_clean.
  constructor; intros ans; destruct (option_map drop_nil_refs ans) as [[|r l]|].
  - apply miss_no_origin, H.
  - destruct (has_nil_ref (r :: l)); [constructor|].
    destruct (vary_headers_match _ _) as [[sorted [i|]]|]; [|apply miss_no_origin, H|constructor].
    destruct (nth_error _ _); [|constructor].
    constructor; intros e; destruct e; [apply hit_no_origin, H|apply miss_no_origin, H].
  - apply miss_no_origin, H.
Qed.
Print Assumptions C18_no_origin.

(* The answer is a stored response or the synthesised 504: every leaf is a response, never an error. *)
Theorem C18_answer : forall q,
  req_only_if_cached (parse_cc (q_hdr q)) = true ->
  Leaves (fun out => exists r, out = OResp r) (round_trip q).
Proof.
  intros q H; unfold round_trip. destruct (is_request_method_understood q); cbn [negb];
    [|unfold handle_unrecognized_method; rewrite H; constructor; eauto]. unfold get_refs_clean.
  assert (Hmiss : forall k refs i, Leaves (fun out => exists r, out = OResp r) (handle_cache_miss q k refs i)).
  { intros; unfold handle_cache_miss; rewrite H; constructor; eauto. }
  assert (Hhit : forall st k refs i, Leaves (fun out => exists r, out = OResp r) (handle_cache_hit q st k refs i)).
  { intros; unfold handle_cache_hit; constructor; intros now; cbv zeta.
    destruct (decide_hit_oic q st now H) as [E|E]; rewrite E; constructor; unfold serve_from_cache; eauto. }
  constructor; intros ans; destruct (option_map drop_nil_refs ans) as [[|r l]|]; auto.
  destruct (has_nil_ref (r :: l)); [constructor|].
  destruct (vary_headers_match _ _) as [[sorted [i|]]|]; auto; [|constructor].
  destruct (nth_error _ _); [|constructor].
  constructor; intros e; destruct e; auto.
Qed.
Print Assumptions C18_answer.

(* non-vacuity: a concrete request meets the hypotheses *)
Example C18_premises_satisfiable :
  let q := {| q_method := bs "GET";
              q_url := {| u_scheme := bs "http"; u_host := bs "a.test"; u_path := bs "/x"; u_query := [];
                          u_force_query := false |};
              q_hdr := [(bs "Cache-Control", [bs "Only-If-Cached, max-stale=5"])] |} in
  is_request_method_understood q = true /\ req_only_if_cached (parse_cc (q_hdr q)) = true /\
  is_request_method_understood {| q_method := bs "POST"; q_url := q_url q; q_hdr := q_hdr q |} = false.
Proof. vm_compute; repeat split; reflexivity. Qed.

(* ---------- history level ---------- *)
From HC Require Import Run Spec.
From HC.Proofs Require Import FreshProofs DecisionProofs ProvProofs TimeProofs SrcProofs.

(* Along EVERY sequential history from an empty store, an exchange whose request carries only-if-cached — whatever its
   method — logs no origin call, neither in the foreground nor in background work it starts, and what it returns is the
   synthesised 504 or the served form of a stored entry with a known source (Src) that does not need validation by
   the specification at that instant. *)
Theorem C18_history : forall cfg h t0 script k gq obs,
  let all := run_history cfg h (init_world t0 script) in
  let L := flat_map (fun x => x_events x ++ x_bg_events x) all in
  nth_error h k = Some gq -> nth_error all k = Some obs ->
  req_only_if_cached (parse_cc (q_hdr (snd gq))) = true ->
  ~ has_call (x_events obs) /\ ~ has_call (x_bg_events obs) /\
  forall o, x_result obs = Done o ->
    o = OResp response_504 \/
    exists e, Src (GXl L) e /\ o = served_outcome (snd gq) e (x_t0 obs) /\
      (valid_date (e_hdr e) -> needs_validation (view_of e) (snd gq) (x_t0 obs) = false).
Proof.
  intros cfg h t0 script k gq obs all L Hk Ho Hoic.
  assert (Hcalls : ~ has_call (x_events obs) /\ ~ has_call (x_bg_events obs)).
  { clear L. subst all. revert k Hk Ho. generalize (init_world t0 script). induction h as [|[gap q] h IH]; intros w k Hk Ho; [destruct k; discriminate|].
    cbn [run_history] in Ho.
    destruct (exchange cfg q _) as [obs0 w2] eqn:E. destruct k as [|k].
    - cbn in Hk, Ho. injection Hk as <-. injection Ho as <-. cbn [snd] in *.
      eapply exchange_no_origin; [apply C18_no_origin; exact Hoic|exact E].
    - cbn in Hk, Ho. eapply IH; eassumption. }
  destruct Hcalls as [Hfg Hbg]. split; [exact Hfg|split; [exact Hbg|]]. intros o Hr.
  destruct (history_safeX L cfg h (init_world t0 script)) as [_ H]; [intros k' e' E; discriminate|apply incl_refl|].
  destruct (proj1 (H k gq obs o Hk Ho Hr) Hfg) as [E|(e & Hs & Hd & E)]; [left; exact E|right].
  exists e. split; [exact Hs|split; [exact E|]]. intros Hv.
  apply decision_needs_no_validation; [exact Hv|eapply Src_status; exact Hs|exact Hd].
Qed.
Print Assumptions C18_history.

(* ---------- tie to the source: the part of the model this property rests on is what /verif/translate derives from
   /repo's Go source on this run (Generated/*.v are rewritten before every build; see DESIGN.md section 9) ---------- *)
From HC.Generated Require Import SrcEffects.
From HC.Proofs Require Import ProgEq TieEffects.
Theorem C18_source_decision : forall q e k refs i, peq (src_handle_cache_hit q e k refs i) (handle_cache_hit q e k refs i).
Proof. exact tie_handle_cache_hit. Qed.
Print Assumptions C18_source_decision.

(* the effect trees this property is stated about — which store / origin / clock operations happen, in which order, under
   which conditions, and what every path returns — are those /verif/translate derives from the Go source on this run
   (Generated/SrcEffects.v; equal up to the extensional equality of continuations, ProgEq.peq, which [run] respects) *)
From HC.Generated Require Import SrcEffects.
From HC.Proofs Require Import ProgEq TieEffects.
Theorem C18_source_effects :
  (forall q, peq (src_round_trip q) (round_trip q)) /\
  (forall q k refs i, peq (src_handle_cache_miss q k refs i) (handle_cache_miss q k refs i)) /\
  (forall q e k refs i, peq (src_handle_cache_hit q e k refs i) (handle_cache_hit q e k refs i)).
Proof. repeat split; [exact tie_round_trip|exact tie_handle_cache_miss|exact tie_handle_cache_hit]. Qed.
Print Assumptions C18_source_effects.

(* the freshness computation itself — CalculateFreshness with its precedence of max-age / Expires / heuristics, the request's
   max-age, min-fresh and max-stale, and the flags the hit decision reads; calculateCurrentAge with its saturating sums and
   Go's wrapping multiplication; heuristicFreshness with Go's truncating division — is what /verif/translate derives from
   internal/freshness.go on this run, for every stored entry, directive set and clock reading *)
Theorem C18_source_freshness :
  (forall e rq rs now, src_calculate_freshness e rq rs now = calculate_freshness e rq rs now) /\
  (forall h date rt st now, src_current_age h date rt st now = (current_age h date rt st now, now)) /\
  (forall h date, src_heuristic_freshness h date = heuristic_freshness h date).
Proof. split; [exact tie_calculate_freshness|split; [exact tie_current_age|exact tie_heuristic_freshness]]. Qed.
Print Assumptions C18_source_freshness.
