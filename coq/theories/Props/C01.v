(* C01 — a stale stored response is never served without explicit permission.

   Layering.  [decide_hit] is the decision of roundtripper.go's handleCacheHit as a pure function of
   (request, stored entry, clock); [handle_cache_hit] returns a stored response without an origin call
   exactly on DServe / DServeSWR (C01_only_by_decision).  [fresh_enough] / [staleness_allowed] are the
   specification (Spec.v): RFC 9111 §4.2.3 age and §4.2.1-4.2.2 lifetime with saturating arithmetic,
   request max-age / min-fresh, and the explicit allowances max-stale, only-if-cached and the stored
   response's stale-while-revalidate window.

   C01_local holds for every request, every stored entry (all header values: Age, Date, Expires,
   Last-Modified, Cache-Control in any spelling; any instants) and every clock reading, under two
   hypotheses on the entry that every entry the transport itself writes satisfies: its Date parses
   (roundTripTimed/FixDateHeader supplies one) and its status is not 304 (a 304 is never stored).
   The monitor mon_C01 (Spec.v) states the same thing over observed histories and is evaluated on the
   real transport in every run. *)
From HC Require Import Transport Spec.
From HC.Proofs Require Import Paths FreshProofs DecisionProofs.
Open Scope Z_scope.

Theorem C01_local : forall q e now,
  valid_date (e_hdr e) -> e_status e <> 304 ->
  decide_hit q e now = DServe \/ decide_hit q e now = DServeSWR ->
  fresh_enough (view_of e) q now || staleness_allowed (view_of e) q now = true.
Proof. exact decision_fresh_or_allowed. Qed.
Print Assumptions C01_local.

(* the age the implementation computes is never below the specification's, and its lifetime never above:
   the two inequalities C01_local rests on, for all header values and instants *)
Theorem C01_age_conservative : forall h req resp now,
  0 <= spec_current_age h req resp now <= current_age h (date_header h) req resp now.
Proof. intros. apply spec_age_le_impl. Qed.
Print Assumptions C01_age_conservative.

Theorem C01_lifetime_conservative : forall e,
  valid_date (e_hdr e) -> e_status e <> 304 ->
  0 <= response_lifetime e (parse_cc (e_hdr e)) <= spec_lifetime (e_status e) (e_hdr e).
Proof. intros. apply response_lifetime_le; assumption. Qed.
Print Assumptions C01_lifetime_conservative.

(* a hit is answered without an origin call only when the decision says so; every other decision either
   synthesises the 504 or starts with an origin call *)
Theorem C01_only_by_decision : forall q e k refs i now,
  match handle_cache_hit q e k refs i with
  | Now c =>
      match decide_hit q e now with
      | DServe | DServeSWR => True
      | D504 => c now = Ret (OResp response_504)
      | DRevalidate _ => exists c', c now = Now c'
                         /\ forall t, exists c'', c' t = Origin (with_conditional_headers q (e_hdr e)) c''
      end
  | _ => False
  end.
Proof.
  intros; unfold handle_cache_hit. cbv zeta.
  destruct (decide_hit q e now) eqn:E; auto.
  unfold round_trip_timed. eexists; split; [reflexivity|]. intros t; eexists; reflexivity.
Qed.
Print Assumptions C01_only_by_decision.

(* non-vacuity: a concrete stored entry and request meet the hypotheses and are served (DServe) while
   fresh, and are not served one lifetime later *)
Definition ex_hdr : headers :=
  [(bs "Cache-Control", [bs "Max-Age=60"]); (bs "Date", [bs "Sat, 01 Jan 2000 00:00:00 GMT"]);
   (bs "Age", [bs "5"])].
Definition ex_entry : stored_entry :=
  {| e_id := bs "k#0"; e_status := 200; e_hdr := ex_hdr; e_body := 0;
     e_req_at := 946684800 * second; e_recv_at := 946684801 * second |}.
Definition ex_req : request :=
  {| q_method := bs "GET";
     q_url := {| u_scheme := bs "http"; u_host := bs "a.test"; u_path := bs "/x"; u_query := []; u_force_query := false |};
     q_hdr := [] |}.
Example C01_served_while_fresh :
  decide_hit ex_req ex_entry (946684830 * second) = DServe /\
  decide_hit ex_req ex_entry (946684900 * second) = DRevalidate false /\
  (exists d, raw_time (hget (bs "Date") (e_hdr ex_entry)) = Some d) /\ e_status ex_entry <> 304.
Proof. repeat split; try (vm_compute; reflexivity); [eexists; vm_compute; reflexivity|discriminate]. Qed.

(* ---------- history level: the instants ages are computed from ---------- *)
From HC.Proofs Require Import ProvProofs TimeProofs.

(* After any sequential history from an empty store (any requests, origin script, timing), every stored entry
   carries as request / response instants the start / end of one origin call of that history.  C01_local
   measures ages from these two fields: they cannot be anything but the true instants of an exchange with the
   origin (and, by C03_history_provenance, for the same URL key). *)
Theorem C01_history_times : forall cfg h t0 script k e,
  get_entry (w_store (final_world cfg h (init_world t0 script))) k = Some e ->
  exists idx q rep,
    In (EvCall idx q (e_req_at e) (e_recv_at e) rep)
       (flat_map (fun o => x_events o ++ x_bg_events o) (run_history cfg h (init_world t0 script))).
Proof.
  intros cfg h t0 script k e H.
  assert (HI : InvT (flat_map (fun o => x_events o ++ x_bg_events o) (run_history cfg h (init_world t0 script))) (w_store (init_world t0 script))).
  { intros k' e' He. discriminate. }
  destruct (history_safeT _ cfg h (init_world t0 script) HI (incl_refl _) k e H) as (u & idx & q & rep & Hin & _).
  exists idx, q, rep. exact Hin.
Qed.
Print Assumptions C01_history_times.

(* the three HTTP-date forms of RFC 9110 §5.6.7 (its own example) denote one instant; a malformed day does not parse *)
Example C01_date_forms :
  parse_http_time (bs "Sun, 06 Nov 1994 08:49:37 GMT") = Some 784111777 /\
  parse_http_time (bs "Sunday, 06-Nov-94 08:49:37 GMT") = Some 784111777 /\
  parse_http_time (bs "Sun Nov  6 08:49:37 1994") = Some 784111777 /\
  parse_http_time (bs "Sunday, 06-Nov-68 08:49:37 GMT") = Some 3119417377 /\
  parse_http_time (bs "Sun Nov 31 08:49:37 1994") = None /\
  parse_http_time (bs "0") = None.
Proof. vm_compute. repeat split; reflexivity. Qed.
