(* C01 — a stale stored response is never served without explicit permission.

   Layering.  [decide_hit] is the decision of roundtripper.go's handleCacheHit as a pure function of
   (request, stored entry, clock); [handle_cache_hit] returns a stored response without an origin call
   exactly on DServe / DServeSWR (C01_only_by_decision).  [fresh_enough] / [staleness_allowed] are the
   specification (Spec.v): RFC 9111 §4.2.3 age and §4.2.1-4.2.2 lifetime with saturating arithmetic,
   request max-age / min-fresh, and the explicit allowances max-stale, only-if-cached and the stored
   response's stale-while-revalidate window.

   C01_local holds for every request, every stored entry (all header values: Age, Date, Expires,
   Last-Modified, Cache-Control in any spelling; any instants) and every clock reading, under two
   hypotheses on the entry that every entry the transport itself writes satisfies: its Date parses
   (roundTripTimed/FixDateHeader supplies one) and its status is not 304 (a 304 is never stored).
   The monitor mon_C01 (Spec.v) states the same thing over observed histories and is evaluated on the
   real transport in every run. *)
From HC Require Import Transport Spec.
From HC.Proofs Require Import Paths FreshProofs DecisionProofs.
Open Scope Z_scope.

Theorem C01_local : forall q e now,
  valid_date (e_hdr e) -> e_status e <> 304 ->
  decide_hit q e now = DServe \/ decide_hit q e now = DServeSWR ->
  fresh_enough (view_of e) q now || staleness_allowed (view_of e) q now = true.
Proof. exact decision_fresh_or_allowed. Qed.
Print Assumptions C01_local.

(* the age the implementation computes is never below the specification's, and its lifetime never above:
   the two inequalities C01_local rests on, for all header values and instants *)
Theorem C01_age_conservative : forall h req resp now,
  0 <= spec_current_age h req resp now <= current_age h (date_header h) req resp now.
Proof. intros. apply spec_age_le_impl. Qed.
Print Assumptions C01_age_conservative.

Theorem C01_lifetime_conservative : forall e,
  valid_date (e_hdr e) -> e_status e <> 304 ->
  0 <= response_lifetime e (parse_cc (e_hdr e)) <= spec_lifetime (e_status e) (e_hdr e).
Proof. intros. apply response_lifetime_le; assumption. Qed.
Print Assumptions C01_lifetime_conservative.

(* a hit is answered without an origin call only when the decision says so; every other decision either
   synthesises the 504 or starts with an origin call *)
Theorem C01_only_by_decision : forall q e k refs i now,
  match handle_cache_hit q e k refs i with
  | Now c =>
      match decide_hit q e now with
      | DServe | DServeSWR => True
      | D504 => c now = Ret (OResp response_504)
      | DRevalidate _ => exists c', c now = Now c'
                         /\ forall t, exists c'', c' t = Origin (with_conditional_headers q (e_hdr e)) c''
      end
  | _ => False
  end.
Proof.
  intros; unfold handle_cache_hit. cbv zeta.
  destruct (decide_hit q e now) eqn:E; auto.
  unfold round_trip_timed. eexists; split; [reflexivity|]. intros t; eexists; reflexivity.
Qed.
Print Assumptions C01_only_by_decision.

(* non-vacuity: a concrete stored entry and request meet the hypotheses and are served (DServe) while
   fresh, and are not served one lifetime later *)
Definition ex_hdr : headers :=
  [(bs "Cache-Control", [bs "Max-Age=60"]); (bs "Date", [bs "Sat, 01 Jan 2000 00:00:00 GMT"]);
   (bs "Age", [bs "5"])].
Definition ex_entry : stored_entry :=
  {| e_id := bs "k#0"; e_status := 200; e_hdr := ex_hdr; e_body := 0;
     e_req_at := 946684800 * second; e_recv_at := 946684801 * second |}.
Definition ex_req : request :=
  {| q_method := bs "GET";
     q_url := {| u_scheme := bs "http"; u_host := bs "a.test"; u_path := bs "/x"; u_query := []; u_force_query := false |};
     q_hdr := [] |}.
Example C01_served_while_fresh :
  decide_hit ex_req ex_entry (946684830 * second) = DServe /\
  decide_hit ex_req ex_entry (946684900 * second) = DRevalidate false /\
  (exists d, raw_time (hget (bs "Date") (e_hdr ex_entry)) = Some d) /\ e_status ex_entry <> 304.
Proof. repeat split; try (vm_compute; reflexivity); [eexists; vm_compute; reflexivity|discriminate]. Qed.

(* ---------- history level: the instants ages are computed from ---------- *)
From HC.Proofs Require Import ProvProofs TimeProofs.

(* After any sequential history from an empty store (any requests, origin script, timing), every stored entry
   carries as request / response instants the start / end of one origin call of that history.  C01_local
   measures ages from these two fields: they cannot be anything but the true instants of an exchange with the
   origin (and, by C03_history_provenance, for the same URL key). *)
Theorem C01_history_times : forall cfg h t0 script k e,
  get_entry (w_store (final_world cfg h (init_world t0 script))) k = Some e ->
  exists idx q rep,
    In (EvCall idx q (e_req_at e) (e_recv_at e) rep)
       (flat_map (fun o => x_events o ++ x_bg_events o) (run_history cfg h (init_world t0 script))).
Proof.
  intros cfg h t0 script k e H.
  assert (HI : InvT (flat_map (fun o => x_events o ++ x_bg_events o) (run_history cfg h (init_world t0 script))) (w_store (init_world t0 script))).
  { intros k' e' He. discriminate. }
  destruct (history_safeT _ cfg h (init_world t0 script) HI (incl_refl _) k e H) as (u & idx & q & rep & Hin & _).
  exists idx, q, rep. exact Hin.
Qed.
Print Assumptions C01_history_times.

(* ---------- history level: the fields ages and lifetimes are computed from, and the decision ---------- *)
From HC.Proofs Require Import SrcProofs.

(* C01 over whole histories.  Along EVERY sequential history from an empty store (any requests, origin script, timing),
   an exchange that returns a response without contacting the origin returns the synthesised 504, or the served form
   of an entry e such that
   (a) [Src]: e is exactly what StoreResponse files for the reply of one origin call of the history — its status and
       body, its header block after the Date repair and the removal of hop-by-hop fields, and as request / response
       instants the start / end of that very call — or such an entry freshened, any number of times, by the 304 of
       another call of the history (fields merged by updateStoredHeaders, instants of the validating call): the inputs
       of the age and lifetime computations cannot be anything but what the origin sent and when; and
   (b) at the instant the exchange started, e is fresh by the specification's age and lifetime (saturating arithmetic,
       request max-age / min-fresh applied) or its staleness is explicitly allowed (max-stale, only-if-cached, the stored
       stale-while-revalidate window).
   The premise [valid_date] of (b) — the stored Date parses — fails only when the origin itself names Date in a
   Connection field, or for clock readings outside the years HTTP-dates can express. *)
Theorem C01_history : forall cfg h t0 script k gq obs o,
  let all := run_history cfg h (init_world t0 script) in
  let L := flat_map (fun x => x_events x ++ x_bg_events x) all in
  nth_error h k = Some gq -> nth_error all k = Some obs -> x_result obs = Done o -> ~ has_call (x_events obs) ->
  o = OResp response_504 \/
  exists e, Src (GXl L) e /\ o = served_outcome (snd gq) e (x_t0 obs) /\
    (valid_date (e_hdr e) ->
     fresh_enough (view_of e) (snd gq) (x_t0 obs) || staleness_allowed (view_of e) (snd gq) (x_t0 obs) = true).
Proof.
  intros cfg h t0 script k gq obs o all L Hk Ho Hr Hnc.
  destruct (history_safeX L cfg h (init_world t0 script)) as [_ H]; [intros k' e' E; discriminate|apply incl_refl|].
  destruct (proj1 (H k gq obs o Hk Ho Hr) Hnc) as [E|(e & Hs & Hd & E)]; [left; exact E|right].
  exists e. split; [exact Hs|split; [exact E|]]. intros Hv.
  apply decision_fresh_or_allowed; [exact Hv|eapply Src_status; exact Hs|exact Hd].
Qed.
Print Assumptions C01_history.

(* what (a) says, field by field *)
Theorem C01_history_sources : forall GX e, Src GX e ->
  e_status e <> 304 /\
  (exists q r, GX q (e_req_at e) (e_recv_at e) r) /\
  (exists q a b r, GX q a b r /\ p_status r <> 304 /\ e_status e = p_status r /\ e_body e = p_body r) /\
  ((exists q a b r, GX q a b r /\ p_status r <> 304 /\ e_hdr e = remove_hop_by_hop (fix_date_header (p_hdr r) b)) \/
   (exists e0 q a b r, Src GX e0 /\ GX q a b r /\ p_status r = 304 /\
      e_hdr e = remove_hop_by_hop (update_stored_headers (e_hdr e0) (fix_date_header (p_hdr r) b)))).
Proof.
  intros GX e H. split; [eapply Src_status; exact H|split; [apply Src_instants, H|split; [apply Src_body, H|apply Src_header, H]]].
Qed.
Print Assumptions C01_history_sources.

(* every stored entry has such a source, after any history *)
Theorem C01_history_store : forall cfg h t0 script k e,
  get_entry (w_store (final_world cfg h (init_world t0 script))) k = Some e ->
  Src (GXl (flat_map (fun x => x_events x ++ x_bg_events x) (run_history cfg h (init_world t0 script)))) e.
Proof.
  intros cfg h t0 script k e H.
  destruct (history_safeX (flat_map (fun x => x_events x ++ x_bg_events x) (run_history cfg h (init_world t0 script)))
              cfg h (init_world t0 script)) as [HI _]; [intros k' e' E; discriminate|apply incl_refl|].
  exact (HI k e H).
Qed.
Print Assumptions C01_history_store.

(* non-vacuity: a three-request history whose second exchange is answered from the store without an origin call
   (the premises of C01_history hold of it, the answer is not the 504), and whose third — one lifetime later — is not *)
Definition ex_rep : origin_reply :=
  RResp {| p_status := 200; p_hdr := [(bs "Cache-Control", [bs "max-age=60"]); (bs "Date", [bs "Sat, 01 Jan 2000 00:00:00 GMT"])];
           p_body := 0; p_body_ok := true |}.
Definition ex_run : list exchange_obs :=
  run_history {| cfg_swr_timeout := 0 |} [(0, ex_req); (10 * second, ex_req); (100 * second, ex_req)]
    (init_world (946684800 * second) [(second, ex_rep, ex_rep); (second, ex_rep, ex_rep)]).
Example C01_history_nonvacuous :
  exists o1 o2 o3 r, ex_run = [o1; o2; o3] /\ x_result o2 = Done (OResp r) /\ ~ has_call (x_events o2) /\
    hvalues status_header (p_hdr r) = [bs "HIT"] /\ hvalues (bs "Age") (p_hdr r) = [bs "11"] /\ has_call (x_events o3).
Proof.
  eexists _, _, _, _. split; [vm_compute; reflexivity|]. split; [reflexivity|]. split; [|split; [reflexivity|split; [reflexivity|]]].
  - rewrite has_callb_spec. vm_compute. discriminate.
  - rewrite has_callb_spec. vm_compute. reflexivity.
Qed.

(* the three HTTP-date forms of RFC 9110 §5.6.7 (its own example) denote one instant; a malformed day does not parse *)
Example C01_date_forms :
  parse_http_time (bs "Sun, 06 Nov 1994 08:49:37 GMT") = Some 784111777 /\
  parse_http_time (bs "Sunday, 06-Nov-94 08:49:37 GMT") = Some 784111777 /\
  parse_http_time (bs "Sun Nov  6 08:49:37 1994") = Some 784111777 /\
  parse_http_time (bs "Sunday, 06-Nov-68 08:49:37 GMT") = Some 3119417377 /\
  parse_http_time (bs "Sun Nov 31 08:49:37 1994") = None /\
  parse_http_time (bs "0") = None.
Proof. vm_compute. repeat split; reflexivity. Qed.

(* ---------- tie to the source: the part of the model this property rests on is what /verif/translate derives from
   /repo's Go source on this run (Generated/*.v are rewritten before every build; see DESIGN.md section 9) ---------- *)
From HC.Generated Require Import SrcEffects.
From HC.Proofs Require Import ProgEq TieEffects.
Theorem C01_source_decision : forall q e k refs i, peq (src_handle_cache_hit q e k refs i) (handle_cache_hit q e k refs i).
Proof. exact tie_handle_cache_hit. Qed.
Print Assumptions C01_source_decision.

(* the effect trees this property is stated about — which store / origin / clock operations happen, in which order, under
   which conditions, and what every path returns — are those /verif/translate derives from the Go source on this run
   (Generated/SrcEffects.v; equal up to the extensional equality of continuations, ProgEq.peq, which [run] respects) *)
From HC.Generated Require Import SrcEffects.
From HC.Proofs Require Import ProgEq TieEffects.
Theorem C01_source_effects :
  (forall q e k refs i, peq (src_handle_cache_hit q e k refs i) (handle_cache_hit q e k refs i)).
Proof. exact tie_handle_cache_hit. Qed.
Print Assumptions C01_source_effects.

(* ... and StoreResponse (hop-by-hop fields removed first, the variant key, the entry written before the index, the index
   entry appended or replaced), serveFromCache and handleStaleWhileRevalidate (qualified no-cache fields removed, Age, status,
   the background revalidation started with the stored validators) *)
Theorem C01_source_effects2 :
  (forall e f now ql, peq (src_serve_from_cache e f now ql) (Ret (serve_from_cache e f now ql))) /\
  (forall q e k f cc now ql, peq (src_handle_stale_while_revalidate q e k f cc now ql) (handle_stale_while_revalidate q e k f cc now ql)).
Proof. repeat split; [exact tie_serve_from_cache|exact tie_handle_stale_while_revalidate]. Qed.
Print Assumptions C01_source_effects2.

(* the freshness computation itself — CalculateFreshness with its precedence of max-age / Expires / heuristics, the request's
   max-age, min-fresh and max-stale, and the flags the hit decision reads; calculateCurrentAge with its saturating sums and
   Go's wrapping multiplication; heuristicFreshness with Go's truncating division — is what /verif/translate derives from
   internal/freshness.go on this run, for every stored entry, directive set and clock reading *)
Theorem C01_source_freshness :
  (forall e rq rs now, src_calculate_freshness e rq rs now = calculate_freshness e rq rs now) /\
  (forall h date rt st now, src_current_age h date rt st now = (current_age h date rt st now, now)) /\
  (forall h date, src_heuristic_freshness h date = heuristic_freshness h date).
Proof. split; [exact tie_calculate_freshness|split; [exact tie_current_age|exact tie_heuristic_freshness]]. Qed.
Print Assumptions C01_source_freshness.

(* the instants an entry is stored with are read around the origin call by the roundTripTimed of roundtripper.go on this run
   (a clock reading, the call, a clock reading; a response without a usable Date is dated by the second reading) *)
From HC.Generated Require Import SrcTimed.
From HC.Proofs Require Import TieTimed.
Theorem C01_source_timed_call : forall (A : Type) q (c : origin_reply -> Z -> Z -> prog A), src_round_trip_timed q c = round_trip_timed q c.
Proof. exact @tie_round_trip_timed. Qed.
Print Assumptions C01_source_timed_call.
