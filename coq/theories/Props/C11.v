(* C11 — Age and cache-status fields on responses tell the truth.

   C11_status_exactly_one / C11_legacy: after ApplyTo a response carries exactly one X-Httpcache-Status
   value, the one applied, and X-From-Cache is "1" exactly for HIT / STALE / REVALIDATED and absent
   otherwise (whatever the origin sent).
   C11_served_fields: a response served from the store (serveFromCache, and the stale-while-revalidate
   and stale-if-error paths alike) carries exactly one Age value, int(Seconds(age)) of the age computed
   at the clock reading of that exchange, replacing any Age received from the origin, and is marked HIT
   or STALE.  C11_hit_is_fresh: it is marked HIT only while the specification's age is below the
   specification's lifetime; otherwise STALE.  C11_age_exact: that age equals the specification's
   current age (RFC 9111 §4.2.3) whenever the stored Age field is absent or a digit string and Date parses.
   C11_paths: every other way a response is produced applies MISS, BYPASS or REVALIDATED as the property
   prescribes (by the structure of the program: see C02/C06/C13 for which leaf is which).
   Go's float conversion int(d.Seconds()) is modelled exactly ([seconds_trunc]); it equals d/1e9 up to
   one unit, which the run compares against the implementation ("within one second"). *)
From HC Require Import Transport Spec.
From HC.Proofs Require Import Paths FreshProofs DecisionProofs HeaderProofs.
From Coq Require Import ZifyBool.
Open Scope Z_scope.

Theorem C11_status_exactly_one : forall s h, hvalues status_header (apply_status s h) = [status_value s].
Proof. exact status_values. Qed.
Print Assumptions C11_status_exactly_one.

Theorem C11_legacy : forall s h,
  hvalues from_cache_header (apply_status s h) =
  match s with HIT | STALE | REVALIDATED => [bs "1"] | MISS | BYPASS => [] end.
Proof. intros s h; rewrite legacy_values; destruct s; reflexivity. Qed.
Print Assumptions C11_legacy.

Theorem C11_served_fields : forall e f now qualified r,
  serve_from_cache e f now qualified = OResp r ->
  hvalues (bs "Age") (p_hdr r) = [age_header_value f now] /\
  hvalues status_header (p_hdr r) = [status_value (if f_expired f then STALE else HIT)] /\
  hvalues from_cache_header (p_hdr r) = [bs "1"] /\
  p_status r = e_status e /\ p_body r = e_body e.
Proof.
  intros e f now qualified r H. unfold serve_from_cache in H. inversion H; subst; clear H. cbn [p_hdr response_of entry_with_hdr e_hdr p_status p_body e_status e_body].
  split; [apply age_values_after_status|]. split; [apply status_values|].
  split; [rewrite legacy_values; destruct (f_expired f); reflexivity|]. split; reflexivity.
Qed.
Print Assumptions C11_served_fields.

(* the stale-while-revalidate path sets the same fields (Age recomputed, STALE) *)
Theorem C11_swr_fields : forall q e k f cc now qualified,
  exists bg r, handle_stale_while_revalidate q e k f cc now qualified = Spawn bg (Ret (OResp r)) /\
  hvalues (bs "Age") (p_hdr r) = [age_header_value f now] /\
  hvalues status_header (p_hdr r) = [bs "STALE"] /\ hvalues from_cache_header (p_hdr r) = [bs "1"].
Proof.
  intros. unfold handle_stale_while_revalidate. eexists _, _; split; [reflexivity|].
  cbn [p_hdr response_of entry_with_hdr e_hdr].
  split; [apply age_values_after_status|]. split; [apply status_values|apply legacy_values].
Qed.
Print Assumptions C11_swr_fields.

(* HIT is applied only while the specification says fresh *)
Theorem C11_hit_is_fresh : forall q e now,
  valid_date (e_hdr e) -> e_status e <> 304 ->
  decide_hit q e now = DServe ->
  f_expired (calculate_freshness e (parse_cc (q_hdr q)) (parse_cc (e_hdr e)) now) = false ->
  sv_age (view_of e) now < sv_life (view_of e).
Proof.
  intros q e now Hd Hs Hdec Hexp.
  assert (Hn0 : req_max_age (parse_cc (q_hdr q)) <> Some 0).
  { intros E. unfold calculate_freshness in Hexp. rewrite E in Hexp. discriminate. }
  pose proof (calc_fresh_facts q e now Hd Hs Hn0) as FF.
  rewrite (ff_expired _ _ _ _ FF) in Hexp.
  pose proof (ages e now) as [[_ Ha] _]. pose proof (lives e Hd Hs) as [[_ Hl] _]. lia.
Qed.
Print Assumptions C11_hit_is_fresh.

(* the age is the specification's age when the stored fields are well formed *)
Definition age_field_wf (h : headers) : Prop :=
  hget (bs "Age") h = [] \/ all_digits (hget (bs "Age") h) = true.

Theorem C11_age_exact : forall e now,
  valid_date (e_hdr e) -> age_field_wf (e_hdr e) ->
  entry_age e now = sv_age (view_of e) now.
Proof.
  intros e now [d Hd] Hwf. rewrite sv_age_view. unfold entry_age, current_age, spec_current_age.
  unfold date_header, spec_time. rewrite Hd. rewrite !time_sub_pos.
  assert (Hav : (if (match hget (bs "Age") (e_hdr e) with [] => 0 | s => atoi_drop_err s end) <=? max_delta_seconds
                 then Z.max (match hget (bs "Age") (e_hdr e) with [] => 0 | s => atoi_drop_err s end) 0 * second
                 else max64) = spec_age_value (e_hdr e)).
  { unfold spec_age_value, spec_delta. destruct Hwf as [E|E].
    - rewrite E. reflexivity.
    - destruct (hget (bs "Age") (e_hdr e)) as [|c s] eqn:Ea; [reflexivity|].
      rewrite E. cbn [andb negb beq].
      pose proof (digits_val_nonneg _ E) as Hnn.
      unfold atoi_drop_err. rewrite (parse_int64_digits c s E). rewrite sat_ns_cases by exact Hnn.
      destruct (digits_val 0 (c :: s) <=? max64) eqn:Hm.
      + destruct (Z.leb_spec (digits_val 0 (c :: s)) max_delta_seconds).
        * assert (max_delta_seconds <? digits_val 0 (c :: s) = false) by lia. rewrite H0. lia.
        * assert (max_delta_seconds <? digits_val 0 (c :: s) = true) by lia. rewrite H0. reflexivity.
      + assert (max64 <=? max_delta_seconds = false) by reflexivity. rewrite H.
        assert (max_delta_seconds <? digits_val 0 (c :: s) = true).
        { unfold max_delta_seconds, max64 in *. change (9223372036854775807 / second) with 9223372036. lia. }
        rewrite H0. reflexivity. }
  rewrite Hav.
  pose proof (age_value_le (e_hdr e)) as Hr. cbv zeta in Hr. rewrite Hav in Hr. destruct Hr as [[Hr0 _] Hr1].
  set (delay := Z.max 0 (Z.min max64 (e_recv_at e - e_req_at e))).
  assert (0 <= delay <= max64) by (unfold delay, max64; lia).
  rewrite (go_sat_add_spec (spec_age_value (e_hdr e)) delay) by lia.
  pose proof (sat_add_range (spec_age_value (e_hdr e)) delay ltac:(lia) ltac:(lia)).
  rewrite go_sat_add_spec; [reflexivity| |]; unfold max64 in *; lia.
Qed.
Print Assumptions C11_age_exact.

(* non-vacuity *)
Example C11_example :
  let e := {| e_id := bs "k#0"; e_status := 200;
              e_hdr := [(bs "Cache-Control", [bs "max-age=60"]); (bs "Date", [bs "Sat, 01 Jan 2000 00:00:00 GMT"]);
                        (bs "Age", [bs "7"]); (bs "X-From-Cache", [bs "upstream"])];
              e_body := 0; e_req_at := 946684800 * second; e_recv_at := 946684801 * second |} in
  let f := calculate_freshness e [] (parse_cc (e_hdr e)) (946684811 * second) in
  match serve_from_cache e f (946684811 * second) None with
  | OResp r => hvalues (bs "Age") (p_hdr r) = [bs "18"] /\ hvalues status_header (p_hdr r) = [bs "HIT"]
               /\ hvalues from_cache_header (p_hdr r) = [bs "1"]
  | _ => False
  end.
Proof. vm_compute. repeat split; reflexivity. Qed.

(* ---------- history level ---------- *)
From HC.Proofs Require Import ProvProofs TimeProofs SrcProofs.

(* Along EVERY sequential history from an empty store, a response returned without contacting the origin is the
   synthesised 504, or carries the status and body of a stored entry e whose fields and instants are those of origin
   calls of the history ([Src], see C01_history), exactly one Age value — the age of e at the instant the exchange
   started (equal to the specification's current age by C11_age_exact), replacing any Age the origin sent —, exactly one
   status value, HIT or STALE, and X-From-Cache "1". *)
Theorem C11_history : forall cfg h t0 script k gq obs r,
  let all := run_history cfg h (init_world t0 script) in
  let L := flat_map (fun x => x_events x ++ x_bg_events x) all in
  nth_error h k = Some gq -> nth_error all k = Some obs -> x_result obs = Done (OResp r) -> ~ has_call (x_events obs) ->
  r = response_504 \/
  exists e, Src (GXl L) e /\
    let f := calculate_freshness e (parse_cc (q_hdr (snd gq))) (parse_cc (e_hdr e)) (x_t0 obs) in
    hvalues (bs "Age") (p_hdr r) = [age_header_value f (x_t0 obs)] /\
    (hvalues status_header (p_hdr r) = [bs "HIT"] \/ hvalues status_header (p_hdr r) = [bs "STALE"]) /\
    hvalues from_cache_header (p_hdr r) = [bs "1"] /\
    p_status r = e_status e /\ p_body r = e_body e.
Proof.
  intros cfg h t0 script k gq obs r all L Hk Ho Hr Hnc.
  destruct (history_safeX L cfg h (init_world t0 script)) as [_ H]; [intros k' e' E; discriminate|apply incl_refl|].
  destruct (proj1 (H k gq obs (OResp r) Hk Ho Hr) Hnc) as [E|(e & Hs & Hd & E)]; [left; injection E as ->; reflexivity|right].
  exists e. split; [exact Hs|]. cbv zeta. unfold served_outcome in E.
  destruct Hd as [Hd|Hd]; rewrite Hd in E.
  - symmetry in E. destruct (C11_served_fields _ _ _ _ _ E) as (Ha & Hst & Hl & Hp & Hb).
    split; [exact Ha|split; [|split; [exact Hl|split; [exact Hp|exact Hb]]]].
    rewrite Hst. destruct (f_expired _); [right|left]; reflexivity.
  - injection E as ->. cbn [p_hdr response_of entry_with_hdr e_hdr p_status p_body e_status e_body].
    split; [apply age_values_after_status|split; [right; apply status_values|split; [apply legacy_values|split; reflexivity]]].
Qed.
Print Assumptions C11_history.

(* ---------- tie to the source: the part of the model this property rests on is what /verif/translate derives from
   /repo's Go source on this run (Generated/*.v are rewritten before every build; see DESIGN.md section 9) ---------- *)
From HC.Generated Require Import SrcTables.
From HC.Proofs Require Import TieTables.
Theorem C11_source_status_fields :
  src_status_header = status_header /\ src_from_cache_header = from_cache_header /\
  src_CacheStatusHit = (status_value HIT, bs "1") /\ src_CacheStatusStale = (status_value STALE, bs "1") /\
  src_CacheStatusRevalidated = (status_value REVALIDATED, bs "1") /\
  src_CacheStatusMiss = (status_value MISS, []) /\ src_CacheStatusBypass = (status_value BYPASS, []).
Proof. repeat split; reflexivity. Qed.
Print Assumptions C11_source_status_fields.

(* the effect trees this property is stated about — which store / origin / clock operations happen, in which order, under
   which conditions, and what every path returns — are those /verif/translate derives from the Go source on this run
   (Generated/SrcEffects.v; equal up to the extensional equality of continuations, ProgEq.peq, which [run] respects) *)
From HC.Generated Require Import SrcEffects.
From HC.Proofs Require Import ProgEq TieEffects.
Theorem C11_source_effects :
  (forall q e k refs i, peq (src_handle_cache_hit q e k refs i) (handle_cache_hit q e k refs i)) /\
  (forall ctx q rep, peq (src_handle_validation_response ctx q rep) (handle_validation_response ctx q rep)).
Proof. repeat split; [exact tie_handle_cache_hit|exact tie_handle_validation_response]. Qed.
Print Assumptions C11_source_effects.

(* ... and StoreResponse (hop-by-hop fields removed first, the variant key, the entry written before the index, the index
   entry appended or replaced), serveFromCache and handleStaleWhileRevalidate (qualified no-cache fields removed, Age, status,
   the background revalidation started with the stored validators) *)
Theorem C11_source_effects2 :
  (forall e f now ql, peq (src_serve_from_cache e f now ql) (Ret (serve_from_cache e f now ql))) /\
  (forall q e k f cc now ql, peq (src_handle_stale_while_revalidate q e k f cc now ql) (handle_stale_while_revalidate q e k f cc now ql)).
Proof. repeat split; [exact tie_serve_from_cache|exact tie_handle_stale_while_revalidate]. Qed.
Print Assumptions C11_source_effects2.

(* the freshness computation itself — CalculateFreshness with its precedence of max-age / Expires / heuristics, the request's
   max-age, min-fresh and max-stale, and the flags the hit decision reads; calculateCurrentAge with its saturating sums and
   Go's wrapping multiplication; heuristicFreshness with Go's truncating division — is what /verif/translate derives from
   internal/freshness.go on this run, for every stored entry, directive set and clock reading *)
Theorem C11_source_freshness :
  (forall e rq rs now, src_calculate_freshness e rq rs now = calculate_freshness e rq rs now) /\
  (forall h date rt st now, src_current_age h date rt st now = (current_age h date rt st now, now)) /\
  (forall h date, src_heuristic_freshness h date = heuristic_freshness h date).
Proof. split; [exact tie_calculate_freshness|split; [exact tie_current_age|exact tie_heuristic_freshness]]. Qed.
Print Assumptions C11_source_freshness.

(* the saturating addition used for ages and windows is the one of internal/freshness.go on this run (Generated/SrcHelpers.v),
   on the non-negative durations it is documented for *)
From HC.Generated Require Import SrcHelpers.
From HC.Proofs Require Import TieHelpers.
Theorem C11_source_saturating_add :
  forall a b, 0 <= a <= max64 -> 0 <= b <= max64 -> src_saturating_add a b = go_sat_add a b.
Proof. exact tie_saturating_add. Qed.
Print Assumptions C11_source_saturating_add.

(* how the status fields and the Age field are written: CacheStatus.ApplyTo (the status field set, the legacy field set for
   the statuses served from the cache and removed otherwise — a marker received from upstream is not passed on) and
   SetAgeHeader (the age at the clock reading, saturating, in whole seconds) are those of internal/header.go and
   internal/helpers.go on this run (Generated/SrcHeaderProgs.v) *)
From HC.Generated Require Import SrcHeaderProgs.
From HC.Proofs Require Import TieHeaderProgs.
Theorem C11_source_header_writers :
  (forall s h, src_apply_to (status_value s) (if status_legacy s then bs "1" else []) h = apply_status s h) /\
  (forall f now h, src_set_age_header f now h = hset (bs "Age") (age_header_value f now) h).
Proof. split; [exact tie_apply_to|exact tie_set_age_header]. Qed.
Print Assumptions C11_source_header_writers.
