(* C04 — a stored response is reused only for a matching variant (Vary).

   C04_match_sound: a reference written by StoreResponse for request q0 under the response's Vary field
   (all field lines) matches a later request q only if no member of Vary is "*" and, for every nominated
   field, the two requests' first field lines are equal after the documented normalisation (absent and
   empty count as the same) — for every Vary value and all header bytes.  C04_variant_match restates it
   with the specification's [variant_match].
   C04_star: a reference whose Vary has a "*" member, alone or among others, never matches.
   C04_encoding_injective: the byte string hashed into the variant id (names and values, NUL-delimited,
   sorted by name) determines the variant map, for NUL-free names and values.
   C04_id_injective: hence two variant maps with the same id under one URL key are the same map —
   under the hypothesis, stated in the theorem, that the 64-bit FNV-1a digest does not collide on the
   two encodings at hand (a 64-bit digest cannot be injective; the stored entry carries no request
   fields to re-check against) and is not 0 for a non-empty map.
   C04_history_variant: the history-level statement — see the comment at the theorem. *)
From HC Require Import Transport SpecMon.
From HC.Proofs Require Import HeaderProofs VaryProofs.
Open Scope Z_scope.

Theorem C04_match_sound : forall names h0 h r,
  resolve_names names h0 [] = Some (r_resolved r) ->
  ref_matches r h = Some true ->
  ~ In (bs "*") names /\
  forall n, In n names -> exists v, norm_first n h0 = Some v /\ norm_first n h = Some v.
Proof. exact ref_match_sound. Qed.
Print Assumptions C04_match_sound.

Lemma same_selecting_norm f q0 q :
  same_selecting f q0 q =
  match norm_first f (q_hdr q0), norm_first f (q_hdr q) with
  | Some a, Some b => Some (beq a b)
  | _, _ => None
  end.
Proof.
  unfold same_selecting, norm_first.
  destruct (first_line f (q_hdr q0)), (first_line f (q_hdr q)); reflexivity.
Qed.

Lemma all_match names q0 q :
  (forall n, In n names -> exists v, norm_first n (q_hdr q0) = Some v /\ norm_first n (q_hdr q) = Some v) ->
  all_some_true (map (fun f => same_selecting f q0 q) names) = Some true.
Proof.
  induction names as [|n names IH]; intros Hall; [reflexivity|].
  cbn [map all_some_true]. rewrite same_selecting_norm.
  destruct (Hall n (or_introl eq_refl)) as (v & H0 & H1). rewrite H0, H1, beq_refl.
  apply IH. intros n' Hin; apply Hall; right; exact Hin.
Qed.

Theorem C04_variant_match : forall stored_hdr q0 q r,
  normalize_vary (join [44] (hvalues (bs "Vary") stored_hdr)) (q_hdr q0) = Some (r_resolved r) ->
  ref_matches r (q_hdr q) = Some true ->
  variant_match stored_hdr q0 q = Some true.
Proof.
  intros stored_hdr q0 q r Hres Hm. unfold normalize_vary in Hres.
  destruct (ref_match_sound _ _ _ _ Hres Hm) as [Hstar Hall].
  unfold variant_match, vary_has_star. fold (vary_members stored_hdr) in *.
  assert (Hs : existsb (beq (bs "*")) (vary_members stored_hdr) = false).
  { destruct (existsb _ _) eqn:E; [|reflexivity]. apply existsb_exists in E as (x & Hx & Hb).
    apply beq_eq in Hb; subst. contradiction. }
  rewrite Hs. apply all_match. exact Hall.
Qed.
Print Assumptions C04_variant_match.

Theorem C04_star : forall r h,
  amem (bs "*") (r_resolved r) = true \/ go_trim (r_vary r) = bs "*" ->
  ref_matches r h = Some false.
Proof.
  intros r h [H|H]; unfold ref_matches; rewrite H; [reflexivity|].
  rewrite beq_refl, Bool.orb_true_r. reflexivity.
Qed.
Print Assumptions C04_star.

Theorem C04_encoding_injective : forall m1 m2,
  pairs_nul_free (sort_resolved m1) -> pairs_nul_free (sort_resolved m2) ->
  vary_encoding m1 = vary_encoding m2 -> sort_resolved m1 = sort_resolved m2.
Proof. intros m1 m2 H1 H2 E. apply encode_pairs_inj; assumption. Qed.
Print Assumptions C04_encoding_injective.

Theorem C04_id_injective : forall u m1 m2,
  m1 <> [] -> m2 <> [] ->
  pairs_nul_free (sort_resolved m1) -> pairs_nul_free (sort_resolved m2) ->
  (* the named hypothesis on the hash *)
  (fnv64a (vary_encoding m1) = fnv64a (vary_encoding m2) -> vary_encoding m1 = vary_encoding m2) ->
  make_vary_key u m1 = make_vary_key u m2 ->
  sort_resolved m1 = sort_resolved m2.
Proof.
  intros u m1 m2 Hn1 Hn2 H1 H2 Hfnv E. apply C04_encoding_injective; auto. apply Hfnv.
  unfold make_vary_key in E. destruct m1; [congruence|]. destruct m2; [congruence|].
  apply app_inv_head_bytes in E. inversion E as [E'].
  apply dec_of_nonneg_inj in E'; [exact E'| |];
    match goal with |- 0 <= fnv64a ?s < _ => pose proof (fnv_range s); unfold two64 in *; lia end.
Qed.
Print Assumptions C04_id_injective.

(* ---------- history level ---------- *)
From HC Require Import Run.
From HC.Proofs Require Import StoreProofs3 ProvProofs.

(* Along every sequential history from an empty store — any requests, any origin script, any timing — take
   the store an exchange starts from, a reference of the index of the request's URL key that matches the
   request, and the entry under that reference's id (this is the entry the hit path reads: C04 above and
   round_trip's shape).  Then the entry was filed by StoreResponse for a request q0 that was sent to the
   origin (a call with exactly q0 is logged in the history) for the same URL key, under the variant map m
   that q0's header fields resolve to under the entry's own Vary field; m and the reference's map have the
   same key; and whenever equal keys mean equal maps for these two (C04_id_injective: no FNV collision) the
   request selects the same variant as q0: for every field the stored response's Vary names, the first
   field lines agree after the documented normalisation, and no member is "*".
   (Invariant InvS of ProvProofs.v, kept by every store operation of every RoundTrip and background tree.) *)
Theorem C04_history_variant : forall cfg h t0 script k gq wk l r e,
  let obs := run_history cfg h (init_world t0 script) in
  let Lf := flat_map (fun o => x_events o ++ x_bg_events o) obs in
  let u := make_url_key (q_url (snd gq)) in
  nth_error h k = Some gq -> nth_error (worlds_before cfg h (init_world t0 script)) k = Some wk ->
  get_refs (w_store wk) u = Some l -> In (Some r) l -> ref_matches r (q_hdr (snd gq)) = Some true ->
  get_entry (w_store wk) (r_id r) = Some e ->
  exists q0 m, (exists b a c rep, In (EvCall b q0 a c rep) Lf) /\ make_url_key (q_url q0) = u /\
    normalize_vary (join [44] (hvalues (bs "Vary") (e_hdr e))) (q_hdr q0) = Some m /\
    make_vary_key u m = make_vary_key u (r_resolved r) /\
    (sort_resolved m = sort_resolved (r_resolved r) -> variant_match (e_hdr e) q0 (snd gq) = Some true).
Proof.
  intros cfg h t0 script k gq wk l r e obs Lf u Hk Hw Hl Hr Hm He.
  assert (HI : InvS (Gl Lf) (Pl Lf) (w_store wk)).
  { eapply (history_inv Lf cfg h (init_world t0 script)); [apply InvS_empty|apply incl_refl|exact Hw]. }
  destruct (variant_provenance _ _ _ _ _ _ _ HI Hl Hr He) as (q0 & m & Hp & Hu & Hn & Hkey).
  exists q0, m. split; [exact Hp|split; [exact Hu|split; [exact Hn|split; [exact Hkey|]]]].
  intros Hsort. unfold vary_of, normalize_vary in Hn.
  assert (Hsame : forall x, In x m <-> In x (r_resolved r)).
  { intros x. unfold sort_resolved in Hsort. rewrite <- (in_isort (fun a b => ble (fst a) (fst b)) m x), Hsort. apply in_isort. }
  destruct (ref_match_sound_same_bindings _ _ _ _ _ Hn Hsame Hm) as [Hstar Hall].
  unfold variant_match, vary_has_star. fold (vary_members (e_hdr e)) in *.
  assert (Hs : existsb (beq (bs "*")) (vary_members (e_hdr e)) = false).
  { destruct (existsb _ _) eqn:E; [|reflexivity]. apply existsb_exists in E as (x & Hx & Hb).
    apply beq_eq in Hb; subst. contradiction. }
  rewrite Hs. apply all_match. exact Hall.
Qed.
Print Assumptions C04_history_variant.

(* non-vacuity: after one stored response with Vary: Accept-Encoding, the store the second exchange starts
   from has an index whose reference matches the repeated request and whose entry exists *)
Example C04_history_example :
  let q := {| q_method := bs "GET"; q_url := {| u_scheme := bs "http"; u_host := bs "a.test"; u_path := bs "/x"; u_query := []; u_force_query := false |};
              q_hdr := [(bs "Accept-Encoding", [bs "gzip"])] |} in
  let rep := RResp {| p_status := 200; p_hdr := [(bs "Cache-Control", [bs "max-age=60"]); (bs "Vary", [bs "Accept-Encoding"])];
                      p_body := 0; p_body_ok := true |} in
  let h := [(0, q); (1, q)] in
  match nth_error (worlds_before {| cfg_swr_timeout := 0 |} h (init_world 0 [(0, rep, RErr); (0, rep, RErr)])) 1 with
  | Some wk =>
      match get_refs (w_store wk) (make_url_key (q_url q)) with
      | Some [Some r] => ref_matches r (q_hdr q) = Some true /\
                         match get_entry (w_store wk) (r_id r) with Some e => e_body e = 0 | None => False end
      | _ => False
      end
  | None => False
  end.
Proof. vm_compute. split; reflexivity. Qed.

(* the same store facts under every interleaving of concurrent calls: C16_store_invariant (Props/C16.v) *)

(* the pinned tree's collision is gone: the two maps of the property file now encode differently *)
Example C04_no_concatenation_collision :
  vary_encoding [(bs "X-Custom", bs "1"); (bs "X-Other", bs "2")] <>
  vary_encoding [(bs "X-Custom", bs "1X-Other2")].
Proof. vm_compute. discriminate. Qed.

Example C04_match_example :
  let q0 := {| q_method := bs "GET"; q_url := {| u_scheme := bs "http"; u_host := bs "a.test"; u_path := bs "/x"; u_query := []; u_force_query := false |};
               q_hdr := [(bs "Accept-Encoding", [bs "gzip, br"])] |} in
  let q1 := {| q_method := q_method q0; q_url := q_url q0; q_hdr := [(bs "Accept-Encoding", [bs "br,gzip"])] |} in
  let q2 := {| q_method := q_method q0; q_url := q_url q0; q_hdr := [(bs "Accept-Encoding", [bs "identity"])] |} in
  let stored := [(bs "Vary", [bs "accept-encoding"])] in
  variant_match stored q0 q1 = Some true /\ variant_match stored q0 q2 = Some false /\
  variant_match [(bs "Vary", [bs "Accept-Encoding"; bs "*"])] q0 q1 = Some false.
Proof. vm_compute. repeat split; reflexivity. Qed.

(* the effect trees this property is stated about — which store / origin / clock operations happen, in which order, under
   which conditions, and what every path returns — are those /verif/translate derives from the Go source on this run
   (Generated/SrcEffects.v; equal up to the extensional equality of continuations, ProgEq.peq, which [run] respects) *)
From HC.Generated Require Import SrcEffects.
From HC.Proofs Require Import ProgEq TieEffects.
Theorem C04_source_effects :
  (forall q, peq (src_round_trip q) (round_trip q)).
Proof. exact tie_round_trip. Qed.
Print Assumptions C04_source_effects.

(* ... and StoreResponse (hop-by-hop fields removed first, the variant key, the entry written before the index, the index
   entry appended or replaced), serveFromCache and handleStaleWhileRevalidate (qualified no-cache fields removed, Age, status,
   the background revalidation started with the stored validators) *)
Theorem C04_source_effects2 :
  (forall q r k refs a b i, peq (src_store_response q r k refs a b i) (store_response q r k refs a b i)).
Proof. exact tie_store_response. Qed.
Print Assumptions C04_source_effects2.

(* ... and the ranking of VaryHeadersMatch — the order the references are sorted in (the comparator closure handed to
   slices.SortFunc), where `best` starts, when the scan moves it, and the test in the return statement — is re-derived from
   internal/varymatcher.go on this run (Generated/SrcVary.v): the model's vary_headers_match is the sort by the source's
   comparator followed by the scan with the source's step *)
From HC.Generated Require Import SrcVary.
From HC.Proofs Require Import TieVary.
Theorem C04_source_ranking :
  (forall a b, (src_ref_cmp a b <=? 0) = ref_le a b) /\
  (forall a b, src_ref_cmp a b = - src_ref_cmp b a) /\
  (forall refs h, vary_headers_match refs h =
     match src_scan (isort (fun a b => src_ref_cmp a b <=? 0) refs) h 0 None with
     | None => None
     | Some i => Some (isort (fun a b => src_ref_cmp a b <=? 0) refs, i)
     end).
Proof. exact (conj tie_ref_cmp (conj src_ref_cmp_antisym tie_vary_headers_match)). Qed.
Print Assumptions C04_source_ranking.
