(* C04 — a stored response is reused only for a matching variant (Vary).

   C04_match_sound: a reference written by StoreResponse for request q0 under the response's Vary field
   (all field lines) matches a later request q only if no member of Vary is "*" and, for every nominated
   field, the two requests' first field lines are equal after the documented normalisation (absent and
   empty count as the same) — for every Vary value and all header bytes.  C04_variant_match restates it
   with the specification's [variant_match].
   C04_star: a reference whose Vary has a "*" member, alone or among others, never matches.
   C04_encoding_injective: the byte string hashed into the variant id (names and values, NUL-delimited,
   sorted by name) determines the variant map, for NUL-free names and values.
   C04_id_injective: hence two variant maps with the same id under one URL key are the same map —
   under the hypothesis, stated in the theorem, that the 64-bit FNV-1a digest does not collide on the
   two encodings at hand (a 64-bit digest cannot be injective; the stored entry carries no request
   fields to re-check against) and is not 0 for a non-empty map. *)
From HC Require Import Transport SpecMon.
From HC.Proofs Require Import HeaderProofs VaryProofs.
Open Scope Z_scope.

Theorem C04_match_sound : forall names h0 h r,
  resolve_names names h0 [] = Some (r_resolved r) ->
  ref_matches r h = Some true ->
  ~ In (bs "*") names /\
  forall n, In n names -> exists v, norm_first n h0 = Some v /\ norm_first n h = Some v.
Proof. exact ref_match_sound. Qed.
Print Assumptions C04_match_sound.

Lemma same_selecting_norm f q0 q :
  same_selecting f q0 q =
  match norm_first f (q_hdr q0), norm_first f (q_hdr q) with
  | Some a, Some b => Some (beq a b)
  | _, _ => None
  end.
Proof.
  unfold same_selecting, norm_first.
  destruct (first_line f (q_hdr q0)), (first_line f (q_hdr q)); reflexivity.
Qed.

Lemma all_match names q0 q :
  (forall n, In n names -> exists v, norm_first n (q_hdr q0) = Some v /\ norm_first n (q_hdr q) = Some v) ->
  all_some_true (map (fun f => same_selecting f q0 q) names) = Some true.
Proof.
  induction names as [|n names IH]; intros Hall; [reflexivity|].
  cbn [map all_some_true]. rewrite same_selecting_norm.
  destruct (Hall n (or_introl eq_refl)) as (v & H0 & H1). rewrite H0, H1, beq_refl.
  apply IH. intros n' Hin; apply Hall; right; exact Hin.
Qed.

Theorem C04_variant_match : forall stored_hdr q0 q r,
  normalize_vary (join [44] (hvalues (bs "Vary") stored_hdr)) (q_hdr q0) = Some (r_resolved r) ->
  ref_matches r (q_hdr q) = Some true ->
  variant_match stored_hdr q0 q = Some true.
Proof.
  intros stored_hdr q0 q r Hres Hm. unfold normalize_vary in Hres.
  destruct (ref_match_sound _ _ _ _ Hres Hm) as [Hstar Hall].
  unfold variant_match, vary_has_star. fold (vary_members stored_hdr) in *.
  assert (Hs : existsb (beq (bs "*")) (vary_members stored_hdr) = false).
  { destruct (existsb _ _) eqn:E; [|reflexivity]. apply existsb_exists in E as (x & Hx & Hb).
    apply beq_eq in Hb; subst. contradiction. }
  rewrite Hs. apply all_match. exact Hall.
Qed.
Print Assumptions C04_variant_match.

Theorem C04_star : forall r h,
  amem (bs "*") (r_resolved r) = true \/ go_trim (r_vary r) = bs "*" ->
  ref_matches r h = Some false.
Proof.
  intros r h [H|H]; unfold ref_matches; rewrite H; [reflexivity|].
  rewrite beq_refl, Bool.orb_true_r. reflexivity.
Qed.
Print Assumptions C04_star.

Theorem C04_encoding_injective : forall m1 m2,
  pairs_nul_free (sort_resolved m1) -> pairs_nul_free (sort_resolved m2) ->
  vary_encoding m1 = vary_encoding m2 -> sort_resolved m1 = sort_resolved m2.
Proof. intros m1 m2 H1 H2 E. apply encode_pairs_inj; assumption. Qed.
Print Assumptions C04_encoding_injective.

Theorem C04_id_injective : forall u m1 m2,
  m1 <> [] -> m2 <> [] ->
  pairs_nul_free (sort_resolved m1) -> pairs_nul_free (sort_resolved m2) ->
  (* the named hypothesis on the hash *)
  (fnv64a (vary_encoding m1) = fnv64a (vary_encoding m2) -> vary_encoding m1 = vary_encoding m2) ->
  make_vary_key u m1 = make_vary_key u m2 ->
  sort_resolved m1 = sort_resolved m2.
Proof.
  intros u m1 m2 Hn1 Hn2 H1 H2 Hfnv E. apply C04_encoding_injective; auto. apply Hfnv.
  unfold make_vary_key in E. destruct m1; [congruence|]. destruct m2; [congruence|].
  apply app_inv_head_bytes in E. inversion E as [E'].
  apply dec_of_nonneg_inj in E'; [exact E'| |];
    match goal with |- 0 <= fnv64a ?s < _ => pose proof (fnv_range s); unfold two64 in *; lia end.
Qed.
Print Assumptions C04_id_injective.

(* the pinned tree's collision is gone: the two maps of the property file now encode differently *)
Example C04_no_concatenation_collision :
  vary_encoding [(bs "X-Custom", bs "1"); (bs "X-Other", bs "2")] <>
  vary_encoding [(bs "X-Custom", bs "1X-Other2")].
Proof. vm_compute. discriminate. Qed.

Example C04_match_example :
  let q0 := {| q_method := bs "GET"; q_url := {| u_scheme := bs "http"; u_host := bs "a.test"; u_path := bs "/x"; u_query := []; u_force_query := false |};
               q_hdr := [(bs "Accept-Encoding", [bs "gzip, br"])] |} in
  let q1 := {| q_method := q_method q0; q_url := q_url q0; q_hdr := [(bs "Accept-Encoding", [bs "br,gzip"])] |} in
  let q2 := {| q_method := q_method q0; q_url := q_url q0; q_hdr := [(bs "Accept-Encoding", [bs "identity"])] |} in
  let stored := [(bs "Vary", [bs "accept-encoding"])] in
  variant_match stored q0 q1 = Some true /\ variant_match stored q0 q2 = Some false /\
  variant_match [(bs "Vary", [bs "Accept-Encoding"; bs "*"])] q0 q1 = Some false.
Proof. vm_compute. repeat split; reflexivity. Qed.
