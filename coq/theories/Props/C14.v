(* C14 — each backend behaves as an exact, byte-preserving map.

   Model (Store.v): memcache is the map itself (its operations are the specification's); fscache is
   fragmentFileName / fragmentedFileNameToKey (base64url without padding, 47-character fragments closed by
   a directory marker) and the get/set/delete/keys programs over a directory tree (files and
   directories as a finite map from paths: MkdirAll fails on a file in the way, rename over a directory
   fails, Remove removes a file or an empty directory).  Reopening gives a handle on the same tree;
   encryption is the identity at this level (C17).

   C14_base64_roundtrip, C14_key_from_file_name, C14_file_name_injective: for every byte string.
   C14_path_shape: a key's path is a chain of directory components followed by a file component, and a
   directory component is never a file component — so no key's file is a directory of another key's
   path (the pinned tree's 36-byte key / long key conflict) and the empty key has a file name.
   C14_fs_refines_map: for EVERY sequence of Set/Get/Delete/Keys/Reopen over arbitrary byte-string keys
   and values, starting from the empty directory, the tree model answers exactly as the map does — Get
   yields the latest Set of that key and nothing else's, Delete removes only that key and reports
   not-exist on absent keys, Keys yields exactly the live keys with the prefix (compared as sets).
   Buffer isolation holds in the model because values are immutable; that the Go code copies in and
   out is exercised by the run (the harness scribbles over every buffer it passed or received).
   The run executes the same sequences on memcache, fscache, encrypted fscache, reopening between
   arbitrary operations, a quarter of the operations through the maintenance HTTP API. *)
From HC Require Import Store.
From HC.Proofs Require Import HeaderProofs StoreProofs1 StoreProofs2 StoreProofs3.
Open Scope Z_scope.

Theorem C14_base64_roundtrip : forall s, bytes_ok s -> b64_decode (b64_encode s) = Some s.
Proof. exact b64_roundtrip. Qed.
Print Assumptions C14_base64_roundtrip.

Theorem C14_key_from_file_name : forall k, bytes_ok k -> key_of_path (file_path k) = Some k.
Proof. exact key_of_file_path. Qed.
Print Assumptions C14_key_from_file_name.

Theorem C14_file_name_injective : forall k1 k2, bytes_ok k1 -> bytes_ok k2 -> file_path k1 = file_path k2 -> k1 = k2.
Proof. exact file_path_injective. Qed.
Print Assumptions C14_file_name_injective.

Theorem C14_path_shape : forall k, bytes_ok k ->
  file_path_shape (file_path k) /\
  (forall q, In q (prefixes (file_path k)) -> dir_path q /\ forall k', bytes_ok k' -> q <> file_path k').
Proof.
  intros k Hk. split; [apply file_path_has_shape; exact Hk|].
  intros q Hq. pose proof (prefix_is_dir_path k q Hk Hq) as Hd. split; [exact Hd|].
  intros k' Hk'. apply dir_path_not_file_path; assumption.
Qed.
Print Assumptions C14_path_shape.

Theorem C14_fs_refines_map : forall ops,
  Forall op_valid ops ->
  Forall2 res_same (run_ops fs_step [] ops) (run_ops spec_step [] ops).
Proof.
  intros ops H. apply fs_refines_map; [exact wf_empty| |exact H].
  split; [intros k Hk; reflexivity|intros k v []].
Qed.
Print Assumptions C14_fs_refines_map.

(* the single-operation laws the refinement rests on *)
Theorem C14_get_after_set : forall t k v, wf t -> bytes_ok k ->
  exists t', fs_set k v t = FOk t' /\ wf t' /\ fs_get k t' = FOk v /\
    forall k', bytes_ok k' -> k' <> k -> fs_get k' t' = fs_get k' t.
Proof.
  intros t k v W Hk. destruct (set_spec t k v W Hk) as (t' & Hs & W' & Ha & Hfr).
  exists t'. split; [exact Hs|]. split; [exact W'|]. split.
  - rewrite (get_spec t' k W' Hk), Ha. reflexivity.
  - intros k' Hk' Hne. rewrite (get_spec t' k' W' Hk'), (get_spec t k' W Hk'), (Hfr k' Hk' Hne). reflexivity.
Qed.
Print Assumptions C14_get_after_set.

(* non-vacuity: the keys of the pinned tree's conflict coexist; the empty key is storable *)
Example C14_prefix_keys_coexist :
  let k36 := repeat 97 36 in
  let k200 := repeat 97 200 in
  run_ops fs_step [] [OSet k36 (bs "short"); OSet k200 (bs "long"); OSet [] (bs "empty");
                      OGet k36; OGet k200; OGet []; ODel k36; OGet k200; OKeys []] =
  [ROk; ROk; ROk; RVal (bs "short"); RVal (bs "long"); RVal (bs "empty"); ROk; RVal (bs "long");
   RKeys (sort_bytes [k200; []])].
Proof. vm_compute. reflexivity. Qed.

(* ---------- tie to the source: the part of the model this property rests on is what /verif/translate derives from
   /repo's Go source on this run (Generated/*.v are rewritten before every build; see DESIGN.md section 9) ---------- *)
From HC.Generated Require Import SrcTables.
From HC.Proofs Require Import TieTables.
Theorem C14_source_fragments : src_fragment_size = Z.of_nat fragment_step + 1 /\ src_dir_marker = [dir_marker].
Proof. exact tie_fragments. Qed.
Print Assumptions C14_source_fragments.
