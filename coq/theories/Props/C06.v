(* C06 — responses that must not be stored never reach the store.

   [must_not_store] (SpecMon.v) is the property's list: request or response no-store; not a plain GET
   (other method, or Range); status 1xx, 206, 304 (or >= 600); must-understand with a status that is
   not understood; no explicit freshness (max-age, Expires, public) and a status that is not
   heuristically cacheable; a body that could not be read completely.
   For every request and every origin reply of that kind, the part of the program that runs after the
   reply contains no entry write on any path (any store answers): on a miss (C06_miss), after a
   validation request (C06_validation), for methods other than a plain GET (C06_other_methods).
   The index may still be rewritten (metadata only, no representation data).  The 304 that freshens a
   stored entry is not a "response to be stored": that write is C08's and is suppressed by no-store.
   That an unconditional GET is never answered with a 304 produced by the cache follows from
   C02_validation_request (conditional headers are added only together with a stored response, and a
   304 to them is answered with that stored response). *)
From HC Require Import Transport Spec SpecMon.
From HC.Proofs Require Import Paths StoreProofs.
Open Scope Z_scope.

Theorem C06_storability_sound : forall q r,
  plain_get q = true -> p_status r <> 304 -> p_body_ok r = true ->
  must_not_store q r = true ->
  can_store_response r (parse_cc (q_hdr q)) (parse_cc (p_hdr r)) = false.
Proof. exact can_store_sound. Qed.
Print Assumptions C06_storability_sound.

Theorem C06_miss : forall q k refs i r a b,
  plain_get q = true -> must_not_store q r = true ->
  NoSetEntry
    (let cc_resp := parse_cc (p_hdr r) in
     if negb (p_status r =? 304) && can_store_response r (parse_cc (q_hdr q)) cc_resp
     then r1 <- store_response q r k refs a b i;; Ret (OResp (with_hdr r1 (apply_status MISS (p_hdr r1))))
     else Ret (OResp (with_hdr r (apply_status MISS (p_hdr r))))).
Proof. exact miss_no_write. Qed.
Print Assumptions C06_miss.

(* the expression above is literally the continuation of handleCacheMiss after the origin replied *)
Theorem C06_miss_is_the_code : forall q k refs i,
  req_only_if_cached (parse_cc (q_hdr q)) = false ->
  handle_cache_miss q k refs i =
  round_trip_timed q (fun rep a b =>
    match rep with
    | RErr => Ret OErr
    | RResp r =>
        let cc_resp := parse_cc (p_hdr r) in
        if negb (p_status r =? 304) && can_store_response r (parse_cc (q_hdr q)) cc_resp
        then r1 <- store_response q r k refs a b i;; Ret (OResp (with_hdr r1 (apply_status MISS (p_hdr r1))))
        else Ret (OResp (with_hdr r (apply_status MISS (p_hdr r))))
    end).
Proof. intros q k refs i H; unfold handle_cache_miss; rewrite H; reflexivity. Qed.
Print Assumptions C06_miss_is_the_code.

Theorem C06_validation : forall ctx q r,
  plain_get q = true -> rc_cc_req ctx = parse_cc (q_hdr q) ->
  (p_status r =? 304) = false -> must_not_store q r = true ->
  NoSetEntry (handle_validation_response ctx q (RResp r)).
Proof. exact validation_no_write. Qed.
Print Assumptions C06_validation.

Theorem C06_other_methods : forall q,
  is_request_method_understood q = false ->
  NoSetEntry (round_trip q).
Proof.
  intros q H; unfold round_trip; rewrite H; cbn [negb]. apply unrecognized_no_write.
Qed.
Print Assumptions C06_other_methods.

Example C06_premises_satisfiable :
  let q := {| q_method := bs "GET";
              q_url := {| u_scheme := bs "http"; u_host := bs "a.test"; u_path := bs "/x"; u_query := []; u_force_query := false |};
              q_hdr := [] |} in
  let r := {| p_status := 200; p_hdr := [(bs "Cache-Control", [bs "max-age=60, No-Store"])]; p_body := 0; p_body_ok := true |} in
  plain_get q = true /\ must_not_store q r = true /\ must_not_store q (with_hdr r [(bs "Cache-Control", [bs "max-age=60"])]) = false.
Proof. repeat split; vm_compute; reflexivity. Qed.

(* ---------- history level ---------- *)
From HC Require Import Run.
From HC.Proofs Require Import ProvProofs.

(* Along every sequential history from an empty store — any requests, any origin script, any timing — every
   entry in the store any exchange starts from is ([Stor], ProvProofs.v) a full origin response that passed
   the storability test for the directives of a client request with an understood method, written without
   its hop-by-hop fields after its body was read completely, or such an entry freshened any number of times
   by 304s where neither the request nor the 304 said no-store.  Hence its status and body are those of a
   response r to a plain GET q0 of a logged origin call for which the property's list says "may be stored":
   must_not_store q0 r = false (conditional fields added by the cache change neither the directives nor the
   method test: parse_cc_with_conditional, understood_with_conditional).
   (Under every interleaving of concurrent calls the same invariant holds: C16_store_invariant.) *)
Theorem C06_history_stored : forall cfg h t0 script k wk key e,
  let obs := run_history cfg h (init_world t0 script) in
  let Lf := flat_map (fun o => x_events o ++ x_bg_events o) obs in
  nth_error (worlds_before cfg h (init_world t0 script)) k = Some wk ->
  get_entry (w_store wk) key = Some e ->
  Stor (Pl Lf) e /\
  exists r q0, (exists b a c rep, In (EvCall b q0 a c rep) Lf) /\
    plain_get q0 = true /\ e_status e = p_status r /\ e_body e = p_body r /\ must_not_store q0 r = false.
Proof.
  intros cfg h t0 script k wk key e obs Lf Hw He.
  assert (HI : InvS (Gl Lf) (Pl Lf) (w_store wk)).
  { eapply (history_inv Lf cfg h (init_world t0 script)); [apply InvS_empty|apply incl_refl|exact Hw]. }
  destruct HI as [I1 _]. destruct (I1 _ _ He) as (_ & Hstor & _).
  split; [exact Hstor|].
  destruct (Stor_origin _ _ Hstor) as (r & qc & q0 & Hp & Hs & Hu & Hn & Hc & Hok & Hst & Hb).
  destruct (sent_for_same _ _ Hs) as [Ecc Eund].
  assert (Hu0 : plain_get q0 = true) by (change (is_request_method_understood q0 = true); rewrite Eund; exact Hu).
  exists r, q0. split; [exact Hp|split; [exact Hu0|split; [exact Hst|split; [exact Hb|]]]].
  destruct (must_not_store q0 r) eqn:Em; [|reflexivity].
  rewrite <- Ecc in Hc. rewrite (C06_storability_sound q0 r Hu0 Hn Hok Em) in Hc. discriminate.
Qed.
Print Assumptions C06_history_stored.

(* non-vacuity: after a stored 200 and a 304 that freshened it, the store the third exchange starts from holds
   an entry — with the body of the first call *)
Example C06_history_example :
  let q := {| q_method := bs "GET"; q_url := {| u_scheme := bs "http"; u_host := bs "a.test"; u_path := bs "/x"; u_query := []; u_force_query := false |};
              q_hdr := [] |} in
  let r200 := RResp {| p_status := 200; p_hdr := [(bs "Cache-Control", [bs "max-age=1"]); (bs "Etag", [bs """v1"""])]; p_body := 0; p_body_ok := true |} in
  let r304 := RResp {| p_status := 304; p_hdr := [(bs "Cache-Control", [bs "max-age=60"])]; p_body := 0; p_body_ok := true |} in
  let h := [(0, q); (5000000000, q); (1000000000, q)] in
  match nth_error (worlds_before {| cfg_swr_timeout := 0 |} h (init_world 0 [(0, r200, RErr); (0, RErr, r304)])) 2 with
  | Some wk => match get_entry (w_store wk) (bs "http://a.test/x#0") with
               | Some e => e_body e = 0 /\ hget (bs "Cache-Control") (e_hdr e) = bs "max-age=60"
               | None => False end
  | None => False
  end.
Proof. vm_compute. split; reflexivity. Qed.

(* ---------- tie to the source: the part of the model this property rests on is what /verif/translate derives from
   /repo's Go source on this run (Generated/*.v are rewritten before every build; see DESIGN.md section 9) ---------- *)
From HC.Generated Require Import SrcStatus.
From HC.Proofs Require Import TieStatus.
Theorem C06_source_storability : forall r req_cc res_cc,
  src_can_store_response r req_cc res_cc = can_store_response r req_cc res_cc.
Proof. exact tie_can_store_response. Qed.
Theorem C06_source_status_tables : forall code,
  src_is_status_understood code = is_status_understood code /\
  src_is_heuristically_cacheable code = is_heuristically_cacheable code.
Proof. intros; split; [apply tie_is_status_understood|apply tie_is_heuristically_cacheable]. Qed.
Theorem C06_source_method_gate : forall q, src_is_request_method_understood q = is_request_method_understood q.
Proof. exact tie_is_request_method_understood. Qed.
Print Assumptions C06_source_storability.
Print Assumptions C06_source_status_tables.
Print Assumptions C06_source_method_gate.

(* the effect trees this property is stated about — which store / origin / clock operations happen, in which order, under
   which conditions, and what every path returns — are those /verif/translate derives from the Go source on this run
   (Generated/SrcEffects.v; equal up to the extensional equality of continuations, ProgEq.peq, which [run] respects) *)
From HC.Generated Require Import SrcEffects.
From HC.Proofs Require Import ProgEq TieEffects.
Theorem C06_source_effects :
  (forall q k refs i, peq (src_handle_cache_miss q k refs i) (handle_cache_miss q k refs i)) /\
  (forall ctx q rep, peq (src_handle_validation_response ctx q rep) (handle_validation_response ctx q rep)) /\
  (forall q k, peq (src_handle_unrecognized_method q k) (handle_unrecognized_method q k)).
Proof. repeat split; [exact tie_handle_cache_miss|exact tie_handle_validation_response|exact tie_handle_unrecognized_method]. Qed.
Print Assumptions C06_source_effects.

(* ... and StoreResponse (hop-by-hop fields removed first, the variant key, the entry written before the index, the index
   entry appended or replaced), serveFromCache and handleStaleWhileRevalidate (qualified no-cache fields removed, Age, status,
   the background revalidation started with the stored validators) *)
Theorem C06_source_effects2 :
  (forall q r k refs a b i, peq (src_store_response q r k refs a b i) (store_response q r k refs a b i)).
Proof. exact tie_store_response. Qed.
Print Assumptions C06_source_effects2.
