(* C06 — responses that must not be stored never reach the store.

   [must_not_store] (SpecMon.v) is the property's list: request or response no-store; not a plain GET
   (other method, or Range); status 1xx, 206, 304 (or >= 600); must-understand with a status that is
   not understood; no explicit freshness (max-age, Expires, public) and a status that is not
   heuristically cacheable; a body that could not be read completely.
   For every request and every origin reply of that kind, the part of the program that runs after the
   reply contains no entry write on any path (any store answers): on a miss (C06_miss), after a
   validation request (C06_validation), for methods other than a plain GET (C06_other_methods).
   The index may still be rewritten (metadata only, no representation data).  The 304 that freshens a
   stored entry is not a "response to be stored": that write is C08's and is suppressed by no-store.
   That an unconditional GET is never answered with a 304 produced by the cache follows from
   C02_validation_request (conditional headers are added only together with a stored response, and a
   304 to them is answered with that stored response). *)
From HC Require Import Transport Spec SpecMon.
From HC.Proofs Require Import Paths StoreProofs.
Open Scope Z_scope.

Theorem C06_storability_sound : forall q r,
  plain_get q = true -> p_status r <> 304 -> p_body_ok r = true ->
  must_not_store q r = true ->
  can_store_response r (parse_cc (q_hdr q)) (parse_cc (p_hdr r)) = false.
Proof. exact can_store_sound. Qed.
Print Assumptions C06_storability_sound.

Theorem C06_miss : forall q k refs i r a b,
  plain_get q = true -> must_not_store q r = true ->
  NoSetEntry
    (let cc_resp := parse_cc (p_hdr r) in
     if negb (p_status r =? 304) && can_store_response r (parse_cc (q_hdr q)) cc_resp
     then r1 <- store_response q r k refs a b i;; Ret (OResp (with_hdr r1 (apply_status MISS (p_hdr r1))))
     else Ret (OResp (with_hdr r (apply_status MISS (p_hdr r))))).
Proof. exact miss_no_write. Qed.
Print Assumptions C06_miss.

(* the expression above is literally the continuation of handleCacheMiss after the origin replied *)
Theorem C06_miss_is_the_code : forall q k refs i,
  req_only_if_cached (parse_cc (q_hdr q)) = false ->
  handle_cache_miss q k refs i =
  round_trip_timed q (fun rep a b =>
    match rep with
    | RErr => Ret OErr
    | RResp r =>
        let cc_resp := parse_cc (p_hdr r) in
        if negb (p_status r =? 304) && can_store_response r (parse_cc (q_hdr q)) cc_resp
        then r1 <- store_response q r k refs a b i;; Ret (OResp (with_hdr r1 (apply_status MISS (p_hdr r1))))
        else Ret (OResp (with_hdr r (apply_status MISS (p_hdr r))))
    end).
Proof. intros q k refs i H; unfold handle_cache_miss; rewrite H; reflexivity. Qed.
Print Assumptions C06_miss_is_the_code.

Theorem C06_validation : forall ctx q r,
  plain_get q = true -> rc_cc_req ctx = parse_cc (q_hdr q) ->
  (p_status r =? 304) = false -> must_not_store q r = true ->
  NoSetEntry (handle_validation_response ctx q (RResp r)).
Proof. exact validation_no_write. Qed.
Print Assumptions C06_validation.

Theorem C06_other_methods : forall q,
  is_request_method_understood q = false ->
  NoSetEntry (round_trip q).
Proof.
  intros q H; unfold round_trip; rewrite H; cbn [negb]. apply unrecognized_no_write.
Qed.
Print Assumptions C06_other_methods.

Example C06_premises_satisfiable :
  let q := {| q_method := bs "GET";
              q_url := {| u_scheme := bs "http"; u_host := bs "a.test"; u_path := bs "/x"; u_query := []; u_force_query := false |};
              q_hdr := [] |} in
  let r := {| p_status := 200; p_hdr := [(bs "Cache-Control", [bs "max-age=60, No-Store"])]; p_body := 0; p_body_ok := true |} in
  plain_get q = true /\ must_not_store q r = true /\ must_not_store q (with_hdr r [(bs "Cache-Control", [bs "max-age=60"])]) = false.
Proof. repeat split; vm_compute; reflexivity. Qed.
