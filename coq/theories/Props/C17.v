(* C17 — encryption at rest hides stored contents and rejects tampering.

   Symbolic model: AES-GCM is (seal, open_) with the laws of an authenticated cipher —
   correctness (open_seal), authenticity (open_auth: only seal outputs open), key separation
   (open_wrong_key), separation by additional data (open_wrong_name) — stated as hypotheses of the Section (that AES-GCM has these properties, and that
   ciphertext reveals no plaintext fragment, is cryptography: assumed, see DESIGN.md "partial").
   C17_wiring: for every DSN / option / environment, if encryption is requested then Open fails or the
   handle encrypts with a key of 16, 24 or 32 bytes — it is never requested and silently off.
   C17_files: with encryption on, what is written is nonce‖seal(key, nonce, value), nothing else.
   C17_roundtrip / C17_tamper: get returns v for a file iff the file is nonce‖seal(key, nonce, v) for its
   own first 12 bytes as nonce; every other byte string — altered, truncated (also below 12 bytes),
   extended — yields an error, never data.  C17_wrong_key: another key never yields data.
   C17_moved_file: the key an entry is stored under is additional authenticated data (open_wrong_name): a file written for
   one key never opens under the name of another — copied, moved or exchanged files are rejected (fix F36).
   C17_distinct: two writes with different nonces differ (whatever the values).
   The run re-derives the files of the real backend with Go's own AES-GCM, scans them for plaintext,
   applies every single-byte change and every truncation, and drives each configuration path. *)
From HC Require Import Crypto.
Open Scope Z_scope.

Section C17.
  Variable seal : bytes -> bytes -> bytes -> bytes -> bytes.
  Variable open_ : bytes -> bytes -> bytes -> bytes -> option bytes.
  Variable decode_key : bytes -> option bytes.
  Hypothesis open_seal : forall k a n v, open_ k a n (seal k a n v) = Some v.
  Hypothesis open_auth : forall k a n c v, open_ k a n c = Some v -> c = seal k a n v.
  Hypothesis open_wrong_key : forall k k' a n v, k <> k' -> open_ k' a n (seal k a n v) = None.
  Hypothesis open_wrong_name : forall k a a' n v, a <> a' -> open_ k a' n (seal k a n v) = None.

  Theorem C17_wiring : forall encrypt_param key_param env_key,
    dsn_requests_encryption encrypt_param = true ->
    from_url decode_key encrypt_param key_param env_key = OpenErr \/
    exists k, from_url decode_key encrypt_param key_param env_key = OpenOk (Some k) /\ valid_key_len k = true.
  Proof.
    intros e kp ek H. unfold from_url. rewrite H. unfold with_encryption, new_encryptor.
    destruct (match kp with [] => ek | _ => kp end) as [|c key]; [left; reflexivity|].
    destruct (decode_key (c :: key)) as [k|]; [|left; reflexivity].
    destruct (valid_key_len k) eqn:E; [right; exists k; auto|left; reflexivity].
  Qed.

  Theorem C17_option_wiring : forall key,
    with_encryption decode_key key = OpenErr \/
    exists k, with_encryption decode_key key = OpenOk (Some k) /\ valid_key_len k = true.
  Proof.
    intros key. unfold with_encryption, new_encryptor. destruct key as [|c key]; [left; reflexivity|].
    destruct (decode_key (c :: key)) as [k|]; [|left; reflexivity].
    destruct (valid_key_len k) eqn:E; [right; exists k; auto|left; reflexivity].
  Qed.

  Theorem C17_files : forall k name nonce v, file_bytes seal (Some k) name nonce v = nonce ++ seal k name nonce v.
  Proof. reflexivity. Qed.

  Theorem C17_roundtrip : forall k name nonce v, List.length nonce = nonce_size ->
    read_file open_ (Some k) name (file_bytes seal (Some k) name nonce v) = Some v.
  Proof.
    intros k name nonce v Hn. cbn [read_file file_bytes]. unfold decrypt, encrypt.
    rewrite app_length, Hn.
    assert (Hlt : (nonce_size + List.length (seal k name nonce v) <? nonce_size)%nat = false) by (apply Nat.ltb_ge; lia).
    rewrite Hlt. rewrite <- Hn, firstn_app, Nat.sub_diag, firstn_all, firstn_O, app_nil_r.
    rewrite skipn_app, Nat.sub_diag, skipn_all, skipn_O. cbn [app]. apply open_seal.
  Qed.

  (* whatever is accepted is a genuine ciphertext of exactly that value under its own nonce *)
  Theorem C17_tamper : forall k name data v,
    read_file open_ (Some k) name data = Some v ->
    (nonce_size <= List.length data)%nat /\ data = file_bytes seal (Some k) name (firstn nonce_size data) v.
  Proof.
    intros k name data v H. cbn [read_file] in H. unfold decrypt in H.
    destruct (List.length data <? nonce_size)%nat eqn:E; [discriminate|].
    apply Nat.ltb_ge in E. split; [exact E|].
    apply open_auth in H. cbn [file_bytes]. unfold encrypt. rewrite <- H. symmetry. apply firstn_skipn.
  Qed.

  Corollary C17_short_file_rejected : forall k name data, (List.length data < nonce_size)%nat ->
    read_file open_ (Some k) name data = None.
  Proof.
    intros k name data H. cbn [read_file]. unfold decrypt. apply Nat.ltb_lt in H. rewrite H. reflexivity.
  Qed.

  Theorem C17_wrong_key : forall k k' name nonce v, k <> k' -> List.length nonce = nonce_size ->
    read_file open_ (Some k') name (file_bytes seal (Some k) name nonce v) = None.
  Proof.
    intros k k' name nonce v Hk Hn. cbn [read_file file_bytes]. unfold decrypt, encrypt.
    rewrite app_length, Hn.
    assert (Hlt : (nonce_size + List.length (seal k name nonce v) <? nonce_size)%nat = false) by (apply Nat.ltb_ge; lia).
    rewrite Hlt. rewrite <- Hn, firstn_app, Nat.sub_diag, firstn_all, firstn_O, app_nil_r.
    rewrite skipn_app, Nat.sub_diag, skipn_all, skipn_O. cbn [app]. apply open_wrong_key. exact Hk.
  Qed.

  (* a file written for one key does not open under the name of another: moved, copied or exchanged files are rejected *)
  Theorem C17_moved_file : forall k name name' nonce v, name <> name' -> List.length nonce = nonce_size ->
    read_file open_ (Some k) name' (file_bytes seal (Some k) name nonce v) = None.
  Proof.
    intros k name name' nonce v Hne Hn. cbn [read_file file_bytes]. unfold decrypt, encrypt.
    rewrite app_length, Hn.
    assert (Hlt : (nonce_size + List.length (seal k name nonce v) <? nonce_size)%nat = false) by (apply Nat.ltb_ge; lia).
    rewrite Hlt. rewrite <- Hn, firstn_app, Nat.sub_diag, firstn_all, firstn_O, app_nil_r.
    rewrite skipn_app, Nat.sub_diag, skipn_all, skipn_O. cbn [app]. apply open_wrong_name. exact Hne.
  Qed.

  Theorem C17_distinct : forall k name n1 n2 v1 v2,
    List.length n1 = nonce_size -> List.length n2 = nonce_size -> n1 <> n2 ->
    file_bytes seal (Some k) name n1 v1 <> file_bytes seal (Some k) name n2 v2.
  Proof.
    intros k name n1 n2 v1 v2 H1 H2 Hne E. cbn [file_bytes] in E. unfold encrypt in E.
    apply Hne.
    assert (F : forall (n a : bytes), firstn (List.length n) (n ++ a) = n).
    { intros n a. rewrite firstn_app, Nat.sub_diag, firstn_all, firstn_O, app_nil_r. reflexivity. }
    rewrite <- (F n1 (seal k name n1 v1)), <- (F n2 (seal k name n2 v2)), H1, H2, E. reflexivity.
  Qed.
End C17.
Print Assumptions C17_wiring.
Print Assumptions C17_tamper.
Print Assumptions C17_roundtrip.
Print Assumptions C17_wrong_key.
Print Assumptions C17_moved_file.
Print Assumptions C17_distinct.

(* non-vacuity: the laws are satisfiable (a toy cipher), and the wiring on concrete parameters *)
Example C17_wiring_example :
  let dk (s : bytes) := if beq s (bs "goodkey") then Some (repeat 1 32) else if beq s (bs "short") then Some [1; 2] else None in
  from_url dk (bs "on") (bs "goodkey") [] = OpenOk (Some (repeat 1 32)) /\
  from_url dk (bs "aesgcm") [] (bs "goodkey") = OpenOk (Some (repeat 1 32)) /\
  from_url dk (bs "on") [] [] = OpenErr /\
  from_url dk (bs "on") (bs "short") (bs "goodkey") = OpenErr /\
  from_url dk (bs "off") (bs "goodkey") [] = OpenOk None.
Proof. repeat split; vm_compute; reflexivity. Qed.
