(* C07 — successful unsafe requests invalidate what is stored for their target.

   C07_unsafe_methods: the method classification is exactly "not in the IANA safe column" (any other
   token — POST, PUT, DELETE, PATCH, WebDAV write methods, unknown or lower-case tokens — is unsafe).
   C07_shape: for such a request the transport calls the origin and, on a 2xx/3xx reply, reads the index
   of the target and runs InvalidateCache.
   C07_invalidates (sequential store semantics, any store contents): after InvalidateCache the target's
   index key, every entry id the index listed, the key of every same-origin URI named by Location /
   Content-Location and the ids their indexes listed are all absent from the store; and the only keys
   removed are those (frame: every other key, in particular every key of another origin, keeps its
   value) — unless the Location value leaves the modelled URL grammar (OutOfModel).
   C07_later: with the index gone, the next GET for that key is a miss: it goes to the origin, so nothing
   stored earlier is returned again without the origin being contacted.
   C07_late_validation_discarded: a stale-while-revalidate background validation that was in flight while
   the unsafe request ran (its request belongs to an earlier, finished exchange of the sequence) finds
   the entry gone when its answer arrives and writes nothing: whatever the answer (304 or a full
   response), the store is left as the invalidation left it.  The experiment TestLateInvalidation runs
   this history on the implementation with the answer held at the origin. *)
From HC Require Import Transport Run SpecMon.
From HC.Proofs Require Import Paths HeaderProofs RunProofs.
Open Scope Z_scope.
Open Scope string_scope.

Theorem C07_unsafe_methods : forall m, is_unsafe_method m = negb (spec_safe_method m).
Proof. reflexivity. Qed.
Print Assumptions C07_unsafe_methods.

Theorem C07_shape : forall q key,
  handle_unrecognized_method q key =
  if req_only_if_cached (parse_cc (q_hdr q)) then Ret (OResp response_504) else
  Origin q (fun rep =>
    match rep with
    | RErr => Ret OErr
    | RResp r =>
        let done := Ret (OResp (with_hdr r (apply_status BYPASS (p_hdr r)))) in
        if is_unsafe_method (q_method q) && is_non_error_status (p_status r) then
          get_refs_clean key (fun ans =>
            invalidate_cache (q_url q) (p_hdr r) (match ans with Some l => l | None => [] end) key done)
        else done
    end).
Proof. reflexivity. Qed.
Print Assumptions C07_shape.

Theorem C07_invalidates : forall limit (A : Type) u h refs key (c : prog A) w ids,
  ref_ids refs = Some ids ->
  (exists w', run limit (invalidate_cache u h refs key c) w = (OutOfModel, w')) \/
  exists w' ks, run limit (invalidate_cache u h refs key c) w = run limit c w' /\
    deletes_only ks w w' /\
    gone key w' /\
    (forall id, In id ids -> gone id w') /\
    (forall lk, In lk (location_keys location_headers u h) -> gone lk w') /\
    (forall k, in_names k ks = true ->
       k = key \/ In k ids \/ In k (location_keys location_headers u h) \/
       exists lk l, In lk (location_keys location_headers u h) /\ get_refs (w_store w) lk = Some l /\ In k (ids_of l)).
Proof. intros; apply run_invalidate_cache; assumption. Qed.
Print Assumptions C07_invalidates.

(* only same-origin URIs are candidates: a Location of another origin contributes no key *)
Theorem C07_cross_origin_untouched : forall u h hn loc pr,
  hget hn h = loc -> loc <> [] -> parse_url loc = Some pr ->
  same_origin u (resolve_reference u pr) = false ->
  location_keys [hn] u h = [].
Proof.
  intros u h hn loc pr Hg Hne Hp Hso. cbn [location_keys]. rewrite Hg.
  destruct loc as [|b l]; [congruence|]. rewrite Hp, Hso. reflexivity.
Qed.
Print Assumptions C07_cross_origin_untouched.

Theorem C07_later : forall limit q w,
  is_request_method_understood q = true ->
  gone (make_url_key (q_url q)) w ->
  run limit (round_trip q) w =
  run limit (handle_cache_miss q (make_url_key (q_url q)) [] (-1))
      (log_event w (EvGetRefs (make_url_key (q_url q)) false)).
Proof.
  intros limit q w Hm Hg. unfold round_trip, get_refs_clean. rewrite Hm. cbn [negb run].
  unfold get_refs. unfold gone in Hg. rewrite Hg. reflexivity.
Qed.
Print Assumptions C07_later.

Theorem C07_late_validation_discarded : forall limit q stored url_key f cc_req rep start stop w,
  background_revalidate q stored url_key f cc_req =
    round_trip_timed q (background_after_reply q stored url_key f cc_req) /\
  (gone (e_id stored) w ->
   exists w', run limit (background_after_reply q stored url_key f cc_req rep start stop) w = (Done tt, w') /\
              w_store w' = w_store w /\ w_pending w' = w_pending w).
Proof.
  intros limit q stored url_key f cc_req rep start stop w. split; [exact (background_revalidate_after_reply _ _ _ _ _)|].
  intros Hg. rewrite (late_validation_discarded limit q stored url_key f cc_req rep start stop w Hg).
  eexists; split; [reflexivity|]. destruct rep; split; reflexivity.
Qed.
Print Assumptions C07_late_validation_discarded.

(* non-vacuity: a PUT with a 200 reply and a same-origin Location deletes the index, its entry and the
   index of the named URI, and leaves another origin's key alone *)
Example C07_example :
  let u (s : string) := {| u_scheme := bs "http"; u_host := bs s; u_path := bs "/x"; u_query := []; u_force_query := false |} in
  let ref0 := {| r_id := bs "http://a.test/x#0"; r_vary := []; r_resolved := []; r_recv := 0 |} in
  let e := {| e_id := bs "http://a.test/x#0"; e_status := 200; e_hdr := []; e_body := 0; e_req_at := 0; e_recv_at := 0 |} in
  let w := {| w_store := [(bs "http://a.test/x", SRefs [Some ref0]); (bs "http://a.test/x#0", SEntry e);
                          (bs "http://a.test/y", SRefs []); (bs "http://b.test/x", SRefs [])];
              w_clock := 0; w_script := [(0, RResp {| p_status := 200; p_hdr := [(bs "Location", [bs "/y"])]; p_body := 0; p_body_ok := true |}, RErr)];
              w_calls := 0; w_log := []; w_pending := [] |} in
  let q := {| q_method := bs "MKCOL"; q_url := u "a.test"%string; q_hdr := [] |} in
  map fst (w_store (snd (run None (round_trip q) w))) = [bs "http://b.test/x"].
Proof. vm_compute. reflexivity. Qed.

(* ---------- tie to the source: the part of the model this property rests on is what /verif/translate derives from
   /repo's Go source on this run (Generated/*.v are rewritten before every build; see DESIGN.md section 9) ---------- *)
From HC.Generated Require Import SrcTables.
From HC.Proofs Require Import TieTables.
Theorem C07_source_tables :
  (forall m, src_is_unsafe_method m = is_unsafe_method m) /\
  (forall s, src_is_non_error_status s = is_non_error_status s) /\
  src_location_headers = location_headers.
Proof. split; [exact tie_is_unsafe_method|split; [exact tie_is_non_error_status|exact tie_location_headers]]. Qed.
Print Assumptions C07_source_tables.

(* the effect trees this property is stated about — which store / origin / clock operations happen, in which order, under
   which conditions, and what every path returns — are those /verif/translate derives from the Go source on this run
   (Generated/SrcEffects.v; equal up to the extensional equality of continuations, ProgEq.peq, which [run] respects) *)
From HC.Generated Require Import SrcEffects.
From HC.Proofs Require Import ProgEq TieEffects.
Theorem C07_source_effects :
  (forall q k, peq (src_handle_unrecognized_method q k) (handle_unrecognized_method q k)) /\
  (forall ctx q rep, peq (src_handle_validation_response ctx q rep) (handle_validation_response ctx q rep)).
Proof. repeat split; [exact tie_handle_unrecognized_method|exact tie_handle_validation_response]. Qed.
Print Assumptions C07_source_effects.

(* ... and the invalidation itself — the entries the index lists, then for Location and Content-Location (in that order) the
   same-origin target's listed entries and its index, then the index of the request's URI; no key deleted twice — is what
   /verif/translate derives from internal/cacheinvalidator.go on this run (Generated/SrcInval.v) *)
From HC.Generated Require Import SrcInval.
From HC.Proofs Require Import TieInval.
Theorem C07_source_invalidation :
  forall (A : Type) u h refs key (c c' : prog A), peq c c' ->
    peq (src_invalidate_cache u h refs key c) (invalidate_cache u h refs key c').
Proof. exact @tie_invalidate_cache. Qed.
Print Assumptions C07_source_invalidation.

(* ... and the same-origin test that decides whether a Location / Content-Location target is invalidated (scheme and host
   compared case-insensitively, the port after the default of the scheme has been filled in) is the one of
   internal/helpers.go on this run (Generated/SrcOrigin.v, SrcHelpers.v) *)
From HC.Generated Require Import SrcOrigin SrcHelpers.
From HC.Proofs Require Import TieHelpers.
Theorem C07_source_same_origin :
  (forall a b, src_same_origin a b = same_origin a b) /\ (forall s, src_default_port s = default_port s).
Proof. split; [exact tie_same_origin|exact tie_default_port]. Qed.
Print Assumptions C07_source_same_origin.

(* ---------- across exchanges ---------- *)
(* For every configuration, world and pair of requests: if the exchange of an unsafe request (a method the cache does not
   understand and lists as unsafe) ends with the origin's response and that response has a non-error status, then when the
   exchange is over — nothing was spawned that could write afterwards — the index of the request's URI is gone
   (C07_exchange_invalidates; the entries it listed and the same-origin Location targets by C07_invalidates); and the next
   exchange, whatever time passes, for any request with an understood method whose URI has that key is answered 504
   (only-if-cached) or calls the origin with exactly that request: never from the store (C07_next_exchange). *)
From HC.Proofs Require Import InvalProofs.
Theorem C07_exchange_invalidates : forall cfg q w obs w' r,
  is_request_method_understood q = false -> is_unsafe_method (q_method q) = true ->
  exchange cfg q w = (obs, w') ->
  x_result obs = Done (OResp r) -> is_non_error_status (p_status r) = true ->
  gone (make_url_key (q_url q)) w'.
Proof. exact unsafe_exchange_invalidates. Qed.
Print Assumptions C07_exchange_invalidates.

Theorem C07_next_exchange : forall cfg q q' gap w obs w1 obs' w2 r,
  is_request_method_understood q = false -> is_unsafe_method (q_method q) = true ->
  exchange cfg q w = (obs, w1) ->
  x_result obs = Done (OResp r) -> is_non_error_status (p_status r) = true ->
  is_request_method_understood q' = true -> make_url_key (q_url q') = make_url_key (q_url q) ->
  exchange cfg q' {| w_store := w_store w1; w_clock := w_clock w1 + gap; w_script := w_script w1;
                     w_calls := w_calls w1; w_log := []; w_pending := [] |} = (obs', w2) ->
  x_result obs' = Done (OResp response_504) \/ exists i a b rep, In (EvCall i q' a b rep) (x_events obs').
Proof. exact unsafe_then_get. Qed.
Print Assumptions C07_next_exchange.

(* non-vacuity: GET (stored), POST answered 200, GET: the third exchange calls the origin although the first response is still fresh *)
Definition c07_url : url := {| u_scheme := bs "http"; u_host := bs "a.test"; u_path := bs "/x"; u_query := []; u_force_query := false |}.
Definition c07_req (m : string) : request := {| q_method := bs m; q_url := c07_url; q_hdr := [] |}.
Definition c07_rep : origin_reply :=
  RResp {| p_status := 200; p_hdr := [(bs "Cache-Control", [bs "max-age=600"]); (bs "Date", [bs "Sat, 01 Jan 2000 00:00:00 GMT"])];
           p_body := 0; p_body_ok := true |}.
Example C07_next_exchange_nonvacuous :
  let obs := run_history {| cfg_swr_timeout := 0 |} [(0, c07_req "GET"); (second, c07_req "GET"); (second, c07_req "POST"); (second, c07_req "GET")]
               (init_world (946684800 * second) (repeat (second, c07_rep, c07_rep) 4)) in
  map (fun o => List.length (filter (fun ev => match ev with EvCall _ _ _ _ _ => true | _ => false end) (x_events o))) obs = [1; 0; 1; 1]%nat.
Proof. vm_compute. reflexivity. Qed.
