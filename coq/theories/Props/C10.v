(* C10 — the transport fails open: no panic, errors only from the origin.
   The statements quantify over every answer of the environment: each store read may return an error,
   nothing, or any typed value (an index with null elements, entries with arbitrary fields), each
   origin call may fail or return any response, the clock may read anything.
   Not expressible here (and exercised by the fault-injecting run instead): panics inside net/http,
   encoding/json or slog on hostile bytes, and real hangs — see DESIGN.md, C10 "partial". *)
From HC Require Import Transport.
From HC.Proofs Require Import Paths NoCrashProofs ErrOnly.
Open Scope Z_scope.

(* no path of the round-trip program reaches a Go panic (nil dereference) *)
Theorem C10_no_panic : forall q, NoCrash (round_trip q).
Proof. exact round_trip_nocrash. Qed.
Print Assumptions C10_no_panic.

(* the background revalidation cannot panic either *)
Theorem C10_no_panic_background : forall q stored k f cc, NoCrash (background_revalidate q stored k f cc).
Proof. exact background_revalidate_nocrash. Qed.
Print Assumptions C10_no_panic_background.

(* an error is returned only on a path on which an origin call itself failed, and the outcome is never
   "neither response nor error" *)
Theorem C10_err_only_origin : forall q, ErrOnly false (round_trip q).
Proof. exact round_trip_erronly. Qed.
Print Assumptions C10_err_only_origin.

(* when the index cannot be read (store error, absent, undecodable) the request is served by the
   origin: one origin call with the client's request, and its reply (status, body) is what is returned *)
Definition served_by (rep : origin_reply) (out : outcome) : Prop :=
  match rep with
  | RErr => out = OErr
  | RResp r => exists r', out = OResp r' /\ p_status r' = p_status r /\
                          (p_body_ok r = true -> p_body r' = p_body r /\ p_body_ok r' = true)
  end.

Inductive OneOriginCall (q : request) : prog outcome -> Prop :=
| OOC (c : Z -> origin_reply -> Z -> prog outcome) :
    (forall a rep b, Leaves (served_by rep) (c a rep b) /\ NoOrigin (c a rep b)) ->
    OneOriginCall q (Now (fun a => Origin q (fun rep => Now (fun b => c a rep b)))).

Lemma store_response_leaves q r k refs a b i :
  Leaves (fun r1 => p_status r1 = p_status r /\ (p_body_ok r = true -> p_body r1 = p_body r /\ p_body_ok r1 = true))
         (store_response q r k refs a b i).
Proof.
  unfold store_response. destruct (normalize_vary _ _); [|constructor].
  destruct (p_body_ok (with_hdr r _)) eqn:E; repeat constructor; cbn in *; auto; congruence.
Qed.

Lemma Leaves_bind {A B} (P : A -> Prop) (Q : B -> Prop) (p : prog A) (f : A -> prog B) :
  Leaves P p -> (forall a, P a -> Leaves Q (f a)) -> Leaves Q (bind p f).
Proof. intros Hp Hf; induction Hp; cbn [bind]; try (constructor; auto; fail); auto. Qed.

Theorem C10_store_faults : forall q,
  is_request_method_understood q = true ->
  req_only_if_cached (parse_cc (q_hdr q)) = false ->
  exists k c, round_trip q = GetRefs k c /\ OneOriginCall q (c None).
Proof.
  intros q Hm Hoic. unfold round_trip, get_refs_clean; rewrite Hm; cbn [negb].
  eexists _, _; split; [reflexivity|]. cbn [option_map].
  unfold handle_cache_miss; rewrite Hoic. unfold round_trip_timed.
  match goal with |- OneOriginCall _ (Now (fun a => Origin _ (fun rep => Now (fun b => @?c a rep b)))) =>
    apply (OOC q c) end.
  intros a rep b; destruct rep as [|r]; cbn [served_by].
  - split; constructor; reflexivity.
  - cbv zeta. destruct (_ && _).
    + split.
      * eapply Leaves_bind; [apply store_response_leaves|].
        intros r1 [Hs Hb]; constructor; exists (with_hdr r1 (apply_status MISS (p_hdr r1))); cbn; auto.
      * apply NoOrigin_bind; [apply store_response_noorigin|intros; constructor].
    + split; constructor. eexists; split; [reflexivity|]; cbn; auto.
Qed.
Print Assumptions C10_store_faults.

(* non-vacuity: the theorems apply to a concrete request; a stored index holding a null reference, which
   panicked in the pinned tree, is now a miss *)
Example C10_null_ref_is_a_miss :
  let q := {| q_method := bs "GET";
              q_url := {| u_scheme := bs "http"; u_host := bs "a.test"; u_path := bs "/x"; u_query := [];
                          u_force_query := false |};
              q_hdr := [] |} in
  match round_trip q with
  | GetRefs _ c => match c (Some [None]) with Now _ => True | _ => False end
  | _ => False
  end.
Proof. vm_compute. exact I. Qed.

(* the effect trees this property is stated about — which store / origin / clock operations happen, in which order, under
   which conditions, and what every path returns — are those /verif/translate derives from the Go source on this run
   (Generated/SrcEffects.v; equal up to the extensional equality of continuations, ProgEq.peq, which [run] respects) *)
From HC.Generated Require Import SrcEffects.
From HC.Proofs Require Import ProgEq TieEffects.
Theorem C10_source_effects :
  (forall q, peq (src_round_trip q) (round_trip q)) /\
  (forall q k, peq (src_handle_unrecognized_method q k) (handle_unrecognized_method q k)) /\
  (forall q k refs i, peq (src_handle_cache_miss q k refs i) (handle_cache_miss q k refs i)) /\
  (forall q e k refs i, peq (src_handle_cache_hit q e k refs i) (handle_cache_hit q e k refs i)) /\
  (forall q e k f cc, peq (src_background_revalidate q e k f cc) (background_revalidate q e k f cc)) /\
  (forall ctx q rep, peq (src_handle_validation_response ctx q rep) (handle_validation_response ctx q rep)).
Proof. repeat split; [exact tie_round_trip|exact tie_handle_unrecognized_method|exact tie_handle_cache_miss|exact tie_handle_cache_hit|exact tie_background_revalidate|exact tie_handle_validation_response]. Qed.
Print Assumptions C10_source_effects.

(* ... and StoreResponse (hop-by-hop fields removed first, the variant key, the entry written before the index, the index
   entry appended or replaced), serveFromCache and handleStaleWhileRevalidate (qualified no-cache fields removed, Age, status,
   the background revalidation started with the stored validators) *)
Theorem C10_source_effects2 :
  (forall q r k refs a b i, peq (src_store_response q r k refs a b i) (store_response q r k refs a b i)) /\
  (forall e f now ql, peq (src_serve_from_cache e f now ql) (Ret (serve_from_cache e f now ql))) /\
  (forall q e k f cc now ql, peq (src_handle_stale_while_revalidate q e k f cc now ql) (handle_stale_while_revalidate q e k f cc now ql)).
Proof. repeat split; [exact tie_store_response|exact tie_serve_from_cache|exact tie_handle_stale_while_revalidate]. Qed.
Print Assumptions C10_source_effects2.
