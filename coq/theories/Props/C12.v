(* C12 — equivalent spellings of Cache-Control behave identically.

   The quantification "all Cache-Control values and all meaning-preserving rewrites" is over the
   abstract syntax of CCSyntax.v: a field is a list of directives (lower-case token name, argument);
   a spelling chooses per directive the letter case of the name, the argument form (none, token,
   quoted-string with any subset of bytes written as quoted-pairs), optional whitespace before and
   after the element, and where empty list elements and field-line breaks go.
   C12_any_spelling: parsing ANY spelling gives, for every directive name, exactly the argument of the
   last directive of that name in the abstract list.  C12_order: any reordering of directives with
   distinct names has the same meaning; C12_extensions: directives of other names (unknown extensions
   included) change nothing for a name.  C12_same_decisions: two readings with the same meaning give
   the same storability, freshness record, hit decision (serve / serve-and-revalidate / 504 /
   validate), qualified no-cache fields and stale-if-error decision, for every stored entry, response
   and instant.  C12_large_delta: a delta-seconds of any number of digits is read as
   min(2^63-1 ns, value s) - never wrapped - so a value of at least 2^31 s acts as at least 2^31 s. *)
From HC Require Import CCSyntax Spec.
From HC.Proofs Require Import HeaderProofs FreshProofs SpellProofs.
From Coq Require Import Permutation.
Open Scope Z_scope.

Theorem C12_any_spelling : forall (ls : list (list element)) (h : headers) (n : bytes),
  hvalues cc_name h = render_lines ls ->
  forallb (forallb elem_ok) ls = true ->
  sd_arg n (parse_cc h) = meaning (dirs_of (List.concat ls)) n /\
  sd_has n (parse_cc h) = match meaning (dirs_of (List.concat ls)) n with Some _ => true | None => false end.
Proof.
  intros ls h n H O. pose proof (parse_any_spelling ls h n H O) as P. split; [exact P|].
  change (sd_has n (parse_cc h)) with (has_token (parse_cc h) n). rewrite has_token_arg, P. reflexivity.
Qed.
Print Assumptions C12_any_spelling.

Theorem C12_order : forall ds1 ds2 n, Permutation ds1 ds2 -> NoDup (map dn ds1) -> meaning ds1 n = meaning ds2 n.
Proof. exact meaning_permutation. Qed.
Print Assumptions C12_order.

Theorem C12_extensions : forall a x b n, beq n (dn x) = false -> meaning (a ++ x :: b) n = meaning (a ++ b) n.
Proof. exact meaning_extension. Qed.
Print Assumptions C12_extensions.

Theorem C12_same_decisions : forall qs1 qs2 rs1 rs2 (hq1 hq2 hr1 hr2 : headers),
  hvalues cc_name hq1 = render_lines qs1 -> hvalues cc_name hq2 = render_lines qs2 ->
  hvalues cc_name hr1 = render_lines rs1 -> hvalues cc_name hr2 = render_lines rs2 ->
  forallb (forallb elem_ok) qs1 = true -> forallb (forallb elem_ok) qs2 = true ->
  forallb (forallb elem_ok) rs1 = true -> forallb (forallb elem_ok) rs2 = true ->
  (forall n, meaning (dirs_of (List.concat qs1)) n = meaning (dirs_of (List.concat qs2)) n) ->
  (forall n, meaning (dirs_of (List.concat rs1)) n = meaning (dirs_of (List.concat rs2)) n) ->
  let q1 := parse_cc hq1 in let q2 := parse_cc hq2 in let r1 := parse_cc hr1 in let r2 := parse_cc hr2 in
  (forall resp, can_store_response resp q1 r1 = can_store_response resp q2 r2) /\
  (forall e now, calculate_freshness e q1 r1 now = calculate_freshness e q2 r2 now) /\
  (forall e now, decide_hit_cc e q1 r1 now = decide_hit_cc e q2 r2 now) /\
  hit_qualified_cc r1 = hit_qualified_cc r2 /\
  (forall f now, can_stale_on_error f [resp_stale_if_error r1; req_stale_if_error q1] now =
                 can_stale_on_error f [resp_stale_if_error r2; req_stale_if_error q2] now) /\
  req_only_if_cached q1 = req_only_if_cached q2 /\ req_no_store q1 = req_no_store q2 /\ resp_no_store r1 = resp_no_store r2.
Proof.
  intros qs1 qs2 rs1 rs2 hq1 hq2 hr1 hr2 Hq1 Hq2 Hr1 Hr2 Oq1 Oq2 Or1 Or2 Mq Mr q1 q2 r1 r2.
  assert (Eq : cc_equiv q1 q2) by (apply (spellings_equiv qs1 qs2); assumption).
  assert (Er : cc_equiv r1 r2) by (apply (spellings_equiv rs1 rs2); assumption).
  repeat split.
  - intros resp. apply eq_can_store; assumption.
  - intros e now. apply eq_freshness; assumption.
  - intros e now. apply eq_decide_hit; assumption.
  - apply eq_qualified; assumption.
  - intros f now. apply eq_stale_on_error; assumption.
  - apply eq_token, Eq.
  - apply eq_token, Eq.
  - apply eq_token, Er.
Qed.
Print Assumptions C12_same_decisions.

(* the transport's hit decision is decide_hit_cc of the two parsed fields *)
Theorem C12_decisions_are_the_code : forall q stored now,
  decide_hit q stored now = decide_hit_cc stored (parse_cc (q_hdr q)) (parse_cc (e_hdr stored)) now /\
  hit_qualified stored = hit_qualified_cc (parse_cc (e_hdr stored)).
Proof. intros; split; reflexivity. Qed.

Theorem C12_large_delta : forall a, a <> [] -> all_digits a = true ->
  delta_seconds a = Some (Z.min max64 (digits_val 0 a * second)) /\
  (2 ^ 31 <= digits_val 0 a -> forall v, delta_seconds a = Some v -> 2 ^ 31 * second <= v <= max64).
Proof.
  intros a Hne Hd. rewrite delta_spec. unfold spec_delta. rewrite Hd.
  destruct (beq a []) eqn:B; [apply beq_eq in B; congruence|]. cbn [negb andb option_map]. split; [reflexivity|].
  intros Hbig v Hv. injection Hv as <-. unfold sat_ns, max64, second. lia.
Qed.
Print Assumptions C12_large_delta.

(* non-vacuity: a contorted spelling over three field lines, with quoted-pairs, against the canonical one *)
Example C12_example :
  let d1 := {| dn := bs "max-age"; da := bs "60" |} in
  let d2 := {| dn := bs "no-cache"; da := bs "set-cookie, x" |} in
  let d3 := {| dn := bs "private"; da := [] |} in
  let d4 := {| dn := bs "ext"; da := bs "a;b" |} in
  let weird := [[EEmpty (bs " "); EDir d1 {| s_name := bs "MaX-AgE"; s_form := FQuoted [true; false]; s_pre := bs "  "; s_post := [9] |}; EEmpty []];
                [];
                [EDir d4 {| s_name := bs "EXT"; s_form := FQuoted [false; false; true]; s_pre := []; s_post := [] |};
                 EDir d2 {| s_name := bs "No-Cache"; s_form := FQuoted []; s_pre := [32]; s_post := [] |}; EEmpty [32; 9];
                 EDir d3 {| s_name := bs "PRIVATE"; s_form := FBare; s_pre := []; s_post := bs " " |}]] in
  let canon := [canon_line [d1; d2; d3; d4]] in
  forallb (forallb elem_ok) weird = true /\ forallb (forallb elem_ok) canon = true /\
  render_lines weird = [bs " ,  MaX-AgE=""\60""" ++ [9; 44]; []; bs "EXT=""a;\b"", No-Cache=""set-cookie, x"", " ++ [9] ++ bs ",PRIVATE "] /\
  render_lines canon = [bs "max-age=60,no-cache=""set-cookie, x"",private,ext=""a;b"""] /\
  map (fun n => sd_arg n (parse_cc [(cc_name, render_lines weird)])) [bs "max-age"; bs "no-cache"; bs "private"; bs "ext"; bs "public"] =
  map (fun n => sd_arg n (parse_cc [(cc_name, render_lines canon)])) [bs "max-age"; bs "no-cache"; bs "private"; bs "ext"; bs "public"].
Proof. vm_compute. repeat split; reflexivity. Qed.

(* ---------- tie to the source: the part of the model this property rests on is what /verif/translate derives from
   /repo's Go source on this run (Generated/*.v are rewritten before every build; see DESIGN.md section 9) ---------- *)
From HC.Generated Require Import SrcTables.
From HC.Proofs Require Import TieTables.
Theorem C12_source_max_delta : src_max_delta_seconds = max_delta_seconds /\ src_max_duration = max64.
Proof. split; [exact tie_max_delta_seconds|exact tie_max_duration]. Qed.
Print Assumptions C12_source_max_delta.
