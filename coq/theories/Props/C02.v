(* C02 — responses that require validation are never reused unvalidated.

   C02_local: for every request, stored entry and clock reading, if handleCacheHit's decision is to
   answer from the store (DServe, or DServeSWR with its background revalidation) then the specification's
   [needs_validation] is false: the stored response has no unqualified no-cache, is not
   (stale and must-revalidate), and the request has neither no-cache nor a max-age the response has
   exceeded — max-stale, stale-while-revalidate, immutable and only-if-cached change nothing about that.
   C02_no_stale_fallback: when validation is mandatory the revalidation context forbids the stale-if-error
   fallback.  C02_validation_request: every origin call of a round trip carries the client's method and
   URL and either the client's header fields or those plus If-None-Match / If-Modified-Since copied from
   the stored ETag / Last-Modified; the client's request value is never written (the model's requests are
   immutable values; that Go's cloneRequest copies the header map is checked by the harness's
   before/after snapshot of the caller's request). *)
From HC Require Import Transport Spec.
From HC.Proofs Require Import Paths ErrOnly FreshProofs DecisionProofs ValidationProofs.
Open Scope Z_scope.

Theorem C02_local : forall q e now,
  valid_date (e_hdr e) -> e_status e <> 304 ->
  decide_hit q e now = DServe \/ decide_hit q e now = DServeSWR ->
  needs_validation (view_of e) q now = false.
Proof. exact decision_needs_no_validation. Qed.
Print Assumptions C02_local.

(* the only decisions are: serve, serve+background, 504, revalidate; a mandatory validation is marked *)
Theorem C02_no_stale_fallback : forall q e now,
  hit_must_validate q e (calculate_freshness e (parse_cc (q_hdr q)) (parse_cc (e_hdr e)) now) = true ->
  decide_hit q e now = D504 \/ decide_hit q e now = DRevalidate true.
Proof.
  intros q e now H; unfold decide_hit; rewrite H.
  destruct (req_only_if_cached _); auto.
Qed.
Print Assumptions C02_no_stale_fallback.

(* occurrences of no-cache add up: a stored response whose Cache-Control field — in any spelling, on any number of field
   lines — has one no-cache without argument among its directives, whatever other occurrences of no-cache (qualified,
   before or after it) and whatever other directives it carries, is never answered from the store without validation *)
From HC Require Import CCSyntax.
From HC.Proofs Require Import SpellProofs.
Theorem C02_any_unqualified_no_cache : forall (ls : list (list element)) q e now,
  hvalues cc_name (e_hdr e) = render_lines ls ->
  forallb (forallb elem_ok) ls = true ->
  (exists d, In d (dirs_of (List.concat ls)) /\ dn d = no_cache_name /\ da d = []) ->
  decide_hit q e now = D504 \/ decide_hit q e now = DRevalidate true.
Proof.
  intros ls q e now Hh Hok Hex. apply C02_no_stale_fallback.
  pose proof (parse_any_spelling ls (e_hdr e) no_cache_name Hh Hok) as P.
  rewrite (meaning_any_unqualified _ Hex) in P.
  unfold hit_must_validate, hit_qualified.
  change (resp_no_cache (parse_cc (e_hdr e))) with (arg_of no_cache_name (parse_cc (e_hdr e))). rewrite P. reflexivity.
Qed.
Print Assumptions C02_any_unqualified_no_cache.

(* non-vacuity, and the qualified case: the field names of two qualified occurrences are both covered *)
Example C02_occurrences_example :
  let h1 := [(cc_name, [bs "no-cache, max-age=300, no-cache=""X-Session"""])] in
  let h2 := [(cc_name, [bs "max-age=300, no-cache=""X-Session"""; bs "No-Cache=X-Other"])] in
  resp_no_cache (parse_cc h1) = Some [] /\
  hit_qualified_cc (parse_cc h2) = Some [bs "X-Session"; bs "X-Other"].
Proof. vm_compute. split; reflexivity. Qed.

(* with the fallback forbidden, a failed validation returns the origin's error or error response *)
Theorem C02_mandatory_validation_outcome : forall ctx q rep,
  rc_no_stale ctx = true ->
  match rep with
  | RErr => handle_validation_response ctx q rep = Ret OErr
  | RResp r =>
      ((is_get (q_method q) && (p_status r =? 304)) = false) ->
      Leaves (origin_answer r) (handle_validation_response ctx q rep)
  end.
Proof.
  intros ctx q [|r] H; [apply hvr_error_no_fallback; exact H|].
  intros H3; apply hvr_origin_answer; auto.
Qed.
Print Assumptions C02_mandatory_validation_outcome.

(* the validation request *)
Definition validation_request_of (q r : request) : Prop :=
  q_method r = q_method q /\ q_url r = q_url q /\
  (q_hdr r = q_hdr q \/ exists stored_hdr, r = with_conditional_headers q stored_hdr).

Theorem C02_validation_request : forall q, OriginReqs (validation_request_of q) (round_trip q).
Proof.
  intros q.
  assert (Hq : validation_request_of q q) by (repeat split; auto).
  assert (Hc : forall sh, validation_request_of q (with_conditional_headers q sh)).
  { intros sh; repeat split; eauto. }
  assert (Hrt : forall (A : Type) r (c : origin_reply -> Z -> Z -> prog A),
             validation_request_of q r -> (forall rep a b, OriginReqs (validation_request_of q) (c rep a b)) ->
             OriginReqs (validation_request_of q) (round_trip_timed r c)).
  { intros A r c Hr Hk; unfold round_trip_timed; constructor; intros a; constructor; [exact Hr|].
    intros rep; constructor; intros b; destruct rep; apply Hk. }
  assert (Hmiss : forall k refs i, OriginReqs (validation_request_of q) (handle_cache_miss q k refs i)).
  { intros; unfold handle_cache_miss. destruct (req_only_if_cached _); [constructor|].
    apply Hrt; [exact Hq|]. intros [|r] a b; [constructor|]. cbv zeta.
    destruct (_ && _); [|constructor].
    apply OriginReqs_bind; [apply no_origin_reqs, ErrOnly.store_response_noorigin|intros; constructor]. }
  assert (Hbg : forall e k f cc sh, OriginReqs (validation_request_of q)
                  (background_revalidate (with_conditional_headers q sh) e k f cc)).
  { intros; unfold background_revalidate. apply Hrt; [apply Hc|].
    intros [|r] a b; [constructor|]. constructor; intros own; destruct own; [|constructor].
    destruct (_ && _); [constructor|].
    unfold get_refs_clean; constructor; intros ans.
    apply OriginReqs_bind; [apply hvr_reqs|intros; constructor]. }
  assert (Hhit : forall e k refs i, OriginReqs (validation_request_of q) (handle_cache_hit q e k refs i)).
  { intros; unfold handle_cache_hit; constructor; intros now; cbv zeta.
    destruct (decide_hit q e now).
    - constructor.
    - unfold handle_stale_while_revalidate; apply OR_Spawn; [apply Hbg|constructor].
    - constructor.
    - apply Hrt; [apply Hc|]. intros; apply hvr_reqs. }
  unfold round_trip. destruct (negb _).
  - unfold handle_unrecognized_method; destruct (req_only_if_cached _); [constructor|]; constructor; [exact Hq|]. intros [|r]; [constructor|].
    destruct (_ && _); [|constructor].
    unfold get_refs_clean; constructor; intros ans.
    unfold invalidate_cache. destruct (ref_ids _); [|constructor].
    assert (Hd : forall ks done (c : list bytes -> prog outcome),
               (forall d, OriginReqs (validation_request_of q) (c d)) -> OriginReqs (validation_request_of q) (del_all ks done c)).
    { induction ks as [|k ks IH]; intros done c Hk; cbn; auto. destruct (existsb _ _); auto. constructor; auto. }
    apply Hd; intros d.
    assert (Hl : forall hs done (c : list bytes -> prog outcome),
               (forall d, OriginReqs (validation_request_of q) (c d)) ->
               OriginReqs (validation_request_of q) (invalidate_locations hs (q_url q) (p_hdr r) done c)).
    { induction hs as [|hn hs IH]; intros done c Hk; cbn [invalidate_locations]; auto.
      destruct (hget hn (p_hdr r)); [apply IH, Hk|]. destruct (parse_url _); [|constructor].
      destruct (same_origin _ _); [|apply IH, Hk].
      unfold get_refs_clean; constructor; intros ans'. destruct (ref_ids _); [|constructor].
      apply Hd; intros d'; apply IH, Hk. }
    apply Hl; intros d'; apply Hd; intros; constructor.
  - unfold get_refs_clean; constructor; intros ans.
    destruct (option_map drop_nil_refs ans) as [[|r l]|]; auto.
    destruct (has_nil_ref _); [constructor|].
    destruct (vary_headers_match _ _) as [[sorted [i|]]|]; auto; [|constructor].
    destruct (nth_error _ _); [|constructor].
    constructor; intros e; destruct e; auto.
Qed.
Print Assumptions C02_validation_request.

(* non-vacuity *)
Example C02_must_revalidate_stale_is_revalidated :
  let e := {| e_id := bs "k#0"; e_status := 200;
              e_hdr := [(bs "Cache-Control", [bs "max-age=1, must-revalidate"]);
                        (bs "Date", [bs "Sat, 01 Jan 2000 00:00:00 GMT"]); (bs "Etag", [bs "x"])];
              e_body := 0; e_req_at := 946684800 * second; e_recv_at := 946684800 * second |} in
  let q := {| q_method := bs "GET";
              q_url := {| u_scheme := bs "http"; u_host := bs "a.test"; u_path := bs "/x"; u_query := []; u_force_query := false |};
              q_hdr := [(bs "Cache-Control", [bs "max-stale=100"])] |} in
  decide_hit q e (946684810 * second) = DRevalidate true /\
  needs_validation (view_of e) q (946684810 * second) = true.
Proof. split; vm_compute; reflexivity. Qed.

(* ---------- qualified no-cache: the named fields are not replayed without validation ---------- *)
From HC.Proofs Require Import HeaderProofs SrcProofs.

(* removing a list of fields removes each of them, whatever else is removed *)
Lemma strip_removes n fields : forall h, In n fields -> hvalues (canonical_key n) (fold_left (fun acc fld => hdel fld acc) fields h) = [].
Proof.
  assert (Hkeep : forall fs h, hvalues (canonical_key n) h = [] ->
            hvalues (canonical_key n) (fold_left (fun acc fld => hdel fld acc) fs h) = []).
  { induction fs as [|x fs IH]; intros h H; cbn [fold_left]; [exact H|]. apply IH.
    destruct (beq (canonical_key n) (canonical_key x)) eqn:E.
    - apply beq_eq in E. rewrite E. apply hvalues_hdel_same.
    - rewrite hvalues_hdel_other by exact E. exact H. }
  induction fields as [|x fs IH]; intros h Hin; [destruct Hin|]. cbn [fold_left].
  destruct Hin as [->|Hin]; [apply Hkeep, hvalues_hdel_same|apply IH, Hin].
Qed.

(* For every stored entry whose no-cache carries a field list, every field n of the list other than the cache's own Age
   and status fields (which it writes afterwards), every freshness record and clock reading: the response handed out
   by serveFromCache, by the stale-while-revalidate path and by the stale-if-error path — the three ways a stored
   response leaves the cache without a successful validation — has no field n. *)
Theorem C02_qualified_not_replayed : forall e f now fields n r,
  hit_qualified e = Some fields -> In n fields ->
  beq (canonical_key n) (bs "Age") = false -> beq (canonical_key n) status_header = false ->
  beq (canonical_key n) from_cache_header = false ->
  serve_from_cache e f now (hit_qualified e) = OResp r \/
  (exists q k cc bg, handle_stale_while_revalidate q e k f cc now (hit_qualified e) = Spawn bg (Ret (OResp r))) \/
  stale_if_error_outcome e f now = OResp r ->
  hvalues (canonical_key n) (p_hdr r) = [].
Proof.
  intros e f now fields n r Hq Hin Ha Hs Hf H.
  assert (Hgone : forall st v, hvalues (canonical_key n) (apply_status st (hset (bs "Age") v (strip_qualified (hit_qualified e) (e_hdr e)))) = []).
  { intros st v. unfold apply_status. rewrite Hq. cbn [strip_qualified].
    destruct (status_legacy st); [rewrite hvalues_hset_other by exact Hf|rewrite hvalues_hdel_other by exact Hf];
      rewrite hvalues_hset_other by exact Hs; rewrite hvalues_hset_other by exact Ha; apply strip_removes, Hin. }
  destruct H as [H|[(q & k & cc & bg & H)|H]].
  - unfold serve_from_cache in H. injection H as <-. cbn [p_hdr response_of entry_with_hdr e_hdr]. apply Hgone.
  - unfold handle_stale_while_revalidate in H. injection H as _ <-. cbn [p_hdr response_of entry_with_hdr e_hdr]. apply Hgone.
  - unfold stale_if_error_outcome in H. injection H as <-. cbn [p_hdr response_of entry_with_hdr e_hdr]. apply Hgone.
Qed.
Print Assumptions C02_qualified_not_replayed.

(* non-vacuity: a field list in any case with optional whitespace; the named field is gone from a hit *)
Example C02_qualified_example :
  let e := {| e_id := bs "k#0"; e_status := 200;
              e_hdr := [(bs "Cache-Control", [bs "max-age=60, no-cache=""Set-Cookie , x-secret"""]); (bs "Date", [bs "Sat, 01 Jan 2000 00:00:00 GMT"]);
                        (bs "X-Secret", [bs "s"]); (bs "Set-Cookie", [bs "a=1"])];
              e_body := 0; e_req_at := 946684800 * second; e_recv_at := 946684800 * second |} in
  hit_qualified e = Some [bs "Set-Cookie"; bs "x-secret"] /\
  match serve_from_cache e (calculate_freshness e [] (parse_cc (e_hdr e)) (946684810 * second)) (946684810 * second) (hit_qualified e) with
  | OResp r => hvalues (bs "X-Secret") (p_hdr r) = [] /\ hvalues (bs "Set-Cookie") (p_hdr r) = [] /\ hvalues (bs "Date") (p_hdr r) <> []
  | _ => False
  end.
Proof. vm_compute. repeat split; try reflexivity. discriminate. Qed.

(* ---------- history level ---------- *)
From HC.Proofs Require Import ProvProofs TimeProofs SrcProofs.

(* Along EVERY sequential history from an empty store: a response returned without contacting the origin in that
   exchange is the synthesised 504, or the served form of a stored entry whose fields and instants are those of
   origin calls of the history (Src, see C01_history) and which, at the instant the exchange started, does NOT need
   validation by the specification: no unqualified no-cache, not (stale and must-revalidate), and the request has
   neither no-cache nor a max-age the response exceeds.  (Premise: the stored Date parses; see C01_history.) *)
Theorem C02_history_unvalidated : forall cfg h t0 script k gq obs o,
  let all := run_history cfg h (init_world t0 script) in
  let L := flat_map (fun x => x_events x ++ x_bg_events x) all in
  nth_error h k = Some gq -> nth_error all k = Some obs -> x_result obs = Done o -> ~ has_call (x_events obs) ->
  o = OResp response_504 \/
  exists e, Src (GXl L) e /\ o = served_outcome (snd gq) e (x_t0 obs) /\
    (valid_date (e_hdr e) -> needs_validation (view_of e) (snd gq) (x_t0 obs) = false).
Proof.
  intros cfg h t0 script k gq obs o all L Hk Ho Hr Hnc.
  destruct (history_safeX L cfg h (init_world t0 script)) as [_ H]; [intros k' e' E; discriminate|apply incl_refl|].
  destruct (proj1 (H k gq obs o Hk Ho Hr) Hnc) as [E|(e & Hs & Hd & E)]; [left; exact E|right].
  exists e. split; [exact Hs|split; [exact E|]]. intros Hv.
  apply decision_needs_no_validation; [exact Hv|eapply Src_status; exact Hs|exact Hd].
Qed.
Print Assumptions C02_history_unvalidated.

(* ... and a response returned marked REVALIDATED carries the status and body of a stored entry e with a known source,
   for which the decision at the start of the exchange was to validate, and the origin was contacted IN THAT EXCHANGE
   with exactly the client's request plus If-None-Match / If-Modified-Since from e's validators
   ([with_conditional_headers]) and answered 304 (the call is in the log of the history). *)
Theorem C02_history_validated : forall cfg h t0 script k gq obs r,
  let all := run_history cfg h (init_world t0 script) in
  let L := flat_map (fun x => x_events x ++ x_bg_events x) all in
  nth_error h k = Some gq -> nth_error all k = Some obs -> x_result obs = Done (OResp r) -> has_call (x_events obs) ->
  hvalues status_header (p_hdr r) = [bs "REVALIDATED"] ->
  exists e must a b r0 idx,
    Src (GXl L) e /\ decide_hit (snd gq) e (x_t0 obs) = DRevalidate must /\
    In (EvCall idx (with_conditional_headers (snd gq) (e_hdr e)) a b (RResp r0)) L /\ p_status r0 = 304 /\
    p_status r = e_status e /\ (p_body r = e_body e \/ p_body r = -1).
Proof.
  intros cfg h t0 script k gq obs r all L Hk Ho Hr Hc Hv.
  destruct (history_safeX L cfg h (init_world t0 script)) as [_ H]; [intros k' e' E; discriminate|apply incl_refl|].
  destruct (after_call_revalidated _ _ _ _ (proj2 (H k gq obs (OResp r) Hk Ho Hr) Hc) Hv) as (e & must & a & b & r0 & Hs & Hd & (idx & Hin) & H3 & Hst & Hb).
  exists e, must, a, b, r0, idx. repeat split; assumption.
Qed.
Print Assumptions C02_history_validated.

(* when validation is demanded, nothing stored is returned without it: the stale-if-error answer (the only other way a
   stored response leaves an exchange that contacted the origin) requires the decision DRevalidate false (C13_history),
   and a mandatory validation gives DRevalidate true or the 504 (C02_no_stale_fallback) *)

(* ---------- tie to the source: the part of the model this property rests on is what /verif/translate derives from
   /repo's Go source on this run (Generated/*.v are rewritten before every build; see DESIGN.md section 9) ---------- *)
From HC.Generated Require Import SrcEffects.
From HC.Proofs Require Import ProgEq TieEffects.
Theorem C02_source_decision : forall q e k refs i, peq (src_handle_cache_hit q e k refs i) (handle_cache_hit q e k refs i).
Proof. exact tie_handle_cache_hit. Qed.
Print Assumptions C02_source_decision.

(* the effect trees this property is stated about — which store / origin / clock operations happen, in which order, under
   which conditions, and what every path returns — are those /verif/translate derives from the Go source on this run
   (Generated/SrcEffects.v; equal up to the extensional equality of continuations, ProgEq.peq, which [run] respects) *)
From HC.Generated Require Import SrcEffects.
From HC.Proofs Require Import ProgEq TieEffects.
Theorem C02_source_effects :
  (forall q e k refs i, peq (src_handle_cache_hit q e k refs i) (handle_cache_hit q e k refs i)) /\
  (forall ctx q rep, peq (src_handle_validation_response ctx q rep) (handle_validation_response ctx q rep)).
Proof. repeat split; [exact tie_handle_cache_hit|exact tie_handle_validation_response]. Qed.
Print Assumptions C02_source_effects.

(* ... and StoreResponse (hop-by-hop fields removed first, the variant key, the entry written before the index, the index
   entry appended or replaced), serveFromCache and handleStaleWhileRevalidate (qualified no-cache fields removed, Age, status,
   the background revalidation started with the stored validators) *)
Theorem C02_source_effects2 :
  (forall e f now ql, peq (src_serve_from_cache e f now ql) (Ret (serve_from_cache e f now ql))) /\
  (forall q e k f cc now ql, peq (src_handle_stale_while_revalidate q e k f cc now ql) (handle_stale_while_revalidate q e k f cc now ql)).
Proof. repeat split; [exact tie_serve_from_cache|exact tie_handle_stale_while_revalidate]. Qed.
Print Assumptions C02_source_effects2.

(* the freshness computation itself — CalculateFreshness with its precedence of max-age / Expires / heuristics, the request's
   max-age, min-fresh and max-stale, and the flags the hit decision reads; calculateCurrentAge with its saturating sums and
   Go's wrapping multiplication; heuristicFreshness with Go's truncating division — is what /verif/translate derives from
   internal/freshness.go on this run, for every stored entry, directive set and clock reading *)
Theorem C02_source_freshness :
  (forall e rq rs now, src_calculate_freshness e rq rs now = calculate_freshness e rq rs now) /\
  (forall h date rt st now, src_current_age h date rt st now = (current_age h date rt st now, now)) /\
  (forall h date, src_heuristic_freshness h date = heuristic_freshness h date).
Proof. split; [exact tie_calculate_freshness|split; [exact tie_current_age|exact tie_heuristic_freshness]]. Qed.
Print Assumptions C02_source_freshness.

(* the validation request — the client's request plus If-None-Match / If-Modified-Since copied from the stored ETag /
   Last-Modified, each only when present — is built by the withConditionalHeaders of helpers.go on this run
   (Generated/SrcHeaderProgs.v) *)
From HC.Generated Require Import SrcHeaderProgs.
From HC.Proofs Require Import TieHeaderProgs.
Theorem C02_source_conditional_request :
  forall q stored, src_with_conditional_headers q stored = with_conditional_headers q stored.
Proof. exact tie_with_conditional_headers. Qed.
Print Assumptions C02_source_conditional_request.
