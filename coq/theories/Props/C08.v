(* C08 — validation results are written back: 304 freshens, 200 replaces.

   C08_freshen (sequential store semantics, any store contents): after a 304 to a GET (no no-store on
   either side) the store holds, under the variant key of the merged response, an entry with the stored
   status and body, the merged header fields (hop-by-hop removed) and the request/response instants of
   *this* exchange — so its age restarts here (C11_age_exact, C01) — and the caller gets that response
   marked REVALIDATED.
   C08_merged_fields: the merged header map is, field by field: the stored value for Content-Length and
   the hop-by-hop fields of the 304; otherwise the 304's value when it has the field, else the stored one.
   C08_replace: a full storable reply is written by StoreResponse: afterwards the store holds the new
   entry under its variant key and an index that contains the new reference, keeps every other
   reference the caller passed (positions other than the one replaced), and nothing else changes.
   C08_index_no_loss / C08_index_unique: de-duplication of the index loses no response id and leaves
   one reference per id.
   C08_background_uses_current_index: the background revalidation re-reads the entry and the index
   when the reply arrives and replaces the reference whose id is the served entry's. *)
From HC Require Import Transport Run.
From HC.Proofs Require Import Paths HeaderProofs RunProofs IndexProofs FreshenProofs.
Open Scope Z_scope.

Theorem C08_freshen : forall limit ctx q r w resolved,
  is_get (q_method q) = true -> p_status r = 304 ->
  req_no_store (rc_cc_req ctx) = false -> resp_no_store (parse_cc (p_hdr r)) = false ->
  let stored := rc_stored ctx in
  let final_hdr := remove_hop_by_hop (update_stored_headers (e_hdr stored) (p_hdr r)) in
  normalize_vary (join [44] (hvalues (bs "Vary") final_hdr)) (q_hdr q) = Some resolved ->
  let id := make_vary_key (rc_url_key ctx) resolved in
  exists w' out, (run limit (handle_validation_response ctx q (RResp r)) w = (Done (OResp out), w')) /\
    (get_entry (w_store w') id =
      Some {| e_id := id; e_status := e_status stored; e_hdr := final_hdr; e_body := e_body stored;
              e_req_at := rc_start ctx; e_recv_at := rc_end ctx |}) /\
    (p_status out = e_status stored) /\ (p_body out = e_body stored) /\
    (hvalues status_header (p_hdr out) = [bs "REVALIDATED"]).
Proof. exact run_freshen. Qed.
Print Assumptions C08_freshen.

Theorem C08_merged_fields : forall stored fresh n,
  alookup n (update_stored_headers stored fresh) =
  if omitted_on_merge fresh n then alookup n stored
  else match alast n fresh with Some v => Some v | None => alookup n stored end.
Proof. exact update_stored_headers_spec. Qed.
Print Assumptions C08_merged_fields.

Theorem C08_replace : forall limit (B : Type) q r key refs a b i resolved (f : response -> prog B) w,
  normalize_vary (join [44] (hvalues (bs "Vary") (remove_hop_by_hop (p_hdr r)))) (q_hdr q) = Some resolved ->
  p_body_ok r = true ->
  let r1 := with_hdr r (remove_hop_by_hop (p_hdr r)) in
  let id := make_vary_key key resolved in
  exists w', run limit (bind (store_response q r key refs a b i) f) w = run limit (f r1) w' /\
    get_entry (w_store w') id = Some (entry_of id r1 a b) /\
    (exists l, get_refs (w_store w') key = Some (unique_refs l) /\
       In (Some {| r_id := id; r_vary := join [44] (hvalues (bs "Vary") (p_hdr r1)); r_resolved := resolved;
                   r_recv := date_header (p_hdr r1) |}) l /\
       (forall j x, Z.of_nat j <> i -> nth_error refs j = Some x -> In x l)) /\
    w_clock w' = w_clock w /\
    (forall k, beq k id = false -> beq k key = false -> alookup k (w_store w') = alookup k (w_store w)).
Proof. intros; apply run_store_response; assumption. Qed.
Print Assumptions C08_replace.

Theorem C08_index_no_loss : forall l id, In id (some_ids (unique_refs l)) <-> In id (some_ids l).
Proof. exact unique_refs_ids. Qed.
Print Assumptions C08_index_no_loss.

Theorem C08_index_unique : forall l, NoDup (some_ids (unique_refs l)).
Proof. exact unique_refs_nodup. Qed.
Print Assumptions C08_index_unique.

(* the background task: origin call, then a fresh read of the entry and of the index; a 304 is used only
   when the entry read still carries the validators that were sent *)
Theorem C08_background_uses_current_index : forall q stored key f cc,
  background_revalidate q stored key f cc =
  round_trip_timed q (fun rep start stop =>
    match rep with
    | RErr => Ret tt
    | RResp _ =>
        GetEntry (e_id stored) (fun own =>
          match own with
          | None => Ret tt
          | Some own_entry =>
              if match rep with RResp r => p_status r =? 304 | RErr => false end &&
                 negb (sent_validators_of (q_hdr q) (e_hdr own_entry))
              then Ret tt else
              get_refs_clean key (fun ans =>
                let refs := match ans with Some l => l | None => [] end in
                _ <- handle_validation_response
                       {| rc_url_key := key; rc_start := start; rc_end := stop; rc_cc_req := cc;
                          rc_stored := own_entry; rc_fresh := f; rc_refs := refs;
                          rc_ref_index := ref_index_of (e_id stored) refs 0; rc_no_stale := false |} q rep ;;
                Ret tt)
          end)
    end).
Proof. reflexivity. Qed.
Print Assumptions C08_background_uses_current_index.

Lemma ref_index_of_found id l : forall i j,
  ref_index_of id l i = j -> j <> -1 -> 0 <= i ->
  exists r, nth_error l (Z.to_nat (j - i)) = Some (Some r) /\ r_id r = id /\ i <= j.
Proof.
  induction l as [|[r|] l IH]; intros i j H Hj Hi; cbn in H.
  - congruence.
  - destruct (beq (r_id r) id) eqn:E.
    + subst j. replace (i - i) with 0 by lia. exists r. cbn. apply beq_eq in E. auto with zarith.
    + destruct (IH (i + 1) j H Hj ltac:(lia)) as (r' & Hn & Hid & Hle).
      exists r'. replace (Z.to_nat (j - i)) with (S (Z.to_nat (j - (i + 1)))) by lia. cbn. auto with zarith.
  - destruct (IH (i + 1) j H Hj ltac:(lia)) as (r' & Hn & Hid & Hle).
    exists r'. replace (Z.to_nat (j - i)) with (S (Z.to_nat (j - (i + 1)))) by lia. cbn. auto with zarith.
Qed.

(* the position it replaces is the one that refers to the served entry *)
Theorem C08_background_replaces_own_reference : forall id l j,
  ref_index_of id l 0 = j -> j <> -1 ->
  exists r, nth_error l (Z.to_nat j) = Some (Some r) /\ r_id r = id.
Proof.
  intros id l j H Hj. destruct (ref_index_of_found id l 0 j H Hj ltac:(lia)) as (r & Hn & Hid & _).
  exists r. rewrite Z.sub_0_r in Hn. auto.
Qed.
Print Assumptions C08_background_replaces_own_reference.

(* non-vacuity: a 304 carrying a new Cache-Control and ETag freshens a stored 200 *)
Example C08_example :
  let stored := {| e_id := bs "k#0"; e_status := 200;
                   e_hdr := [(bs "Cache-Control", [bs "max-age=1"]); (bs "Etag", [bs "a"]); (bs "Content-Length", [bs "3"])];
                   e_body := 7; e_req_at := 10; e_recv_at := 11 |} in
  let r304 := {| p_status := 304; p_hdr := [(bs "Cache-Control", [bs "max-age=60"]); (bs "Etag", [bs "b"]);
                                            (bs "Content-Length", [bs "0"]); (bs "Connection", [bs "close"])];
                 p_body := -1; p_body_ok := true |} in
  update_stored_headers (e_hdr stored) (p_hdr r304) =
  [(bs "Cache-Control", [bs "max-age=60"]); (bs "Etag", [bs "b"]); (bs "Content-Length", [bs "3"])].
Proof. vm_compute. reflexivity. Qed.

(* ---------- the date a freshened or stored response restarts from ---------- *)
From HC.Proofs Require Import DateProofs.

(* what http.TimeFormat writes, http.ParseTime reads back: every second from 1970-01-01 to 9999-12-31
   (DateProofs.v: one 400-year era by computation, all others by periodicity; the reader proved on the spelt form) *)
Theorem C08_date_codec : forall s, 0 <= s < 253402300800 -> parse_http_time (format_imf_fixdate s) = Some s.
Proof. exact http_time_roundtrip. Qed.
Print Assumptions C08_date_codec.

(* FixDateHeader: a response (a 304 among them) that arrives without a usable Date is dated by its receipt, to the
   second — the instant the age of the freshened entry restarts from; a usable Date is left alone *)
Theorem C08_missing_date_is_receipt : forall h t,
  0 <= t / second < 253402300800 ->
  raw_time (hget (bs "Date") h) = None ->
  date_header (fix_date_header h t) = t / second * second.
Proof.
  intros h t Ht Hn. unfold fix_date_header. rewrite Hn. unfold date_header, hget.
  rewrite hvalues_hset_same. unfold raw_time.
  rewrite (http_time_roundtrip _ Ht). cbn [option_map].
  destruct (format_imf_fixdate (t / second)) eqn:E; [|reflexivity].
  pose proof (http_time_roundtrip _ Ht) as Hp. rewrite E in Hp. discriminate.
Qed.
Print Assumptions C08_missing_date_is_receipt.

Theorem C08_usable_date_kept : forall h t d,
  raw_time (hget (bs "Date") h) = Some d -> d <> go_zero_time -> fix_date_header h t = h.
Proof.
  intros h t d Hd Hz. unfold fix_date_header. rewrite Hd. destruct (Z.eqb_spec d go_zero_time); [contradiction|reflexivity].
Qed.
Print Assumptions C08_usable_date_kept.

(* the effect trees this property is stated about — which store / origin / clock operations happen, in which order, under
   which conditions, and what every path returns — are those /verif/translate derives from the Go source on this run
   (Generated/SrcEffects.v; equal up to the extensional equality of continuations, ProgEq.peq, which [run] respects) *)
From HC.Generated Require Import SrcEffects.
From HC.Proofs Require Import ProgEq TieEffects.
Theorem C08_source_effects :
  (forall ctx q rep, peq (src_handle_validation_response ctx q rep) (handle_validation_response ctx q rep)) /\
  (forall q e k f cc, peq (src_background_revalidate q e k f cc) (background_revalidate q e k f cc)).
Proof. repeat split; [exact tie_handle_validation_response|exact tie_background_revalidate]. Qed.
Print Assumptions C08_source_effects.

(* ... and StoreResponse (hop-by-hop fields removed first, the variant key, the entry written before the index, the index
   entry appended or replaced), serveFromCache and handleStaleWhileRevalidate (qualified no-cache fields removed, Age, status,
   the background revalidation started with the stored validators) *)
Theorem C08_source_effects2 :
  (forall q r k refs a b i, peq (src_store_response q r k refs a b i) (store_response q r k refs a b i)).
Proof. exact tie_store_response. Qed.
Print Assumptions C08_source_effects2.

(* the three header-set helpers — which fields are hop-by-hop for a message (the fixed list and what its Connection field lines
   name), their removal, and the merge of a 304's fields into the stored ones (all but Content-Length and the 304's hop-by-hop
   fields) — are those of internal/helpers.go on this run (Generated/SrcHeaderSets.v) *)
From HC.Generated Require Import SrcHeaderSets.
From HC.Proofs Require Import TieHeaderSets.
Theorem C08_source_header_sets :
  (forall h, src_hop_by_hop_headers h = hop_by_hop_headers h) /\
  (forall h, src_remove_hop_by_hop h = remove_hop_by_hop h) /\
  (forall stored fresh, src_update_stored_headers stored fresh = update_stored_headers stored fresh).
Proof. split; [exact tie_hop_by_hop_headers|split; [exact tie_remove_hop_by_hop|exact tie_update_stored_headers]]. Qed.
Print Assumptions C08_source_header_sets.

(* a response without a usable Date is dated by its receipt: FixDateHeader of internal/clock.go on this run *)
From HC.Generated Require Import SrcHeaderProgs.
From HC.Proofs Require Import TieHeaderProgs.
Theorem C08_source_fix_date_header : forall h b, src_fix_date_header h b = fix_date_header h b.
Proof. exact tie_fix_date_header. Qed.
Print Assumptions C08_source_fix_date_header.
