(* C16 — concurrent use of one transport; responses are caller-owned.

   Model (Conc.v): any number of RoundTrip calls and the background revalidations they spawn are threads
   over one store and one origin; a schedule steps one thread at a time by one store or origin
   operation.  Every schedule — every interleaving at that granularity, including every timing of a
   background revalidation relative to everything else — is covered by the quantifier "forall sched".

   C16_thread_follows_its_tree: under every schedule, what a finished call returned is a leaf of its own
   sequential effect tree, reached along a path of that tree (the store answers on the path being whatever
   the interleaving made them).  Hence C16_sequential_rules: every property proved of all leaves of the
   sequential tree — for all store answers, which is how Props/C01..C19 state them — holds for every
   concurrent call; C16_no_panic and C16_only_if_cached are instances.  C16_store_keys: under every
   schedule the keys in the store are index keys / variant keys of the URIs requested (no interleaving
   makes one resource's call write under another's key).  C16_background_ignores_the_returned_response:
   the background revalidation is a function of the stored response's identifier only — not of the
   header fields or body of the value handed to the caller (it re-reads its own copy): the model's
   statement of "never read again"; requests are immutable values in the model.
   What the model cannot exhibit — Go-level data races on header maps and bodies, writes through aliased
   pointers — is checked by the run: snapshots of every returned response and request compared after all
   later activity under the scheduled interleavings, and a free-running stress under the race detector
   (partial in that sense; see DESIGN.md). *)
From HC Require Import Transport Run Conc.
From HC.Proofs Require Import Paths HeaderProofs ConcProofs NoCrashProofs.
From HC.Props Require Import C19 C18 C10.
Open Scope Z_scope.

Lemma WritesTo_Writes {A} P (p : prog A) : WritesTo P p -> Writes P p.
Proof. intros H; induction H; constructor; auto. Qed.

(* the phase starts with the calls not yet made; the store holds keys of URIs requested so far *)
Definition start_of (qs : list request) (w : world) : cworld :=
  {| cw_w := w; cw_fg := map TStart qs; cw_bg := []; cw_trace := [] |}.

Definition requested_key (qs : list request) (k : bytes) : Prop :=
  exists q, In q qs /\ key_of (make_url_key (q_url q)) k.

Lemma all_write_requested qs : forall q, In q qs -> Writes (requested_key qs) (round_trip q).
Proof.
  intros q Hq. eapply Writes_weaken; [|apply WritesTo_Writes, C19_keys_written].
  intros k Hk. exists q. auto.
Qed.

Theorem C16_thread_follows_its_tree : forall T qs w sched cw n i q r,
  keys_ok (requested_key qs) (w_store w) ->
  run_schedule T sched (start_of qs w) 0 = (cw, n) ->
  nth_error qs i = Some q ->
  nth_error (cw_fg cw) i = Some (TDoneFg q r) ->
  result_sub q r.
Proof.
  intros T qs w sched cw n i q r Hk Hrun Hq Ht.
  pose proof (cinv_schedule qs (requested_key qs) (all_write_requested qs) T sched _ _ _ _
                (cinv_init qs (requested_key qs) w Hk) Hrun) as (Hfg & _ & _).
  destruct (Forall2_nth _ _ _ _ _ Hfg Ht) as (q' & Hq' & Hok).
  rewrite Hq in Hq'. injection Hq' as <-. cbn in Hok. apply Hok.
Qed.
Print Assumptions C16_thread_follows_its_tree.

(* whatever holds of every leaf of the sequential tree holds of what a concurrent call returns *)
Theorem C16_sequential_rules : forall (P : outcome -> Prop) T qs w sched cw n i q a,
  keys_ok (requested_key qs) (w_store w) ->
  run_schedule T sched (start_of qs w) 0 = (cw, n) ->
  nth_error qs i = Some q ->
  nth_error (cw_fg cw) i = Some (TDoneFg q (Done a)) ->
  Leaves P (round_trip q) -> P a.
Proof.
  intros P T qs w sched cw n i q a Hk Hrun Hq Ht HL.
  pose proof (C16_thread_follows_its_tree T qs w sched cw n i q (Done a) Hk Hrun Hq Ht) as HS. cbn in HS.
  pose proof (Leaves_Sub P _ _ HL HS) as H. inversion H; subst; assumption.
Qed.
Print Assumptions C16_sequential_rules.

Theorem C16_no_panic : forall T qs w sched cw n i q r,
  keys_ok (requested_key qs) (w_store w) ->
  run_schedule T sched (start_of qs w) 0 = (cw, n) ->
  nth_error qs i = Some q ->
  nth_error (cw_fg cw) i = Some (TDoneFg q r) ->
  r <> Crashed.
Proof.
  intros T qs w sched cw n i q r Hk Hrun Hq Ht ->.
  pose proof (C16_thread_follows_its_tree T qs w sched cw n i q Crashed Hk Hrun Hq Ht) as HS. cbn in HS.
  pose proof (NoCrash_Sub _ _ (C10_no_panic q) HS) as H. inversion H.
Qed.
Print Assumptions C16_no_panic.

(* an instance: only-if-cached is answered with a response, never an error, under every interleaving *)
Theorem C16_only_if_cached : forall T qs w sched cw n i q a,
  keys_ok (requested_key qs) (w_store w) ->
  run_schedule T sched (start_of qs w) 0 = (cw, n) ->
  nth_error qs i = Some q ->
  nth_error (cw_fg cw) i = Some (TDoneFg q (Done a)) ->
  is_request_method_understood q = true -> req_only_if_cached (parse_cc (q_hdr q)) = true ->
  exists r, a = OResp r.
Proof.
  intros T qs w sched cw n i q a Hk Hrun Hq Ht Hm Ho.
  apply (C16_sequential_rules (fun out => exists r, out = OResp r) T qs w sched cw n i q a Hk Hrun Hq Ht).
  apply C18_answer; assumption.
Qed.
Print Assumptions C16_only_if_cached.

Theorem C16_store_keys : forall T qs w sched cw n,
  keys_ok (requested_key qs) (w_store w) ->
  run_schedule T sched (start_of qs w) 0 = (cw, n) ->
  keys_ok (requested_key qs) (w_store (cw_w cw)).
Proof.
  intros T qs w sched cw n Hk Hrun.
  apply (cinv_schedule qs (requested_key qs) (all_write_requested qs) T sched _ _ _ _
           (cinv_init qs (requested_key qs) w Hk) Hrun).
Qed.
Print Assumptions C16_store_keys.

(* background threads never crash either: one that did not end normally left the modelled domain *)
Theorem C16_background_no_panic : forall T qs w sched cw n j,
  keys_ok (requested_key qs) (w_store w) ->
  run_schedule T sched (start_of qs w) 0 = (cw, n) ->
  nth_error (cw_bg cw) j = Some (TDoneBg false) ->
  bg_root qs (@Unmodelled unit).
Proof.
  intros T qs w sched cw n j Hk Hrun Hj.
  pose proof (cinv_schedule qs (requested_key qs) (all_write_requested qs) T sched _ _ _ _
                (cinv_init qs (requested_key qs) w Hk) Hrun) as (_ & Hbg & _).
  rewrite Forall_forall in Hbg. specialize (Hbg _ (nth_error_In _ _ Hj)). cbn in Hbg.
  destruct Hbg as (p & Hroot & [->| ->]); [|exact Hroot].
  exfalso. destruct Hroot as (q & b & Hq & Hb & Hs).
  pose proof (NoCrash_Sub _ _ (NoCrash_SpawnedBy _ _ (C10_no_panic q) Hb) Hs) as H. inversion H.
Qed.
Print Assumptions C16_background_no_panic.

(* the background program depends on the stored response handed to the caller only through its identifier *)
Theorem C16_background_ignores_the_returned_response : forall q s1 s2 key f cc,
  e_id s1 = e_id s2 ->
  background_revalidate q s1 key f cc = background_revalidate q s2 key f cc.
Proof.
  intros q s1 s2 key f cc H. unfold background_revalidate. rewrite H. reflexivity.
Qed.
Print Assumptions C16_background_ignores_the_returned_response.

(* non-vacuity: two concurrent calls for one URI on an empty store, interleaved operation by operation *)
Example C16_example :
  let q := {| q_method := bs "GET"; q_url := {| u_scheme := bs "http"; u_host := bs "a.test"; u_path := bs "/x"; u_query := []; u_force_query := false |}; q_hdr := [] |} in
  let rep := RResp {| p_status := 200; p_hdr := [(bs "Cache-Control", [bs "max-age=60"]); (bs "Date", [bs "Sat, 01 Jan 2000 00:00:00 GMT"])]; p_body := 0; p_body_ok := true |} in
  let w := init_world 946684800000000000 [(0, rep, rep); (0, rep, rep)] in
  let '(cw, n) := run_schedule (5 * second) [F 0; F 1; F 0; F 1; F 0; F 1; F 0; F 1; F 0; F 1] (start_of [q; q] w) 0 in
  n = 10%nat /\ quiescent cw = true /\
  map (fun t => match t with TDoneFg _ (Done (OResp r)) => p_body r | _ => -9 end) (cw_fg cw) = [0; 1].
Proof. vm_compute. repeat split; reflexivity. Qed.

(* a 304 that arrives after the entry it validated was replaced is dropped: the store stays as it is
   (the defect repaired by the fix recorded in known_findings.json) *)
Theorem C16_late_304_not_merged : forall T q stored key f cc w delay plain cond rest r own,
  w_script w = (delay, plain, cond) :: rest ->
  (if negb (beq (hget (bs "If-None-Match") (q_hdr q)) []) || negb (beq (hget (bs "If-Modified-Since") (q_hdr q)) [])
   then cond else plain) = RResp r ->
  p_status r = 304 -> delay <= T ->
  get_entry (w_store w) (e_id stored) = Some own ->
  sent_validators_of (q_hdr q) (e_hdr own) = false ->
  w_store (snd (run (Some T) (background_revalidate q stored key f cc) w)) = w_store w.
Proof.
  intros T q stored key f cc w delay plain cond rest r own Hs Hrep H304 HT Hown Hval.
  unfold background_revalidate, round_trip_timed. cbn [run]. unfold do_origin. rewrite Hs, Hrep.
  replace (T <? delay) with false by lia. cbn [tag_reply]. cbn [run w_clock w_store log_event set_store].
  rewrite Hown. cbn [with_hdr p_status]. rewrite H304. cbn [Z.eqb Pos.eqb andb]. rewrite Hval. cbn [negb run].
  reflexivity.
Qed.
Print Assumptions C16_late_304_not_merged.

(* right resource under every interleaving: what a finished call returned has no body, or the body of an
   origin call — logged in this phase, or known of the store it started from — for a request with the same
   URL key (ProvProofs.v: the store invariant is kept by every single step of every thread) *)
From HC.Proofs Require Import ProvProofs.
Theorem C16_right_resource : forall T qs w sched cw n H0 i q r,
  InvS (Gl H0) (Pl H0) (w_store w) ->
  run_schedule T sched (start_of qs w) 0 = (cw, n) ->
  nth_error qs i = Some q -> nth_error (cw_fg cw) i = Some (TDoneFg q (Done (OResp r))) ->
  Gl (w_log (cw_w cw) ++ H0) (make_url_key (q_url q)) (p_body r).
Proof. intros T qs w sched cw n H0 i q r HI Hrun Hq Ht. exact (proj2 (concurrent_provenance T qs w sched cw n H0 HI Hrun) i q r Hq Ht). Qed.
Print Assumptions C16_right_resource.

(* ... and the store invariant itself (every entry filed under the variant key of a request that was sent for
   its URL key, under the entry's own Vary field; every reference under the key of its own variant map) is
   kept by every single step of every thread: what C03_history_provenance and C04_history_variant conclude
   from it along sequential histories holds of the store after any schedule *)
Theorem C16_store_invariant : forall T qs w sched cw n H0,
  InvS (Gl H0) (Pl H0) (w_store w) ->
  run_schedule T sched (start_of qs w) 0 = (cw, n) ->
  InvS (Gl (w_log (cw_w cw) ++ H0)) (Pl (w_log (cw_w cw) ++ H0)) (w_store (cw_w cw)).
Proof. intros T qs w sched cw n H0 HI Hrun. exact (proj1 (concurrent_provenance T qs w sched cw n H0 HI Hrun)). Qed.
Print Assumptions C16_store_invariant.

(* the effect trees this property is stated about — which store / origin / clock operations happen, in which order, under
   which conditions, and what every path returns — are those /verif/translate derives from the Go source on this run
   (Generated/SrcEffects.v; equal up to the extensional equality of continuations, ProgEq.peq, which [run] respects) *)
From HC.Generated Require Import SrcEffects.
From HC.Proofs Require Import ProgEq TieEffects.
Theorem C16_source_effects :
  (forall q, peq (src_round_trip q) (round_trip q)) /\
  (forall q k, peq (src_handle_unrecognized_method q k) (handle_unrecognized_method q k)) /\
  (forall q k refs i, peq (src_handle_cache_miss q k refs i) (handle_cache_miss q k refs i)) /\
  (forall q e k refs i, peq (src_handle_cache_hit q e k refs i) (handle_cache_hit q e k refs i)) /\
  (forall q e k f cc, peq (src_background_revalidate q e k f cc) (background_revalidate q e k f cc)) /\
  (forall ctx q rep, peq (src_handle_validation_response ctx q rep) (handle_validation_response ctx q rep)).
Proof. repeat split; [exact tie_round_trip|exact tie_handle_unrecognized_method|exact tie_handle_cache_miss|exact tie_handle_cache_hit|exact tie_background_revalidate|exact tie_handle_validation_response]. Qed.
Print Assumptions C16_source_effects.

(* ... and StoreResponse (hop-by-hop fields removed first, the variant key, the entry written before the index, the index
   entry appended or replaced), serveFromCache and handleStaleWhileRevalidate (qualified no-cache fields removed, Age, status,
   the background revalidation started with the stored validators) *)
Theorem C16_source_effects2 :
  (forall q r k refs a b i, peq (src_store_response q r k refs a b i) (store_response q r k refs a b i)) /\
  (forall e f now ql, peq (src_serve_from_cache e f now ql) (Ret (serve_from_cache e f now ql))) /\
  (forall q e k f cc now ql, peq (src_handle_stale_while_revalidate q e k f cc now ql) (handle_stale_while_revalidate q e k f cc now ql)).
Proof. repeat split; [exact tie_store_response|exact tie_serve_from_cache|exact tie_handle_stale_while_revalidate]. Qed.
Print Assumptions C16_source_effects2.

(* ... and so does the footprint invariant of C19 (Proofs/FootConc.v): under every schedule every index stays free of duplicates
   and null elements and every key is that of a (URL key, variant) pair of a request sent to the origin *)
From HC.Proofs Require Import FootProofs FootConc.
Theorem C16_footprint_invariant : forall T qs w sched cw n H0,
  InvF (Pl H0) (VsL H0) (w_store w) ->
  run_schedule T sched (start_of qs w) 0 = (cw, n) ->
  InvF (Pl (w_log (cw_w cw) ++ H0)) (VsL (w_log (cw_w cw) ++ H0)) (w_store (cw_w cw)).
Proof. intros T qs w sched cw n H0 HI Hrun. exact (concurrent_footprint T qs w sched cw n H0 HI Hrun). Qed.
Print Assumptions C16_footprint_invariant.
