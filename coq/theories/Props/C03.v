(* C03 — a stored response is reused only for an equivalent URI and a plain GET.

   C03_key_sound: for all pairs of http/https URLs in the domain url_wf (host a reg-name or a bracketed
   IP literal containing ':', optional numeric port, path empty or absolute with well-formed escapes and
   no raw '?', any query bytes), equal cache keys imply equal RFC 3986 §6.2.2-6.2.3 normal forms (scheme
   and host case, percent-encoding case, percent-encoded unreserved ASCII, dot segments, default port,
   empty path; the fragment is not part of the parsed URL).  So URLs that differ in scheme, host, port,
   path bytes or query bytes after normalisation never share a key.  C03_key_complete: the converse.
   The normal form (SpecMon.rfc_norm) is written after the RFC: the theorem needed the implementation's
   dot-segment removal to be the RFC's (the defect "/..//x" = "/x" repaired by the fix recorded in
   known_findings.json) and its percent-normaliser to be idempotent on its own output (NF_fixed).
   C03_lookup_by_key: a plain GET consults exactly the index stored under the key of its URL.
   C03_not_plain_get_bypasses_store: a request that is not a GET without Range never reads or writes a
   stored response, and its answer is the origin's.  Writes go to keys derived from the request's URL
   key (C19_keys_written); the variant level is C04; the history level (which earlier request produced
   the body that is served) is the monitor mon_C03 evaluated on the real transport each run. *)
From HC Require Import SpecMon.
From HC.Proofs Require Import Paths HeaderProofs ValidationProofs UrlProofs.
Open Scope Z_scope.

Theorem C03_key_sound : forall u1 u2, url_wf u1 = true -> url_wf u2 = true ->
  make_url_key u1 = make_url_key u2 -> rfc_norm u1 = rfc_norm u2 /\ uri_equiv u1 u2 = true.
Proof. intros u1 u2 W1 W2 E. split; [exact (key_sound u1 u2 W1 W2 E)|exact (key_sound_equiv u1 u2 W1 W2 E)]. Qed.
Print Assumptions C03_key_sound.

Theorem C03_key_complete : forall u1 u2, url_wf u1 = true -> url_wf u2 = true ->
  rfc_norm u1 = rfc_norm u2 -> make_url_key u1 = make_url_key u2.
Proof. exact key_complete. Qed.
Print Assumptions C03_key_complete.

(* contrapositive, as the property words it *)
Corollary C03_different_uris_different_keys : forall u1 u2, url_wf u1 = true -> url_wf u2 = true ->
  rfc_norm u1 <> rfc_norm u2 -> make_url_key u1 <> make_url_key u2.
Proof. intros u1 u2 W1 W2 H E. apply H. exact (key_sound u1 u2 W1 W2 E). Qed.

Theorem C03_lookup_by_key : forall q, is_request_method_understood q = true ->
  exists F, round_trip q = GetRefs (make_url_key (q_url q)) F.
Proof. intros q H. unfold round_trip, get_refs_clean. rewrite H. cbn [negb]. eexists. reflexivity. Qed.
Print Assumptions C03_lookup_by_key.

(* no stored response is read or written on any path *)
Inductive NoEntryAccess {A : Type} : prog A -> Prop :=
| NE_Ret a : NoEntryAccess (Ret a)
| NE_GetRefs k c : (forall x, NoEntryAccess (c x)) -> NoEntryAccess (GetRefs k c)
| NE_SetRefs k l c : NoEntryAccess c -> NoEntryAccess (SetRefs k l c)
| NE_Del k c : NoEntryAccess c -> NoEntryAccess (Del k c)
| NE_Origin r c : (forall x, NoEntryAccess (c x)) -> NoEntryAccess (Origin r c)
| NE_Now c : (forall t, NoEntryAccess (c t)) -> NoEntryAccess (Now c)
| NE_Spawn p c : NoEntryAccess p -> NoEntryAccess c -> NoEntryAccess (Spawn p c)
| NE_Crash : NoEntryAccess Crash
| NE_Unmodelled : NoEntryAccess Unmodelled.

Lemma del_all_noentry {A} ks done (c : list bytes -> prog A) :
  (forall d, NoEntryAccess (c d)) -> NoEntryAccess (del_all ks done c).
Proof.
  revert done; induction ks as [|k ks IH]; intros done H; cbn; auto.
  destruct (existsb _ _); auto. constructor; auto.
Qed.

Lemma invalidate_cache_noentry {A} u h refs key (c : prog A) :
  NoEntryAccess c -> NoEntryAccess (invalidate_cache u h refs key c).
Proof.
  intros Hc; unfold invalidate_cache. destruct (ref_ids _); [|constructor].
  apply del_all_noentry; intros d.
  assert (Hl : forall hs done (k : list bytes -> prog A),
             (forall d, NoEntryAccess (k d)) -> NoEntryAccess (invalidate_locations hs u h done k)).
  { induction hs as [|hn hs IH]; intros done k Hk; cbn [invalidate_locations]; auto.
    destruct (hget hn h); [apply IH, Hk|]. destruct (parse_url _); [|constructor].
    destruct (same_origin _ _); [|apply IH, Hk].
    unfold get_refs_clean; constructor; intros ans. destruct (ref_ids _); [|constructor].
    apply del_all_noentry; intros d'; apply IH, Hk. }
  apply Hl; intros d'. apply del_all_noentry; auto.
Qed.

Theorem C03_not_plain_get_bypasses_store : forall q, is_request_method_understood q = false ->
  NoEntryAccess (round_trip q) /\
  Leaves (fun out => out = OErr \/ exists r r', out = OResp r' /\ p_status r' = p_status r /\ p_body r' = p_body r) (round_trip q).
Proof.
  intros q H. unfold round_trip. rewrite H. cbn [negb]. unfold handle_unrecognized_method. split.
  - destruct (req_only_if_cached _); [constructor|]. constructor. intros [|r]; [constructor|]. destruct (_ && _); [|constructor].
    unfold get_refs_clean. constructor. intros ans. apply invalidate_cache_noentry. constructor.
  - destruct (req_only_if_cached _); [constructor; right; exists response_504, response_504; repeat split|]. constructor. intros [|r]; [constructor; left; reflexivity|].
    assert (Hd : Leaves (fun out => out = OErr \/ exists r0 r', out = OResp r' /\ p_status r' = p_status r0 /\ p_body r' = p_body r0)
                   (Ret (OResp (with_hdr r (apply_status BYPASS (p_hdr r)))))).
    { constructor. right. exists r. eexists. split; [reflexivity|]. split; reflexivity. }
    destruct (_ && _); [|exact Hd].
    unfold get_refs_clean. constructor. intros ans. apply invalidate_cache_leaves. exact Hd.
Qed.
Print Assumptions C03_not_plain_get_bypasses_store.

(* non-vacuity: URLs of the domain, equivalent and not *)
Example C03_example :
  let mk (h p q : String.string) := {| u_scheme := bs "http"; u_host := bs h; u_path := bs p; u_query := bs q; u_force_query := false |} in
  let a := mk "A.test:80"%string "/a/%2e%2E/%7Ex"%string "q=%c3%a9"%string in
  let b := mk "a.test"%string "/~x"%string "q=%C3%A9"%string in
  let c := mk "a.test"%string "/..//x"%string ""%string in
  let d := mk "a.test"%string "//x"%string ""%string in
  let e := mk "a.test"%string "/x"%string ""%string in
  let f := mk "[::1]:8080"%string "/x"%string ""%string in
  let g := mk "[::1:8080]"%string "/x"%string ""%string in
  forallb url_wf [a; b; c; d; e; f; g] = true /\
  make_url_key a = make_url_key b /\ make_url_key c = make_url_key d /\ make_url_key d <> make_url_key e /\
  make_url_key f <> make_url_key g /\ make_url_key a = bs "http://a.test/~x?q=%C3%A9".
Proof. vm_compute. repeat split; try reflexivity; discriminate. Qed.

(* ---------- history level ---------- *)
From HC.Proofs Require Import ProvProofs.

(* Along every sequential history from an empty store — any requests, any origin script, any timing — a
   response handed to the caller carries no body, or the body of an origin call (logged somewhere in the
   history) made for a request with the same URL key as the request it answers.  With C03_key_sound: for an
   equivalent URI.  (Invariant: every entry sits under a variant key of the URL key of the request whose call
   produced its body; every index lists variant keys of its own URL key; ProvProofs.v.) *)
Theorem C03_history_provenance : forall cfg h t0 script k gq o r,
  let obs := run_history cfg h (init_world t0 script) in
  nth_error h k = Some gq -> nth_error obs k = Some o -> x_result o = Done (OResp r) ->
  p_body r = -1 \/
  exists q' a c rep, In (EvCall (p_body r) q' a c rep) (flat_map (fun o => x_events o ++ x_bg_events o) obs) /\
                     make_url_key (q_url q') = make_url_key (q_url (snd gq)).
Proof.
  intros cfg h t0 script k gq o r obs Hk Ho Hr.
  pose proof (history_safe (flat_map (fun o => x_events o ++ x_bg_events o) obs) cfg h (init_world t0 script)
                (InvS_empty _ _) (incl_refl _) k gq o r Hk Ho Hr) as [Hb|(q' & (a & c & rep & Hin) & Hu)].
  - left. exact Hb.
  - right. exists q', a, c, rep. auto.
Qed.
Print Assumptions C03_history_provenance.

Corollary C03_history_equivalent_uri : forall cfg h t0 script k gq o r,
  let obs := run_history cfg h (init_world t0 script) in
  nth_error h k = Some gq -> nth_error obs k = Some o -> x_result o = Done (OResp r) -> p_body r <> -1 ->
  exists q' a c rep, In (EvCall (p_body r) q' a c rep) (flat_map (fun o => x_events o ++ x_bg_events o) obs) /\
    (url_wf (q_url q') = true -> url_wf (q_url (snd gq)) = true -> uri_equiv (q_url q') (q_url (snd gq)) = true).
Proof.
  intros cfg h t0 script k gq o r obs Hk Ho Hr Hb.
  destruct (C03_history_provenance cfg h t0 script k gq o r Hk Ho Hr) as [E|(q' & a & c & rep & Hin & Hu)]; [contradiction|].
  exists q', a, c, rep. split; [exact Hin|]. intros W1 W2. apply key_sound_equiv; assumption.
Qed.

(* the path conditions of url_wf hold of everything setPath / EscapedPath produce from bytes 0..255: parsed URLs
   carry such paths (the host conditions of url_wf are evaluated on every generated URL by the run) *)
Theorem C03_escaped_paths_in_domain : forall p0 p, byte_range p0 -> escaped_path_of p0 = Some p ->
  pct_wf 0 p = true /\ contains_byte 63 p = false /\
  (match p0 with [] => True | c :: _ => c = 47 end -> match p with [] => true | c :: _ => c =? 47 end = true).
Proof. exact escaped_path_of_wf. Qed.

(* ---------- tie to the source: the part of the model this property rests on is what /verif/translate derives from
   /repo's Go source on this run (Generated/*.v are rewritten before every build; see DESIGN.md section 9) ---------- *)
From HC.Generated Require Import SrcStatus.
From HC.Proofs Require Import TieStatus.
Theorem C03_source_method_gate : forall q, src_is_request_method_understood q = is_request_method_understood q.
Proof. exact tie_is_request_method_understood. Qed.
Print Assumptions C03_source_method_gate.

(* the effect trees this property is stated about — which store / origin / clock operations happen, in which order, under
   which conditions, and what every path returns — are those /verif/translate derives from the Go source on this run
   (Generated/SrcEffects.v; equal up to the extensional equality of continuations, ProgEq.peq, which [run] respects) *)
From HC.Generated Require Import SrcEffects.
From HC.Proofs Require Import ProgEq TieEffects.
Theorem C03_source_effects :
  (forall q, peq (src_round_trip q) (round_trip q)).
Proof. exact tie_round_trip. Qed.
Print Assumptions C03_source_effects.
