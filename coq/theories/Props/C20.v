(* C20 — stale-while-revalidate answers at once and revalidates once, within the timeout.

   Sequential model (Transport.v, Run.v):
   C20_answers_at_once: serving under stale-while-revalidate is "spawn the background program, return the
   stored response" — nothing (no store operation, no origin call, no clock reading) lies between the spawn
   and the return.  C20_run: in the sequential semantics the exchange returns at the very clock reading it
   started at, without consuming any origin reply, for EVERY origin script (all latencies, all outcomes), and
   leaves exactly one background program pending.  C20_one_background_request: that program performs exactly
   one origin call on every path, for the request with the stored validators attached (If-None-Match whenever
   an ETag is stored, If-Modified-Since whenever Last-Modified is).  C20_request_bounded: a background call
   lasts min(latency, T) and ends in an error when the latency exceeds T; C20_timeout_default: T is the
   setting, or 5 s for a non-positive or missing setting.
   Goroutine model (Swr.v): for every interleaving of supervisor, worker, context and origin, with errc of
   capacity >= 1: C20_no_deadlock (a state without successor is final: both goroutines have returned —
   nobody stays blocked, whether the origin answers, fails, or never answers), C20_short (every execution has
   at most five steps), C20_one_call; C20_unbuffered_can_leak shows the capacity is necessary.
   Timing: C20_timing — the background request ends within [0, T] of its start for every latency, setting
   and cancellation time of the caller's context.
   The run compares swr_predict with the real transport in virtual time (testing/synctest) over a grid of
   settings x latencies (0 .. beyond the timeout, never) x caller-context cancellations (before, at once,
   later) x outcomes x validators, counting the goroutines of the library left in the bubble. *)
From HC Require Import Transport Run Swr.
From HC.Proofs Require Import Paths HeaderProofs ValidationProofs SwrProofs.
Open Scope Z_scope.

Theorem C20_timeout_default : forall t,
  effective_swr_timeout t = (if t <=? 0 then 5 * second else t).
Proof.
  intros t; unfold effective_swr_timeout, default_swr_timeout.
  destruct (Z.leb_spec t 0).
  - replace (Z.max t 0) with 0 by lia. reflexivity.
  - replace (Z.max t 0) with t by lia. destruct (Z.eqb_spec t 0); [lia|reflexivity].
Qed.
Print Assumptions C20_timeout_default.

Theorem C20_answers_at_once : forall q stored key f cc now qual,
  exists resp,
    handle_stale_while_revalidate q stored key f cc now qual =
      Spawn (background_revalidate (with_conditional_headers q (e_hdr stored)) stored key f cc) (Ret (OResp resp)) /\
    p_status resp = e_status stored /\ p_body resp = e_body stored /\
    hvalues status_header (p_hdr resp) = [bs "STALE"].
Proof.
  intros. eexists. split; [reflexivity|]. cbn [response_of entry_with_hdr p_status p_body p_hdr e_status e_body e_hdr].
  repeat split. apply status_values.
Qed.
Print Assumptions C20_answers_at_once.

(* the sequential semantics: whatever the origin script holds, the exchange returns at the clock reading it
   started at, consumes no origin reply, and leaves one background program *)
Theorem C20_run : forall q w refs sorted i r e,
  is_request_method_understood q = true ->
  get_refs (w_store w) (make_url_key (q_url q)) = Some refs ->
  drop_nil_refs refs <> [] ->
  vary_headers_match (strip_refs (drop_nil_refs refs)) (q_hdr q) = Some (sorted, Some i) ->
  nth_error sorted (Z.to_nat i) = Some r ->
  get_entry (w_store w) (r_id r) = Some e ->
  decide_hit q e (w_clock w) = DServeSWR ->
  exists w' out bg, run None (round_trip q) w = (Done (OResp out), w') /\
    w_clock w' = w_clock w /\ w_calls w' = w_calls w /\ w_script w' = w_script w /\ w_store w' = w_store w /\
    w_pending w' = w_pending w ++ [bg] /\
    bg = background_revalidate (with_conditional_headers q (e_hdr e)) e (make_url_key (q_url q))
           (calculate_freshness e (parse_cc (q_hdr q)) (parse_cc (e_hdr e)) (w_clock w)) (parse_cc (q_hdr q)) /\
    p_status out = e_status e /\ p_body out = e_body e.
Proof.
  intros q w refs sorted i r e Hm Hg Hne Hv Hn He Hdec.
  unfold round_trip, get_refs_clean. rewrite Hm. cbn [negb run]. rewrite Hg. cbn [option_map].
  destruct (drop_nil_refs refs) as [|x l] eqn:Ed; [congruence|].
  assert (Hnn : has_nil_ref (x :: l) = false).
  { rewrite <- Ed. clear. induction refs as [|[r0|] l0 IH]; cbn; auto. }
  rewrite Hnn, Hv, Hn. cbn [run]. cbn [w_store log_event set_store]. rewrite He.
  unfold handle_cache_hit. cbn [run]. cbn [w_clock log_event set_store]. rewrite Hdec.
  unfold handle_stale_while_revalidate. cbn [run].
  eexists _, _, _. split; [reflexivity|]. cbn. repeat split; reflexivity.
Qed.
Print Assumptions C20_run.

(* exactly one origin call on every path of the background program, for the conditional request *)
Theorem C20_one_background_request : forall q2 stored key f cc,
  exists c, background_revalidate q2 stored key f cc = Now (fun start => Origin q2 (c start)) /\
            forall start rep, NoOrigin (c start rep).
Proof.
  intros. eexists. split; [reflexivity|]. intros start rep. cbv beta.
  apply NO_Now. intros stop. destruct rep as [|r]; [apply NO_Ret|].
  apply NO_GetEntry. intros own. destruct own as [own|]; [|apply NO_Ret].
  destruct (_ && _); [apply NO_Ret|].
  unfold get_refs_clean. apply NO_GetRefs. intros ans.
  apply NoOrigin_bind; [apply hvr_noorigin|intros; apply NO_Ret].
Qed.
Print Assumptions C20_one_background_request.

Lemma hget_of_hvalues n h v vs : hvalues (canonical_key n) h = v :: vs -> hget n h = v.
Proof. unfold hget. intros ->. reflexivity. Qed.

Theorem C20_conditional : forall q sh,
  (hget (bs "ETag") sh <> [] ->
     hget (bs "If-None-Match") (q_hdr (with_conditional_headers q sh)) = hget (bs "ETag") sh) /\
  (hget (bs "Last-Modified") sh <> [] ->
     hget (bs "If-Modified-Since") (q_hdr (with_conditional_headers q sh)) = hget (bs "Last-Modified") sh).
Proof.
  intros q sh. unfold with_conditional_headers. cbn [q_hdr]. split; intros H.
  - destruct (hget (bs "ETag") sh) as [|c et] eqn:Ee; [congruence|].
    destruct (hget (bs "Last-Modified") sh) as [|c2 lm] eqn:El.
    + apply (hget_of_hvalues _ _ _ []). apply hvalues_hset_same.
    + apply (hget_of_hvalues _ _ _ []). rewrite hvalues_hset_other by (vm_compute; reflexivity). apply hvalues_hset_same.
  - destruct (hget (bs "Last-Modified") sh) as [|c2 lm] eqn:El; [congruence|].
    apply (hget_of_hvalues _ _ _ []). apply hvalues_hset_same.
Qed.
Print Assumptions C20_conditional.

(* a background call under limit T lasts min(latency, T); beyond T it is an error *)
Theorem C20_request_bounded : forall T q w delay plain cond rest,
  0 <= T -> w_script w = (delay, plain, cond) :: rest -> 0 <= delay ->
  let '(rep, w') := do_origin (Some T) q w in
  w_clock w' - w_clock w = Z.min delay T /\ (T < delay -> rep = RErr) /\ w_calls w' = w_calls w + 1.
Proof.
  intros T q w delay plain cond rest HT Hs Hd. unfold do_origin. rewrite Hs.
  destruct (T <? delay) eqn:E; cbn [w_clock w_calls]; repeat split; try lia; intros; try reflexivity; lia.
Qed.
Print Assumptions C20_request_bounded.

(* ---------- the goroutines ---------- *)
Theorem C20_no_deadlock : forall cap answers s, (1 <= cap)%nat -> greach cap answers s ->
  g_final s \/ exists s', gstep cap answers s s'.
Proof. exact no_deadlock. Qed.
Print Assumptions C20_no_deadlock.

Theorem C20_short : forall cap answers n s, gsteps cap answers n g_init s -> (n <= 5)%nat.
Proof. exact executions_are_short. Qed.
Print Assumptions C20_short.

(* together: every maximal execution ends, after at most five steps, with both goroutines returned *)
Corollary C20_all_goroutines_end : forall cap answers n s, (1 <= cap)%nat ->
  gsteps cap answers n g_init s -> (forall s', ~ gstep cap answers s s') -> g_final s /\ (n <= 5)%nat.
Proof.
  intros cap answers n s Hc Hs Hstuck. split; [|exact (executions_are_short _ _ _ _ Hs)].
  destruct (no_deadlock cap answers s Hc) as [F|[s' St]]; [|exact F|exfalso; exact (Hstuck s' St)].
  apply (gsteps_reach _ _ _ _ _ (GR_init cap answers) Hs).
Qed.
Print Assumptions C20_all_goroutines_end.

Theorem C20_one_call : forall cap answers s, greach cap answers s -> g_calls s = 1%nat.
Proof. exact one_origin_call. Qed.

Theorem C20_unbuffered_can_leak : forall answers,
  greach 0 answers stuck_state /\ ~ g_final stuck_state /\ forall s', ~ gstep 0 answers stuck_state s'.
Proof. exact unbuffered_can_leak. Qed.

Theorem C20_timing : forall x,
  0 < xp_timeout x /\ 0 <= xp_cut x <= xp_timeout x /\
  (match xp_latency x with Some d => 0 <= d | None => True end -> 0 <= xp_request_end x <= xp_timeout x) /\
  so_fg_latency (swr_predict x) = 0 /\ so_bg_calls (swr_predict x) = 1 /\ so_goroutines_left (swr_predict x) = 0 /\
  (* whatever deadline the caller's context has, that of the background request is no later than the timeout *)
  0 <= so_deadline (swr_predict x) <= xp_timeout x.
Proof.
  intros x. pose proof (request_end_bounds x) as [A B]. pose proof (bg_deadline_bounds x) as D.
  repeat split; try apply xp_timeout_pos; try apply A; try (apply B; assumption); apply D.
Qed.
Print Assumptions C20_timing.

(* non-vacuity: a history that reaches the stale-while-revalidate path in the sequential semantics is part of
   the generated cases of every run; here the goroutine system on a concrete schedule *)
Example C20_schedule_example :
  exists s, gsteps 1 true 5 g_init s /\ g_final s.
Proof.
  eexists. split.
  - eapply GS_S; [apply G_ctx; reflexivity|].
    eapply GS_S; [apply G_sup_ctx; reflexivity|].
    eapply GS_S; [apply G_abort; reflexivity|].
    eapply GS_S; [apply G_send_buffered; [reflexivity|cbn; lia]|].
    eapply GS_S; [apply G_close; reflexivity|]. apply GS_0.
  - split; reflexivity.
Qed.

(* ---------- tie to the source: the part of the model this property rests on is what /verif/translate derives from
   /repo's Go source on this run (Generated/*.v are rewritten before every build; see DESIGN.md section 9) ---------- *)
From HC.Generated Require Import SrcTables.
From HC.Proofs Require Import TieTables.
Theorem C20_source_default_timeout : src_default_swr_timeout = default_swr_timeout.
Proof. exact tie_default_swr_timeout. Qed.
Print Assumptions C20_source_default_timeout.

(* the effect trees this property is stated about — which store / origin / clock operations happen, in which order, under
   which conditions, and what every path returns — are those /verif/translate derives from the Go source on this run
   (Generated/SrcEffects.v; equal up to the extensional equality of continuations, ProgEq.peq, which [run] respects) *)
From HC.Generated Require Import SrcEffects.
From HC.Proofs Require Import ProgEq TieEffects.
Theorem C20_source_effects :
  (forall q e k refs i, peq (src_handle_cache_hit q e k refs i) (handle_cache_hit q e k refs i)) /\
  (forall q e k f cc, peq (src_background_revalidate q e k f cc) (background_revalidate q e k f cc)).
Proof. repeat split; [exact tie_handle_cache_hit|exact tie_background_revalidate]. Qed.
Print Assumptions C20_source_effects.

(* ... and StoreResponse (hop-by-hop fields removed first, the variant key, the entry written before the index, the index
   entry appended or replaced), serveFromCache and handleStaleWhileRevalidate (qualified no-cache fields removed, Age, status,
   the background revalidation started with the stored validators) *)
Theorem C20_source_effects2 :
  (forall q e k f cc now ql, peq (src_handle_stale_while_revalidate q e k f cc now ql) (handle_stale_while_revalidate q e k f cc now ql)).
Proof. exact tie_handle_stale_while_revalidate. Qed.
Print Assumptions C20_source_effects2.
