(* C20 (first part) — timeout defaulting: non-positive settings fall back to the default of 5 s. *)
From HC Require Import Transport.
Open Scope Z_scope.

Theorem C20_timeout_default : forall t,
  effective_swr_timeout t = (if t <=? 0 then 5 * second else t).
Proof.
  intros t; unfold effective_swr_timeout, default_swr_timeout.
  destruct (Z.leb_spec t 0).
  - replace (Z.max t 0) with 0 by lia. reflexivity.
  - replace (Z.max t 0) with t by lia. destruct (Z.eqb_spec t 0); [lia|reflexivity].
Qed.
Print Assumptions C20_timeout_default.
