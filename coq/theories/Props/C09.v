(* C09 — fresh matching responses are served from the store.

   C09_decision: for every request and stored entry (parsable Date, Age absent or digits, status not 304):
   if the specification says the entry is fresh by more than a second — saturating current age plus
   min-fresh plus 1 s below the lifetime the cache documents (max-age, else Expires - Date, else 10% of
   Date - Last-Modified for the documented statuses or public), capped by the request's max-age — and
   nothing demands validation, the hit decision is DServe.
   C09_match_complete: a request whose nominated fields normalise to the same values as the storing
   request's matches the stored reference (no "*" member).
   C09_run_hit (sequential store semantics): when the index under the request's key lists a reference the
   matcher selects, its entry is in the store and the decision is DServe, the exchange makes no origin
   call, changes nothing in the store and returns that entry's status and body.
   C09_key_respellings: the key function identifies the documented URI respellings (case of scheme and
   host, default port, percent-encoding case, percent-encoded unreserved characters, dot segments also
   when percent-encoded, empty path, fragment), checked on concrete instances here and on generated
   spellings against the real transport in every run (profile hit / urls).
   Backends and reopen: C14 shows each backend is a map and that reopening is the identity on it. *)
From HC Require Import Transport Run Spec SpecMon.
From HC.Proofs Require Import HeaderProofs FreshProofs DecisionProofs VaryProofs RunProofs LiveProofs.
Open Scope Z_scope.

Theorem C09_decision : forall q e now,
  valid_date (e_hdr e) -> age_field_wf (e_hdr e) -> e_status e <> 304 ->
  let s := view_of e in
  let rcc := parse_cc (q_hdr q) in
  let life0 := doc_lifetime (e_status e) (e_hdr e) in
  let life := match sd_duration (bs "max-age") rcc with Some m => Z.min life0 m | None => life0 end in
  let min_fresh := match sd_duration (bs "min-fresh") rcc with Some m => m | None => 0 end in
  sat_add (sat_add (sv_age s now) min_fresh) second < life ->
  needs_validation_with life0 s q now = false ->
  decide_hit q e now = DServe.
Proof. exact fresh_is_served. Qed.
Print Assumptions C09_decision.

Theorem C09_match_complete : forall names h0 h r,
  resolve_names names h0 [] = Some (r_resolved r) ->
  ~ In (bs "*") names -> go_trim (r_vary r) <> bs "*" ->
  (forall n, In n names -> exists v, norm_first n h0 = Some v /\ norm_first n h = Some v) ->
  ref_matches r h = Some true.
Proof. exact ref_match_complete. Qed.
Print Assumptions C09_match_complete.

Theorem C09_run_hit : forall q w refs sorted i r e,
  is_request_method_understood q = true ->
  get_refs (w_store w) (make_url_key (q_url q)) = Some refs ->
  drop_nil_refs refs <> [] ->
  vary_headers_match (strip_refs (drop_nil_refs refs)) (q_hdr q) = Some (sorted, Some i) ->
  nth_error sorted (Z.to_nat i) = Some r ->
  get_entry (w_store w) (r_id r) = Some e ->
  decide_hit q e (w_clock w) = DServe ->
  exists w' out, run None (round_trip q) w = (Done (OResp out), w') /\
    w_calls w' = w_calls w /\ w_clock w' = w_clock w /\ w_store w' = w_store w /\
    p_status out = e_status e /\ p_body out = e_body e.
Proof. exact run_hit. Qed.
Print Assumptions C09_run_hit.

Definition key_of_string (s : string) : option bytes :=
  match parse_url (bs s) with Some (u, true, true) => Some (make_url_key u) | _ => None end.

Example C09_key_respellings :
  let k := key_of_string "http://a.test/b/data?x=%7E" in
  k <> None /\
  forallb (fun s => match key_of_string s, k with Some a, Some b => beq a b | _, _ => false end)
    ["HTTP://A.TEST/b/data?x=~"; "http://a.test:80/b/data?x=%7e"; "http://a.test/a/../b/./data?x=~#frag";
     "http://a.test/a/%2E%2E/b/data?x=~"; "http://a.test/%62/d%61ta?x=~"]%string = true /\
  forallb (fun s => match key_of_string s, k with Some a, Some b => negb (beq a b) | _, _ => false end)
    ["https://a.test/b/data?x=~"; "http://a.test:8080/b/data?x=~"; "http://a.test/B/data?x=~";
     "http://a.test/b/data?x=%7F"; "http://a.test/b/data"; "http://b.test/b/data?x=~"]%string = true.
Proof. vm_compute. repeat split; try reflexivity. discriminate. Qed.

(* non-vacuity of C09_decision *)
Example C09_example :
  let e := {| e_id := bs "k#0"; e_status := 404;
              e_hdr := [(bs "Date", [bs "Sat, 01 Jan 2000 00:00:00 GMT"]);
                        (bs "Last-Modified", [bs "Fri, 31 Dec 1999 00:00:00 GMT"])];
              e_body := 0; e_req_at := 946684800 * second; e_recv_at := 946684800 * second |} in
  let q := {| q_method := bs "GET";
              q_url := {| u_scheme := bs "http"; u_host := bs "a.test"; u_path := bs "/x"; u_query := []; u_force_query := false |};
              q_hdr := [(bs "Cache-Control", [bs "min-fresh=60"])] |} in
  doc_lifetime (e_status e) (e_hdr e) = 8640 * second /\
  decide_hit q e ((946684800 + 8000) * second) = DServe /\
  decide_hit q e ((946684800 + 8600) * second) = DRevalidate false.
Proof. repeat split; vm_compute; reflexivity. Qed.

(* Store, then reuse: once StoreResponse has run for (q, r) under a key that had no index, every later world in which the
   index of that key and the entry are still what it wrote (whatever happened to other keys in between) answers a request
   q' with the same key (an equivalent URI: C03_key_complete) which the written reference matches (equivalent selecting
   fields: C09_match_complete) and for which the decision is to serve (fresh by more than a second and no validation
   demanded: C09_decision) from the store: no origin call, no change of the store, r's status and body. *)
Theorem C09_store_then_hit : forall q q' r k a b w r1 w1 resolved,
  make_url_key (q_url q') = k -> is_request_method_understood q' = true ->
  normalize_vary (join [44] (hvalues (bs "Vary") (remove_hop_by_hop (p_hdr r)))) (q_hdr q) = Some resolved ->
  p_body_ok r = true ->
  run None (store_response q r k [] a b (-1)) w = (Done r1, w1) ->
  let rs := with_hdr r (remove_hop_by_hop (p_hdr r)) in
  let id := make_vary_key k resolved in
  let e := entry_of id rs a b in
  let nr := {| r_id := id; r_vary := join [44] (hvalues (bs "Vary") (p_hdr rs)); r_resolved := resolved; r_recv := date_header (p_hdr rs) |} in
  r1 = rs /\
  forall w2, get_refs (w_store w2) k = get_refs (w_store w1) k -> get_entry (w_store w2) id = get_entry (w_store w1) id ->
    ref_matches nr (q_hdr q') = Some true -> decide_hit q' e (w_clock w2) = DServe ->
    exists w3 out, run None (round_trip q') w2 = (Done (OResp out), w3) /\
      w_calls w3 = w_calls w2 /\ w_clock w3 = w_clock w2 /\ w_store w3 = w_store w2 /\
      p_status out = p_status r /\ p_body out = p_body r.
Proof. exact store_then_hit. Qed.
Print Assumptions C09_store_then_hit.

(* ---------- tie to the source: the part of the model this property rests on is what /verif/translate derives from
   /repo's Go source on this run (Generated/*.v are rewritten before every build; see DESIGN.md section 9) ---------- *)
From HC.Generated Require Import SrcEffects SrcStatus.
From HC.Proofs Require Import ProgEq TieEffects TieStatus.
Theorem C09_source_decision : forall q e k refs i, peq (src_handle_cache_hit q e k refs i) (handle_cache_hit q e k refs i).
Proof. exact tie_handle_cache_hit. Qed.
Theorem C09_source_heuristic_statuses : forall code, src_is_heuristically_cacheable code = is_heuristically_cacheable code.
Proof. exact tie_is_heuristically_cacheable. Qed.
Print Assumptions C09_source_decision.
Print Assumptions C09_source_heuristic_statuses.

(* the effect trees this property is stated about — which store / origin / clock operations happen, in which order, under
   which conditions, and what every path returns — are those /verif/translate derives from the Go source on this run
   (Generated/SrcEffects.v; equal up to the extensional equality of continuations, ProgEq.peq, which [run] respects) *)
From HC.Generated Require Import SrcEffects.
From HC.Proofs Require Import ProgEq TieEffects.
Theorem C09_source_effects :
  (forall q, peq (src_round_trip q) (round_trip q)) /\
  (forall q e k refs i, peq (src_handle_cache_hit q e k refs i) (handle_cache_hit q e k refs i)).
Proof. repeat split; [exact tie_round_trip|exact tie_handle_cache_hit]. Qed.
Print Assumptions C09_source_effects.

(* the freshness computation itself — CalculateFreshness with its precedence of max-age / Expires / heuristics, the request's
   max-age, min-fresh and max-stale, and the flags the hit decision reads; calculateCurrentAge with its saturating sums and
   Go's wrapping multiplication; heuristicFreshness with Go's truncating division — is what /verif/translate derives from
   internal/freshness.go on this run, for every stored entry, directive set and clock reading *)
Theorem C09_source_freshness :
  (forall e rq rs now, src_calculate_freshness e rq rs now = calculate_freshness e rq rs now) /\
  (forall h date rt st now, src_current_age h date rt st now = (current_age h date rt st now, now)) /\
  (forall h date, src_heuristic_freshness h date = heuristic_freshness h date).
Proof. split; [exact tie_calculate_freshness|split; [exact tie_current_age|exact tie_heuristic_freshness]]. Qed.
Print Assumptions C09_source_freshness.

(* which of several matching references is the one served — the sort order and the scan of VaryHeadersMatch — is re-derived
   from internal/varymatcher.go on this run (Generated/SrcVary.v) *)
From HC.Generated Require Import SrcVary.
From HC.Proofs Require Import TieVary.
Theorem C09_source_ranking :
  forall refs h, vary_headers_match refs h =
     match src_scan (isort (fun a b => src_ref_cmp a b <=? 0) refs) h 0 None with
     | None => None
     | Some i => Some (isort (fun a b => src_ref_cmp a b <=? 0) refs, i)
     end.
Proof. exact tie_vary_headers_match. Qed.
Print Assumptions C09_source_ranking.
