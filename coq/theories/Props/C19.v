(* C19 — store footprint is bounded by the distinct resources and variants requested.

   C19_index_unique: every index the transport writes lists each response id at most once, so its
   length is at most the number of distinct response ids (= distinct (URI, resolved variant) pairs,
   see C04_id_injective) stored for that URI, however many requests were made.
   C19_keys_written: the only keys a round trip writes are the request's URI key (the index) and variant
   keys derived from that URI key (entries); so the key set of the store is contained in
   { URI key u } U { variant key (u, m) } over the URIs requested and the variant maps resolved.
   C19_invalidation: invalidation deletes the index and every entry it listed (C07_invalidates), so no
   key is left that was reachable only through the deleted index.
   C19_history / C19_history_every_point: over every history from the empty store (Proofs/FootProofs.v: store invariant
   InvF, tree predicate SafeF), the key set of the store is contained in the candidate keys of the distinct (request,
   Vary value) pairs, whose number does not depend on the length of the history; every index is duplicate-free, holds
   no null element and only references to such variants.
   The pinned tree's unbounded growth (Vary: * appended a reference on every request) is the defect
   repaired by the fix recorded in known_findings.json; the monitor mon_C19 checks the footprint of the
   real store against a bound that does not depend on the number of repetitions, on long repetitive
   histories. *)
From HC Require Import Transport Run.
From HC.Proofs Require Import Paths HeaderProofs RunProofs IndexProofs.
Open Scope Z_scope.

Theorem C19_index_unique : forall l, NoDup (some_ids (unique_refs l)).
Proof. exact unique_refs_nodup. Qed.
Print Assumptions C19_index_unique.

(* all writes of a program go to keys satisfying P *)
Inductive WritesTo (P : bytes -> Prop) {A : Type} : prog A -> Prop :=
| WT_Ret a : WritesTo P (Ret a)
| WT_GetRefs k c : (forall x, WritesTo P (c x)) -> WritesTo P (GetRefs k c)
| WT_GetEntry k c : (forall x, WritesTo P (c x)) -> WritesTo P (GetEntry k c)
| WT_SetEntry k e c : P k -> WritesTo P c -> WritesTo P (SetEntry k e c)
| WT_SetRefs k l c : P k -> WritesTo P c -> WritesTo P (SetRefs k l c)
| WT_Del k c : WritesTo P c -> WritesTo P (Del k c)
| WT_Origin r c : (forall x, WritesTo P (c x)) -> WritesTo P (Origin r c)
| WT_Now c : (forall t, WritesTo P (c t)) -> WritesTo P (Now c)
| WT_Spawn p c : WritesTo P p -> WritesTo P c -> WritesTo P (Spawn p c)
| WT_Crash : WritesTo P Crash
| WT_Unmodelled : WritesTo P Unmodelled.

Definition key_of (u : bytes) (k : bytes) : Prop := k = u \/ exists m, k = make_vary_key u m.

Lemma WritesTo_bind {A B} P (p : prog A) (f : A -> prog B) :
  WritesTo P p -> (forall a, WritesTo P (f a)) -> WritesTo P (bind p f).
Proof. intros Hp Hf; induction Hp; cbn [bind]; try (constructor; auto; fail); auto. Qed.

Lemma store_response_writes q r u refs a b i : WritesTo (key_of u) (store_response q r u refs a b i).
Proof.
  unfold store_response. destruct (normalize_vary _ _) as [m|]; [|constructor].
  destruct (p_body_ok _).
  - apply WT_SetEntry; [right; eexists; reflexivity|]. apply WT_SetRefs; [left; reflexivity|constructor].
  - apply WT_SetRefs; [left; reflexivity|constructor].
Qed.

Lemma del_all_writes {A} P ks done (c : list bytes -> prog A) :
  (forall d, WritesTo P (c d)) -> WritesTo P (del_all ks done c).
Proof.
  revert done; induction ks as [|k ks IH]; intros done H; cbn; auto.
  destruct (existsb _ _); auto. constructor; auto.
Qed.

Lemma invalidate_cache_writes {A} P u h refs key (c : prog A) :
  WritesTo P c -> WritesTo P (invalidate_cache u h refs key c).
Proof.
  intros Hc; unfold invalidate_cache. destruct (ref_ids _); [|constructor].
  apply del_all_writes; intros d.
  assert (Hl : forall hs done (k : list bytes -> prog A),
             (forall d, WritesTo P (k d)) -> WritesTo P (invalidate_locations hs u h done k)).
  { induction hs as [|hn hs IH]; intros done k Hk; cbn [invalidate_locations]; auto.
    destruct (hget hn h); [apply IH, Hk|]. destruct (parse_url _); [|constructor].
    destruct (same_origin _ _); [|apply IH, Hk].
    unfold get_refs_clean; constructor; intros ans. destruct (ref_ids _); [|constructor].
    apply del_all_writes; intros d'; apply IH, Hk. }
  apply Hl; intros d'. apply del_all_writes; auto.
Qed.

Lemma hvr_writes ctx q rep : WritesTo (key_of (rc_url_key ctx)) (handle_validation_response ctx q rep).
Proof.
  unfold handle_validation_response.
  destruct rep as [|r].
  - cbn [andb]. match goal with |- WritesTo _ (if ?c then _ else _) => destruct c end; [|constructor].
    constructor; intros now; destruct (can_stale_on_error _ _ _); constructor.
  - destruct (is_get (q_method q) && (p_status r =? 304)).
    + destruct (_ || _); [constructor|]. apply WritesTo_bind; [apply store_response_writes|intros; constructor].
    + assert (Hafter : WritesTo (key_of (rc_url_key ctx))
        (let cc_resp := parse_cc (p_hdr r) in
         if can_store_response r (rc_cc_req ctx) cc_resp
         then r1 <- store_response q r (rc_url_key ctx) (rc_refs ctx) (rc_start ctx) (rc_end ctx) (rc_ref_index ctx);;
              Ret (OResp (with_hdr r1 (apply_status MISS (p_hdr r1))))
         else if is_unsafe_method (q_method q) && is_non_error_status (p_status r)
              then invalidate_cache (q_url q) (p_hdr r) (rc_refs ctx) (rc_url_key ctx)
                     (Ret (OResp (with_hdr r (apply_status BYPASS (p_hdr r)))))
              else Ret (OResp (with_hdr r (apply_status BYPASS (p_hdr r)))))).
      { cbv zeta. destruct (can_store_response _ _ _).
        - apply WritesTo_bind; [apply store_response_writes|intros; constructor].
        - destruct (_ && _); [apply invalidate_cache_writes|]; constructor. }
      match goal with |- WritesTo _ (if ?c then _ else _) => destruct c end; [|exact Hafter].
      constructor; intros now; destruct (can_stale_on_error _ _ _); [constructor|exact Hafter].
Qed.

Theorem C19_keys_written : forall q, WritesTo (key_of (make_url_key (q_url q))) (round_trip q).
Proof.
  intros q. set (u := make_url_key (q_url q)).
  assert (Hrt : forall (A : Type) r (c : origin_reply -> Z -> Z -> prog A),
             (forall rep a b, WritesTo (key_of u) (c rep a b)) -> WritesTo (key_of u) (round_trip_timed r c)).
  { intros A r c Hk; unfold round_trip_timed; constructor; intros a; constructor;
    intros rep; constructor; intros b; destruct rep; apply Hk. }
  assert (Hmiss : forall refs i, WritesTo (key_of u) (handle_cache_miss q u refs i)).
  { intros; unfold handle_cache_miss. destruct (req_only_if_cached _); [constructor|].
    apply Hrt. intros [|r] a b; [constructor|]. cbv zeta.
    destruct (_ && _); [|constructor].
    apply WritesTo_bind; [apply store_response_writes|intros; constructor]. }
  assert (Hhit : forall e refs i, WritesTo (key_of u) (handle_cache_hit q e u refs i)).
  { intros; unfold handle_cache_hit; constructor; intros now; cbv zeta.
    destruct (decide_hit q e now).
    - constructor.
    - unfold handle_stale_while_revalidate; apply WT_Spawn; [|constructor].
      unfold background_revalidate. apply Hrt. intros [|r] a b; [constructor|].
      constructor; intros own; destruct own; [|constructor].
      destruct (_ && _); [constructor|].
      unfold get_refs_clean; constructor; intros ans.
      apply WritesTo_bind; [apply (hvr_writes {| rc_url_key := u; rc_start := a; rc_end := b; rc_cc_req := parse_cc (q_hdr q);
                 rc_stored := s; rc_fresh := calculate_freshness e (parse_cc (q_hdr q)) (parse_cc (e_hdr e)) now;
                 rc_refs := match option_map drop_nil_refs ans with Some l => l | None => [] end;
                 rc_ref_index := _; rc_no_stale := false |})|intros; constructor].
    - constructor.
    - apply Hrt. intros. apply (hvr_writes {| rc_url_key := u; rc_start := a; rc_end := b; rc_cc_req := parse_cc (q_hdr q);
                 rc_stored := e; rc_fresh := _; rc_refs := refs; rc_ref_index := i; rc_no_stale := must |}). }
  unfold round_trip. fold u. destruct (negb _).
  - unfold handle_unrecognized_method; destruct (req_only_if_cached _); [constructor|]; constructor. intros [|r]; [constructor|].
    destruct (_ && _); [|constructor].
    unfold get_refs_clean; constructor; intros ans. apply invalidate_cache_writes; constructor.
  - unfold get_refs_clean; constructor; intros ans.
    destruct (option_map drop_nil_refs ans) as [[|r l]|]; auto.
    destruct (has_nil_ref _); [constructor|].
    destruct (vary_headers_match _ _) as [[sorted [i|]]|]; auto; [|constructor].
    destruct (nth_error _ _); [|constructor].
    constructor; intros e; destruct e; auto.
Qed.
Print Assumptions C19_keys_written.

Theorem C19_invalidation : forall limit (A : Type) u h refs key (c : prog A) w ids,
  ref_ids refs = Some ids ->
  (exists w', run limit (invalidate_cache u h refs key c) w = (OutOfModel, w')) \/
  exists w' ks, run limit (invalidate_cache u h refs key c) w = run limit c w' /\
    deletes_only ks w w' /\ gone key w' /\ (forall id, In id ids -> gone id w').
Proof.
  intros. destruct (run_invalidate_cache limit u h refs key c w ids H) as [Ho|(w' & ks & Hr & Hd & Hk & Hi & _)].
  - left; exact Ho.
  - right; exists w', ks; auto.
Qed.
Print Assumptions C19_invalidation.

(* the growth that the pinned tree showed is gone: 1000 references to one response collapse to one *)
Example C19_vary_star_does_not_grow :
  let r := {| r_id := bs "k#1"; r_vary := bs "*"; r_resolved := [(bs "*", [])]; r_recv := 0 |} in
  List.length (unique_refs (repeat (Some r) 1000)) = 1%nat.
Proof. vm_compute. reflexivity. Qed.

(* ---------- whole histories ---------- *)
(* For every history from the empty store, every origin script and every configuration: let [reqs] cover the requests
   that went to the origin (up to URL key and header block: a request repeated a million times counts once) and
   [varies] the Vary values the origin used.  Then after the history — and after every prefix of it
   (C19_history_every_point) — every key of the store is one of [candidate_keys reqs varies]: the URL key of a
   covered request, or the key of a variant such a request resolves to under a covered Vary value; every index lists
   each response id at most once, holds nothing but references to such variants, and is therefore no longer than the
   candidate list; and that list has at most |reqs| * (1 + |varies|) members — a number that does not depend on the
   length of the history. *)
From HC.Proofs Require Import ProvProofs FootProofs.

Definition distinct_keys (s : store) : list bytes := nodup (list_eq_dec Z.eq_dec) (map fst s).

Lemma alookup_some_of_in {V} k (v : V) m : In (k, v) m -> exists v', alookup k m = Some v'.
Proof.
  induction m as [|[k' v'] m IH]; cbn; [intros []|]. destruct (beq k k') eqn:E; [eexists; reflexivity|].
  intros [H|H]; [|apply IH, H]. injection H as -> _. rewrite beq_refl in E. discriminate.
Qed.

Theorem C19_history : forall cfg h t0 script reqs varies,
  let Lf := flat_map (fun o => x_events o ++ x_bg_events o) (run_history cfg h (init_world t0 script)) in
  (forall q0, Pl Lf q0 -> exists q1, In q1 reqs /\ make_url_key (q_url q1) = make_url_key (q_url q0) /\ q_hdr q1 = q_hdr q0) ->
  (forall v, VsL Lf v -> In v varies) ->
  let s := w_store (world_after cfg h (init_world t0 script)) in
  let cand := candidate_keys reqs varies in
  (forall k, amem k s = true -> In k cand) /\
  (List.length (distinct_keys s) <= List.length cand)%nat /\
  (forall u l, get_refs s u = Some l ->
     NoDup (some_ids l) /\ List.length l = List.length (some_ids l) /\ (List.length l <= List.length cand)%nat) /\
  (List.length cand <= List.length reqs * (1 + List.length varies))%nat.
Proof.
  intros cfg h t0 script reqs varies Lf Hreqs Hvar s cand.
  assert (HI : InvF (Pl Lf) (VsL Lf) s).
  { apply history_safeF; [apply InvF_empty|apply incl_refl]. }
  assert (Hkeys : forall k, amem k s = true -> In k cand).
  { intros k Hk. eapply footprint_keys; eassumption. }
  split; [exact Hkeys|]. split.
  - apply NoDup_incl_length; [apply NoDup_nodup|]. intros k Hk. unfold distinct_keys in Hk. apply nodup_In in Hk.
    apply in_map_iff in Hk as ([k' v] & <- & Hin). cbn [fst]. apply Hkeys. unfold amem.
    destruct (alookup_some_of_in _ _ _ Hin) as [v' ->]. reflexivity.
  - split; [|apply candidate_keys_length].
    intros u l Hl. pose proof (footprint_index Lf reqs varies Hreqs Hvar s u l HI Hl) as Hlen.
    destruct HI as [_ I2]. destruct (I2 _ _ Hl) as (_ & Hf & Hn). split; [exact Hn|]. split; [|exact Hlen].
    clear Hlen Hn Hl. induction Hf as [|x l' (r & -> & _) _ IH]; [reflexivity|]. cbn. f_equal. exact IH.
Qed.
Print Assumptions C19_history.

(* ... at every point of the history: the candidates computed for the whole history bound the store after every prefix *)
Theorem C19_history_every_point : forall cfg h t0 script reqs varies n,
  let Lf := flat_map (fun o => x_events o ++ x_bg_events o) (run_history cfg h (init_world t0 script)) in
  (forall q0, Pl Lf q0 -> exists q1, In q1 reqs /\ make_url_key (q_url q1) = make_url_key (q_url q0) /\ q_hdr q1 = q_hdr q0) ->
  (forall v, VsL Lf v -> In v varies) ->
  let s := w_store (world_after cfg (firstn n h) (init_world t0 script)) in
  let cand := candidate_keys reqs varies in
  (forall k, amem k s = true -> In k cand) /\
  (List.length (distinct_keys s) <= List.length cand)%nat /\
  (forall u l, get_refs s u = Some l ->
     NoDup (some_ids l) /\ List.length l = List.length (some_ids l) /\ (List.length l <= List.length cand)%nat) /\
  (List.length cand <= List.length reqs * (1 + List.length varies))%nat.
Proof.
  intros cfg h t0 script reqs varies n Lf Hreqs Hvar.
  assert (Hsub : incl (flat_map (fun o => x_events o ++ x_bg_events o) (run_history cfg (firstn n h) (init_world t0 script))) Lf).
  { rewrite run_history_firstn. unfold Lf. generalize (run_history cfg h (init_world t0 script)). intros os.
    revert n. induction os as [|o os IH]; intros [|n]; cbn [firstn flat_map]; try (intros x []).
    intros x Hx. apply in_app_or in Hx as [Hx|Hx]; apply in_or_app; [left; exact Hx|right; eapply IH; exact Hx]. }
  apply C19_history.
  - intros q0 Hq. apply Hreqs. eapply Pl_mono; [exact Hsub|exact Hq].
  - intros v [->|(idx & q & a & b & r & Hin & Hv)]; apply Hvar; [left; reflexivity|].
    right. exists idx, q, a, b, r. split; [apply Hsub, Hin|exact Hv].
Qed.
Print Assumptions C19_history_every_point.

(* non-vacuity: one resource with Vary: Accept-Language, requested alternately for two languages, six times, each time after
   the stored response went stale (so that every request reaches the origin and is stored again): the premises hold with
   two requests and two Vary values; the store ends with three keys (the index and two entries) and an index of two
   references, as after the first two exchanges *)
Definition ex_url : url := {| u_scheme := bs "http"; u_host := bs "a.test"; u_path := bs "/x"; u_query := []; u_force_query := false |}.
Definition ex_req (lang : string) : request :=
  {| q_method := bs "GET"; q_url := ex_url; q_hdr := [(bs "Accept-Language", [bs lang])] |}.
Definition ex_rep : origin_reply :=
  RResp {| p_status := 200;
           p_hdr := [(bs "Cache-Control", [bs "max-age=60"]); (bs "Vary", [bs "Accept-Language"]);
                     (bs "Date", [bs "Sat, 01 Jan 2000 00:00:00 GMT"])];
           p_body := 0; p_body_ok := true |}.
Definition ex_history : history :=
  [(0, ex_req "en"); (100 * second, ex_req "fr"); (100 * second, ex_req "en"); (100 * second, ex_req "fr");
   (100 * second, ex_req "en"); (100 * second, ex_req "fr")].
Definition ex_world : world := init_world (946684800 * second) (repeat (second, ex_rep, ex_rep) 6).
Definition ex_cfg : config := {| cfg_swr_timeout := 0 |}.

Example C19_history_nonvacuous :
  let Lf := flat_map (fun o => x_events o ++ x_bg_events o) (run_history ex_cfg ex_history ex_world) in
  let reqs := [ex_req "en"; ex_req "fr"] in
  let varies := [[]; [bs "Accept-Language"]] in
  (forall q0, Pl Lf q0 -> exists q1, In q1 reqs /\ make_url_key (q_url q1) = make_url_key (q_url q0) /\ q_hdr q1 = q_hdr q0) /\
  (forall v, VsL Lf v -> In v varies) /\
  List.length (call_requests Lf) = 6%nat /\
  List.length (distinct_keys (w_store (world_after ex_cfg ex_history ex_world))) = 3%nat /\
  List.length (distinct_keys (w_store (world_after ex_cfg (firstn 2 ex_history) ex_world))) = 3%nat /\
  (exists l, get_refs (w_store (world_after ex_cfg ex_history ex_world)) (make_url_key ex_url) = Some l /\ List.length l = 2%nat).
Proof.
  cbv zeta. split; [|split; [|split; [vm_compute; reflexivity|split; [vm_compute; reflexivity|split; [vm_compute; reflexivity|]]]]].
  - intros q0 Hq. apply Pl_call_requests in Hq.
    assert (Hc : call_requests (flat_map (fun o => x_events o ++ x_bg_events o) (run_history ex_cfg ex_history ex_world)) =
                 [ex_req "en"; ex_req "fr"; ex_req "en"; ex_req "fr"; ex_req "en"; ex_req "fr"]) by (vm_compute; reflexivity).
    rewrite Hc in Hq. clear Hc. cbn [In] in Hq.
    destruct Hq as [<-|[<-|[<-|[<-|[<-|[<-|[]]]]]]];
      (exists (ex_req "en"); split; [left; reflexivity|split; reflexivity]) ||
      (exists (ex_req "fr"); split; [right; left; reflexivity|split; reflexivity]).
  - intros v Hv. apply VsL_reply_varies in Hv as [->|Hv]; [left; reflexivity|].
    assert (Hc : reply_varies (flat_map (fun o => x_events o ++ x_bg_events o) (run_history ex_cfg ex_history ex_world)) =
                 repeat [bs "Accept-Language"] 6) by (vm_compute; reflexivity).
    rewrite Hc in Hv. apply repeat_spec in Hv. subst v. right. left. reflexivity.
  - eexists. split; [vm_compute; reflexivity|reflexivity].
Qed.

(* the effect trees this property is stated about — which store / origin / clock operations happen, in which order, under
   which conditions, and what every path returns — are those /verif/translate derives from the Go source on this run
   (Generated/SrcEffects.v; equal up to the extensional equality of continuations, ProgEq.peq, which [run] respects) *)
From HC.Generated Require Import SrcEffects.
From HC.Proofs Require Import ProgEq TieEffects.
Theorem C19_source_effects :
  (forall q, peq (src_round_trip q) (round_trip q)) /\
  (forall ctx q rep, peq (src_handle_validation_response ctx q rep) (handle_validation_response ctx q rep)) /\
  (forall q e k f cc, peq (src_background_revalidate q e k f cc) (background_revalidate q e k f cc)).
Proof. repeat split; [exact tie_round_trip|exact tie_handle_validation_response|exact tie_background_revalidate]. Qed.
Print Assumptions C19_source_effects.

(* ... and StoreResponse (hop-by-hop fields removed first, the variant key, the entry written before the index, the index
   entry appended or replaced), serveFromCache and handleStaleWhileRevalidate (qualified no-cache fields removed, Age, status,
   the background revalidation started with the stored validators) *)
Theorem C19_source_effects2 :
  (forall q r k refs a b i, peq (src_store_response q r k refs a b i) (store_response q r k refs a b i)).
Proof. exact tie_store_response. Qed.
Print Assumptions C19_source_effects2.

(* ... and InvalidateCache (which keys an invalidation deletes) *)
From HC.Generated Require Import SrcInval.
From HC.Proofs Require Import TieInval.
Theorem C19_source_invalidation :
  forall (A : Type) u h refs key (c c' : prog A), peq c c' ->
    peq (src_invalidate_cache u h refs key c) (invalidate_cache u h refs key c').
Proof. exact @tie_invalidate_cache. Qed.
Print Assumptions C19_source_invalidation.

(* ---------- every schedule of concurrent calls ---------- *)
(* The footprint invariant also holds when any number of RoundTrip calls and the background revalidations they start run
   interleaved, one store / origin operation at a time, under every schedule (Conc.v; Proofs/FootConc.v): from a store
   satisfying it for the events known before, the store reached satisfies it for those events and the ones of the phase —
   and therefore (footprint_keys, footprint_index) the same bound on keys and index lengths applies. *)
From HC Require Import Conc.
From HC.Proofs Require Import FootConc.
Theorem C19_concurrent : forall T qs w sched cw n H0 reqs varies,
  InvF (Pl H0) (VsL H0) (w_store w) ->
  run_schedule T sched {| cw_w := w; cw_fg := map TStart qs; cw_bg := []; cw_trace := [] |} 0 = (cw, n) ->
  let Lf := w_log (cw_w cw) ++ H0 in
  (forall q0, Pl Lf q0 -> exists q1, In q1 reqs /\ make_url_key (q_url q1) = make_url_key (q_url q0) /\ q_hdr q1 = q_hdr q0) ->
  (forall v, VsL Lf v -> In v varies) ->
  let s := w_store (cw_w cw) in
  (forall k, amem k s = true -> In k (candidate_keys reqs varies)) /\
  (forall u l, get_refs s u = Some l -> NoDup (some_ids l) /\ (List.length l <= List.length (candidate_keys reqs varies))%nat).
Proof.
  intros T qs w sched cw n H0 reqs varies HI Hrun Lf Hreqs Hvar s.
  pose proof (concurrent_footprint T qs w sched cw n H0 HI Hrun) as HF. fold Lf in HF. fold s in HF.
  split.
  - intros k Hk. eapply footprint_keys; eassumption.
  - intros u l Hl. split; [destruct HF as [_ I2]; apply (I2 _ _ Hl)|]. eapply footprint_index; eassumption.
Qed.
Print Assumptions C19_concurrent.
