(* Conc.v — concurrent RoundTrip calls on one transport, interleaved at the granularity of store
   and origin operations (C16).

   A thread is one RoundTrip call (foreground) or one background revalidation.  A step of a thread
   performs the store / origin operation it is waiting at and then runs on — reading the clock and
   spawning background threads are local — up to its next operation or its end.  A schedule is the
   sequence of threads stepped.  The check drives the real transport under the same discipline (every
   store and origin operation of every goroutine waits for a scheduler inside a testing/synctest
   bubble) and compares. *)
From HC Require Export Run.
Open Scope Z_scope.

Inductive tstate :=
| TStart (q : request)
| TFg (q : request) (p : prog outcome)
| TBg (p : prog unit)
| TDoneFg (q : request) (r : result outcome)
| TDoneBg (ok : bool).

(* thread labels: F i = the i-th RoundTrip call of the phase, B j = the j-th background thread spawned *)
Inductive label := F (i : nat) | B (j : nat) | Tick.   (* Tick: one second of virtual time passes *)

Record cworld := {
  cw_w : world;                    (* store, clock, origin script, call counter; w_log: all events, reversed *)
  cw_fg : list tstate;
  cw_bg : list tstate;
  cw_trace : list (label * event)  (* reversed: who performed which operation *)
}.

(* run the local nodes at the head: clock readings and spawns *)
Fixpoint settle {A : Type} (p : prog A) (clock : Z) (spawned : list (prog unit)) : prog A * list (prog unit) :=
  match p with
  | Now c => settle (c clock) clock spawned
  | Spawn bg c => settle c clock (spawned ++ [bg])
  | _ => (p, spawned)
  end.

(* perform the operation at the head *)
Definition perform {A : Type} (limit : option Z) (p : prog A) (w : world) : prog A * world :=
  match p with
  | GetRefs k c =>
      let ans := get_refs (w_store w) k in
      (c ans, log_event w (EvGetRefs k (match ans with Some _ => true | None => false end)))
  | GetEntry k c =>
      let ans := get_entry (w_store w) k in
      (c ans, log_event w (EvGetEntry k (match ans with Some _ => true | None => false end)))
  | SetEntry k e c => (c, set_store w (aset k (SEntry e) (w_store w)) (EvSetEntry k e))
  | SetRefs k l c => (c, set_store w (aset k (SRefs l) (w_store w)) (EvSetRefs k l))
  | Del k c => (c, set_store w (aremove k (w_store w)) (EvDel k (amem k (w_store w))))
  | Origin q c => let '(rep, w') := do_origin limit q w in (c rep, w')
  | _ => (p, w)
  end.

Definition finished {A : Type} (p : prog A) : option (result A) :=
  match p with
  | Ret a => Some (Done a)
  | Crash => Some Crashed
  | Unmodelled => Some OutOfModel
  | _ => None
  end.

Definition fg_state (q : request) (p : prog outcome) : tstate :=
  match finished p with Some r => TDoneFg q r | None => TFg q p end.
Definition bg_state (p : prog unit) : tstate :=
  match finished p with
  | Some (Done _) => TDoneBg true
  | Some _ => TDoneBg false
  | None => TBg p
  end.
(* a spawned thread runs up to its first operation at once *)
Fixpoint settle_spawned (clock : Z) (ps : list (prog unit)) (fuel : nat) : list tstate :=
  match fuel, ps with
  | _, [] => []
  | O, _ => []
  | S f, p :: r =>
      let '(p', more) := settle p clock [] in
      bg_state p' :: settle_spawned clock (r ++ more) f
  end.

Fixpoint replace_nth {X : Type} (n : nat) (x : X) (l : list X) : list X :=
  match n, l with
  | _, [] => []
  | O, _ :: r => x :: r
  | S m, y :: r => y :: replace_nth m x r
  end.

Definition head_event (w w' : world) : list event :=
  match w_log w' with
  | ev :: _ => if (List.length (w_log w) <? List.length (w_log w'))%nat then [ev] else []
  | [] => []
  end.

(* one step of the thread named [l]; [None] when that thread is not waiting *)
Definition cstep (T : Z) (l : label) (cw : cworld) : option cworld :=
  let w := cw_w cw in
  match l with
  | F i =>
      match nth_error (cw_fg cw) i with
      | Some (TStart q) =>
          let '(p', sp) := settle (round_trip q) (w_clock w) [] in
          Some {| cw_w := w; cw_fg := replace_nth i (fg_state q p') (cw_fg cw);
                  cw_bg := cw_bg cw ++ settle_spawned (w_clock w) sp 8; cw_trace := cw_trace cw |}
      | Some (TFg q p) =>
          let '(p1, w1) := perform None p w in
          let '(p2, sp) := settle p1 (w_clock w1) [] in
          Some {| cw_w := w1; cw_fg := replace_nth i (fg_state q p2) (cw_fg cw);
                  cw_bg := cw_bg cw ++ settle_spawned (w_clock w1) sp 8;
                  cw_trace := map (fun ev => (l, ev)) (head_event w w1) ++ cw_trace cw |}
      | _ => None
      end
  | Tick =>
      Some {| cw_w := {| w_store := w_store w; w_clock := w_clock w + second; w_script := w_script w;
                         w_calls := w_calls w; w_log := w_log w; w_pending := w_pending w |};
              cw_fg := cw_fg cw; cw_bg := cw_bg cw; cw_trace := cw_trace cw |}
  | B j =>
      match nth_error (cw_bg cw) j with
      | Some (TBg p) =>
          let '(p1, w1) := perform (Some T) p w in
          let '(p2, sp) := settle p1 (w_clock w1) [] in
          Some {| cw_w := w1; cw_fg := cw_fg cw;
                  cw_bg := replace_nth j (bg_state p2) (cw_bg cw) ++ settle_spawned (w_clock w1) sp 8;
                  cw_trace := map (fun ev => (l, ev)) (head_event w w1) ++ cw_trace cw |}
      | _ => None
      end
  end.

(* run a schedule; stops at the first label that names a thread which is not waiting.
   Result: the world and the number of schedule entries performed *)
Fixpoint run_schedule (T : Z) (sched : list label) (cw : cworld) (done : nat) : cworld * nat :=
  match sched with
  | [] => (cw, done)
  | l :: r =>
      match cstep T l cw with
      | Some cw' => run_schedule T r cw' (S done)
      | None => (cw, done)
      end
  end.

Definition waiting (t : tstate) : bool :=
  match t with TStart _ | TFg _ _ | TBg _ => true | _ => false end.
Definition quiescent (cw : cworld) : bool :=
  negb (existsb waiting (cw_fg cw)) && negb (existsb waiting (cw_bg cw)).

(* a phase: requests issued together, a schedule; phases are separated by gaps of virtual time *)
Definition phase := (Z * list request * list label)%type.

Record phase_obs := {
  po_results : list (option (result outcome));   (* per RoundTrip call; None = did not finish under the schedule *)
  po_trace : list (label * event);
  po_performed : nat;
  po_quiescent : bool;
  po_bg_ok : bool
}.

Definition run_phase (T : Z) (ph : phase) (w : world) : phase_obs * world :=
  let '(gap, reqs, sched) := ph in
  let w0 := {| w_store := w_store w; w_clock := w_clock w + gap; w_script := w_script w;
               w_calls := w_calls w; w_log := []; w_pending := [] |} in
  let cw0 := {| cw_w := w0; cw_fg := map TStart reqs; cw_bg := []; cw_trace := [] |} in
  let '(cw1, n) := run_schedule T sched cw0 0 in
  ({| po_results := map (fun t => match t with TDoneFg _ r => Some r | _ => None end) (cw_fg cw1);
      po_trace := rev (cw_trace cw1); po_performed := n; po_quiescent := quiescent cw1;
      po_bg_ok := forallb (fun t => match t with TDoneBg false => false | _ => true end) (cw_bg cw1) |},
   cw_w cw1).

Fixpoint run_phases (T : Z) (phs : list phase) (w : world) : list phase_obs :=
  match phs with
  | [] => []
  | ph :: r => let '(o, w') := run_phase T ph w in o :: run_phases T r w'
  end.
