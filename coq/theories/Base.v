(* Base.v — byte strings, ASCII classes, decimal numbers, Go int64 arithmetic.
   Model conventions: a byte is a [Z] (0..255 in well-formed data), a byte string is a [list Z].
   No proofs in this file beyond tiny computational sanity examples. *)
From Coq Require Export List ZArith Bool Lia String Ascii.
Export ListNotations.
Open Scope Z_scope.

Definition bytes := list Z.

(* String literals for constants such as "max-age". *)
Fixpoint bs (s : string) : bytes :=
  match s with
  | EmptyString => []
  | String a r => Z.of_N (N_of_ascii a) :: bs r
  end.

(* ---- equality and order on byte strings ---- *)
Fixpoint beq (a b : bytes) : bool :=
  match a, b with
  | [], [] => true
  | x :: a', y :: b' => (x =? y) && beq a' b'
  | _, _ => false
  end.

(* Go's string comparison: lexicographic on bytes. *)
Fixpoint bcmp (a b : bytes) : comparison :=
  match a, b with
  | [], [] => Eq
  | [], _ => Lt
  | _, [] => Gt
  | x :: a', y :: b' => match x ?= y with Eq => bcmp a' b' | c => c end
  end.
Definition ble (a b : bytes) : bool := match bcmp a b with Gt => false | _ => true end.
Definition blt (a b : bytes) : bool := match bcmp a b with Lt => true | _ => false end.

(* ---- character classes ---- *)
Definition is_digit (c : Z) : bool := (48 <=? c) && (c <=? 57).
Definition is_upper (c : Z) : bool := (65 <=? c) && (c <=? 90).
Definition is_lower (c : Z) : bool := (97 <=? c) && (c <=? 122).
Definition is_alpha (c : Z) : bool := is_upper c || is_lower c.
Definition to_lower (c : Z) : Z := if is_upper c then c + 32 else c.
Definition to_upper (c : Z) : Z := if is_lower c then c - 32 else c.
Definition lower (s : bytes) : bytes := map to_lower s.

(* textproto.TrimString: SP, HTAB, LF, CR *)
Definition is_tp_space (c : Z) : bool := (c =? 32) || (c =? 9) || (c =? 10) || (c =? 13).
(* strings.TrimSpace on ASCII input: HT, LF, VT, FF, CR, SP *)
Definition is_go_space (c : Z) : bool :=
  (c =? 32) || ((9 <=? c) && (c <=? 13)).

Fixpoint drop_while (f : Z -> bool) (s : bytes) : bytes :=
  match s with
  | [] => []
  | c :: r => if f c then drop_while f r else s
  end.
Definition trim_with (f : Z -> bool) (s : bytes) : bytes :=
  rev (drop_while f (rev (drop_while f s))).
Definition tp_trim := trim_with is_tp_space.
Definition go_trim := trim_with is_go_space.

(* ---- splitting ---- *)
(* strings.Cut(s, sep) for a one-byte separator *)
Fixpoint cut (sep : Z) (s : bytes) : option (bytes * bytes) :=
  match s with
  | [] => None
  | c :: r =>
      if c =? sep then Some ([], r)
      else match cut sep r with
           | Some (a, b) => Some (c :: a, b)
           | None => None
           end
  end.

(* strings.Split(s, sep) for a one-byte separator: always at least one part *)
Fixpoint split_on (sep : Z) (s : bytes) : list bytes :=
  match s with
  | [] => [[]]
  | c :: r =>
      if c =? sep then [] :: split_on sep r
      else match split_on sep r with
           | p :: ps => (c :: p) :: ps
           | [] => [[c]]
           end
  end.

Fixpoint join (sep : bytes) (l : list bytes) : bytes :=
  match l with
  | [] => []
  | [x] => x
  | x :: r => x ++ sep ++ join sep r
  end.

Fixpoint has_prefix (p s : bytes) : bool :=
  match p, s with
  | [], _ => true
  | x :: p', y :: s' => (x =? y) && has_prefix p' s'
  | _, [] => false
  end.
Definition has_suffix (p s : bytes) : bool := has_prefix (rev p) (rev s).

Fixpoint contains_byte (c : Z) (s : bytes) : bool :=
  match s with [] => false | x :: r => (x =? c) || contains_byte c r end.

Fixpoint count_byte (c : Z) (s : bytes) : Z :=
  match s with [] => 0 | x :: r => (if x =? c then 1 else 0) + count_byte c r end.

(* ---- insertion sort (Go's slices.Sort* on short slices is insertion sort, which is stable) ---- *)
Section Sort.
  Context {A : Type} (le : A -> A -> bool).
  Fixpoint insert_sorted (x : A) (l : list A) : list A :=
    match l with
    | [] => [x]
    | y :: r => if le x y then x :: l else y :: insert_sorted x r
    end.
  (* stable: processes from the right so that equal elements keep their order *)
  Fixpoint isort (l : list A) : list A :=
    match l with
    | [] => []
    | x :: r => insert_sorted x (isort r)
    end.
End Sort.
Definition sort_bytes (l : list bytes) : list bytes := isort ble l.

(* ---- decimal numbers ---- *)
Fixpoint digits_val (acc : Z) (s : bytes) : Z :=
  match s with
  | [] => acc
  | c :: r => digits_val (acc * 10 + (c - 48)) r
  end.
Definition all_digits (s : bytes) : bool := forallb is_digit s.

(* decimal rendering of a non-negative number, by fuel on the number of digits *)
Fixpoint dec_digits (fuel : nat) (n : Z) (acc : bytes) : bytes :=
  match fuel with
  | O => acc
  | S f => let acc' := (48 + n mod 10) :: acc in
           if n <? 10 then acc' else dec_digits f (n / 10) acc'
  end.
Definition dec_of_nonneg (n : Z) : bytes := dec_digits 80 n [].
Definition dec_of_Z (n : Z) : bytes :=
  if n <? 0 then 45 :: dec_of_nonneg (- n) else dec_of_nonneg n.

(* ---- Go int64 ---- *)
Definition two63 : Z := 9223372036854775808.
Definition two64 : Z := 18446744073709551616.
Definition max64 : Z := 9223372036854775807.
Definition min64 : Z := -9223372036854775808.
(* two's-complement wrap-around of an arbitrary integer to int64 (Go's + and * on int64) *)
Definition wrap64 (x : Z) : Z := (x + two63) mod two64 - two63.
(* saturation (Go's Time.Sub) *)
Definition sat64 (x : Z) : Z := Z.max min64 (Z.min max64 x).

Definition second : Z := 1000000000.

(* strconv.ParseInt(s, 10, 64): optional sign, then one or more digits.
   Result: PI_ok v | PI_range v (out of range, v saturated) | PI_syntax *)
Inductive parse_int_result := PI_ok (v : Z) | PI_range (v : Z) | PI_syntax.
Definition parse_int64 (s : bytes) : parse_int_result :=
  let '(neg, ds) :=
    match s with
    | c :: r => if c =? 43 then (false, r) else if c =? 45 then (true, r) else (false, s)
    | [] => (false, s)
    end in
  match ds with
  | [] => PI_syntax
  | _ =>
      if all_digits ds then
        let v := digits_val 0 ds in
        if neg then (if v <=? two63 then PI_ok (- v) else PI_range min64)
        else (if v <=? max64 then PI_ok v else PI_range max64)
      else PI_syntax
  end.

(* strconv.Atoi with the error dropped, as calculateCurrentAge uses it:
   on a range error the saturated value is returned, on a syntax error 0. *)
Definition atoi_drop_err (s : bytes) : Z :=
  match parse_int64 s with
  | PI_ok v => v
  | PI_range v => v
  | PI_syntax => 0
  end.

(* association lists keyed by byte strings *)
Section Assoc.
  Context {V : Type}.
  Fixpoint alookup (k : bytes) (m : list (bytes * V)) : option V :=
    match m with
    | [] => None
    | (k', v) :: r => if beq k k' then Some v else alookup k r
    end.
  Fixpoint aremove (k : bytes) (m : list (bytes * V)) : list (bytes * V) :=
    match m with
    | [] => []
    | (k', v) :: r => if beq k k' then aremove k r else (k', v) :: aremove k r
    end.
  (* replace in place when present, else append: keeps first-insertion order *)
  Fixpoint aset (k : bytes) (v : V) (m : list (bytes * V)) : list (bytes * V) :=
    match m with
    | [] => [(k, v)]
    | (k', v') :: r => if beq k k' then (k, v) :: r else (k', v') :: aset k v r
    end.
  Definition amem (k : bytes) (m : list (bytes * V)) : bool :=
    match alookup k m with Some _ => true | None => false end.
End Assoc.
