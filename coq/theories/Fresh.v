(* Fresh.v — internal/freshness.go: calculateCurrentAge, heuristicFreshness, CalculateFreshness;
   internal/helpers.go: SetAgeHeader; internal/cacheabilityevaluator.go: CanStaleOnError.
   Instants are integer nanoseconds since the Unix epoch (unbounded Z: Go's time.Time covers far more
   than int64 nanoseconds); durations are int64 nanoseconds with Go's wrap-around on + and * and
   saturation in Time.Sub / time.Since. *)
From HC Require Export CC Date.
Open Scope Z_scope.

(* Time.Sub, time.Since *)
Definition time_sub (t u : Z) : Z := sat64 (t - u).
(* Duration + Duration, Duration * n *)
Definition dur_add (a b : Z) : Z := wrap64 (a + b).

(* parsed header times, in ns *)
Definition raw_time (v : bytes) : option Z :=
  match v with
  | [] => None
  | _ => option_map (fun s => s * second) (parse_imf_fixdate v)
  end.

(* Response.DateHeader(): the zero time.Time when missing/invalid *)
Definition go_zero_time : Z := go_zero_time_secs * second.
Definition date_header (h : headers) : Z :=
  match raw_time (hget (bs "Date") h) with Some t => t | None => go_zero_time end.

(* ---- float64 emulation for  time.Duration(float64(delta) * 0.1).Round(time.Second) ---- *)
(* nearest-even rounding of a positive integer to 53 significant bits; result = q * 2^shift *)
Definition round53 (x : Z) : Z * Z :=
  let bits := Z.log2 x + 1 in
  if bits <=? 53 then (x, 0)
  else
    let shift := bits - 53 in
    let p := 2 ^ shift in
    let q := x / p in
    let r := x mod p in
    let half := p / 2 in
    if (half <? r) || ((r =? half) && Z.odd q) then (q + 1, shift) else (q, shift).

(* the float64 nearest to 0.1 is 3602879701896397 / 2^55 *)
Definition tenth_mant : Z := 3602879701896397.

(* int64(float64(delta) * 0.1) for delta > 0 *)
Definition float_tenth (delta : Z) : Z :=
  let '(q1, s1) := round53 delta in
  let '(q2, s2) := round53 (q1 * tenth_mant) in
  let e := s1 + s2 - 55 in
  if 0 <=? e then q2 * 2 ^ e else q2 / 2 ^ (- e).

(* Duration.Round(time.Second) for d >= 0: halves round away from zero *)
Definition round_second (d : Z) : Z :=
  let r := d mod second in
  if r + r <? second then d - r else d + second - r.

Definition heuristic_freshness (h : headers) (date : Z) : Z :=
  match raw_time (hget (bs "Last-Modified") h) with
  | Some lm =>
      if lm <? date then round_second (float_tenth (time_sub date lm)) else 0
  | None => 0
  end.

(* ---- calculateCurrentAge ---- *)
(* [now1] is the clock reading of clock.Since(responseTime), [now2] the one stored as Timestamp *)
Definition current_age (h : headers) (date request_time response_time now1 : Z) : Z :=
  let age_val := match hget (bs "Age") h with [] => 0 | s => atoi_drop_err s end in
  let apparent := Z.max (time_sub response_time date) 0 in
  let delay := Z.max (time_sub response_time request_time) 0 in
  let corrected_age := dur_add (wrap64 (wrap64 age_val * second)) delay in
  let corrected_initial := Z.max apparent corrected_age in
  let resident := Z.max (time_sub now1 response_time) 0 in
  dur_add corrected_initial resident.

Record stored_entry := {
  e_status : Z;
  e_hdr : headers;
  e_body : Z;              (* ghost: which origin call produced the body *)
  e_req_at : Z;
  e_recv_at : Z
}.

Record freshness := { f_stale : bool; f_age : Z; f_age_ts : Z; f_life : Z }.

Definition is_heuristically_cacheable (code : Z) : bool :=
  (code =? 200) || (code =? 203) || (code =? 206) || (code =? 301) || (code =? 304) ||
  (code =? 404) || (code =? 405) || (code =? 410) || (code =? 414) || (code =? 501) || (code =? 308).

Definition is_status_understood (code : Z) : bool :=
  (code =? 200) || (code =? 203) || (code =? 301) || (code =? 304) ||
  (code =? 404) || (code =? 405) || (code =? 410) || (code =? 414) || (code =? 501) || (code =? 308).

(* Expires: (found, valid time) — the UTC compatibility branch is off (environment variable unset) *)
Definition expires_header (h : headers) : bool * option Z :=
  match hget (bs "Expires") h with
  | [] => (false, None)
  | v => (true, raw_time v)
  end.

(* CalculateFreshness.  The clock is read up to three times at the same instant [now]
   (no blocking operation happens in between). *)
Definition calculate_freshness (e : stored_entry) (req_cc res_cc : directives) (now : Z) : freshness :=
  match req_max_age req_cc with
  | Some 0 => {| f_stale := true; f_age := 0; f_age_ts := now; f_life := 0 |}
  | _ =>
      let date := date_header (e_hdr e) in
      let age := current_age (e_hdr e) date (e_req_at e) (e_recv_at e) now in
      let life0 := match resp_max_age res_cc with
                   | Some m => if 0 <=? m then m else 0
                   | None => 0
                   end in
      let life1 :=
        if life0 =? 0 then
          match expires_header (e_hdr e) with
          | (_, Some ex) =>
              if date <? ex then time_sub ex date else 0
          | (true, None) => 0
          | (false, None) =>
              if is_heuristically_cacheable (e_status e) || resp_public res_cc
              then heuristic_freshness (e_hdr e) date else 0
          end
        else life0 in
      let life :=
        match req_max_age req_cc with
        | Some m => if 0 <? m then Z.min life1 m else life1
        | None => life1
        end in
      let min_fresh_stale :=
        match req_min_fresh req_cc with
        | Some mf => (0 <? mf) && (wrap64 (life - age) <? mf)
        | None => false
        end in
      if min_fresh_stale then {| f_stale := true; f_age := age; f_age_ts := now; f_life := life |}
      else
        let max_stale :=
          match req_max_stale_raw req_cc with
          | Some [] => max64
          | Some v => match delta_seconds v with
                      | Some ms => if 0 <=? ms then ms else 0
                      | None => 0
                      end
          | None => 0
          end in
        let stale0 := life <=? age in
        let stale :=
          if stale0 && (0 <? max_stale) && (age <? Z.max (dur_add life max_stale) max_stale)
          then false else stale0 in
        {| f_stale := stale; f_age := age; f_age_ts := now; f_life := life |}
  end.

(* SetAgeHeader: Age := itoa(int(seconds of max(age + since(ts), 0))) ; Duration.Seconds() is a float,
   the conversion int(float) truncates: for non-negative durations this is d / 1e9 up to float rounding,
   which is exact for d < 2^53 ns and at most one off in the last of ten or more digits beyond. *)
Definition age_header_value (f : freshness) (now : Z) : bytes :=
  let adj := Z.max (dur_add (f_age f) (time_sub now (f_age_ts f))) 0 in
  dec_of_Z (adj / second).

(* staleIfErrorPolicy.CanStaleOnError with a single directive source *)
Definition can_stale_on_error (f : freshness) (sie : option Z) (now : Z) : bool :=
  match sie with
  | Some dur =>
      let age := dur_add (f_age f) (time_sub now (f_age_ts f)) in
      age <=? dur_add (f_life f) dur
  | None => false
  end.

Definition is_stale_error_allowed (code : Z) : bool :=
  (code =? 500) || (code =? 502) || (code =? 503) || (code =? 504).
