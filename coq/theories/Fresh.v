(* Fresh.v — internal/freshness.go: calculateCurrentAge, heuristicFreshness, CalculateFreshness;
   internal/helpers.go: SetAgeHeader; internal/cacheabilityevaluator.go: CanStaleOnError.
   Instants are integer nanoseconds since the Unix epoch (unbounded Z: Go's time.Time covers far more
   than int64 nanoseconds); durations are int64 nanoseconds with Go's wrap-around on + and * and
   saturation in Time.Sub / time.Since. *)
From HC Require Export CC Date.
Open Scope Z_scope.

(* Time.Sub, time.Since *)
Definition time_sub (t u : Z) : Z := sat64 (t - u).
(* Duration + Duration, Duration * n *)
Definition dur_add (a b : Z) : Z := wrap64 (a + b).

(* parsed header times, in ns *)
Definition raw_time (v : bytes) : option Z :=
  match v with
  | [] => None
  | _ => option_map (fun s => s * second) (parse_http_time v)
  end.

(* Response.DateHeader(): the zero time.Time when missing/invalid *)
Definition go_zero_time : Z := go_zero_time_secs * second.
Definition date_header (h : headers) : Z :=
  match raw_time (hget (bs "Date") h) with Some t => t | None => go_zero_time end.

(* nearest-even rounding of a positive integer to 53 significant bits; result = q * 2^shift
   (used by the emulation of Duration.Seconds() below) *)
Definition round53 (x : Z) : Z * Z :=
  let bits := Z.log2 x + 1 in
  if bits <=? 53 then (x, 0)
  else
    let shift := bits - 53 in
    let p := 2 ^ shift in
    let q := x / p in
    let r := x mod p in
    let half := p / 2 in
    if (half <? r) || ((r =? half) && Z.odd q) then (q + 1, shift) else (q, shift).

(* heuristicFreshness: date.Sub(lastMod) / 10 *)
Definition heuristic_freshness (h : headers) (date : Z) : Z :=
  match raw_time (hget (bs "Last-Modified") h) with
  | Some lm => if lm <? date then time_sub date lm / 10 else 0
  | None => 0
  end.

(* saturatingAdd on non-negative durations *)
Definition go_sat_add (a b : Z) : Z := if max64 - b <? a then max64 else a + b.

(* ---- calculateCurrentAge ---- *)
(* [now1] is the clock reading of clock.Since(responseTime), [now2] the one stored as Timestamp *)
Definition current_age (h : headers) (date request_time response_time now1 : Z) : Z :=
  let age_val := match hget (bs "Age") h with [] => 0 | s => atoi_drop_err s end in
  let apparent := Z.max (time_sub response_time date) 0 in
  let delay := Z.max (time_sub response_time request_time) 0 in
  let age_value := if age_val <=? max_delta_seconds then Z.max age_val 0 * second else max64 in
  let corrected_age := go_sat_add age_value delay in
  let corrected_initial := Z.max apparent corrected_age in
  let resident := Z.max (time_sub now1 response_time) 0 in
  go_sat_add corrected_initial resident.

Record stored_entry := {
  e_id : bytes;            (* Response.ID: the key it is stored under *)
  e_status : Z;
  e_hdr : headers;
  e_body : Z;              (* ghost: which origin call produced the body *)
  e_req_at : Z;
  e_recv_at : Z
}.

Record freshness := { f_stale : bool; f_age : Z; f_age_ts : Z; f_life : Z;
                      f_expired : bool; f_req_max_age_exceeded : bool }.

Definition is_heuristically_cacheable (code : Z) : bool :=
  (code =? 200) || (code =? 203) || (code =? 206) || (code =? 301) || (code =? 304) ||
  (code =? 404) || (code =? 405) || (code =? 410) || (code =? 414) || (code =? 501) || (code =? 308).

Definition is_status_understood (code : Z) : bool :=
  (code =? 200) || (code =? 203) || (code =? 301) || (code =? 304) ||
  (code =? 404) || (code =? 405) || (code =? 410) || (code =? 414) || (code =? 501) || (code =? 308).

(* Expires: (found, valid time) — the UTC compatibility branch is off (environment variable unset) *)
Definition expires_header (h : headers) : bool * option Z :=
  match hget (bs "Expires") h with
  | [] => (false, None)
  | v => (true, raw_time v)
  end.

(* the response's own freshness lifetime (before the request's max-age is applied) *)
Definition response_lifetime (e : stored_entry) (res_cc : directives) : Z :=
  let date := date_header (e_hdr e) in
  let life0 := match resp_max_age res_cc with
               | Some m => if 0 <=? m then m else 0
               | None => 0
               end in
  if negb (resp_max_age_present res_cc) then
    match expires_header (e_hdr e) with
    | (_, Some ex) => if date <? ex then time_sub ex date else 0
    | (true, None) => 0
    | (false, None) =>
        if is_heuristically_cacheable (e_status e) || resp_public res_cc
        then heuristic_freshness (e_hdr e) date else 0
    end
  else life0.

Definition entry_age (e : stored_entry) (now : Z) : Z :=
  current_age (e_hdr e) (date_header (e_hdr e)) (e_req_at e) (e_recv_at e) now.

(* max-stale as CalculateFreshness reads it: 0 = none *)
Definition max_stale_value (req_cc : directives) : Z :=
  match req_max_stale_raw req_cc with
  | Some [] => max64
  | Some v => match delta_seconds v with
              | Some ms => if 0 <=? ms then ms else 0
              | None => 0
              end
  | None => 0
  end.

(* CalculateFreshness.  The clock is read up to three times at the same instant [now]
   (no blocking operation happens in between). *)
Definition calculate_freshness (e : stored_entry) (req_cc res_cc : directives) (now : Z) : freshness :=
  match req_max_age req_cc with
  | Some 0 => {| f_stale := true; f_age := 0; f_age_ts := now; f_life := 0;
                 f_expired := true; f_req_max_age_exceeded := true |}
  | _ =>
      let age := entry_age e now in
      let life1 := response_lifetime e res_cc in
      let expired := life1 <=? age in
      let life :=
        match req_max_age req_cc with
        | Some m => if 0 <? m then Z.min life1 m else life1
        | None => life1
        end in
      let exceeded :=
        match req_max_age req_cc with
        | Some m => (0 <? m) && (m <=? age)
        | None => false
        end in
      let min_fresh_stale :=
        match req_min_fresh req_cc with
        | Some mf => (0 <? mf) && (wrap64 (life - age) <? mf)
        | None => false
        end in
      if min_fresh_stale then {| f_stale := true; f_age := age; f_age_ts := now; f_life := life;
                                 f_expired := expired; f_req_max_age_exceeded := exceeded |}
      else
        let max_stale := max_stale_value req_cc in
        let stale0 := life <=? age in
        let stale :=
          if stale0 && (0 <? max_stale) && (age <? Z.max (dur_add life max_stale) max_stale)
          then false else stale0 in
        {| f_stale := stale; f_age := age; f_age_ts := now; f_life := life;
           f_expired := expired; f_req_max_age_exceeded := exceeded |}
  end.

(* int(d.Seconds()) for d >= 0, where Seconds() = float64(d/1e9) + float64(d%1e9)/1e9 in IEEE doubles *)
Definition seconds_trunc (d : Z) : Z :=
  let sec := d / second in
  let nsec := d mod second in
  if nsec =? 0 then sec
  else
    (* f = RN(nsec / 1e9) = q * 2^-k with 2^52 <= q <= 2^53 *)
    let k0 := 53 + Z.log2 second - Z.log2 nsec in
    let k := if (nsec * 2 ^ k0) / second <? 2 ^ 52 then k0 + 1
             else if 2 ^ 53 <=? (nsec * 2 ^ k0) / second then k0 - 1 else k0 in
    let n := nsec * 2 ^ k in
    let q0 := n / second in
    let r := n mod second in
    let q := if (second <? 2 * r) || ((2 * r =? second) && Z.odd q0) then q0 + 1 else q0 in
    (* sec + f exactly, then rounded to 53 bits *)
    let '(m, shift) := round53 (sec * 2 ^ k + q) in
    let e := shift - k in
    if 0 <=? e then m * 2 ^ e else m / 2 ^ (- e).

Definition age_header_value (f : freshness) (now : Z) : bytes :=
  let adj := go_sat_add (f_age f) (Z.max (time_sub now (f_age_ts f)) 0) in
  dec_of_Z (seconds_trunc adj).

(* staleIfErrorPolicy.CanStaleOnError over the directive sources given (absent/invalid = None) *)
Definition can_stale_on_error (f : freshness) (sies : list (option Z)) (now : Z) : bool :=
  existsb (fun sie =>
    match sie with
    | Some dur =>
        let age := go_sat_add (f_age f) (Z.max (time_sub now (f_age_ts f)) 0) in
        age <? go_sat_add (f_life f) dur
    | None => false
    end) sies.

Definition is_stale_error_allowed (code : Z) : bool :=
  (code =? 500) || (code =? 502) || (code =? 503) || (code =? 504).
