(* FsAtomic.v — fscache's set/get/delete at the granularity of system calls, for one key, with any
   number of concurrent threads, short and failing writes, and crashes (C15).
   Set  = openat(tmp, O_CREAT|O_EXCL) ; write* ; fsync ; close ; renameat(tmp, name)   (unlink tmp on error)
   Get  = openat(name, O_RDONLY) ; read* ; close
   Delete = unlinkat(name)
   The kernel is modelled as: names refer to inodes, inodes hold bytes, an open file refers to its
   inode whatever happens to the name afterwards; each system call is atomic. *)
From HC Require Export Base.
Open Scope Z_scope.

Inductive syscall := SysOpenExclTmp | SysWrite | SysFsync | SysClose | SysRenameTmpFinal | SysUnlinkTmp
                   | SysOpenReadFinal | SysRead | SysUnlinkFinal.
Definition set_program : list syscall := [SysOpenExclTmp; SysWrite; SysFsync; SysClose; SysRenameTmpFinal].
Definition get_program : list syscall := [SysOpenReadFinal; SysRead; SysClose].
Definition delete_program : list syscall := [SysUnlinkFinal].

Record sysstate := {
  final : option nat;              (* the inode the key's file name refers to *)
  inodes : list (nat * bytes);
  next : nat                       (* next fresh inode number *)
}.

Fixpoint ilookup (n : nat) (l : list (nat * bytes)) : option bytes :=
  match l with
  | [] => None
  | (m, c) :: r => if Nat.eqb n m then Some c else ilookup n r
  end.
Fixpoint iset (n : nat) (c : bytes) (l : list (nat * bytes)) : list (nat * bytes) :=
  match l with
  | [] => [(n, c)]
  | (m, c') :: r => if Nat.eqb n m then (n, c) :: r else (m, c') :: iset n c r
  end.

Inductive tstate :=
| TSet0 (v : bytes)                      (* Set(v) invoked *)
| TSetW (n : nat) (rest v : bytes)       (* temporary file n open, [rest] still to be written *)
| TSetR (n : nat) (v : bytes)            (* written, synced, closed: about to rename *)
| TSetDone (ok : bool) (v : bytes)
| TGet0
| TGetR (n : nat) (acc : bytes)          (* file open on inode n, [acc] read so far *)
| TGetDone (r : option bytes)
| TDel0
| TDelDone
| TDead.                                 (* the process was killed *)

Definition with_inodes (s : sysstate) (l : list (nat * bytes)) : sysstate :=
  {| final := final s; inodes := l; next := next s |}.

(* one system call of one thread.  [choice]: negative = the process is killed before the call;
   for write: 0 = the write fails (disk full), k > 0 = at most k bytes are written;
   for read: the chunk size (at least 1). *)
Definition step (s : sysstate) (t : tstate) (choice : Z) : sysstate * tstate :=
  if choice <? 0 then (s, match t with TSetDone _ _ | TGetDone _ | TDelDone => t | _ => TDead end) else
  match t with
  | TSet0 v =>
      let n := next s in
      ({| final := final s; inodes := iset n [] (inodes s); next := S n |}, TSetW n v v)
  | TSetW n rest v =>
      match rest with
      | [] => (s, TSetR n v)                                   (* fsync, close *)
      | _ =>
          if choice =? 0 then (s, TSetDone false v)            (* write error: the temporary is unlinked *)
          else
            let k := Z.to_nat choice in
            let c := match ilookup n (inodes s) with Some c => c | None => [] end in
            (with_inodes s (iset n (c ++ firstn k rest) (inodes s)), TSetW n (skipn k rest) v)
      end
  | TSetR n v => ({| final := Some n; inodes := inodes s; next := next s |}, TSetDone true v)
  | TGet0 =>
      match final s with
      | None => (s, TGetDone None)
      | Some n => (s, TGetR n [])
      end
  | TGetR n acc =>
      let c := match ilookup n (inodes s) with Some c => c | None => [] end in
      let chunk := firstn (Z.to_nat (Z.max choice 1)) (skipn (List.length acc) c) in
      match chunk with
      | [] => (s, TGetDone (Some acc))                         (* end of file *)
      | _ => (s, TGetR n (acc ++ chunk))
      end
  | TDel0 => ({| final := None; inodes := inodes s; next := next s |}, TDelDone)
  | TSetDone _ _ | TGetDone _ | TDelDone | TDead => (s, t)
  end.

Fixpoint update_nth {A} (i : nat) (x : A) (l : list A) : list A :=
  match l, i with
  | [], _ => []
  | _ :: r, O => x :: r
  | y :: r, S j => y :: update_nth j x r
  end.

(* a schedule: which thread makes its next system call, and the choice *)
Fixpoint run_sched (s : sysstate) (ts : list tstate) (sched : list (nat * Z)) : sysstate * list tstate :=
  match sched with
  | [] => (s, ts)
  | (i, ch) :: r =>
      match nth_error ts i with
      | None => run_sched s ts r
      | Some t => let '(s', t') := step s t ch in run_sched s' (update_nth i t' ts) r
      end
  end.
