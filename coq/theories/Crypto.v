(* Crypto.v — store/fscache/encrypt.go and the encryption wiring of store/fscache/fscache.go (C17).
   AES-GCM is a pair of Section variables with the laws of an authenticated cipher (symbolic model);
   the base64 decoding of the key is a Section variable without hypotheses. *)
From HC Require Export Base Store.
Open Scope Z_scope.

Section Aead.
  (* the additional data is the key (name) of the entry: authenticated with the ciphertext, not stored in the file (fix F36) *)
  Variable seal : bytes -> bytes -> bytes -> bytes -> bytes.             (* key, additional data, nonce, plaintext -> ciphertext‖tag *)
  Variable open_ : bytes -> bytes -> bytes -> bytes -> option bytes.     (* key, additional data, nonce, ciphertext‖tag -> plaintext *)
  Variable decode_key : bytes -> option bytes.                  (* base64.URLEncoding.DecodeString *)

  Definition nonce_size : nat := 12.

  (* aesgcmEncryptor.EncryptFor with the nonce the random source delivered *)
  Definition encrypt (k name nonce v : bytes) : bytes := nonce ++ seal k name nonce v.

  (* aesgcmEncryptor.DecryptFor *)
  Definition decrypt (k name data : bytes) : option bytes :=
    if (List.length data <? nonce_size)%nat then None
    else open_ k name (firstn nonce_size data) (skipn nonce_size data).

  (* newAESGCMEncryptor: the key must decode and have an AES key length *)
  Definition valid_key_len (k : bytes) : bool :=
    let n := List.length k in (n =? 16)%nat || (n =? 24)%nat || (n =? 32)%nat.
  Definition new_encryptor (key_b64 : bytes) : option bytes :=
    match decode_key key_b64 with
    | Some k => if valid_key_len k then Some k else None
    | None => None
    end.

  (* the result of Open *)
  Inductive open_result := OpenErr | OpenOk (enc : option bytes).

  (* WithEncryption(key) *)
  Definition with_encryption (key : bytes) : open_result :=
    match key with
    | [] => OpenErr
    | _ => match new_encryptor key with Some k => OpenOk (Some k) | None => OpenErr end
    end.

  (* fromURL: encrypt=on|aesgcm switches it on; the key is encrypt_key or else FSCACHE_ENCRYPT_KEY *)
  Definition dsn_requests_encryption (encrypt_param : bytes) : bool :=
    beq encrypt_param (bs "on") || beq encrypt_param (bs "aesgcm").
  Definition from_url (encrypt_param key_param env_key : bytes) : open_result :=
    if dsn_requests_encryption encrypt_param then
      with_encryption (match key_param with [] => env_key | _ => key_param end)
    else OpenOk None.

  (* what set writes to the file, and what get makes of a file *)
  (* [name]: the key the value is stored under / asked for *)
  Definition file_bytes (enc : option bytes) (name nonce v : bytes) : bytes :=
    match enc with Some k => encrypt k name nonce v | None => v end.
  Definition read_file (enc : option bytes) (name data : bytes) : option bytes :=
    match enc with Some k => decrypt k name data | None => Some data end.
End Aead.

(* base64.URLEncoding.DecodeString (padded, not strict: CR and LF are skipped, trailing bits are not checked) *)
Definition decode_key_padded (s : bytes) : option bytes :=
  let s := filter (fun c => negb ((c =? 13) || (c =? 10))) s in
  if (Nat.modulo (List.length s) 4 =? 0)%nat then
    match rev s with
    | 61 :: 61 :: r => b64_decode (rev r)
    | 61 :: r => b64_decode (rev r)
    | _ => b64_decode s
    end
  else None.

(* the wiring as the code has it, run against the implementation by the check *)
Definition from_url_go : bytes -> bytes -> bytes -> open_result := from_url decode_key_padded.
Definition with_encryption_go : bytes -> open_result := with_encryption decode_key_padded.
