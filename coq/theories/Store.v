(* Store.v — the built-in backends.
   memcache: a map (store/memcache/memcache.go; copies in and out).
   fscache: store/fscache/filenamer.go (base64url without padding, fragmentation with directory
   markers) and the get/set/delete/keys programs of store/fscache/fscache.go over a model of the
   directory tree that os.Root operates on (files and directories as a finite map from paths).
   Encryption is the identity at this level (Decrypt (Encrypt v) = v, see C17); reopening a backend on
   the same directory yields a handle on the same tree. *)
From HC Require Export Base.
Open Scope Z_scope.

(* ---------- base64url, RFC 4648 §5, no padding ---------- *)
Definition b64_char (n : Z) : Z :=
  if n <? 26 then 65 + n
  else if n <? 52 then 97 + (n - 26)
  else if n <? 62 then 48 + (n - 52)
  else if n =? 62 then 45 else 95.

Fixpoint b64_encode (s : bytes) : bytes :=
  match s with
  | [] => []
  | [a] => [b64_char (a / 4); b64_char ((a mod 4) * 16)]
  | [a; b] => [b64_char (a / 4); b64_char ((a mod 4) * 16 + b / 16); b64_char ((b mod 16) * 4)]
  | a :: b :: c :: r =>
      b64_char (a / 4) :: b64_char ((a mod 4) * 16 + b / 16) ::
      b64_char ((b mod 16) * 4 + c / 64) :: b64_char (c mod 64) :: b64_encode r
  end.

Definition b64_val (c : Z) : option Z :=
  if (65 <=? c) && (c <=? 90) then Some (c - 65)
  else if (97 <=? c) && (c <=? 122) then Some (c - 97 + 26)
  else if (48 <=? c) && (c <=? 57) then Some (c - 48 + 52)
  else if c =? 45 then Some 62 else if c =? 95 then Some 63 else None.

Fixpoint b64_decode (s : bytes) : option bytes :=
  match s with
  | [] => Some []
  | [_] => None
  | [w; x] =>
      match b64_val w, b64_val x with
      | Some a, Some b => Some [a * 4 + b / 16]
      | _, _ => None
      end
  | [w; x; y] =>
      match b64_val w, b64_val x, b64_val y with
      | Some a, Some b, Some c => Some [a * 4 + b / 16; (b mod 16) * 16 + c / 4]
      | _, _, _ => None
      end
  | w :: x :: y :: z :: r =>
      match b64_val w, b64_val x, b64_val y, b64_val z, b64_decode r with
      | Some a, Some b, Some c, Some d, Some t =>
          Some (a * 4 + b / 16 :: (b mod 16) * 16 + c / 4 :: (c mod 4) * 64 + d :: t)
      | _, _, _, _, _ => None
      end
  end.

(* ---------- file names ---------- *)
Definition dir_marker : Z := 126.   (* '~' *)
Definition fragment_step : nat := 47.

(* chunks of [n] elements *)
Fixpoint chunks_fuel (fuel : nat) (n : nat) (s : bytes) : list bytes :=
  match fuel with
  | O => []
  | S f => match s with
           | [] => []
           | _ => firstn n s :: chunks_fuel f n (skipn n s)
           end
  end.
Definition chunks (n : nat) (s : bytes) : list bytes := chunks_fuel (S (List.length s)) n s.

Fixpoint mark_dirs (l : list bytes) : list bytes :=
  match l with
  | [] => []
  | [x] => [x]
  | x :: r => (x ++ [dir_marker]) :: mark_dirs r
  end.

(* fragmentFileName: the path as a list of components *)
Definition file_path (key : bytes) : list bytes :=
  let enc := b64_encode key in
  match enc with
  | [] => [[dir_marker]]
  | _ => if (List.length enc <=? 255)%nat then [enc] else mark_dirs (chunks fragment_step enc)
  end.

(* fragmentedFileNameToKey: strip separators and markers, decode *)
Definition key_of_path (p : list bytes) : option bytes :=
  b64_decode (filter (fun c => negb (c =? dir_marker)) (List.concat p)).

(* ---------- the directory tree ---------- *)
Inductive fnode := FFile (content : bytes) | FDir.
Definition path := list bytes.
Fixpoint path_eqb (a b : path) : bool :=
  match a, b with
  | [], [] => true
  | x :: a', y :: b' => beq x y && path_eqb a' b'
  | _, _ => false
  end.
Definition tree := list (path * fnode).

Fixpoint tlookup (p : path) (t : tree) : option fnode :=
  match t with
  | [] => None
  | (p', n) :: r => if path_eqb p p' then Some n else tlookup p r
  end.
Fixpoint tremove (p : path) (t : tree) : tree :=
  match t with
  | [] => []
  | (p', n) :: r => if path_eqb p p' then tremove p r else (p', n) :: tremove p r
  end.
Fixpoint tset (p : path) (n : fnode) (t : tree) : tree :=
  match t with
  | [] => [(p, n)]
  | (p', n') :: r => if path_eqb p p' then (p, n) :: r else (p', n') :: tset p n r
  end.

Inductive fs_error := ENotExist | EIsDir | ENotDir | ENotEmpty.
Inductive fs_result (A : Type) := FOk (a : A) | FErr (e : fs_error).
Arguments FOk {A} a.
Arguments FErr {A} e.

(* proper prefixes of a path, shortest first *)
Fixpoint prefixes (p : path) : list path :=
  match p with
  | [] => []
  | [x] => []
  | x :: r => [x] :: map (cons x) (prefixes r)
  end.

(* MkdirAll of the parent directories *)
Fixpoint mkdirs (ds : list path) (t : tree) : fs_result tree :=
  match ds with
  | [] => FOk t
  | d :: r =>
      match tlookup d t with
      | Some (FFile _) => FErr ENotDir
      | Some FDir => mkdirs r t
      | None => mkdirs r (tset d FDir t)
      end
  end.

Fixpoint is_prefix (a b : path) : bool :=
  match a, b with
  | [], _ => true
  | x :: a', y :: b' => beq x y && is_prefix a' b'
  | _, [] => false
  end.
Definition has_children (p : path) (t : tree) : bool :=
  existsb (fun pn => is_prefix p (fst pn) && negb (path_eqb p (fst pn))) t.

(* set: MkdirAll(dir); write a temporary file; rename it onto the name (rename over a directory fails) *)
Definition fs_set (key value : bytes) (t : tree) : fs_result tree :=
  let p := file_path key in
  match mkdirs (prefixes p) t with
  | FErr e => FErr e
  | FOk t1 =>
      match tlookup p t1 with
      | Some FDir => FErr EIsDir
      | _ => FOk (tset p (FFile value) t1)
      end
  end.

Definition fs_get (key : bytes) (t : tree) : fs_result bytes :=
  let p := file_path key in
  if existsb (fun d => match tlookup d t with Some (FFile _) => true | _ => false end) (prefixes p)
  then FErr ENotDir
  else match tlookup p t with
       | Some (FFile v) => FOk v
       | Some FDir => FErr EIsDir
       | None => FErr ENotExist
       end.

(* Remove: unlink a file; rmdir an empty directory *)
Definition fs_delete (key : bytes) (t : tree) : fs_result tree :=
  let p := file_path key in
  if existsb (fun d => match tlookup d t with Some (FFile _) => true | _ => false end) (prefixes p)
  then FErr ENotDir
  else match tlookup p t with
       | Some (FFile _) => FOk (tremove p t)
       | Some FDir => if has_children p t then FErr ENotEmpty else FOk (tremove p t)
       | None => FErr ENotExist
       end.

(* Keys: every regular file that is not a temporary, decoded, filtered by prefix *)
Definition fs_keys (prefix : bytes) (t : tree) : list bytes :=
  flat_map (fun pn =>
    match snd pn with
    | FFile _ => match key_of_path (fst pn) with
                 | Some k => if has_prefix prefix k then [k] else []
                 | None => []
                 end
    | FDir => []
    end) t.

(* ---------- operations and the map specification ---------- *)
Inductive sop := OSet (k v : bytes) | OGet (k : bytes) | ODel (k : bytes) | OKeys (prefix : bytes) | OReopen.
Inductive sres := ROk | RVal (v : bytes) | RNotExist | RFail | RKeys (l : list bytes).

Definition kvmap := list (bytes * bytes).

Definition spec_step (m : kvmap) (o : sop) : kvmap * sres :=
  match o with
  | OSet k v => (aset k v m, ROk)
  | OGet k => (m, match alookup k m with Some v => RVal v | None => RNotExist end)
  | ODel k => (aremove k m, if amem k m then ROk else RNotExist)
  | OKeys p => (m, RKeys (sort_bytes (map fst (filter (fun kv => has_prefix p (fst kv)) m))))
  | OReopen => (m, ROk)
  end.

Definition fs_step (t : tree) (o : sop) : tree * sres :=
  match o with
  | OSet k v => match fs_set k v t with FOk t' => (t', ROk) | FErr _ => (t, RFail) end
  | OGet k => (t, match fs_get k t with FOk v => RVal v | FErr ENotExist => RNotExist | FErr _ => RFail end)
  | ODel k => match fs_delete k t with FOk t' => (t', ROk) | FErr ENotExist => (t, RNotExist) | FErr _ => (t, RFail) end
  | OKeys p => (t, RKeys (sort_bytes (fs_keys p t)))
  | OReopen => (t, ROk)
  end.

Fixpoint run_ops {S} (step : S -> sop -> S * sres) (s : S) (ops : list sop) : list sres :=
  match ops with
  | [] => []
  | o :: r => let '(s', res) := step s o in res :: run_ops step s' r
  end.
