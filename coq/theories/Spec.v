(* Spec.v — the specification side: RFC 9111 age and lifetime with saturating arithmetic, a
   spelling-insensitive reading of Cache-Control, "needs validation", and boolean monitors over
   observed histories.  Nothing here follows the structure of the Go code; the monitors are evaluated
   on what the implementation did (through the extracted code) and are what the theorems of Props/
   state about every history of the model. *)
From HC Require Export Run.
Open Scope Z_scope.

(* ---------- Cache-Control ---------- *)
(* The specification reads Cache-Control through [parse_cc] (CC.v); that this reading depends only on
   the meaning of the field and not on its spelling is what Props/C12.v proves against the abstract
   syntax of RFC 9111 §5.2.  Arguments are taken in token or quoted-string form; delta-seconds are
   1*DIGIT and unbounded here. *)
Definition spec_cc (h : headers) : directives := parse_cc h.
Definition sd_has (n : bytes) (d : directives) : bool := amem n d.
Definition sd_arg (n : bytes) (d : directives) : option bytes :=
  option_map parse_quoted_string (alookup n d).

Definition spec_delta (a : bytes) : option Z :=
  if all_digits a && negb (beq a []) then Some (digits_val 0 a) else None.
(* seconds -> saturated nanoseconds *)
Definition sat_ns (secs : Z) : Z := Z.min max64 (secs * second).
Definition sat_add (a b : Z) : Z := Z.min max64 (a + b).

(* a duration-valued directive: None = absent or unusable *)
Definition sd_duration (n : bytes) (d : directives) : option Z :=
  match sd_arg n d with
  | Some a => option_map sat_ns (spec_delta a)
  | None => None
  end.

(* ---------- age and lifetime (RFC 9111 §4.2) ---------- *)
Definition spec_time (v : bytes) : option Z := raw_time v.

(* the Age value a stored response was received with (delta-seconds; anything else counts as absent) *)
Definition spec_age_value (h : headers) : Z :=
  match spec_delta (hget (bs "Age") h) with Some a => sat_ns a | None => 0 end.

Definition spec_current_age (h : headers) (request_time response_time now : Z) : Z :=
  let apparent :=
    match spec_time (hget (bs "Date") h) with
    | Some d => Z.max 0 (Z.min max64 (response_time - d))
    | None => 0
    end in
  let delay := Z.max 0 (Z.min max64 (response_time - request_time)) in
  let corrected := sat_add (spec_age_value h) delay in
  let initial := Z.max apparent corrected in
  sat_add initial (Z.max 0 (Z.min max64 (now - response_time))).

Definition spec_heuristic_status (s : Z) : bool :=
  (s =? 200) || (s =? 203) || (s =? 204) || (s =? 206) || (s =? 300) || (s =? 301) || (s =? 308) ||
  (s =? 404) || (s =? 405) || (s =? 410) || (s =? 414) || (s =? 501).

Definition spec_lifetime_with (heuristic_ok : Z -> bool) (status : Z) (h : headers) : Z :=
  let cc := spec_cc h in
  match sd_arg (bs "max-age") cc with
  | Some arg => match spec_delta arg with Some s => sat_ns s | None => 0 end
  | None =>
      match hget (bs "Expires") h with
      | (_ :: _) as ex =>
          match spec_time ex, spec_time (hget (bs "Date") h) with
          | Some e, Some d => if d <? e then Z.min max64 (e - d) else 0
          | _, _ => 0
          end
      | [] =>
          if heuristic_ok status || sd_has (bs "public") cc then
            match spec_time (hget (bs "Last-Modified") h), spec_time (hget (bs "Date") h) with
            | Some lm, Some d => if lm <? d then Z.min max64 (d - lm) / 10 else 0
            | _, _ => 0
            end
          else 0
      end
  end.

(* safety properties allow heuristics for every status RFC 9111 §4.2.2 / RFC 9110 §15.1 allow *)
Definition spec_lifetime := spec_lifetime_with spec_heuristic_status.
(* liveness (C09) is promised only for the statuses the cache documents as heuristically cacheable *)
Definition doc_lifetime := spec_lifetime_with is_heuristically_cacheable.

(* ---------- views of an observed history ---------- *)
Definition hist := list (request * exchange_obs).

Definition all_events (h : hist) : list event :=
  flat_map (fun x => x_events (snd x) ++ x_bg_events (snd x)) h.

(* the last entry written under key k, scanning events left to right; a delete forgets it *)
Fixpoint last_entry (k : bytes) (evs : list event) (acc : option stored_entry) : option stored_entry :=
  match evs with
  | [] => acc
  | EvSetEntry k' e :: r => last_entry k r (if beq k k' then Some e else acc)
  | EvDel k' _ :: r => last_entry k r (if beq k k' then None else acc)
  | _ :: r => last_entry k r acc
  end.

Fixpoint find_call (idx : Z) (evs : list event) : option (request * Z * Z * origin_reply) :=
  match evs with
  | [] => None
  | EvCall i q a b rep :: r => if i =? idx then Some (q, a, b, rep) else find_call idx r
  | _ :: r => find_call idx r
  end.

Definition fg_calls (o : exchange_obs) : list (Z * request * Z * Z * origin_reply) :=
  flat_map (fun ev => match ev with EvCall i q a b rep => [(i, q, a, b, rep)] | _ => [] end) (x_events o).

(* the entry this exchange read successfully from the store, with its key *)
Fixpoint read_entry_key (evs : list event) : option bytes :=
  match evs with
  | [] => None
  | EvGetEntry k true :: _ => Some k
  | _ :: r => read_entry_key r
  end.

Definition call_index (h : headers) : option Z :=
  let v := hget (bs "X-Call") h in
  if all_digits v && negb (beq v []) then Some (digits_val 0 v) else None.

(* the scripted reply an origin call received *)
Definition is_conditional (q : request) : bool :=
  negb (beq (hget (bs "If-None-Match") (q_hdr q)) []) || negb (beq (hget (bs "If-Modified-Since") (q_hdr q)) []).
Definition scripted_reply (script : list (Z * origin_reply * origin_reply)) (idx : Z) (cond : bool) : origin_reply :=
  match nth_error script (Z.to_nat idx) with
  | Some (_, r, rc) => if cond then rc else r
  | None => RErr
  end.
Definition reply_status (r : origin_reply) : option Z :=
  match r with RResp x => Some (p_status x) | RErr => None end.

Inductive how :=
| FromOrigin (idx : Z)        (* the reply of an origin call of this exchange, passed on *)
| Validated (idx : Z)         (* a stored response, after a 304 to call idx of this exchange *)
| FromStore                   (* a stored response, no successful validation in this exchange *)
| Synth504
| Failed                      (* an error was returned *)
| Panicked
| Other.                      (* none of the above: unexplained *)

Section View.
  Variable script : list (Z * origin_reply * origin_reply).

  Definition call_reply (c : Z * request * Z * Z * origin_reply) : origin_reply :=
    let '(i, q, _, _, rep) := c in
    match rep with
    | RErr => RErr
    | RResp _ => scripted_reply script i (is_conditional q)
    end.

  Definition classify (o : exchange_obs) : how :=
    match x_result o with
    | Crashed => Panicked
    | OutOfModel => Other
    | Done OPanic => Panicked
    | Done OErr => Failed
    | Done (OResp r) =>
        let calls := fg_calls o in
        match call_index (p_hdr r) with
        | None =>
            if (p_status r =? 504) && (match calls with [] => true | _ => false end) then Synth504 else Other
        | Some c =>
            let own := existsb (fun cl => let '(i, _, _, _, _) := cl in
                          (i =? c) && match reply_status (call_reply cl) with
                                      | Some s => s =? p_status r | None => false end) calls in
            if own then FromOrigin c
            else
              match find (fun cl => match reply_status (call_reply cl) with Some 304 => true | _ => false end) calls with
              | Some (i, _, _, _, _) => Validated i
              | None => match read_entry_key (x_events o) with Some _ => FromStore | None => Other end
              end
        end
    end.
End View.

(* ---------- what a stored response allows (spec) ---------- *)
Record stored_view := {
  sv_status : Z; sv_hdr : headers; sv_body : Z;
  sv_request_time : Z; sv_response_time : Z     (* true instants of the exchange that produced it *)
}.

(* the stored response an exchange read, with the true instants of the origin call it came from
   (looked up through its X-Call field in the calls observed so far) *)
Fixpoint events_until_read (evs : list event) : list event :=
  match evs with
  | [] => []
  | EvGetEntry k true :: _ => []
  | ev :: r => ev :: events_until_read r
  end.

Definition stored_of (prefix_events : list event) (o : exchange_obs) : option stored_view :=
  match read_entry_key (x_events o) with
  | None => None
  | Some k =>
      match last_entry k (prefix_events ++ events_until_read (x_events o)) None with
      | None => None
      | Some e =>
          match call_index (e_hdr e) with
          | None => None
          | Some c =>
              match find_call c (prefix_events ++ x_events o) with
              | Some (_, a, b, _) =>
                  Some {| sv_status := e_status e; sv_hdr := e_hdr e; sv_body := e_body e;
                          sv_request_time := a; sv_response_time := b |}
              | None => None
              end
          end
      end
  end.

Definition sv_age (s : stored_view) (now : Z) : Z :=
  spec_current_age (sv_hdr s) (sv_request_time s) (sv_response_time s) now.
Definition sv_life (s : stored_view) : Z := spec_lifetime (sv_status s) (sv_hdr s).

(* unqualified no-cache: present without argument, or with an empty one *)
Definition sv_no_cache_unqualified (cc : directives) : bool :=
  match sd_arg (bs "no-cache") cc with
  | Some a => beq a []
  | None => false
  end.

Definition needs_validation_with (life : Z) (s : stored_view) (q : request) (now : Z) : bool :=
  let cc := spec_cc (sv_hdr s) in
  let rcc := spec_cc (q_hdr q) in
  sv_no_cache_unqualified cc ||
  ((life <=? sv_age s now) && sd_has (bs "must-revalidate") cc) ||
  sd_has (bs "no-cache") rcc ||
  match sd_duration (bs "max-age") rcc with
  | Some m => m <? sv_age s now
  | None => false      (* absent, or unusable and therefore ignored *)
  end.

Definition needs_validation (s : stored_view) (q : request) (now : Z) : bool :=
  needs_validation_with (sv_life s) s q now.

(* C01: may the stored response be used without contacting the origin? *)
Definition fresh_enough (s : stored_view) (q : request) (now : Z) : bool :=
  let rcc := spec_cc (q_hdr q) in
  let life0 := sv_life s in
  let life := match sd_duration (bs "max-age") rcc with Some m => Z.min life0 m | None => life0 end in
  let age := sv_age s now in
  let min_fresh := match sd_duration (bs "min-fresh") rcc with Some m => m | None => 0 end in
  (age <? life) && (sat_add age min_fresh <=? life).

(* staleness below an allowance w; an allowance too large to represent is unlimited *)
Definition within_window (age life w : Z) : bool :=
  (age <? sat_add life w) || (sat_add life w =? max64).

Definition staleness_allowed (s : stored_view) (q : request) (now : Z) : bool :=
  let rcc := spec_cc (q_hdr q) in
  let cc := spec_cc (sv_hdr s) in
  let life := sv_life s in
  let age := sv_age s now in
  sd_has (bs "only-if-cached") rcc ||
  match sd_arg (bs "max-stale") rcc with
  | Some [] => true
  | Some a => match spec_delta a with
              | Some m => within_window age life (sat_ns m)
              | None => false
              end
  | None => false
  end ||
  match sd_duration (bs "stale-while-revalidate") cc with
  | Some w => within_window age life w
  | None => false
  end.

(* ---------- verdicts ---------- *)
Inductive verdict := VNa | VOk | VBad (code : Z).

Definition vand (a b : verdict) : verdict :=
  match a with
  | VBad _ => a
  | VNa => b
  | VOk => match b with VBad _ => b | _ => VOk end
  end.

Section Monitors.
  Variable script : list (Z * origin_reply * origin_reply).
  Variable prefix_events : list event.     (* everything observed before this exchange *)
  Variable q : request.
  Variable o : exchange_obs.

  Definition the_stored := stored_of prefix_events o.
  Definition the_how := classify script o.

  (* C01 — a stored response is used without contacting the origin only while fresh, or with explicit leave *)
  Definition mon_C01 : verdict :=
    match the_how with
    | FromStore =>
        match fg_calls o with
        | [] =>
            match the_stored with
            | Some s => if fresh_enough s q (x_t0 o) || staleness_allowed s q (x_t0 o) then VOk else VBad 1
            | None => VBad 2
            end
        | _ => VNa   (* the origin was contacted (e.g. stale-if-error): C13 *)
        end
    | _ => VNa
    end.

  (* features of an unvalidated reuse, for telling violation classes apart:
     served-as (HIT 1000 / STALE 2000) + 1 stored unqualified no-cache + 2 stale and must-revalidate
     + 4 request no-cache + 8 request max-age exceeded + 16 only-if-cached + 32 max-stale
     + 64 a background revalidation was started + 128 the origin was contacted in the foreground *)
  Definition served_as : Z :=
    match x_result o with
    | Done (OResp r) =>
        let v := hget status_header (p_hdr r) in
        if beq v (bs "HIT") then 1000 else if beq v (bs "STALE") then 2000 else 0
    | _ => 0
    end.
  Definition bit (b : bool) (w : Z) : Z := if b then w else 0.
  Definition c02_code (s : stored_view) : Z :=
    let cc := spec_cc (sv_hdr s) in
    let rcc := spec_cc (q_hdr q) in
    let now := x_t0 o in
    served_as
    + bit (sv_no_cache_unqualified cc) 1
    + bit ((sv_life s <=? sv_age s now) && sd_has (bs "must-revalidate") cc) 2
    + bit (sd_has (bs "no-cache") rcc) 4
    + bit (match sd_duration (bs "max-age") rcc with Some m => m <? sv_age s now | None => false end) 8
    + bit (sd_has (bs "only-if-cached") rcc) 16
    + bit (sd_has (bs "max-stale") rcc) 32
    + bit (existsb (fun ev => match ev with EvCall _ _ _ _ _ => true | _ => false end) (x_bg_events o)) 64
    + bit (match fg_calls o with [] => false | _ => true end) 128.

  (* C02 — a response that needs validation is returned only after a 304 to the right conditional request *)
  Definition mon_C02 : verdict :=
    match the_stored with
    | None => VNa
    | Some s =>
        let nv := needs_validation s q (x_t0 o) in
        match the_how with
        | FromStore => if nv then VBad (c02_code s) else VOk
        | Validated i =>
            match find_call i (x_events o) with
            | Some (cq, _, _, _) =>
                let et := hget (bs "Etag") (sv_hdr s) in
                let lm := hget (bs "Last-Modified") (sv_hdr s) in
                if beq (hget (bs "If-None-Match") (q_hdr cq)) (match et with [] => hget (bs "If-None-Match") (q_hdr q) | _ => et end)
                   && beq (hget (bs "If-Modified-Since") (q_hdr cq)) (match lm with [] => hget (bs "If-Modified-Since") (q_hdr q) | _ => lm end)
                then VOk else VBad 2
            | None => VBad 3
            end
        | _ => VNa
        end
    end.

  (* C18 — only-if-cached: no origin call whatsoever, and the answer is a usable stored response or a 504 *)
  Definition mon_C18 : verdict :=
    (* any request: one the cache never answers from its store (another method, a Range request) gets the 504 *)
    if sd_has (bs "only-if-cached") (spec_cc (q_hdr q)) then
      match fg_calls o, flat_map (fun ev => match ev with EvCall i _ _ _ _ => [i] | _ => [] end) (x_bg_events o) with
      | [], [] =>
          match the_how with
          | Synth504 => VOk
          | FromStore =>
              match the_stored with
              | Some s => if needs_validation s q (x_t0 o) then VBad 2 else VOk
              | None => VBad 3
              end
          | _ => VBad 4
          end
      | _, _ => VBad 1
      end
    else VNa.
End Monitors.

(* ---------- all monitors over a whole observed history ---------- *)
Record verdicts := { vd_how : how; vd_C01 : verdict; vd_C02 : verdict; vd_C18 : verdict }.

Fixpoint monitor_from (script : list (Z * origin_reply * origin_reply)) (prefix : list event) (h : hist)
  : list verdicts :=
  match h with
  | [] => []
  | (q, o) :: r =>
      {| vd_how := classify script o;
         vd_C01 := mon_C01 script prefix q o;
         vd_C02 := mon_C02 script prefix q o;
         vd_C18 := mon_C18 script prefix q o |}
      :: monitor_from script (prefix ++ x_events o ++ x_bg_events o) r
  end.

Definition monitor_history script (h : hist) : list verdicts := monitor_from script [] h.
