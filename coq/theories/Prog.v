(* Prog.v — effect trees: the transport is a function from a request to a tree whose nodes are the
   store, origin and clock operations of roundtripper.go; interpreters (Run.v, Conc.v) give the
   sequential, adversarial, interleaving and timed readings of one and the same definition. *)
From HC Require Export Fresh Vary Url.
Open Scope Z_scope.

Record request := { q_method : bytes; q_url : url; q_hdr : headers }.

(* A response.  The body is a ghost token: the index of the origin call that produced it
   (the correspondence harness makes it observable by putting the index into the body bytes);
   [p_body_ok = false] models a body stream that fails before its end. *)
Record response := { p_status : Z; p_hdr : headers; p_body : Z; p_body_ok : bool }.

Inductive origin_reply := RErr | RResp (r : response).

Inductive outcome := OResp (r : response) | OErr | OPanic.

(* Typed store answers: [None] = the backend returned an error, the key is absent, or the bytes
   do not decode.  Elements of a decoded index may be JSON null. *)
Inductive prog (A : Type) : Type :=
| Ret (a : A)
| GetRefs (k : bytes) (c : option (list (option ref)) -> prog A)
| GetEntry (k : bytes) (c : option stored_entry -> prog A)
| SetEntry (k : bytes) (e : stored_entry) (c : prog A)
| SetRefs (k : bytes) (l : list (option ref)) (c : prog A)
| Del (k : bytes) (c : prog A)
| Origin (r : request) (c : origin_reply -> prog A)
| Now (c : Z -> prog A)
| Spawn (p : prog unit) (c : prog A)
| Crash                       (* a Go panic (nil dereference) *)
| Unmodelled.                 (* the input left the modelled domain *)

Arguments Ret {A} a.
Arguments GetRefs {A} k c.
Arguments GetEntry {A} k c.
Arguments SetEntry {A} k e c.
Arguments SetRefs {A} k l c.
Arguments Del {A} k c.
Arguments Origin {A} r c.
Arguments Now {A} c.
Arguments Spawn {A} p c.
Arguments Crash {A}.
Arguments Unmodelled {A}.

Fixpoint bind {A B : Type} (p : prog A) (f : A -> prog B) : prog B :=
  match p with
  | Ret a => f a
  | GetRefs k c => GetRefs k (fun x => bind (c x) f)
  | GetEntry k c => GetEntry k (fun x => bind (c x) f)
  | SetEntry k e c => SetEntry k e (bind c f)
  | SetRefs k l c => SetRefs k l (bind c f)
  | Del k c => Del k (bind c f)
  | Origin r c => Origin r (fun x => bind (c x) f)
  | Now c => Now (fun x => bind (c x) f)
  | Spawn p c => Spawn p (bind c f)
  | Crash => Crash
  | Unmodelled => Unmodelled
  end.

Notation "x <- p ;; q" := (bind p (fun x => q)) (at level 61, p at next level, right associativity).

(* delete a list of keys, each at most once *)
Fixpoint del_all {A : Type} (ks : list bytes) (done : list bytes) (c : list bytes -> prog A) : prog A :=
  match ks with
  | [] => c done
  | k :: r =>
      if existsb (beq k) done then del_all r done c
      else Del k (del_all r (k :: done) c)
  end.
