(* Transport.v — roundtripper.go, helpers.go, internal/validationresponsehandler.go,
   internal/responsestorerer.go, internal/cacheinvalidator.go, internal/cacheabilityevaluator.go,
   internal/requestmethodchecker.go, internal/header.go, internal/clock.go (FixDateHeader),
   as effect trees, function by function after the Go source. *)
From HC Require Export Prog.
Open Scope Z_scope.

(* ---- configuration ---- *)
Record config := { cfg_swr_timeout : Z }.
Definition default_swr_timeout : Z := 5 * second.
(* newTransport: cmp.Or(max(t, 0), DefaultSWRTimeout) *)
Definition effective_swr_timeout (t : Z) : Z :=
  let m := Z.max t 0 in if m =? 0 then default_swr_timeout else m.

(* ---- internal/header.go ---- *)
Inductive cache_status := HIT | MISS | STALE | REVALIDATED | BYPASS.
Definition status_value (s : cache_status) : bytes :=
  match s with
  | HIT => bs "HIT" | MISS => bs "MISS" | STALE => bs "STALE"
  | REVALIDATED => bs "REVALIDATED" | BYPASS => bs "BYPASS"
  end.
Definition status_legacy (s : cache_status) : bool :=
  match s with HIT | STALE | REVALIDATED => true | _ => false end.
Definition status_header : bytes := bs "X-Httpcache-Status".
Definition from_cache_header : bytes := bs "X-From-Cache".
Definition apply_status (s : cache_status) (h : headers) : headers :=
  let h1 := hset status_header (status_value s) h in
  if status_legacy s then hset from_cache_header (bs "1") h1 else hdel from_cache_header h1.

Definition with_hdr (r : response) (h : headers) : response :=
  {| p_status := p_status r; p_hdr := h; p_body := p_body r; p_body_ok := p_body_ok r |}.

(* ---- internal/requestmethodchecker.go, helpers.go ---- *)
Definition is_get (m : bytes) : bool := beq m (bs "GET").
Definition is_request_method_understood (q : request) : bool :=
  is_get (q_method q) && beq (hget (bs "Range") (q_hdr q)) [].
Definition safe_methods : list bytes :=
  [bs "GET"; bs "HEAD"; bs "OPTIONS"; bs "TRACE"; bs "PROPFIND"; bs "REPORT"; bs "SEARCH"; bs "PRI"; bs "QUERY"].
Definition is_unsafe_method (m : bytes) : bool := negb (in_names m safe_methods).
Definition is_non_error_status (s : Z) : bool := (200 <=? s) && (s <? 400).

(* ---- internal/clock.go: FixDateHeader ---- *)
Definition fix_date_header (h : headers) (received_at : Z) : headers :=
  match raw_time (hget (bs "Date") h) with
  | Some t => if t =? go_zero_time then hset (bs "Date") (format_imf_fixdate (received_at / second)) h else h
  | None => hset (bs "Date") (format_imf_fixdate (received_at / second)) h
  end.

(* ---- internal/cacheabilityevaluator.go: canStoreResponse ---- *)
Definition can_store_response (r : response) (req_cc res_cc : directives) : bool :=
  let s := p_status r in
  if (s <? 200) || (s =? 102) || (600 <=? s) then false
  else if ((s =? 206) || (s =? 304) || resp_must_understand res_cc) && negb (is_status_understood s) then false
  else if resp_no_store res_cc || req_no_store req_cc then false
  else resp_public res_cc || negb (beq (hget (bs "Expires") (p_hdr r)) []) ||
       resp_max_age_present res_cc || is_heuristically_cacheable s.

(* ---- internal/helpers.go: hop-by-hop ---- *)
Definition hop_by_hop_fixed : list bytes :=
  [bs "Connection"; bs "Proxy-Connection"; bs "Keep-Alive"; bs "Te"; bs "Transfer-Encoding";
   bs "Upgrade"; bs "Proxy-Authenticate"; bs "Proxy-Authentication-Info"; bs "Proxy-Authorization"].
(* plus the fields named by every Connection field line *)
Definition hop_by_hop_headers (h : headers) : list bytes :=
  hop_by_hop_fixed ++ flat_map trimmed_csv_canonical (hvalues (bs "Connection") h).
(* delete(resp.Header, hdr): direct map deletion, no canonicalisation *)
Definition remove_hop_by_hop (h : headers) : headers :=
  fold_left (fun acc n => aremove n acc) (hop_by_hop_headers h) h.

(* updateStoredHeaders *)
Definition update_stored_headers (stored fresh : headers) : headers :=
  let omitted := bs "Content-Length" :: hop_by_hop_headers fresh in
  fold_left (fun acc kv => if in_names (fst kv) omitted then acc else aset (fst kv) (snd kv) acc)
            fresh stored.

(* ---- helpers.go: withConditionalHeaders ---- *)
Definition with_conditional_headers (q : request) (stored : headers) : request :=
  let h1 := match hget (bs "ETag") stored with
            | [] => q_hdr q
            | et => hset (bs "If-None-Match") et (q_hdr q)
            end in
  let h2 := match hget (bs "Last-Modified") stored with
            | [] => h1
            | lm => hset (bs "If-Modified-Since") lm h1
            end in
  {| q_method := q_method q; q_url := q_url q; q_hdr := h2 |}.

(* ---- helpers.go: make504Response ---- *)
Definition response_504 : response :=
  {| p_status := 504;
     p_hdr := [(bs "Cache-Control", [bs "no-cache"]); (bs "Content-Length", [bs "0"]);
               (status_header, [bs "BYPASS"])];
     p_body := -1; p_body_ok := true |}.

(* ---- entries ---- *)
Definition entry_of (id : bytes) (r : response) (req_at recv_at : Z) : stored_entry :=
  {| e_id := id; e_status := p_status r; e_hdr := p_hdr r; e_body := p_body r; e_req_at := req_at; e_recv_at := recv_at |}.
Definition response_of (e : stored_entry) : response :=
  {| p_status := e_status e; p_hdr := e_hdr e; p_body := e_body e; p_body_ok := true |}.
Definition entry_with_hdr (e : stored_entry) (h : headers) : stored_entry :=
  {| e_id := e_id e; e_status := e_status e; e_hdr := h; e_body := e_body e; e_req_at := e_req_at e; e_recv_at := e_recv_at e |}.

(* ---- internal/responsestorerer.go: StoreResponse ---- *)
Fixpoint replace_nth {A} (n : nat) (x : A) (l : list A) : list A :=
  match l, n with
  | [], _ => []
  | _ :: r, O => x :: r
  | y :: r, S k => y :: replace_nth k x r
  end.

(* responseCache.SetRefs: of several references to one response ID the last is kept *)
Fixpoint unique_refs_rev (l : list (option ref)) (seen : list bytes) : list (option ref) :=
  match l with
  | [] => []
  | None :: t => None :: unique_refs_rev t seen
  | Some r :: t =>
      if in_names (r_id r) seen then unique_refs_rev t seen
      else Some r :: unique_refs_rev t (r_id r :: seen)
  end.
Definition unique_refs (l : list (option ref)) : list (option ref) := rev (unique_refs_rev (rev l) []).

(* returns the response as mutated by removeHopByHopHeaders *)
Definition store_response (q : request) (r : response) (url_key : bytes)
           (refs : list (option ref)) (req_at recv_at : Z) (ref_index : Z) : prog response :=
  let r1 := with_hdr r (remove_hop_by_hop (p_hdr r)) in
  let vary := join [44] (hvalues (bs "Vary") (p_hdr r1)) in
  match normalize_vary vary (q_hdr q) with
  | None => Unmodelled
  | Some resolved =>
      let id := make_vary_key url_key resolved in
      let new_ref := {| r_id := id; r_vary := vary; r_resolved := resolved;
                        r_recv := date_header (p_hdr r1) |} in
      let refs' :=
        if (ref_index <? 0) || (Z.of_nat (List.length refs) <=? ref_index)
        then refs ++ [Some new_ref]
        else replace_nth (Z.to_nat ref_index) (Some new_ref) refs in
      (* cache.Set fails before reaching the backend when the body cannot be dumped *)
      if p_body_ok r1
      then SetEntry id (entry_of id r1 req_at recv_at) (SetRefs url_key (unique_refs refs') (Ret r1))
      else
        (* DumpResponse has consumed what the broken stream delivered: the caller is left with the
           error and no bytes *)
        SetRefs url_key (unique_refs refs')
          (Ret {| p_status := p_status r1; p_hdr := p_hdr r1; p_body := -1; p_body_ok := false |})
  end.

(* responseCache.GetRefs: null elements of a decoded index are dropped *)
Fixpoint drop_nil_refs (l : list (option ref)) : list (option ref) :=
  match l with
  | [] => []
  | None :: t => drop_nil_refs t
  | Some r :: t => Some r :: drop_nil_refs t
  end.
Definition get_refs_clean {A} (k : bytes) (c : option (list (option ref)) -> prog A) : prog A :=
  GetRefs k (fun ans => c (option_map drop_nil_refs ans)).

(* ---- internal/cacheinvalidator.go ---- *)
(* ResponseIDs(): dereferences every element *)
Fixpoint ref_ids (l : list (option ref)) : option (list bytes) :=
  match l with
  | [] => Some []
  | Some r :: t => option_map (cons (r_id r)) (ref_ids t)
  | None :: _ => None
  end.

Definition location_headers : list bytes := [bs "Location"; bs "Content-Location"].

Fixpoint invalidate_locations {A} (hs : list bytes) (req_url : url) (resp_hdr : headers)
         (done : list bytes) (c : list bytes -> prog A) : prog A :=
  match hs with
  | [] => c done
  | hn :: rest =>
      match hget hn resp_hdr with
      | [] => invalidate_locations rest req_url resp_hdr done c
      | loc =>
          match parse_url loc with
          | None => Unmodelled
          | Some pr =>
              let lu := resolve_reference req_url pr in
              if same_origin req_url lu then
                let k := make_url_key lu in
                get_refs_clean k (fun ans =>
                  let refs := match ans with Some l => l | None => [] end in
                  match ref_ids refs with
                  | None => Crash
                  | Some ids =>
                      del_all (ids ++ [k]) done (fun done' =>
                        invalidate_locations rest req_url resp_hdr done' c)
                  end)
              else invalidate_locations rest req_url resp_hdr done c
          end
      end
  end.

Definition invalidate_cache {A} (req_url : url) (resp_hdr : headers) (refs : list (option ref))
           (key : bytes) (c : prog A) : prog A :=
  match ref_ids refs with
  | None => Crash
  | Some ids =>
      del_all ids [] (fun done =>
        invalidate_locations location_headers req_url resp_hdr done (fun done' =>
          del_all [key] done' (fun _ => c)))
  end.

(* ---- roundTripTimed ---- *)
Definition round_trip_timed {A} (q : request) (c : origin_reply -> Z -> Z -> prog A) : prog A :=
  Now (fun start => Origin q (fun rep => Now (fun stop =>
    match rep with
    | RErr => c RErr start stop
    | RResp r => c (RResp (with_hdr r (fix_date_header (p_hdr r) stop))) start stop
    end))).

(* the fields named by a qualified no-cache are removed from what is handed out without validation *)
Definition strip_qualified (qualified : option (list bytes)) (h : headers) : headers :=
  match qualified with
  | Some fields => fold_left (fun acc fld => hdel fld acc) fields h
  | None => h
  end.

(* ---- internal/validationresponsehandler.go ---- *)
Record reval_ctx := {
  rc_url_key : bytes; rc_start : Z; rc_end : Z; rc_cc_req : directives;
  rc_stored : stored_entry; rc_fresh : freshness;
  rc_refs : list (option ref); rc_ref_index : Z;
  rc_no_stale : bool
}.

Definition handle_validation_response (ctx : reval_ctx) (q : request) (rep : origin_reply) : prog outcome :=
  let stored := rc_stored ctx in
  let is_304 := match rep with RResp r => is_get (q_method q) && (p_status r =? 304) | RErr => false end in
  if is_304 then
    match rep with
    | RResp r =>
        let merged := response_of (entry_with_hdr stored (update_stored_headers (e_hdr stored) (p_hdr r))) in
        if req_no_store (rc_cc_req ctx) || resp_no_store (parse_cc (p_hdr r)) then
          Ret (OResp (with_hdr merged (apply_status REVALIDATED (p_hdr merged))))
        else
          r1 <- store_response q merged (rc_url_key ctx) (rc_refs ctx) (rc_start ctx) (rc_end ctx) (rc_ref_index ctx) ;;
          Ret (OResp (with_hdr r1 (apply_status REVALIDATED (p_hdr r1))))
    | RErr => Crash
    end
  else
    let sie_candidate :=
      match rep with
      | RErr => true
      | RResp r => is_stale_error_allowed (p_status r)
      end && is_get (q_method q) in
    let after_sie : prog outcome :=
      match rep with
      | RErr => Ret OErr
      | RResp r =>
          let cc_resp := parse_cc (p_hdr r) in
          if can_store_response r (rc_cc_req ctx) cc_resp then
            r1 <- store_response q r (rc_url_key ctx) (rc_refs ctx) (rc_start ctx) (rc_end ctx) (rc_ref_index ctx) ;;
            Ret (OResp (with_hdr r1 (apply_status MISS (p_hdr r1))))
          else if is_unsafe_method (q_method q) && is_non_error_status (p_status r) then
            invalidate_cache (q_url q) (p_hdr r) (rc_refs ctx) (rc_url_key ctx)
              (Ret (OResp (with_hdr r (apply_status BYPASS (p_hdr r)))))
          else Ret (OResp (with_hdr r (apply_status BYPASS (p_hdr r))))
      end in
    if negb (rc_no_stale ctx) && sie_candidate then
      let stored_cc := parse_cc (e_hdr stored) in
      Now (fun now =>
        if can_stale_on_error (rc_fresh ctx)
             [resp_stale_if_error stored_cc; req_stale_if_error (rc_cc_req ctx)] now then
          (* the validation did not succeed: the fields named by a qualified no-cache are not replayed *)
          let h0 := strip_qualified (match resp_no_cache stored_cc with Some raw => no_cache_fields raw | None => None end) (e_hdr stored) in
          let h := hset (bs "Age") (age_header_value (rc_fresh ctx) now) h0 in
          Ret (OResp (response_of (entry_with_hdr stored (apply_status STALE h))))
        else after_sie)
    else after_sie.

(* ---- roundtripper.go ---- *)
Definition handle_cache_miss (q : request) (url_key : bytes) (refs : list (option ref)) (ref_index : Z)
  : prog outcome :=
  let cc_req := parse_cc (q_hdr q) in
  if req_only_if_cached cc_req then Ret (OResp response_504)
  else
    round_trip_timed q (fun rep start stop =>
      match rep with
      | RErr => Ret OErr
      | RResp r =>
          let cc_resp := parse_cc (p_hdr r) in
          if negb (p_status r =? 304) && can_store_response r cc_req cc_resp then
            r1 <- store_response q r url_key refs start stop ref_index ;;
            Ret (OResp (with_hdr r1 (apply_status MISS (p_hdr r1))))
          else Ret (OResp (with_hdr r (apply_status MISS (p_hdr r))))
      end).

Definition serve_from_cache (stored : stored_entry) (f : freshness) (now : Z)
           (qualified : option (list bytes)) : outcome :=
  let h0 := strip_qualified qualified (e_hdr stored) in
  let h1 := hset (bs "Age") (age_header_value f now) h0 in
  OResp (response_of (entry_with_hdr stored (apply_status (if f_expired f then STALE else HIT) h1))).

(* slices.IndexFunc(refs, ref != nil && ref.ResponseID == id) *)
Fixpoint ref_index_of (id : bytes) (l : list (option ref)) (i : Z) : Z :=
  match l with
  | [] => -1
  | Some r :: t => if beq (r_id r) id then i else ref_index_of id t (i + 1)
  | None :: t => ref_index_of id t (i + 1)
  end.

(* sentValidatorsOf: the conditional request carried exactly the validators of the stored response *)
Definition sent_validators_of (req_hdr stored_hdr : headers) : bool :=
  beq (hget (bs "If-None-Match") req_hdr) (hget (bs "ETag") stored_hdr) &&
  beq (hget (bs "If-Modified-Since") req_hdr) (hget (bs "Last-Modified") stored_hdr).

Definition background_revalidate (q : request) (stored : stored_entry) (url_key : bytes)
           (f : freshness) (cc_req : directives) : prog unit :=
  round_trip_timed q (fun rep start stop =>
    match rep with
    | RErr => Ret tt
    | RResp _ =>
        GetEntry (e_id stored) (fun own =>
          match own with
          | None => Ret tt
          | Some own_entry =>
              (* a 304 is used only for the entry whose validators were sent (sentValidatorsOf) *)
              if match rep with RResp r => p_status r =? 304 | RErr => false end &&
                 negb (sent_validators_of (q_hdr q) (e_hdr own_entry))
              then Ret tt else
              get_refs_clean url_key (fun ans =>
                let refs := match ans with Some l => l | None => [] end in
                let ctx := {| rc_url_key := url_key; rc_start := start; rc_end := stop; rc_cc_req := cc_req;
                              rc_stored := own_entry; rc_fresh := f; rc_refs := refs;
                              rc_ref_index := ref_index_of (e_id stored) refs 0;
                              rc_no_stale := false |} in
                _ <- handle_validation_response ctx q rep ;; Ret tt)
          end)
    end).

Definition handle_stale_while_revalidate (q : request) (stored : stored_entry) (url_key : bytes)
           (f : freshness) (cc_req : directives) (now : Z) (qualified : option (list bytes)) : prog outcome :=
  let q2 := with_conditional_headers q (e_hdr stored) in
  let h0 := strip_qualified qualified (e_hdr stored) in
  let h1 := hset (bs "Age") (age_header_value f now) h0 in
  Spawn (background_revalidate q2 stored url_key f cc_req)
        (Ret (OResp (response_of (entry_with_hdr stored (apply_status STALE h1))))).

(* the decision taken on a cache hit, as a pure function of the request, the stored entry and the clock *)
Inductive hit_decision :=
| DServe          (* serveFromCache *)
| DServeSWR       (* handleStaleWhileRevalidate *)
| D504            (* only-if-cached but validation is mandatory *)
| DRevalidate (must : bool).   (* goto revalidate; [must]: no stale fallback *)

Definition hit_qualified (stored : stored_entry) : option (list bytes) :=
  match resp_no_cache (parse_cc (e_hdr stored)) with Some raw => no_cache_fields raw | None => None end.

Definition hit_must_validate (q : request) (stored : stored_entry) (f : freshness) : bool :=
  let cc_req := parse_cc (q_hdr q) in
  let cc_resp := parse_cc (e_hdr stored) in
  let has_nc := match resp_no_cache cc_resp with Some _ => true | None => false end in
  let is_qualified := match hit_qualified stored with Some _ => true | None => false end in
  (has_nc && negb is_qualified) ||
  ((f_stale f || f_expired f) && resp_must_revalidate cc_resp) ||
  req_no_cache cc_req || f_req_max_age_exceeded f.

Definition decide_hit (q : request) (stored : stored_entry) (now : Z) : hit_decision :=
  let cc_req := parse_cc (q_hdr q) in
  let cc_resp := parse_cc (e_hdr stored) in
  let f := calculate_freshness stored cc_req cc_resp now in
  if hit_must_validate q stored f then
    (if req_only_if_cached cc_req then D504 else DRevalidate true)
  else if negb (f_stale f) || req_only_if_cached cc_req then DServe
  else
    match resp_swr cc_resp with
    | Some swr =>
        let age := dur_add (f_age f) (time_sub now (f_age_ts f)) in
        let stale_for := wrap64 (age - f_life f) in
        if (0 <=? stale_for) && (stale_for <? swr) then DServeSWR else DRevalidate false
    | None => DRevalidate false
    end.

Definition handle_cache_hit (q : request) (stored : stored_entry) (url_key : bytes)
           (refs : list (option ref)) (ref_index : Z) : prog outcome :=
  let cc_req := parse_cc (q_hdr q) in
  let cc_resp := parse_cc (e_hdr stored) in
  Now (fun now =>
    let f := calculate_freshness stored cc_req cc_resp now in
    let qualified := hit_qualified stored in
    match decide_hit q stored now with
    | DServe => Ret (serve_from_cache stored f now qualified)
    | DServeSWR => handle_stale_while_revalidate q stored url_key f cc_req now qualified
    | D504 => Ret (OResp response_504)
    | DRevalidate must =>
        let q' := with_conditional_headers q (e_hdr stored) in
        round_trip_timed q' (fun rep start stop =>
          handle_validation_response
            {| rc_url_key := url_key; rc_start := start; rc_end := stop; rc_cc_req := cc_req;
               rc_stored := stored; rc_fresh := f; rc_refs := refs; rc_ref_index := ref_index;
               rc_no_stale := must |}
            q' rep)
    end).

Definition handle_unrecognized_method (q : request) (url_key : bytes) : prog outcome :=
  (* only-if-cached holds for every request: one the cache never answers from its store gets the 504, not the origin *)
  if req_only_if_cached (parse_cc (q_hdr q)) then Ret (OResp response_504) else
  Origin q (fun rep =>
    match rep with
    | RErr => Ret OErr
    | RResp r =>
        let done := Ret (OResp (with_hdr r (apply_status BYPASS (p_hdr r)))) in
        if is_unsafe_method (q_method q) && is_non_error_status (p_status r) then
          get_refs_clean url_key (fun ans =>
            let refs := match ans with Some l => l | None => [] end in
            invalidate_cache (q_url q) (p_hdr r) refs url_key done)
        else done
    end).

Definition has_nil_ref (l : list (option ref)) : bool :=
  existsb (fun x => match x with None => true | Some _ => false end) l.
Fixpoint strip_refs (l : list (option ref)) : list ref :=
  match l with
  | [] => []
  | Some r :: t => r :: strip_refs t
  | None :: t => strip_refs t
  end.

Definition round_trip (q : request) : prog outcome :=
  let url_key := make_url_key (q_url q) in
  if negb (is_request_method_understood q) then handle_unrecognized_method q url_key
  else
    get_refs_clean url_key (fun ans =>
      match ans with
      | None => handle_cache_miss q url_key [] (-1)
      | Some [] => handle_cache_miss q url_key [] (-1)
      | Some refs =>
          if has_nil_ref refs then Crash   (* the sort comparator / matcher dereferences every element *)
          else
            match vary_headers_match (strip_refs refs) (q_hdr q) with
            | None => Unmodelled
            | Some (sorted, None) => handle_cache_miss q url_key (map Some sorted) (-1)
            | Some (sorted, Some i) =>
                match nth_error sorted (Z.to_nat i) with
                | None => Crash
                | Some r =>
                    GetEntry (r_id r) (fun e =>
                      match e with
                      | None => handle_cache_miss q url_key (map Some sorted) i
                      | Some stored => handle_cache_hit q stored url_key (map Some sorted) i
                      end)
                end
            end
      end).
