(* FreshProofs.v — the implementation's age and lifetime computations against the specification
   (RFC 9111 §4.2 with saturating arithmetic), for all header values and instants. *)
From HC Require Import Transport Spec.
From Coq Require Import ZifyBool.
Open Scope Z_scope.

(* ---------- numbers ---------- *)
Lemma digits_val_mono s : forall a b, a <= b -> all_digits s = true -> digits_val a s <= digits_val b s.
Proof.
  induction s as [|c s IH]; intros a b Hab Hd; cbn in *; [lia|].
  apply Bool.andb_true_iff in Hd as [_ Hd]. apply IH; [lia|exact Hd].
Qed.

Lemma digits_val_ge s : forall a, 0 <= a -> all_digits s = true -> a <= digits_val a s.
Proof.
  induction s as [|c s IH]; intros a Ha Hd; cbn in *; [lia|].
  apply Bool.andb_true_iff in Hd as [Hc Hd]. unfold is_digit in Hc.
  specialize (IH (a * 10 + (c - 48)) ltac:(lia) Hd). lia.
Qed.

Lemma digits_val_nonneg s : all_digits s = true -> 0 <= digits_val 0 s.
Proof. intros H; apply (digits_val_ge s 0); [lia|exact H]. Qed.

Lemma sat_ns_cases v : 0 <= v ->
  sat_ns v = if max_delta_seconds <? v then max64 else v * second.
Proof.
  intros Hv; unfold sat_ns, max_delta_seconds, max64, second.
  change (9223372036854775807 / 1000000000) with 9223372036.
  destruct (Z.ltb_spec 9223372036 v); lia.
Qed.

Lemma parse_int64_digits c r : all_digits (c :: r) = true ->
  parse_int64 (c :: r) = if digits_val 0 (c :: r) <=? max64 then PI_ok (digits_val 0 (c :: r)) else PI_range max64.
Proof.
  intros Hd. unfold parse_int64.
  assert (Hc : is_digit c = true) by (cbn in Hd; apply Bool.andb_true_iff in Hd; tauto).
  assert (Hc43 : (c =? 43) = false) by (unfold is_digit in Hc; lia).
  assert (Hc45 : (c =? 45) = false) by (unfold is_digit in Hc; lia).
  rewrite Hc43, Hc45, Hd. reflexivity.
Qed.

(* RawDeltaSeconds.Value is the specification's reading of delta-seconds, saturated *)
Lemma delta_spec r : delta_seconds r = option_map sat_ns (spec_delta r).
Proof.
  unfold delta_seconds, spec_delta. destruct r as [|c r']; [reflexivity|].
  destruct ((c =? 45) || (c =? 43)) eqn:Es.
  - assert (is_digit c = false) by (unfold is_digit; lia).
    cbn [all_digits forallb]. rewrite H. reflexivity.
  - unfold parse_int64.
    assert (Hc43 : (c =? 43) = false) by lia. assert (Hc45 : (c =? 45) = false) by lia.
    rewrite Hc43, Hc45.
    destruct (all_digits (c :: r')) eqn:Hd; cbn [andb negb beq option_map]; [|reflexivity].
    pose proof (digits_val_nonneg _ Hd) as Hnn.
    destruct (digits_val 0 (c :: r') <=? max64) eqn:Hm; cbn [option_map]; f_equal.
    + symmetry; apply sat_ns_cases; exact Hnn.
    + rewrite sat_ns_cases by exact Hnn.
      assert (max_delta_seconds <? max64 = true) by reflexivity.
      assert (max_delta_seconds <? digits_val 0 (c :: r') = true).
      { unfold max_delta_seconds, max64 in *. change (9223372036854775807 / second) with 9223372036. lia. }
      rewrite H, H0. reflexivity.
Qed.

Lemma duration_directive_spec d n : duration_directive d n = sd_duration n d.
Proof.
  unfold duration_directive, sd_duration, sd_arg. destruct (alookup n d); cbn [option_map]; [|reflexivity].
  apply delta_spec.
Qed.

Lemma delta_range r v : delta_seconds r = Some v -> 0 <= v <= max64.
Proof.
  rewrite delta_spec. unfold spec_delta. destruct (all_digits r && negb (beq r [])) eqn:E; [|discriminate].
  cbn [option_map]; intros H; inversion H; subst; clear H.
  apply Bool.andb_true_iff in E as [E _]. pose proof (digits_val_nonneg _ E).
  unfold sat_ns, max64, second. lia.
Qed.

(* ---------- int64 helpers ---------- *)
Lemma wrap64_id x : min64 <= x <= max64 -> wrap64 x = x.
Proof.
  unfold wrap64, min64, max64, two63, two64. intros H.
  rewrite Z.mod_small; lia.
Qed.

Lemma go_sat_add_spec a b : 0 <= a <= max64 -> 0 <= b <= max64 -> go_sat_add a b = sat_add a b.
Proof. unfold go_sat_add, sat_add, max64. intros. destruct (Z.ltb_spec (9223372036854775807 - b) a); lia. Qed.

Lemma sat_add_range a b : 0 <= a -> 0 <= b -> 0 <= sat_add a b <= max64.
Proof. unfold sat_add, max64; lia. Qed.

Lemma sat_add_mono a a' b b' : a <= a' -> b <= b' -> sat_add a b <= sat_add a' b'.
Proof. unfold sat_add; lia. Qed.

Lemma time_sub_pos t u : Z.max (time_sub t u) 0 = Z.max 0 (Z.min max64 (t - u)).
Proof. unfold time_sub, sat64, min64, max64; lia. Qed.

(* ---------- age ---------- *)
(* the Age value the implementation uses is at least the specification's, and both are in range *)
Lemma age_value_le h :
  let age_val := match hget (bs "Age") h with [] => 0 | s => atoi_drop_err s end in
  let impl := if age_val <=? max_delta_seconds then Z.max age_val 0 * second else max64 in
  0 <= spec_age_value h <= impl /\ impl <= max64.
Proof.
  cbv zeta. unfold spec_age_value, spec_delta.
  destruct (hget (bs "Age") h) as [|c s] eqn:E.
  - cbn. unfold max_delta_seconds, max64, second; cbn; lia.
  - set (a := c :: s) in *.
    destruct (all_digits a && negb (beq a [])) eqn:Hd.
    + apply Bool.andb_true_iff in Hd as [Hd _].
      pose proof (digits_val_nonneg _ Hd) as Hnn.
      unfold atoi_drop_err. subst a. rewrite (parse_int64_digits c s Hd).
      rewrite sat_ns_cases by exact Hnn.
      destruct (digits_val 0 (c :: s) <=? max64) eqn:Hm.
      * destruct (Z.leb_spec (digits_val 0 (c :: s)) max_delta_seconds) as [Hl|Hl].
        -- assert (max_delta_seconds <? digits_val 0 (c :: s) = false) by lia. rewrite H.
           unfold max_delta_seconds, max64, second in *. change (9223372036854775807 / 1000000000) with 9223372036 in *. lia.
        -- assert (max_delta_seconds <? digits_val 0 (c :: s) = true) by lia. rewrite H.
           unfold max64; lia.
      * assert (max64 <=? max_delta_seconds = false) by reflexivity. rewrite H.
        assert (H2 : max_delta_seconds <? digits_val 0 (c :: s) = true).
        { unfold max_delta_seconds, max64 in *. change (9223372036854775807 / second) with 9223372036. lia. }
        rewrite H2. unfold max64; lia.
    + split; [split; [lia|]|].
      * destruct (atoi_drop_err a <=? max_delta_seconds); unfold max64, second; lia.
      * destruct (Z.leb_spec (atoi_drop_err a) max_delta_seconds); [|lia].
        unfold max_delta_seconds, max64, second in *. change (9223372036854775807 / 1000000000) with 9223372036 in *. lia.
Qed.

Definition valid_date (h : headers) : Prop :=
  exists d, raw_time (hget (bs "Date") h) = Some d.

Lemma spec_age_le_impl h req resp now :
  0 <= spec_current_age h req resp now <= current_age h (date_header h) req resp now /\
  current_age h (date_header h) req resp now <= max64.
Proof.
  unfold spec_current_age, current_age.
  pose proof (age_value_le h) as Hav. cbv zeta in Hav.
  set (age_val := match hget (bs "Age") h with [] => 0 | s => atoi_drop_err s end) in *.
  set (impl_av := if age_val <=? max_delta_seconds then Z.max age_val 0 * second else max64) in *.
  destruct Hav as [[Hs0 Hs1] Hs2].
  rewrite !time_sub_pos.
  set (delay := Z.max 0 (Z.min max64 (resp - req))).
  set (resident := Z.max 0 (Z.min max64 (now - resp))).
  assert (Hd : 0 <= delay <= max64) by (unfold delay, max64; lia).
  assert (Hr : 0 <= resident <= max64) by (unfold resident, max64; lia).
  set (app_i := Z.max 0 (Z.min max64 (resp - date_header h))).
  assert (Hai : 0 <= app_i <= max64) by (unfold app_i, max64; lia).
  set (app_s := match spec_time (hget (bs "Date") h) with
                | Some d => Z.max 0 (Z.min max64 (resp - d)) | None => 0 end).
  assert (Has : 0 <= app_s <= app_i).
  { unfold app_s, app_i, date_header, spec_time. destruct (raw_time _); unfold max64; lia. }
  rewrite (go_sat_add_spec impl_av delay) by lia.
  pose proof (sat_add_range impl_av delay ltac:(lia) ltac:(lia)) as Hc.
  pose proof (sat_add_range (spec_age_value h) delay ltac:(lia) ltac:(lia)) as Hcs.
  pose proof (sat_add_mono (spec_age_value h) impl_av delay delay ltac:(lia) ltac:(lia)) as Hm.
  rewrite go_sat_add_spec by lia.
  split; [split|].
  - unfold sat_add; lia.
  - apply sat_add_mono; lia.
  - unfold sat_add; lia.
Qed.

(* ---------- lifetime ---------- *)
Lemma response_lifetime_le e :
  valid_date (e_hdr e) -> e_status e <> 304 ->
  0 <= response_lifetime e (parse_cc (e_hdr e)) <= spec_lifetime (e_status e) (e_hdr e) /\
  spec_lifetime (e_status e) (e_hdr e) <= max64.
Proof.
  intros [d Hd] Hst. unfold response_lifetime, spec_lifetime, spec_lifetime_with, spec_cc.
  set (cc := parse_cc (e_hdr e)).
  unfold resp_max_age_present, has_token, resp_max_age. rewrite duration_directive_spec.
  unfold sd_duration, sd_arg, amem.
  destruct (alookup (bs "max-age") cc) as [v|] eqn:Ema; cbn [option_map negb].
  - (* explicit max-age *)
    destruct (spec_delta (parse_quoted_string v)) as [s|] eqn:Es; cbn [option_map].
    + assert (0 <= s).
      { unfold spec_delta in Es. destruct (all_digits _ && _) eqn:E; [|discriminate]. inversion Es; subst.
        apply Bool.andb_true_iff in E as [E _]. apply digits_val_nonneg; exact E. }
      assert (0 <= sat_ns s <= max64) by (unfold sat_ns, max64, second; lia).
      destruct (0 <=? sat_ns s) eqn:E0; lia.
    + unfold max64; lia.
  - (* Expires / heuristics *)
    unfold expires_header, date_header, spec_time. rewrite Hd.
    destruct (hget (bs "Expires") (e_hdr e)) as [|c ex] eqn:Eex.
    + (* heuristic *)
      unfold heuristic_freshness, resp_public, has_token, sd_has.
      assert (Hh : is_heuristically_cacheable (e_status e) = true -> spec_heuristic_status (e_status e) = true).
      { unfold is_heuristically_cacheable, spec_heuristic_status. lia. }
      destruct (is_heuristically_cacheable (e_status e) || amem (bs "public") cc) eqn:Eh.
      * assert (Hs : spec_heuristic_status (e_status e) || amem (bs "public") cc = true).
        { apply Bool.orb_true_iff in Eh as [Eh|Eh]; [rewrite (Hh Eh)|rewrite Eh, Bool.orb_true_r]; reflexivity. }
        rewrite Hs.
        destruct (raw_time (hget (bs "Last-Modified") (e_hdr e))) as [lm|]; [|unfold max64; lia].
        destruct (Z.ltb_spec lm d); [|unfold max64; lia].
        unfold time_sub, sat64, min64, max64.
        replace (Z.max (-9223372036854775808) (Z.min 9223372036854775807 (d - lm))) with (Z.min 9223372036854775807 (d - lm)) by lia.
        assert (0 <= Z.min 9223372036854775807 (d - lm) / 10) by (apply Z.div_pos; lia).
        assert (Z.min 9223372036854775807 (d - lm) / 10 <= 9223372036854775807) by (apply Z.div_le_upper_bound; lia).
        lia.
      * destruct (spec_heuristic_status (e_status e) || amem (bs "public") cc); [|unfold max64; lia].
        destruct (raw_time (hget (bs "Last-Modified") (e_hdr e))) as [lm|]; [|unfold max64; lia].
        destruct (Z.ltb_spec lm d); [|unfold max64; lia].
        assert (0 <= Z.min max64 (d - lm) / 10) by (apply Z.div_pos; unfold max64; lia).
        assert (Z.min max64 (d - lm) / 10 <= max64) by (apply Z.div_le_upper_bound; unfold max64; lia). lia.
    + destruct (raw_time (c :: ex)) as [x|]; cbv beta iota; [|unfold max64; lia].
      destruct (Z.ltb_spec d x); [|unfold max64; lia].
      unfold time_sub, sat64, min64, max64; lia.
Qed.
