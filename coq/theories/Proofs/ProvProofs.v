(* ProvProofs.v — provenance of what is served from the store: along every sequential history, the body
   returned for a request was produced by an origin call whose request has the same URL key (so, by
   C03_key_sound, an equivalent URI).  A tree predicate [Safe] (what every RoundTrip program does with the
   store, given what the store invariant promises about its answers) and a semantic invariant [InvS]. *)
From HC Require Import Transport Run.
From HC.Proofs Require Import Paths HeaderProofs RunProofs IndexProofs VaryProofs StoreProofs3 UrlProofs.
Open Scope Z_scope.

(* ---------- variant keys determine their URL key ---------- *)
Lemma dec_digits_no_hash fuel : forall n acc, Forall (fun c => c <> 35) acc -> Forall (fun c => c <> 35) (dec_digits fuel n acc).
Proof.
  induction fuel as [|f IH]; intros n acc H; [exact H|]. cbn [dec_digits].
  assert (H' : Forall (fun c => c <> 35) (48 + n mod 10 :: acc)).
  { constructor; [|exact H]. pose proof (Z.mod_pos_bound n 10 ltac:(lia)). lia. }
  destruct (n <? 10); [exact H'|apply IH, H'].
Qed.

Lemma vary_key_shape u m : exists d, make_vary_key u m = u ++ 35 :: d /\ Forall (fun c => c <> 35) d.
Proof.
  unfold make_vary_key. destruct m as [|x m'].
  - exists [48]. split; [reflexivity|constructor; [lia|constructor]].
  - eexists. split; [reflexivity|]. apply dec_digits_no_hash. constructor.
Qed.

Lemma vary_key_url_inj u1 m1 u2 m2 : make_vary_key u1 m1 = make_vary_key u2 m2 -> u1 = u2.
Proof.
  intros E. destruct (vary_key_shape u1 m1) as (d1 & E1 & H1). destruct (vary_key_shape u2 m2) as (d2 & E2 & H2).
  rewrite E1, E2 in E. apply (f_equal (@rev Z)) in E. rewrite !rev_app_distr in E. cbn [rev] in E. rewrite <- !app_assoc in E. cbn [app] in E.
  destruct (split_first_sep 35 (rev d1) (rev d2) (rev u1) (rev u2)) as [_ Hu]; [apply Forall_rev, H1|apply Forall_rev, H2|exact E|].
  rewrite <- (rev_involutive u1), <- (rev_involutive u2), Hu. reflexivity.
Qed.

(* ---------- the tree predicate ---------- *)
(* the Vary field value of a header block, all field lines joined (what StoreResponse resolves against the request) *)
Definition vary_of (h : headers) : bytes := join [44] (hvalues (bs "Vary") h).

(* ---------- where a stored entry came from (C06 at history level) ---------- *)
(* the request that went to the origin for a client request qc: qc itself, or qc with conditional fields *)
Definition sent_for (qc q0 : request) : Prop := q0 = qc \/ exists h, q0 = with_conditional_headers qc h.
(* StoreResponse writes the response without its hop-by-hop fields, and only when its body was read completely *)
Definition stored_from (e : stored_entry) (r : response) : Prop :=
  e_status e = p_status r /\ e_hdr e = remove_hop_by_hop (p_hdr r) /\ e_body e = p_body r /\ p_body_ok r = true.

(* [Stor P e]: e is a full response that passed the storability test for the directives of a client request
   with an understood method whose (possibly conditional) form was sent to the origin, or such an entry
   freshened, any number of times, by a 304 where neither the request nor the 304 said no-store *)
Inductive Stor (P : request -> Prop) : stored_entry -> Prop :=
| Stor_full e r qc q0 :
    P q0 -> sent_for qc q0 -> is_request_method_understood qc = true ->
    p_status r <> 304 ->
    can_store_response r (parse_cc (q_hdr qc)) (parse_cc (p_hdr r)) = true ->
    stored_from e r -> Stor P e
| Stor_fresh e e0 r304 qc q0 :
    Stor P e0 -> P q0 -> sent_for qc q0 -> is_request_method_understood qc = true ->
    p_status r304 = 304 ->
    req_no_store (parse_cc (q_hdr qc)) = false -> resp_no_store (parse_cc (p_hdr r304)) = false ->
    stored_from e (response_of (entry_with_hdr e0 (update_stored_headers (e_hdr e0) (p_hdr r304)))) ->
    Stor P e.

Lemma Stor_mono (P P' : request -> Prop) e : (forall q, P q -> P' q) -> Stor P e -> Stor P' e.
Proof.
  intros H S. induction S as [e r qc q0 Hp Hs Hu Hn Hc Hf|e e0 r304 qc q0 _ IH Hp Hs Hu H3 Hn1 Hn2 Hf].
  - eapply Stor_full; eauto.
  - eapply Stor_fresh; eauto.
Qed.

(* status and body of a stored entry are those of a full response that passed the storability test *)
Lemma Stor_origin P e : Stor P e ->
  exists r qc q0, P q0 /\ sent_for qc q0 /\ is_request_method_understood qc = true /\ p_status r <> 304 /\
    can_store_response r (parse_cc (q_hdr qc)) (parse_cc (p_hdr r)) = true /\ p_body_ok r = true /\
    e_status e = p_status r /\ e_body e = p_body r.
Proof.
  intros S. induction S as [e r qc q0 Hp Hs Hu Hn Hc (Hst & _ & Hb & Hok)|e e0 r304 qc q0 _ IH _ _ _ _ _ _ (Hst & _ & Hb & _)].
  - exists r, qc, q0. split; [exact Hp|split; [exact Hs|split; [exact Hu|split; [exact Hn|split; [exact Hc|split; [exact Hok|split; assumption]]]]]].
  - destruct IH as (r & qc' & q0' & Hp & Hs & Hu & Hn & Hc & Hok & Hst0 & Hb0).
    exists r, qc', q0'. split; [exact Hp|split; [exact Hs|split; [exact Hu|split; [exact Hn|split; [exact Hc|split; [exact Hok|split]]]]]].
    + rewrite Hst. cbn. exact Hst0.
    + rewrite Hb. cbn. exact Hb0.
Qed.

Section Safe.
  Variable G : bytes -> Z -> Prop.      (* [G u b]: the body token b belongs to the resource with URL key u *)
  Variable P : request -> Prop.         (* [P q0]: the request q0 was sent to the origin *)
  Variable u : bytes.                   (* the URL key of the request this program serves *)

  Definition variant_of (k : bytes) : Prop := exists m, k = make_vary_key u m.
  (* a reference is filed under the key of its own variant map *)
  Definition ref_ok (r : ref) : Prop := r_id r = make_vary_key u (r_resolved r).
  Definition refs_ok (l : list (option ref)) : Prop := forall r, In (Some r) l -> ref_ok r.
  (* an entry is filed under the key of the variant map that a request sent to the origin for this URL key
     resolves to under the entry's own Vary field *)
  Definition stored_for (e : stored_entry) : Prop :=
    exists q0 m, P q0 /\ make_url_key (q_url q0) = u /\
                 normalize_vary (vary_of (e_hdr e)) (q_hdr q0) = Some m /\ e_id e = make_vary_key u m.
  Definition entry_ok (k : bytes) (e : stored_entry) : Prop := e_id e = k /\ G u (e_body e) /\ stored_for e /\ Stor P e.

  Lemma ref_ok_variant r : ref_ok r -> variant_of (r_id r).
  Proof. intros H. exists (r_resolved r). exact H. Qed.
  Definition leaf_ok (o : outcome) : Prop := match o with OResp r => G u (p_body r) | _ => True end.

  Inductive Safe {A : Type} (L : A -> Prop) : prog A -> Prop :=
  | SF_Ret a : L a -> Safe L (Ret a)
  | SF_GetRefs k c : (forall ans, (k = u -> forall l, ans = Some l -> refs_ok l) -> Safe L (c ans)) -> Safe L (GetRefs k c)
  | SF_GetEntry k c : variant_of k -> (forall ans, (forall e, ans = Some e -> entry_ok k e) -> Safe L (c ans)) -> Safe L (GetEntry k c)
  | SF_SetEntry k e c : variant_of k -> entry_ok k e -> Safe L c -> Safe L (SetEntry k e c)
  | SF_SetRefs k l c : k = u -> refs_ok l -> Safe L c -> Safe L (SetRefs k l c)
  | SF_Del k c : Safe L c -> Safe L (Del k c)
  | SF_Origin q c : make_url_key (q_url q) = u ->
      (forall rep, P q -> (forall r, rep = RResp r -> G u (p_body r)) -> Safe L (c rep)) -> Safe L (Origin q c)
  | SF_Now c : (forall t, Safe L (c t)) -> Safe L (Now c)
  | SF_Spawn p c : Safe (fun _ => True) p -> Safe L c -> Safe L (Spawn p c)
  | SF_Crash : Safe L Crash
  | SF_Unmodelled : Safe L Unmodelled.

  Lemma Safe_bind {A B} (L : A -> Prop) (M : B -> Prop) (p : prog A) (f : A -> prog B) :
    Safe L p -> (forall a, L a -> Safe M (f a)) -> Safe M (bind p f).
  Proof.
    intros Hp Hf. induction Hp; cbn [bind]; try (constructor; auto; fail).
    apply Hf. assumption.
  Qed.

  Lemma Safe_weaken {A} (L M : A -> Prop) (p : prog A) : (forall a, L a -> M a) -> Safe L p -> Safe M p.
  Proof. intros H Hp. induction Hp; constructor; auto. Qed.

  (* inversion, as a function of the program *)
  Definition Safe_inv {A} (L : A -> Prop) (p : prog A) : Prop :=
    match p with
    | Ret a => L a
    | GetRefs k c => forall ans, (k = u -> forall l, ans = Some l -> refs_ok l) -> Safe L (c ans)
    | GetEntry k c => variant_of k /\ forall ans, (forall e, ans = Some e -> entry_ok k e) -> Safe L (c ans)
    | SetEntry k e c => variant_of k /\ entry_ok k e /\ Safe L c
    | SetRefs k l c => k = u /\ refs_ok l /\ Safe L c
    | Del k c => Safe L c
    | Origin q c => make_url_key (q_url q) = u /\ forall rep, P q -> (forall r, rep = RResp r -> G u (p_body r)) -> Safe L (c rep)
    | Now c => forall t, Safe L (c t)
    | Spawn b c => Safe (fun _ => True) b /\ Safe L c
    | Crash => True
    | Unmodelled => True
    end.
  Lemma Safe_inversion {A} (L : A -> Prop) (p : prog A) : Safe L p -> Safe_inv L p.
  Proof. destruct 1; cbn; auto. Qed.
End Safe.

(* ---------- every RoundTrip program is Safe for its URL key ---------- *)
Section Tree.
  Variable G : bytes -> Z -> Prop.
  Variable P : request -> Prop.
  Hypothesis G_nobody : forall u, G u (-1).

  Lemma in_some_ids l id : In id (some_ids l) <-> exists r, In (Some r) l /\ r_id r = id.
  Proof.
    unfold some_ids. induction l as [|[r|] l IH]; cbn.
    - split; [intros []|intros (r & [] & _)].
    - split.
      + intros [H|H]; [exists r; auto|]. apply IH in H as (r' & Hin & E). exists r'. auto.
      + intros (r' & [H|H] & E); [injection H as ->; auto|]. right. apply IH. exists r'. auto.
    - rewrite IH. split; intros (r' & H & E); exists r'; [auto|]. destruct H as [H|H]; [discriminate|auto].
  Qed.

  Lemma unique_refs_rev_in l : forall seen x, In x (unique_refs_rev l seen) -> In x l.
  Proof.
    induction l as [|[r|] l IH]; intros seen x H; cbn [unique_refs_rev] in H; [destruct H| |].
    - destruct (in_names (r_id r) seen); [right; eapply IH; exact H|].
      destruct H as [H|H]; [left; exact H|right; eapply IH; exact H].
    - destruct H as [H|H]; [left; exact H|right; eapply IH; exact H].
  Qed.
  Lemma unique_refs_in l x : In x (unique_refs l) -> In x l.
  Proof. unfold unique_refs. intros H. apply in_rev in H. apply unique_refs_rev_in in H. apply in_rev in H. exact H. Qed.

  Lemma unique_refs_ok u l : refs_ok u l -> refs_ok u (unique_refs l).
  Proof. intros H r Hr. apply H. apply unique_refs_in, Hr. Qed.

  Lemma replace_nth_in {X} n (y : X) l x : In x (replace_nth n y l) -> x = y \/ In x l.
  Proof.
    revert n; induction l as [|a l IH]; intros n H; [destruct n; destruct H|].
    destruct n as [|n]; cbn in H.
    - destruct H as [H|H]; [left; auto|right; right; exact H].
    - destruct H as [H|H]; [right; left; exact H|]. destruct (IH _ H); auto. right. right. assumption.
  Qed.

  Lemma refs_ok_drop u l : refs_ok u l -> refs_ok u (drop_nil_refs l).
  Proof.
    unfold refs_ok. intros H r Hr. apply H. clear H. induction l as [|[x|] l IH]; cbn in Hr; [destruct Hr| |right; auto].
    destruct Hr as [Hr|Hr]; [left; exact Hr|right; auto].
  Qed.

  (* StoreResponse for a request that was sent to the origin *)
  Lemma store_response_safe u q r refs a b i :
    P q -> make_url_key (q_url q) = u ->
    (forall e, stored_from e r -> Stor P e) ->
    G u (p_body r) -> refs_ok u refs ->
    Safe G P u (fun r1 => G u (p_body r1)) (store_response q r u refs a b i).
  Proof.
    intros Hp Hu Hstor Hg Hr. unfold store_response.
    destruct (normalize_vary _ _) as [m|] eqn:En; [|constructor].
    set (id := make_vary_key u m).
    assert (Hrefs : refs_ok u (unique_refs
       (if (i <? 0) || (Z.of_nat (List.length refs) <=? i)
        then refs ++ [Some {| r_id := id; r_vary := join [44] (hvalues (bs "Vary") (p_hdr (with_hdr r (remove_hop_by_hop (p_hdr r)))));
                             r_resolved := m; r_recv := date_header (p_hdr (with_hdr r (remove_hop_by_hop (p_hdr r)))) |}]
        else replace_nth (Z.to_nat i) (Some {| r_id := id; r_vary := join [44] (hvalues (bs "Vary") (p_hdr (with_hdr r (remove_hop_by_hop (p_hdr r)))));
                             r_resolved := m; r_recv := date_header (p_hdr (with_hdr r (remove_hop_by_hop (p_hdr r)))) |}) refs))).
    { apply unique_refs_ok. intros x Hx. destruct ((i <? 0) || _).
      - apply in_app_or in Hx as [Hx|[Hx|[]]]; [apply Hr, Hx|]. injection Hx as E. rewrite <- E. reflexivity.
      - apply replace_nth_in in Hx as [Hx|Hx]; [injection Hx as E; rewrite E; reflexivity|apply Hr, Hx]. }
    cbn [p_body_ok with_hdr]. destruct (p_body_ok r) eqn:Hok.
    - apply SF_SetEntry; [exists m; reflexivity| |].
      + split; [reflexivity|split; [exact Hg|split]].
        * exists q, m. split; [exact Hp|split; [exact Hu|split; [exact En|reflexivity]]].
        * apply Hstor. repeat split; try reflexivity. exact Hok.
      + apply SF_SetRefs; [reflexivity|exact Hrefs|]. constructor. exact Hg.
    - apply SF_SetRefs; [reflexivity|exact Hrefs|]. constructor. cbn. apply G_nobody.
  Qed.

  Lemma del_all_safe {A} u (L : A -> Prop) ks : forall done (c : list bytes -> prog A),
    (forall d, Safe G P u L (c d)) -> Safe G P u L (del_all ks done c).
  Proof.
    induction ks as [|k ks IH]; intros done c H; cbn; auto. destruct (existsb _ _); auto. constructor; auto.
  Qed.

  Lemma invalidate_locations_safe {A} u (L : A -> Prop) ru h hs : forall done (c : list bytes -> prog A),
    (forall d, Safe G P u L (c d)) -> Safe G P u L (invalidate_locations hs ru h done c).
  Proof.
    induction hs as [|hn hs IH]; intros done c Hc; cbn [invalidate_locations]; auto.
    destruct (hget hn h); [apply IH, Hc|]. destruct (parse_url _); [|constructor].
    destruct (same_origin _ _); [|apply IH, Hc].
    unfold get_refs_clean. constructor. intros ans _. destruct (ref_ids _); [|constructor].
    apply del_all_safe. intros d'. apply IH, Hc.
  Qed.

  Lemma invalidate_cache_safe {A} u (L : A -> Prop) ru h refs key (c : prog A) :
    Safe G P u L c -> Safe G P u L (invalidate_cache ru h refs key c).
  Proof.
    intros Hc. unfold invalidate_cache. destruct (ref_ids _); [|constructor].
    apply del_all_safe. intros d. apply invalidate_locations_safe. intros d'. apply del_all_safe. auto.
  Qed.

  (* the validation response handler, given a stored entry and references the store invariant vouches for,
     and a (conditional) request that was sent to the origin *)
  Lemma hvr_safe u ctx q qc rep :
    P q -> make_url_key (q_url q) = u ->
    sent_for qc q -> is_request_method_understood qc = true -> rc_cc_req ctx = parse_cc (q_hdr qc) ->
    Stor P (rc_stored ctx) ->
    rc_url_key ctx = u -> G u (e_body (rc_stored ctx)) -> refs_ok u (rc_refs ctx) ->
    (forall r, rep = RResp r -> G u (p_body r)) ->
    Safe G P u (leaf_ok G u) (handle_validation_response ctx q rep).
  Proof.
    intros Hp Hq Hsent Hund Hcc Hstor Hu Hst Hrefs Hrep. unfold handle_validation_response. rewrite Hu.
    destruct rep as [|r].
    - cbn [andb]. match goal with |- Safe _ _ _ _ (if ?c then _ else _) => destruct c end; [|constructor; exact I].
      constructor. intros now. destruct (can_stale_on_error _ _ _); constructor; [exact Hst|exact I].
    - specialize (Hrep r eq_refl).
      destruct (is_get (q_method q) && (p_status r =? 304)) eqn:E304.
      + destruct (req_no_store (rc_cc_req ctx) || resp_no_store (parse_cc (p_hdr r))) eqn:Ens; [constructor; exact Hst|].
        eapply Safe_bind; [apply store_response_safe; [exact Hp|exact Hq| |exact Hst|exact Hrefs]|intros r1 Hr1; constructor; exact Hr1].
        intros e He. apply Bool.orb_false_iff in Ens as [Ens1 Ens2]. apply Bool.andb_true_iff in E304 as [_ E304].
        eapply Stor_fresh; [exact Hstor|exact Hp|exact Hsent|exact Hund|apply Z.eqb_eq, E304|rewrite <- Hcc; exact Ens1|exact Ens2|exact He].
      + assert (Hafter : Safe G P u (leaf_ok G u)
          (let cc_resp := parse_cc (p_hdr r) in
           if can_store_response r (rc_cc_req ctx) cc_resp
           then r1 <- store_response q r u (rc_refs ctx) (rc_start ctx) (rc_end ctx) (rc_ref_index ctx);;
                Ret (OResp (with_hdr r1 (apply_status MISS (p_hdr r1))))
           else if is_unsafe_method (q_method q) && is_non_error_status (p_status r)
                then invalidate_cache (q_url q) (p_hdr r) (rc_refs ctx) u
                       (Ret (OResp (with_hdr r (apply_status BYPASS (p_hdr r)))))
                else Ret (OResp (with_hdr r (apply_status BYPASS (p_hdr r)))))).
        { cbv zeta. destruct (can_store_response _ _ _) eqn:Ecs.
          - eapply Safe_bind; [apply store_response_safe; [exact Hp|exact Hq| |exact Hrep|exact Hrefs]|intros r1 Hr1; constructor; exact Hr1].
            intros e He. eapply Stor_full; [exact Hp|exact Hsent|exact Hund| |rewrite <- Hcc; exact Ecs|exact He].
            intros E3. assert (Hget : is_get (q_method q) = true).
            { unfold is_request_method_understood in Hund. apply Bool.andb_true_iff in Hund as [Hund _].
              destruct Hsent as [->|[h ->]]; exact Hund. }
            rewrite Hget, E3 in E304. discriminate.
          - destruct (is_unsafe_method (q_method q) && is_non_error_status (p_status r)); [apply invalidate_cache_safe|]; constructor; exact Hrep. }
        match goal with |- Safe _ _ _ _ (if ?c then _ else _) => destruct c end; [|exact Hafter].
        constructor. intros now. destruct (can_stale_on_error _ _ _); [constructor; exact Hst|exact Hafter].
  Qed.
End Tree.

Section Tree2.
  Variable G : bytes -> Z -> Prop.
  Variable P : request -> Prop.
  Hypothesis G_nobody : forall u, G u (-1).

  Lemma rtt_safe {A} u (L : A -> Prop) q (c : origin_reply -> Z -> Z -> prog A) :
    make_url_key (q_url q) = u ->
    (forall rep a b, P q -> (forall r, rep = RResp r -> G u (p_body r)) -> Safe G P u L (c rep a b)) ->
    Safe G P u L (round_trip_timed q c).
  Proof.
    intros Hu Hc. unfold round_trip_timed. constructor. intros a. apply SF_Origin; [exact Hu|].
    intros rep Hp Hrep. constructor. intros b. destruct rep as [|r]; apply Hc; try exact Hp.
    - intros r0 E. discriminate.
    - intros r0 E. injection E as <-. cbn [with_hdr p_body]. apply Hrep. reflexivity.
  Qed.

  Lemma miss_safe u q refs i : make_url_key (q_url q) = u -> is_request_method_understood q = true -> refs_ok u refs ->
    Safe G P u (leaf_ok G u) (handle_cache_miss q u refs i).
  Proof.
    intros Hu Hund Hr. unfold handle_cache_miss. destruct (req_only_if_cached _); [constructor; cbn; apply G_nobody|].
    apply rtt_safe; [exact Hu|]. intros [|r] a b Hp Hrep; [constructor; exact I|]. cbv zeta.
    specialize (Hrep r eq_refl).
    destruct (negb (p_status r =? 304) && can_store_response r (parse_cc (q_hdr q)) (parse_cc (p_hdr r))) eqn:Ecs; [|constructor; exact Hrep].
    eapply Safe_bind; [apply store_response_safe; [exact G_nobody|exact Hp|exact Hu| |exact Hrep|exact Hr]|intros r1 H1; constructor; exact H1].
    intros e He. apply Bool.andb_true_iff in Ecs as [En Ecs].
    eapply Stor_full; [exact Hp|left; reflexivity|exact Hund| |exact Ecs|exact He].
    intros E3. rewrite E3 in En. discriminate.
  Qed.

  Lemma bg_safe u q qc stored f cc : make_url_key (q_url q) = u -> variant_of u (e_id stored) ->
    sent_for qc q -> is_request_method_understood qc = true -> cc = parse_cc (q_hdr qc) ->
    Safe G P u (fun _ => True) (background_revalidate q stored u f cc).
  Proof.
    intros Hu Hv Hsent Hund Hcc. unfold background_revalidate. apply rtt_safe; [exact Hu|].
    intros [|r] a b Hp Hrep; [constructor; exact I|].
    apply SF_GetEntry; [exact Hv|]. intros own Hown. destruct own as [own|]; [|constructor; exact I].
    destruct (Hown own eq_refl) as (_ & Hbody & _ & Hstor).
    destruct (_ && _); [constructor; exact I|].
    unfold get_refs_clean. constructor. intros ans Hans.
    eapply Safe_bind; [|intros; constructor; exact I].
    apply hvr_safe with (qc := qc); cbn [rc_url_key rc_stored rc_refs rc_cc_req]; auto.
    destruct ans as [l|]; cbn [option_map]; [|intros x []].
    apply refs_ok_drop. apply Hans; reflexivity.
  Qed.

  Lemma hit_safe u q stored refs i : make_url_key (q_url q) = u -> is_request_method_understood q = true ->
    entry_ok G P u (e_id stored) stored ->
    variant_of u (e_id stored) -> refs_ok u refs ->
    Safe G P u (leaf_ok G u) (handle_cache_hit q stored u refs i).
  Proof.
    intros Hu Hund (_ & Hbody & _ & Hstor) Hv Hr. unfold handle_cache_hit. constructor. intros now. cbv zeta.
    destruct (decide_hit q stored now).
    - constructor. unfold serve_from_cache. cbn. exact Hbody.
    - unfold handle_stale_while_revalidate.
      apply SF_Spawn; [apply bg_safe with (qc := q); [exact Hu|exact Hv|right; eexists; reflexivity|exact Hund|reflexivity]|]. constructor. cbn. exact Hbody.
    - constructor. cbn. apply G_nobody.
    - apply rtt_safe; [exact Hu|]. intros rep a b Hp Hrep.
      apply hvr_safe with (qc := q); cbn [rc_url_key rc_stored rc_refs rc_cc_req]; auto. right. eexists. reflexivity.
  Qed.

  Lemma strip_refs_in refs r : In r (strip_refs refs) -> In (Some r) refs.
  Proof.
    induction refs as [|[x|] l IH]; cbn; [intros []| |intros H; right; auto].
    intros [H|H]; [left; congruence|right; auto].
  Qed.

  Theorem round_trip_safe q : Safe G P (make_url_key (q_url q)) (leaf_ok G (make_url_key (q_url q))) (round_trip q).
  Proof.
    set (u := make_url_key (q_url q)). unfold round_trip. fold u.
    destruct (is_request_method_understood q) eqn:Hund; cbn [negb]; cycle 1.
    - unfold handle_unrecognized_method. destruct (req_only_if_cached _); [constructor; cbn; apply G_nobody|]. apply SF_Origin; [reflexivity|]. intros [|r] _ Hrep; [constructor; exact I|].
      specialize (Hrep r eq_refl).
      assert (Hd : Safe G P u (leaf_ok G u) (Ret (OResp (with_hdr r (apply_status BYPASS (p_hdr r)))))) by (constructor; exact Hrep).
      destruct (_ && _); [|exact Hd]. unfold get_refs_clean. constructor. intros ans _. apply invalidate_cache_safe. exact Hd.
    - unfold get_refs_clean. constructor. intros ans Hans.
      destruct ans as [l|]; cbn [option_map]; [|apply miss_safe; [reflexivity|exact Hund|intros x []]].
      assert (Hl : refs_ok u (drop_nil_refs l)) by (apply refs_ok_drop, Hans; reflexivity).
      destruct (drop_nil_refs l) as [|x l'] eqn:El; [apply miss_safe; [reflexivity|exact Hund|intros y []]|].
      destruct (has_nil_ref (x :: l')); [constructor|].
      destruct (vary_headers_match (strip_refs (x :: l')) (q_hdr q)) as [[sorted oi]|] eqn:Ev; [|constructor].
      assert (Hs : refs_ok u (map Some sorted)).
      { intros r Hr. apply in_map_iff in Hr as (r' & E & Hin). injection E as ->.
        unfold vary_headers_match in Ev. destruct (find_match _ _ _ _); [|discriminate]. injection Ev as <- _.
        unfold sort_refs in Hin. apply in_isort in Hin. apply Hl. apply strip_refs_in, Hin. }
      destruct oi as [i|]; [|apply miss_safe; [reflexivity|exact Hund|exact Hs]].
      destruct (nth_error sorted (Z.to_nat i)) as [r|] eqn:En; [|constructor].
      assert (Hv : variant_of u (r_id r)).
      { apply ref_ok_variant. apply Hs. apply in_map. eapply nth_error_In. exact En. }
      apply SF_GetEntry; [exact Hv|]. intros e He. destruct e as [stored|]; [|apply miss_safe; [reflexivity|exact Hund|exact Hs]].
      destruct (He stored eq_refl) as (Hid & Hb & Hsf & Hstor).
      apply hit_safe; [reflexivity|exact Hund|split; [reflexivity|split; [exact Hb|split; [exact Hsf|exact Hstor]]]|rewrite Hid; exact Hv|exact Hs].
  Qed.
End Tree2.

(* ---------- the semantic side ---------- *)
Definition calls_of (L : list event) (b : Z) (q : request) : Prop := exists a c rep, In (EvCall b q a c rep) L.
(* [Gl L u b]: b is no body, or the body of an origin call (in L) for a request with URL key u *)
Definition Gl (L : list event) (u : bytes) (b : Z) : Prop :=
  b = -1 \/ exists q, calls_of L b q /\ make_url_key (q_url q) = u.

(* [Pl L q]: the request q was sent to the origin (a call with exactly this request is in L) *)
Definition Pl (L : list event) (q : request) : Prop := exists b a c rep, In (EvCall b q a c rep) L.

Definition InvS (G : bytes -> Z -> Prop) (P : request -> Prop) (s : store) : Prop :=
  (forall k e, get_entry s k = Some e ->
     e_id e = k /\ Stor P e /\ exists u m, k = make_vary_key u m /\ G u (e_body e) /\ stored_for P u e) /\
  (forall u l, get_refs s u = Some l -> forall r, In (Some r) l -> r_id r = make_vary_key u (r_resolved r)).

Lemma get_entry_aremove k k' s : get_entry (aremove k' s) k = if beq k k' then None else get_entry s k.
Proof.
  unfold get_entry. destruct (beq k k') eqn:E.
  - apply beq_eq in E. subst. rewrite alookup_aremove_same. reflexivity.
  - rewrite alookup_aremove_other by exact E. reflexivity.
Qed.
Lemma get_refs_aremove k k' s : get_refs (aremove k' s) k = if beq k k' then None else get_refs s k.
Proof.
  unfold get_refs. destruct (beq k k') eqn:E.
  - apply beq_eq in E. subst. rewrite alookup_aremove_same. reflexivity.
  - rewrite alookup_aremove_other by exact E. reflexivity.
Qed.
Lemma get_refs_aset_entry k e s : get_refs (aset k (SEntry e) s) k = None.
Proof. unfold get_refs. rewrite alookup_aset_same. reflexivity. Qed.
Lemma get_entry_aset_refs k l s : get_entry (aset k (SRefs l) s) k = None.
Proof. unfold get_entry. rewrite alookup_aset_same. reflexivity. Qed.

Lemma InvS_set_entry G P s u k e : InvS G P s -> variant_of u k -> entry_ok G P u k e -> InvS G P (aset k (SEntry e) s).
Proof.
  intros [I1 I2] [m Hk] (Hid & Hb & Hsf & Hstor). split.
  - intros k' e' H. destruct (beq k' k) eqn:E.
    + apply beq_eq in E. subst k'. rewrite get_entry_aset_same in H. injection H as <-. split; [exact Hid|split; [exact Hstor|]]. exists u, m. auto.
    + rewrite get_entry_aset_other in H by exact E. apply I1, H.
  - intros u' l H. destruct (beq u' k) eqn:E.
    + apply beq_eq in E. subst u'. rewrite get_refs_aset_entry in H. discriminate.
    + rewrite get_refs_aset_other in H by exact E. apply (I2 u' l H).
Qed.
Lemma InvS_set_refs G P s u l : InvS G P s -> refs_ok u l -> InvS G P (aset u (SRefs l) s).
Proof.
  intros [I1 I2] Hl. split.
  - intros k' e' H. destruct (beq k' u) eqn:E.
    + apply beq_eq in E. subst k'. rewrite get_entry_aset_refs in H. discriminate.
    + rewrite get_entry_aset_other in H by exact E. apply I1, H.
  - intros u' l' H. destruct (beq u' u) eqn:E.
    + apply beq_eq in E. subst u'. rewrite get_refs_aset_same in H. injection H as <-. intros r Hr. apply Hl, Hr.
    + rewrite get_refs_aset_other in H by exact E. apply (I2 u' l' H).
Qed.
Lemma InvS_del G P s k : InvS G P s -> InvS G P (aremove k s).
Proof.
  intros [I1 I2]. split.
  - intros k' e' H. rewrite get_entry_aremove in H. destruct (beq k' k); [discriminate|]. apply I1, H.
  - intros u' l H. rewrite get_refs_aremove in H. destruct (beq u' k); [discriminate|]. apply (I2 u' l H).
Qed.

Lemma do_origin_log limit q w : exists ev, w_log (snd (do_origin limit q w)) = ev :: w_log w /\
  w_store (snd (do_origin limit q w)) = w_store w /\ w_pending (snd (do_origin limit q w)) = w_pending w /\
  match fst (do_origin limit q w) with
  | RErr => True
  | RResp r => p_body r = -1 \/ exists a c rep, ev = EvCall (p_body r) q a c rep
  end.
Proof.
  unfold do_origin. destruct (w_script w) as [|[[d r0] rc] t]; destruct limit as [T|]; cbn;
    try destruct (T <? _); cbn; eexists; repeat split;
    try (destruct (_ || _)); try (destruct r0); try (destruct rc); cbn; auto;
    try (destruct (no_body_status _); [left; reflexivity|right; eauto]).
Qed.

Lemma do_origin_logs_call limit q w : exists b a c rep, w_log (snd (do_origin limit q w)) = EvCall b q a c rep :: w_log w.
Proof.
  unfold do_origin. destruct (w_script w) as [|[[d r0] rc] t]; destruct limit as [T|]; cbn;
    try destruct (T <? _); cbn; repeat eexists.
Qed.

Lemma run_log_mono {A} (p : prog A) : forall limit w res w', run limit p w = (res, w') ->
  (exists y, w_log w' = y ++ w_log w) /\ (exists z, w_pending w' = w_pending w ++ z).
Proof.
  induction p as [A0 a|A0 k c IH|A0 k c IH|A0 k e c IH|A0 k l c IH|A0 k c IH|A0 r c IH|A0 c IH|A0 b IHb c IHc|A0|A0];
    intros limit w res w' H; cbn [run] in H.
  - injection H as _ <-. split; [exists []|exists []; rewrite app_nil_r]; reflexivity.
  - destruct (IH _ _ _ _ _ H) as [[y Hy] [z Hz]]. cbn in Hy, Hz. split; [exists (y ++ [EvGetRefs k (match get_refs (w_store w) k with Some _ => true | None => false end)]); rewrite <- app_assoc; exact Hy|exists z; exact Hz].
  - destruct (IH _ _ _ _ _ H) as [[y Hy] [z Hz]]. cbn in Hy, Hz. split; [exists (y ++ [EvGetEntry k (match get_entry (w_store w) k with Some _ => true | None => false end)]); rewrite <- app_assoc; exact Hy|exists z; exact Hz].
  - destruct (IH _ _ _ _ H) as [[y Hy] [z Hz]]. cbn in Hy, Hz. split; [exists (y ++ [EvSetEntry k e]); rewrite <- app_assoc; exact Hy|exists z; exact Hz].
  - destruct (IH _ _ _ _ H) as [[y Hy] [z Hz]]. cbn in Hy, Hz. split; [exists (y ++ [EvSetRefs k l]); rewrite <- app_assoc; exact Hy|exists z; exact Hz].
  - destruct (IH _ _ _ _ H) as [[y Hy] [z Hz]]. cbn in Hy, Hz. split; [exists (y ++ [EvDel k (amem k (w_store w))]); rewrite <- app_assoc; exact Hy|exists z; exact Hz].
  - destruct (do_origin_log limit r w) as (ev & Hl & _ & Hp & _). destruct (do_origin limit r w) as [rep w1]. cbn [snd] in *.
    destruct (IH _ _ _ _ _ H) as [[y Hy] [z Hz]]. rewrite Hl in Hy. rewrite Hp in Hz.
    split; [exists (y ++ [ev]); rewrite <- app_assoc; exact Hy|exists z; exact Hz].
  - apply (IH _ _ _ _ _ H).
  - destruct (IHc _ _ _ _ H) as [[y Hy] [z Hz]]. cbn in Hy, Hz. split; [exists y; exact Hy|exists ([b] ++ z); rewrite app_assoc; exact Hz].
  - injection H as _ <-. split; [exists []|exists []; rewrite app_nil_r]; reflexivity.
  - injection H as _ <-. split; [exists []|exists []; rewrite app_nil_r]; reflexivity.
Qed.

Definition bg_safe_any (Lf : list event) (p : prog unit) : Prop := exists u, Safe (Gl Lf) (Pl Lf) u (fun _ => True) p.

Lemma Gl_nobody L u : Gl L u (-1).
Proof. left. reflexivity. Qed.

(* one program, run to its end: the store invariant is kept, the result satisfies the leaf predicate, and what
   was spawned is Safe — provided every event logged ends up in Lf *)
Lemma run_safe {A} (p : prog A) : forall (L : A -> Prop) u Lf limit w res w',
  Safe (Gl Lf) (Pl Lf) u L p -> InvS (Gl Lf) (Pl Lf) (w_store w) -> Forall (bg_safe_any Lf) (w_pending w) ->
  run limit p w = (res, w') -> incl (w_log w') Lf ->
  InvS (Gl Lf) (Pl Lf) (w_store w') /\ (forall a, res = Done a -> L a) /\ Forall (bg_safe_any Lf) (w_pending w').
Proof.
  induction p as [A0 a|A0 k c IH|A0 k c IH|A0 k e c IH|A0 k l c IH|A0 k c IH|A0 r c IH|A0 c IH|A0 b IHb c IHc|A0|A0];
    intros L u Lf limit w res w' HS HI HP H Hincl; cbn [run] in H; apply Safe_inversion in HS; cbn [Safe_inv] in HS.
  - injection H as <- <-. split; [exact HI|split; [|exact HP]]. intros a' E. injection E as <-. exact HS.
  - refine (IH _ L u Lf limit _ res w' _ _ _ H Hincl); [|exact HI|exact HP]. apply HS.
    intros -> l Hl r Hr. destruct HI as [_ I2]. exact (I2 _ _ Hl r Hr).
  - destruct HS as [[m Hm] HS]. refine (IH _ L u Lf limit _ res w' _ _ _ H Hincl); [|exact HI|exact HP]. apply HS.
    intros e0 He. destruct HI as [I1 _]. destruct (I1 _ _ He) as (Hid & Hstor & u' & m' & Hk & Hg & Hsf).
    split; [exact Hid|]. rewrite Hm in Hk. apply vary_key_url_inj in Hk. subst u'. repeat split; assumption.
  - destruct HS as (Hv & He & HS). refine (IH L u Lf limit _ res w' HS _ _ H Hincl); [|exact HP]. cbn. eapply InvS_set_entry; eassumption.
  - destruct HS as (-> & Hl & HS). refine (IH L u Lf limit _ res w' HS _ _ H Hincl); [|exact HP]. cbn. apply InvS_set_refs; assumption.
  - refine (IH L u Lf limit _ res w' HS _ _ H Hincl); [|exact HP]. cbn. apply InvS_del; assumption.
  - destruct HS as [Hu HS].
    destruct (do_origin_log limit r w) as (ev & Hl & Hst & Hpe & Hrep). destruct (do_origin limit r w) as [rep w1] eqn:Ed. cbn [fst snd] in *.
    destruct (run_log_mono _ _ _ _ _ H) as [[y Hy] _].
    refine (IH _ L u Lf limit _ res w' _ _ _ H Hincl); [|rewrite Hst; exact HI|rewrite Hpe; exact HP]. apply HS.
    { destruct (do_origin_logs_call limit r w) as (b0 & a0 & c1 & rp0 & Hcall). rewrite Ed in Hcall. cbn [snd] in Hcall.
      exists b0, a0, c1, rp0. apply Hincl. rewrite Hy, Hcall. apply in_or_app. right. left. reflexivity. }
    intros r0 E. subst rep. destruct Hrep as [Hb|(a & c0 & rp & Hev)]; [rewrite Hb; apply Gl_nobody|].
    right. exists r. split; [|exact Hu]. exists a, c0, rp. apply Hincl. rewrite Hy, Hl. apply in_or_app. right. left. exact Hev.
  - refine (IH _ L u Lf limit _ res w' _ HI HP H Hincl). apply HS.
  - destruct HS as [Hb HS]. refine (IHc L u Lf limit _ res w' HS _ _ H Hincl); [exact HI|]. cbn. apply Forall_app. split; [exact HP|].
    constructor; [exists u; exact Hb|constructor].
  - injection H as <- <-. split; [exact HI|split; [|exact HP]]. intros a' E. discriminate.
  - injection H as <- <-. split; [exact HI|split; [|exact HP]]. intros a' E. discriminate.
Qed.

Lemma run_pending_log_mono T ps : forall w ok w', run_pending T ps w = (ok, w') -> exists y, w_log w' = y ++ w_log w.
Proof.
  induction ps as [|p r IH]; intros w ok w' H; cbn [run_pending] in H.
  - injection H as _ <-. exists []. reflexivity.
  - destruct (run (Some T) p w) as [res w1] eqn:E. destruct (run_log_mono _ _ _ _ _ E) as [[y1 H1] _].
    destruct res.
    + destruct (IH _ _ _ H) as [y2 H2]. exists (y2 ++ y1). rewrite H2, H1, app_assoc. reflexivity.
    + injection H as _ <-. exists y1. exact H1.
    + injection H as _ <-. exists y1. exact H1.
Qed.

Lemma run_pending_safe Lf T ps : forall w ok w', Forall (bg_safe_any Lf) ps -> InvS (Gl Lf) (Pl Lf) (w_store w) ->
  Forall (bg_safe_any Lf) (w_pending w) ->
  run_pending T ps w = (ok, w') -> incl (w_log w') Lf -> InvS (Gl Lf) (Pl Lf) (w_store w').
Proof.
  induction ps as [|p r IH]; intros w ok w' Hps HI HP H Hincl; cbn [run_pending] in H.
  - injection H as _ <-. exact HI.
  - inversion Hps as [|? ? [u Hp] Hr]; subst. destruct (run (Some T) p w) as [res w1] eqn:E.
    assert (Hincl1 : incl (w_log w1) Lf).
    { destruct res.
      - destruct (run_pending_log_mono _ _ _ _ _ H) as [y Hy]. intros x Hx. apply Hincl. rewrite Hy. apply in_or_app. right. exact Hx.
      - injection H as _ <-. exact Hincl.
      - injection H as _ <-. exact Hincl. }
    destruct (run_safe p (fun _ => True) u Lf (Some T) w res w1 Hp HI HP E Hincl1) as (HI1 & _ & HP1).
    destruct res.
    + eapply IH; [exact Hr|exact HI1|exact HP1|exact H|exact Hincl].
    + injection H as _ <-. exact HI1.
    + injection H as _ <-. exact HI1.
Qed.

Lemma incl_rev_l {X} (a b : list X) : incl (rev a) b -> incl a b.
Proof. intros H x Hx. apply H. apply in_rev in Hx. exact Hx. Qed.

Theorem exchange_safe Lf cfg q w obs w' :
  InvS (Gl Lf) (Pl Lf) (w_store w) -> exchange cfg q w = (obs, w') ->
  incl (x_events obs ++ x_bg_events obs) Lf ->
  InvS (Gl Lf) (Pl Lf) (w_store w') /\
  (forall r, x_result obs = Done (OResp r) -> Gl Lf (make_url_key (q_url q)) (p_body r)).
Proof.
  intros HI H Hincl. unfold exchange in H.
  destruct (run None (round_trip q) (clear_log_pending w)) as [res w1] eqn:E1.
  destruct (run_pending (effective_swr_timeout (cfg_swr_timeout cfg)) (w_pending w1) (clear_log_pending w1)) as [ok w2] eqn:E2.
  injection H as <- <-. cbn [x_events x_bg_events x_result] in *.
  assert (Hfg : incl (w_log w1) Lf).
  { apply incl_rev_l. intros x Hx. apply Hincl. apply in_or_app. left. exact Hx. }
  assert (Hbg : incl (w_log w2) Lf).
  { apply incl_rev_l. intros x Hx. apply Hincl. apply in_or_app. right. exact Hx. }
  destruct (run_safe (round_trip q) (leaf_ok (Gl Lf) (make_url_key (q_url q))) (make_url_key (q_url q)) Lf None
              (clear_log_pending w) res w1 (round_trip_safe (Gl Lf) (Pl Lf) (Gl_nobody Lf) q) HI (Forall_nil _) E1 Hfg) as (HI1 & Hleaf & HP1).
  split.
  - exact (run_pending_safe Lf _ _ (clear_log_pending w1) ok w2 HP1 HI1 (Forall_nil _) E2 Hbg).
  - intros r Hr. exact (Hleaf (OResp r) Hr).
Qed.

(* a whole sequential history, from any store satisfying the invariant *)
Theorem history_safe Lf cfg h : forall w,
  InvS (Gl Lf) (Pl Lf) (w_store w) ->
  incl (flat_map (fun o => x_events o ++ x_bg_events o) (run_history cfg h w)) Lf ->
  forall k gq o r, nth_error h k = Some gq -> nth_error (run_history cfg h w) k = Some o ->
    x_result o = Done (OResp r) -> Gl Lf (make_url_key (q_url (snd gq))) (p_body r).
Proof.
  induction h as [|[gap q] h IH]; intros w HI Hincl k gq o r Hk Ho Hr; [destruct k; discriminate|].
  cbn [run_history] in *.
  destruct (exchange cfg q {| w_store := w_store w; w_clock := w_clock w + gap; w_script := w_script w;
                              w_calls := w_calls w; w_log := []; w_pending := [] |}) as [obs w2] eqn:E.
  cbn [flat_map] in Hincl.
  destruct (exchange_safe Lf cfg q {| w_store := w_store w; w_clock := w_clock w + gap; w_script := w_script w;
                              w_calls := w_calls w; w_log := []; w_pending := [] |} obs w2 HI E) as [HI2 Hres].
  { intros x Hx. apply Hincl. apply in_or_app. left. exact Hx. }
  destruct k as [|k].
  - cbn in Hk, Ho. injection Hk as <-. injection Ho as <-. cbn [snd]. apply Hres, Hr.
  - cbn in Hk, Ho. eapply IH; [exact HI2| |exact Hk|exact Ho|exact Hr].
    intros x Hx. apply Hincl. apply in_or_app. right. exact Hx.
Qed.

(* the world in which each exchange of a history starts *)
Fixpoint worlds_before (cfg : config) (h : history) (w : world) : list world :=
  match h with
  | [] => []
  | (gap, q) :: r =>
      let w' := {| w_store := w_store w; w_clock := w_clock w + gap; w_script := w_script w;
                   w_calls := w_calls w; w_log := []; w_pending := [] |} in
      w' :: worlds_before cfg r (snd (exchange cfg q w'))
  end.

(* the store invariant holds of the store every exchange starts from *)
Theorem history_inv Lf cfg h : forall w,
  InvS (Gl Lf) (Pl Lf) (w_store w) ->
  incl (flat_map (fun o => x_events o ++ x_bg_events o) (run_history cfg h w)) Lf ->
  forall k wk, nth_error (worlds_before cfg h w) k = Some wk -> InvS (Gl Lf) (Pl Lf) (w_store wk).
Proof.
  induction h as [|[gap q] h IH]; intros w HI Hincl k wk Hk; [destruct k; discriminate|].
  cbn [run_history worlds_before] in *.
  destruct (exchange cfg q {| w_store := w_store w; w_clock := w_clock w + gap; w_script := w_script w;
                              w_calls := w_calls w; w_log := []; w_pending := [] |}) as [obs w2] eqn:E.
  cbn [flat_map snd] in *.
  destruct k as [|k].
  - cbn in Hk. injection Hk as <-. exact HI.
  - cbn in Hk.
    destruct (exchange_safe Lf cfg q {| w_store := w_store w; w_clock := w_clock w + gap; w_script := w_script w;
                              w_calls := w_calls w; w_log := []; w_pending := [] |} obs w2 HI E) as [HI2 _].
    { intros x Hx. apply Hincl. apply in_or_app. left. exact Hx. }
    eapply IH; [exact HI2| |exact Hk]. intros x Hx. apply Hincl. apply in_or_app. right. exact Hx.
Qed.

(* ---------- variants: what the store invariant says at a lookup ---------- *)
(* A reference of the index of u that matches the request, and the entry under its id: the entry was filed
   for a request q0 that was sent to the origin for the same URL key, under the variant map q0 resolves to
   under the entry's own Vary field; and that map has the same key as the reference's. *)
Lemma variant_provenance G P s u l r e :
  InvS G P s -> get_refs s u = Some l -> In (Some r) l -> get_entry s (r_id r) = Some e ->
  exists q0 m, P q0 /\ make_url_key (q_url q0) = u /\
    normalize_vary (vary_of (e_hdr e)) (q_hdr q0) = Some m /\
    make_vary_key u m = make_vary_key u (r_resolved r).
Proof.
  intros [I1 I2] Hl Hr He. pose proof (I2 u l Hl r Hr) as Hid.
  destruct (I1 _ _ He) as (Heid & _ & u' & m' & Hk & _ & (q0 & m & Hp & Hu & Hn & Hem)).
  assert (Eu : u' = u). { rewrite Hid in Hk. symmetry. eapply vary_key_url_inj. exact Hk. }
  rewrite Eu in *. exists q0, m. split; [exact Hp|split; [exact Hu|split; [exact Hn|]]].
  rewrite <- Hem, Heid. exact Hid.
Qed.

Lemma in_amem {V} k (v : V) l : In (k, v) l -> amem k l = true.
Proof.
  unfold amem. induction l as [|[k' v'] l IH]; intros H; [destruct H|]. cbn.
  destruct (beq k k') eqn:E; [reflexivity|]. destruct H as [H|H]; [|apply IH, H].
  injection H as -> _. rewrite beq_refl in E. discriminate.
Qed.

(* ref_match_sound for a variant map that has the same bindings as the reference's (the same key, when keys
   determine maps) *)
Lemma ref_match_sound_same_bindings names h0 h r m :
  resolve_names names h0 [] = Some m ->
  (forall x, In x m <-> In x (r_resolved r)) ->
  ref_matches r h = Some true ->
  ~ In (bs "*") names /\
  forall n, In n names -> exists v, norm_first n h0 = Some v /\ norm_first n h = Some v.
Proof.
  intros Hres Hsame Hm. unfold ref_matches in Hm.
  destruct (amem (bs "*") (r_resolved r) || beq (go_trim (r_vary r)) (bs "*")) eqn:Es; [discriminate|].
  apply Bool.orb_false_iff in Es as [Es _].
  destruct (resolve_names_bindings names h0 [] m Hres) as (Hb & Hn & _); [intros n v H; discriminate|].
  assert (Hfind : forall n, In n names -> exists v, alookup n m = Some v /\ In (n, v) (r_resolved r)).
  { intros n Hin. pose proof (Hn n Hin) as Ha. unfold amem in Ha.
    destruct (alookup n m) as [v|] eqn:El; [|discriminate]. exists v. split; [reflexivity|].
    destruct (alookup_in _ _ _ El) as (k' & Hin' & Hk). subst k'. apply Hsame, Hin'. }
  split.
  - intros Hin. destruct (Hfind _ Hin) as (v & _ & Hr). rewrite (in_amem _ _ _ Hr) in Es. discriminate.
  - intros n Hin. destruct (Hfind _ Hin) as (v & El & Hr). exists v. split; [apply Hb, El|].
    apply (resolved_match_true _ _ Hm n v Hr).
Qed.

Lemma InvS_empty G P : InvS G P [].
Proof. split; intros; discriminate. Qed.

(* ---------- the same, one operation at a time (for the concurrent semantics) ---------- *)
From HC Require Import Conc.

Lemma settle_safe {A} (p : prog A) : forall G P u (L : A -> Prop) clock sp p' sp',
  Safe G P u L p -> settle p clock sp = (p', sp') ->
  Safe G P u L p' /\ exists more, sp' = sp ++ more /\ Forall (fun b => Safe G P u (fun _ => True) b) more.
Proof.
  induction p as [A0 a|A0 k c IH|A0 k c IH|A0 k e c IH|A0 k l c IH|A0 k c IH|A0 r c IH|A0 c IH|A0 b IHb c IHc|A0|A0];
    intros G P u L clock sp p' sp' HS H; cbn [settle] in H;
    try (injection H as <- <-; split; [exact HS|exists []; rewrite app_nil_r; split; [reflexivity|constructor]]).
  - apply Safe_inversion in HS. cbn [Safe_inv] in HS. exact (IH _ G P u L clock sp p' sp' (HS clock) H).
  - apply Safe_inversion in HS. cbn [Safe_inv] in HS. destruct HS as [Hb HS].
    destruct (IHc G P u L clock (sp ++ [b]) p' sp' HS H) as [Hp' (more & -> & HF)].
    split; [exact Hp'|]. exists (b :: more). split; [rewrite <- app_assoc; reflexivity|constructor; assumption].
Qed.

Lemma perform_safe {A} (p : prog A) Lf u (L : A -> Prop) limit w p1 w1 :
  Safe (Gl Lf) (Pl Lf) u L p -> InvS (Gl Lf) (Pl Lf) (w_store w) -> perform limit p w = (p1, w1) -> incl (w_log w1) Lf ->
  Safe (Gl Lf) (Pl Lf) u L p1 /\ InvS (Gl Lf) (Pl Lf) (w_store w1).
Proof.
  intros HS HI H Hincl. pose proof (Safe_inversion _ _ _ _ _ HS) as Hinv.
  destruct p; cbn [perform] in H; cbn [Safe_inv] in Hinv; try (injection H as <- <-; split; [exact HS|exact HI]).
  - injection H as <- <-. split; [|exact HI]. apply Hinv. intros -> l Hl r Hr. destruct HI as [_ I2]. exact (I2 _ _ Hl r Hr).
  - destruct Hinv as [[m Hm] Hinv]. injection H as <- <-. split; [|exact HI]. apply Hinv.
    intros e0 He. destruct HI as [I1 _]. destruct (I1 _ _ He) as (Hid & Hstor & u' & m' & Hk & Hg & Hsf).
    split; [exact Hid|]. rewrite Hm in Hk. apply vary_key_url_inj in Hk. subst u'. repeat split; assumption.
  - destruct Hinv as (Hv & He & Hc). injection H as <- <-. split; [exact Hc|]. cbn. eapply InvS_set_entry; eassumption.
  - destruct Hinv as (-> & Hl & Hc). injection H as <- <-. split; [exact Hc|]. cbn. apply InvS_set_refs; assumption.
  - injection H as <- <-. split; [exact Hinv|]. cbn. apply InvS_del; assumption.
  - destruct Hinv as [Hu Hc].
    destruct (do_origin_log limit r w) as (ev & Hl & Hst & _ & Hrep). destruct (do_origin limit r w) as [rep w'] eqn:Ed. cbn [fst snd] in *.
    injection H as <- <-. split; [|rewrite Hst; exact HI]. apply Hc.
    { destruct (do_origin_logs_call limit r w) as (b0 & a0 & c1 & rp0 & Hcall). rewrite Ed in Hcall. cbn [snd] in Hcall.
      exists b0, a0, c1, rp0. apply Hincl. rewrite Hcall. left. reflexivity. }
    intros r0 E. subst rep. destruct Hrep as [Hb|(a & c0 & rp & Hev)]; [rewrite Hb; apply Gl_nobody|].
    right. exists r. split; [|exact Hu]. exists a, c0, rp. apply Hincl. rewrite Hl. left. exact Hev.
Qed.

Lemma perform_log {A} limit (p : prog A) w p1 w1 : perform limit p w = (p1, w1) -> exists y, w_log w1 = y ++ w_log w.
Proof.
  destruct p; cbn [perform]; intros H; try (injection H as _ <-; try (exists []; reflexivity); eexists [_]; reflexivity).
  destruct (do_origin_log limit r w) as (ev & Hl & _). destruct (do_origin limit r w) as [rep w']. injection H as _ <-. exists [ev]. exact Hl.
Qed.

From HC.Proofs Require Import ConcProofs.

Section ConcProv.
  Variable qs : list request.
  Variable Lf : list event.

  Definition ukey (q : request) : bytes := make_url_key (q_url q).
  Definition fgp_ok (q : request) (t : tstate) : Prop :=
    match t with
    | TStart q' => q' = q
    | TFg q' p => q' = q /\ Safe (Gl Lf) (Pl Lf) (ukey q) (leaf_ok (Gl Lf) (ukey q)) p
    | TDoneFg q' r => q' = q /\ forall a, r = Done a -> leaf_ok (Gl Lf) (ukey q) a
    | _ => False
    end.
  Definition bgp_ok (t : tstate) : Prop :=
    match t with TBg p => bg_safe_any Lf p | TDoneBg _ => True | _ => False end.
  Definition pinv (cw : cworld) : Prop :=
    Forall2 fgp_ok qs (cw_fg cw) /\ Forall bgp_ok (cw_bg cw) /\ InvS (Gl Lf) (Pl Lf) (w_store (cw_w cw)).

  Lemma fg_state_pok q p : Safe (Gl Lf) (Pl Lf) (ukey q) (leaf_ok (Gl Lf) (ukey q)) p -> fgp_ok q (fg_state q p).
  Proof.
    intros H. unfold fg_state. pose proof (Safe_inversion _ _ _ _ _ H) as Hi.
    destruct p; cbn [finished fgp_ok]; try (split; [reflexivity|exact H]).
    - split; [reflexivity|]. intros a0 E. injection E as <-. exact Hi.
    - split; [reflexivity|]. intros a0 E. discriminate.
    - split; [reflexivity|]. intros a0 E. discriminate.
  Qed.
  Lemma bg_state_pok p : bg_safe_any Lf p -> bgp_ok (bg_state p).
  Proof. intros H. unfold bg_state. destruct p as [[]| | | | | | | | | |]; cbn [finished bgp_ok]; auto. Qed.

  Lemma settle_spawned_pok clock fuel : forall ps, Forall (bg_safe_any Lf) ps -> Forall bgp_ok (settle_spawned clock ps fuel).
  Proof.
    induction fuel as [|f IH]; intros ps H; destruct ps as [|p r]; cbn [settle_spawned]; try constructor.
    inversion H as [|? ? [u Hp] Hr]; subst.
    destruct (settle p clock []) as [p' more] eqn:E.
    destruct (settle_safe p _ _ _ _ clock [] p' more Hp E) as [Hp' (m & -> & HF)]. cbn [app] in *.
    constructor; [apply bg_state_pok; exists u; exact Hp'|].
    apply IH. apply Forall_app. split; [exact Hr|]. eapply Forall_impl; [|exact HF]. intros b Hb. exists u. exact Hb.
  Qed.

  Local Opaque settle_spawned.
  Lemma pinv_step T l cw cw' : pinv cw -> cstep T l cw = Some cw' -> incl (w_log (cw_w cw')) Lf -> pinv cw'.
  Proof.
    intros (Hfg & Hbg & HI) H Hincl. unfold cstep in H. destruct l as [i|j|].
    - destruct (nth_error (cw_fg cw) i) as [t|] eqn:En; [|discriminate].
      destruct (Forall2_nth _ _ _ _ _ Hfg En) as (q & Hq & Hok).
      destruct t as [q'|q' p| | |]; try discriminate.
      + cbn in Hok. subst q'.
        destruct (settle (round_trip q) (w_clock (cw_w cw)) []) as [p' sp] eqn:E. injection H as <-. cbn [cw_w cw_fg cw_bg] in *.
        destruct (settle_safe _ _ _ _ _ _ _ _ _ (round_trip_safe (Gl Lf) (Pl Lf) (Gl_nobody Lf) q) E) as [Hp' (m & -> & HF)]. cbn [app] in *.
        split; [|split]; cbn [cw_fg cw_bg cw_w].
        * eapply Forall2_replace; [exact Hfg|exact Hq|]. apply fg_state_pok, Hp'.
        * apply Forall_app. split; [exact Hbg|]. apply settle_spawned_pok.
          eapply Forall_impl; [|exact HF]. intros b Hb. exists (ukey q). exact Hb.
        * exact HI.
      + cbn in Hok. destruct Hok as [-> Hsafe].
        destruct (perform None p (cw_w cw)) as [p1 w1] eqn:Ep.
        destruct (settle p1 (w_clock w1) []) as [p2 sp] eqn:E. injection H as <-. cbn [cw_w cw_fg cw_bg] in *.
        destruct (perform_safe p Lf _ _ None _ p1 w1 Hsafe HI Ep Hincl) as [Hs1 HI1].
        destruct (settle_safe _ _ _ _ _ _ _ _ _ Hs1 E) as [Hp2 (m & -> & HF)]. cbn [app] in *.
        split; [|split]; cbn [cw_fg cw_bg cw_w].
        * eapply Forall2_replace; [exact Hfg|exact Hq|]. apply fg_state_pok, Hp2.
        * apply Forall_app. split; [exact Hbg|]. apply settle_spawned_pok.
          eapply Forall_impl; [|exact HF]. intros b Hb. exists (ukey q). exact Hb.
        * exact HI1.
    - destruct (nth_error (cw_bg cw) j) as [t|] eqn:En; [|discriminate].
      destruct t as [| |p| |]; try discriminate.
      assert (Hroot : bg_safe_any Lf p).
      { rewrite Forall_forall in Hbg. apply (Hbg (TBg p)). eapply nth_error_In; exact En. }
      destruct Hroot as [u Hsafe].
      destruct (perform (Some T) p (cw_w cw)) as [p1 w1] eqn:Ep.
      destruct (settle p1 (w_clock w1) []) as [p2 sp] eqn:E. injection H as <-. cbn [cw_w cw_fg cw_bg] in *.
      destruct (perform_safe p Lf _ _ (Some T) _ p1 w1 Hsafe HI Ep Hincl) as [Hs1 HI1].
      destruct (settle_safe _ _ _ _ _ _ _ _ _ Hs1 E) as [Hp2 (m & -> & HF)]. cbn [app] in *.
      split; [|split]; cbn [cw_fg cw_bg cw_w].
      + exact Hfg.
      + apply Forall_app. split.
        * apply Forall_replace; [exact Hbg|]. apply bg_state_pok. exists u. exact Hp2.
        * apply settle_spawned_pok. eapply Forall_impl; [|exact HF]. intros b Hb. exists u. exact Hb.
      + exact HI1.
    - injection H as <-. split; [exact Hfg|split; [exact Hbg|exact HI]].
  Qed.

  Lemma cstep_log T l cw cw' : cstep T l cw = Some cw' -> exists y, w_log (cw_w cw') = y ++ w_log (cw_w cw).
  Proof.
    unfold cstep. destruct l as [i|j|].
    - destruct (nth_error (cw_fg cw) i) as [[q|q p| | |]|]; try discriminate.
      + destruct (settle _ _ _). intros H. injection H as <-. exists []. reflexivity.
      + destruct (perform None p (cw_w cw)) as [p1 w1] eqn:Ep. destruct (settle _ _ _). intros H. injection H as <-. exact (perform_log _ _ _ _ _ Ep).
    - destruct (nth_error (cw_bg cw) j) as [[| |p| |]|]; try discriminate.
      destruct (perform (Some T) p (cw_w cw)) as [p1 w1] eqn:Ep. destruct (settle _ _ _). intros H. injection H as <-. exact (perform_log _ _ _ _ _ Ep).
    - intros H. injection H as <-. exists []. reflexivity.
  Qed.

  Lemma schedule_log T sched : forall cw n cw' n', run_schedule T sched cw n = (cw', n') -> exists y, w_log (cw_w cw') = y ++ w_log (cw_w cw).
  Proof.
    induction sched as [|l r IH]; intros cw n cw' n' H; cbn [run_schedule] in H.
    - injection H as <- _. exists []. reflexivity.
    - destruct (cstep T l cw) as [cw1|] eqn:E.
      + destruct (IH _ _ _ _ H) as [y Hy]. destruct (cstep_log _ _ _ _ E) as [z Hz]. exists (y ++ z). rewrite Hy, Hz, app_assoc. reflexivity.
      + injection H as <- _. exists []. reflexivity.
  Qed.

  Lemma pinv_schedule T sched : forall cw n cw' n', pinv cw -> run_schedule T sched cw n = (cw', n') ->
    incl (w_log (cw_w cw')) Lf -> pinv cw'.
  Proof.
    induction sched as [|l r IH]; intros cw n cw' n' Hi H Hincl; cbn [run_schedule] in H.
    - injection H as <- _. exact Hi.
    - destruct (cstep T l cw) as [cw1|] eqn:E.
      + eapply IH; [|exact H|exact Hincl]. eapply pinv_step; [exact Hi|exact E|].
        destruct (schedule_log _ _ _ _ _ _ H) as [y Hy]. intros x Hx. apply Hincl. rewrite Hy. apply in_or_app. right. exact Hx.
      + injection H as <- _. exact Hi.
  Qed.
End ConcProv.

(* under every schedule: what a finished call returned has a body produced by an origin call — somewhere in the
   phase's log or known before — for a request with the same URL key *)
Lemma Gl_mono L L' u b : incl L L' -> Gl L u b -> Gl L' u b.
Proof.
  intros Hi [Hb|(q' & (a & c & rep & Hin) & Hu)]; [left; exact Hb|right]. exists q'. split; [|exact Hu]. exists a, c, rep. apply Hi, Hin.
Qed.
Lemma Pl_mono L L' q : incl L L' -> Pl L q -> Pl L' q.
Proof. intros Hi (b & a & c & rep & Hin). exists b, a, c, rep. apply Hi, Hin. Qed.
Lemma InvS_mono L L' s : incl L L' -> InvS (Gl L) (Pl L) s -> InvS (Gl L') (Pl L') s.
Proof.
  intros Hi [I1 I2]. split; [|exact I2]. intros k e He. destruct (I1 k e He) as (Hid & Hstor & u & m & Hk & Hg & (q0 & m0 & Hp & Hrest)).
  split; [exact Hid|split; [eapply Stor_mono; [|exact Hstor]; intros q Hq; eapply Pl_mono; eassumption|]].
  exists u, m. split; [exact Hk|split; [eapply Gl_mono; eassumption|]]. exists q0, m0. split; [eapply Pl_mono; eassumption|exact Hrest].
Qed.

Theorem concurrent_provenance T qs w sched cw n H0 :
  InvS (Gl H0) (Pl H0) (w_store w) ->
  run_schedule T sched {| cw_w := w; cw_fg := map TStart qs; cw_bg := []; cw_trace := [] |} 0 = (cw, n) ->
  InvS (Gl (w_log (cw_w cw) ++ H0)) (Pl (w_log (cw_w cw) ++ H0)) (w_store (cw_w cw)) /\
  forall i q r, nth_error qs i = Some q -> nth_error (cw_fg cw) i = Some (TDoneFg q (Done (OResp r))) ->
  Gl (w_log (cw_w cw) ++ H0) (make_url_key (q_url q)) (p_body r).
Proof.
  intros HI Hrun.
  set (Lf := w_log (cw_w cw) ++ H0).
  assert (HI' : InvS (Gl Lf) (Pl Lf) (w_store w)).
  { eapply InvS_mono; [|exact HI]. intros x Hx. apply in_or_app. right. exact Hx. }
  assert (Hinit : pinv qs Lf {| cw_w := w; cw_fg := map TStart qs; cw_bg := []; cw_trace := [] |}).
  { split; [|split; [constructor|exact HI']]. cbn. clear. induction qs as [|x l IH]; cbn; constructor; cbn; auto. }
  destruct (pinv_schedule qs Lf T sched _ _ _ _ Hinit Hrun) as (Hfg & _ & HIf).
  { intros x Hx. apply in_or_app. left. exact Hx. }
  split; [exact HIf|]. intros i q r Hq Ht.
  destruct (Forall2_nth _ _ _ _ _ Hfg Ht) as (q' & Hq' & Hok). rewrite Hq in Hq'. injection Hq' as <-.
  cbn in Hok. destruct Hok as [_ Hleaf]. exact (Hleaf (OResp r) eq_refl).
Qed.

(* ---------- conditional fields do not touch what storability looks at ---------- *)
Lemma hvalues_with_conditional n q h :
  beq n (canonical_key (bs "If-None-Match")) = false -> beq n (canonical_key (bs "If-Modified-Since")) = false ->
  hvalues n (q_hdr (with_conditional_headers q h)) = hvalues n (q_hdr q).
Proof.
  intros H1 H2. unfold with_conditional_headers. cbn [q_hdr].
  destruct (hget (bs "Last-Modified") h); destruct (hget (bs "ETag") h);
    rewrite ?hvalues_hset_other by assumption; reflexivity.
Qed.

Lemma parse_cc_with_conditional q h : parse_cc (q_hdr (with_conditional_headers q h)) = parse_cc (q_hdr q).
Proof. unfold parse_cc. rewrite hvalues_with_conditional by reflexivity. reflexivity. Qed.

Lemma understood_with_conditional q h :
  is_request_method_understood (with_conditional_headers q h) = is_request_method_understood q.
Proof.
  unfold is_request_method_understood, hget. rewrite hvalues_with_conditional by reflexivity. reflexivity.
Qed.

(* so the evidence can be read for the request that was actually sent *)
Lemma sent_for_same qc q0 : sent_for qc q0 ->
  parse_cc (q_hdr q0) = parse_cc (q_hdr qc) /\ is_request_method_understood q0 = is_request_method_understood qc.
Proof.
  intros [->|[h ->]]; [split; reflexivity|]. split; [apply parse_cc_with_conditional|apply understood_with_conditional].
Qed.
