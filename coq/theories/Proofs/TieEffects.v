(* TieEffects.v — the effect trees of the transport (which store / origin / clock operations happen, in which order,
   under which conditions, with which arguments, and what is returned on every path) as the hand-written model has
   them (Transport.v) are the ones the translator derives from roundtripper.go and
   internal/validationresponsehandler.go of /repo on this run (Generated/SrcEffects.v), up to [peq]. *)
From HC Require Import Transport Run.
From HC.Generated Require Import SrcEffects.
From HC.Proofs Require Import ProgEq.
Open Scope Z_scope.

Ltac leaf := first [apply peq_refl | constructor].

Lemma tie_handle_cache_miss q k refs i : peq (src_handle_cache_miss q k refs i) (handle_cache_miss q k refs i).
Proof.
  unfold src_handle_cache_miss, handle_cache_miss. cbv zeta.
  destruct (req_only_if_cached _); [apply peq_refl|].
  unfold round_trip_timed. constructor. intros a. constructor. intros rep. constructor. intros b.
  destruct rep as [|r]; apply peq_refl.
Qed.

Lemma tie_handle_unrecognized_method q k : peq (src_handle_unrecognized_method q k) (handle_unrecognized_method q k).
Proof.
  unfold src_handle_unrecognized_method, handle_unrecognized_method.
  destruct (req_only_if_cached _); [apply peq_refl|].
  destruct (is_unsafe_method (q_method q)); cbn [negb andb]; constructor; intros [|r]; try apply peq_refl.
  all: try (destruct (is_non_error_status (p_status r)); apply peq_refl).
Qed.

Lemma tie_round_trip q : peq (src_round_trip q) (round_trip q).
Proof.
  unfold src_round_trip, round_trip.
  destruct (negb (is_request_method_understood q)); [apply peq_refl|].
  unfold get_refs_clean. constructor. intros ans.
  destruct (option_map drop_nil_refs ans) as [[|x l]|]; apply peq_refl.
Qed.

Lemma tie_background_revalidate q stored k f cc : peq (src_background_revalidate q stored k f cc) (background_revalidate q stored k f cc).
Proof.
  unfold src_background_revalidate, background_revalidate, round_trip_timed.
  constructor. intros a. constructor. intros rep. constructor. intros b.
  destruct rep as [|r]; [apply peq_refl|]. cbv beta iota.
  constructor. intros [own|]; [|apply peq_refl].
  cbn [p_hdr response_of with_hdr p_status].
  destruct (_ && _); [apply peq_refl|].
  unfold get_refs_clean. constructor. intros ans. cbv zeta. apply peq_refl.
Qed.

Lemma tie_handle_validation_response ctx q rep : peq (src_handle_validation_response ctx q rep) (handle_validation_response ctx q rep).
Proof.
  unfold src_handle_validation_response, handle_validation_response. cbv zeta.
  change (beq (q_method q) (bs "GET")) with (is_get (q_method q)).
  cbn [p_hdr response_of]. unfold strip_qualified.
  destruct rep as [|r].
  - destruct (rc_no_stale ctx), (is_get (q_method q)); cbn [negb andb]; try apply peq_refl;
      constructor; intros now; destruct (can_stale_on_error _ _ _); try apply peq_refl;
      destruct (resp_no_cache (parse_cc (e_hdr (rc_stored ctx)))) as [raw|]; [destruct (no_cache_fields raw)|]; apply peq_refl.
  - destruct (is_get (q_method q)), (p_status r =? 304); cbn [negb andb].
    + destruct (req_no_store (rc_cc_req ctx)), (resp_no_store (parse_cc (p_hdr r))); cbn [negb andb orb]; apply peq_refl.
    + destruct (rc_no_stale ctx), (is_stale_error_allowed (p_status r)); cbn [negb andb]; try apply peq_refl;
        constructor; intros now; destruct (can_stale_on_error _ _ _); try apply peq_refl;
        destruct (resp_no_cache (parse_cc (e_hdr (rc_stored ctx)))) as [raw|]; [destruct (no_cache_fields raw)|]; apply peq_refl.
    + destruct (rc_no_stale ctx), (is_stale_error_allowed (p_status r)); cbn [negb andb]; apply peq_refl.
    + destruct (rc_no_stale ctx), (is_stale_error_allowed (p_status r)); cbn [negb andb]; apply peq_refl.
Qed.

Lemma tie_handle_cache_hit q stored k refs i : peq (src_handle_cache_hit q stored k refs i) (handle_cache_hit q stored k refs i).
Proof.
  unfold src_handle_cache_hit, handle_cache_hit. cbv zeta. constructor. intros now.
  cbn [p_hdr response_of].
  unfold decide_hit, hit_must_validate, hit_qualified, dur_add. cbv zeta.
  set (f := calculate_freshness stored (parse_cc (q_hdr q)) (parse_cc (e_hdr stored)) now).
  assert (Hrtt : forall must, peq
    (round_trip_timed (with_conditional_headers q (e_hdr stored)) (fun rep a b =>
       match rep with
       | RErr => handle_validation_response {| rc_url_key := k; rc_start := a; rc_end := b; rc_cc_req := parse_cc (q_hdr q); rc_stored := stored; rc_fresh := f; rc_refs := refs; rc_ref_index := i; rc_no_stale := must |} (with_conditional_headers q (e_hdr stored)) RErr
       | RResp r => handle_validation_response {| rc_url_key := k; rc_start := a; rc_end := b; rc_cc_req := parse_cc (q_hdr q); rc_stored := stored; rc_fresh := f; rc_refs := refs; rc_ref_index := i; rc_no_stale := must |} (with_conditional_headers q (e_hdr stored)) (RResp r)
       end))
    (round_trip_timed (with_conditional_headers q (e_hdr stored)) (fun rep a b =>
       handle_validation_response {| rc_url_key := k; rc_start := a; rc_end := b; rc_cc_req := parse_cc (q_hdr q); rc_stored := stored; rc_fresh := f; rc_refs := refs; rc_ref_index := i; rc_no_stale := must |} (with_conditional_headers q (e_hdr stored)) rep))).
  { intros must. unfold round_trip_timed. constructor. intros a. constructor. intros rep. constructor. intros b. destruct rep; apply peq_refl. }
  destruct (resp_no_cache (parse_cc (e_hdr stored))) as [raw|]; [destruct (no_cache_fields raw)|];
    destruct (f_stale f), (f_expired f), (resp_must_revalidate (parse_cc (e_hdr stored))), (req_no_cache (parse_cc (q_hdr q))),
      (f_req_max_age_exceeded f), (req_only_if_cached (parse_cc (q_hdr q))); cbn [andb orb negb];
    try apply peq_refl; try apply Hrtt;
    (destruct (resp_swr (parse_cc (e_hdr stored))); [|apply Hrtt]);
    match goal with |- peq (if ?c then _ else _) _ => destruct c end; try apply peq_refl; apply Hrtt.
Qed.

(* the generated trees run exactly like the model's: same result, same final world, for every world *)
Corollary tie_round_trip_run q limit w : run limit (src_round_trip q) w = run limit (round_trip q) w.
Proof. apply run_peq, tie_round_trip. Qed.

Lemma tie_store_response q r k refs a b i : peq (src_store_response q r k refs a b i) (store_response q r k refs a b i).
Proof.
  unfold src_store_response, store_response. cbv zeta. cbn [p_hdr with_hdr p_body_ok response_of entry_of e_hdr p_status].
  destruct (normalize_vary _ _) as [m|]; [|apply peq_refl].
  destruct (p_body_ok r); destruct ((i <? 0) || (Z.of_nat (List.length refs) <=? i)); apply peq_refl.
Qed.

Lemma tie_serve_from_cache stored f now qualified :
  peq (src_serve_from_cache stored f now qualified) (Ret (serve_from_cache stored f now qualified)).
Proof.
  unfold src_serve_from_cache, serve_from_cache, strip_qualified. cbv zeta.
  destruct (f_expired f), qualified; cbn [p_hdr with_hdr response_of entry_with_hdr e_hdr]; apply peq_refl.
Qed.

Lemma tie_handle_stale_while_revalidate q stored k f cc now qualified :
  peq (src_handle_stale_while_revalidate q stored k f cc now qualified) (handle_stale_while_revalidate q stored k f cc now qualified).
Proof.
  unfold src_handle_stale_while_revalidate, handle_stale_while_revalidate, strip_qualified. cbv zeta.
  destruct qualified; cbn [p_hdr with_hdr response_of entry_with_hdr e_hdr]; apply peq_refl.
Qed.

(* CalculateFreshness *)
Lemma max_age_is_present rs ma : resp_max_age rs = Some ma -> resp_max_age_present rs = true.
Proof.
  unfold resp_max_age, resp_max_age_present, duration_directive, has_token, amem.
  destruct (alookup (bs "max-age") rs); [reflexivity|discriminate].
Qed.

Ltac fresh_rest age :=
  unfold expires_header;
  try (match goal with |- context [hget (bs "Expires") ?h] => destruct (hget (bs "Expires") h) as [|? ?] end;
       [cbn [fst snd negb andb]
       |match goal with |- context [raw_time (?c0 :: ?v0)] => destruct (raw_time (c0 :: v0)) as [?ex|] end; cbn [fst snd negb andb]]);
  try match goal with |- context [date_header ?h <? ?ex] => destruct (date_header h <? ex) end;
  try match goal with |- context [is_heuristically_cacheable ?s || resp_public ?rs] => destruct (is_heuristically_cacheable s || resp_public rs) end;
  (match goal with |- context [req_min_fresh ?rq] => destruct (req_min_fresh rq) as [mf|]; [destruct (0 <? mf); cbn [andb]|] end);
  try match goal with |- context [wrap64 (?a - age) <? ?mf] => destruct (wrap64 (a - age) <? mf) end;
  try reflexivity;
  (match goal with |- context [req_max_stale_raw ?rq] => destruct (req_max_stale_raw rq) as [[|c v]|]; [| destruct (delta_seconds (c :: v)) as [ms|]; [destruct (0 <=? ms)|] |] end);
  try reflexivity.

Lemma tie_calculate_freshness e rq rs now : src_calculate_freshness e rq rs now = calculate_freshness e rq rs now.
Proof.
  unfold src_calculate_freshness, calculate_freshness, entry_age, response_lifetime, max_stale_value, dur_add. cbv zeta.
  cbn [p_hdr response_of p_status fst snd].
  set (age := current_age (e_hdr e) (date_header (e_hdr e)) (e_req_at e) (e_recv_at e) now).
  destruct (req_max_age rq) as [m|].
  - destruct (Z.eqb_spec m 0) as [->|Hm]; [reflexivity|].
    destruct m as [|p|p]; [contradiction| |];
      (destruct (resp_max_age rs) as [ma|] eqn:Ema;
       [rewrite (max_age_is_present _ _ Ema); cbn [negb]; destruct (0 <=? ma); fresh_rest age
       |destruct (resp_max_age_present rs); cbn [negb]; fresh_rest age]).
  - destruct (resp_max_age rs) as [ma|] eqn:Ema;
       [rewrite (max_age_is_present _ _ Ema); cbn [negb]; destruct (0 <=? ma); fresh_rest age
       |destruct (resp_max_age_present rs); cbn [negb]; fresh_rest age].
Qed.

(* calculateCurrentAge, heuristicFreshness *)
From Coq Require Import Lia.

Lemma wrap64_small x : 0 <= x <= max64 -> wrap64 x = x.
Proof.
  unfold wrap64, two63, two64, max64. intros H.
  rewrite Z.mod_small by lia. lia.
Qed.

Lemma tie_current_age h date rt st now :
  src_current_age h date rt st now = (current_age h date rt st now, now).
Proof.
  unfold src_current_age, current_age. cbv zeta.
  assert (Hmul : forall v, (v <=? 9223372036) = true -> wrap64 (Z.max v 0 * 1000000000) = Z.max v 0 * second).
  { intros v Hv. apply Z.leb_le in Hv. unfold second. apply wrap64_small. unfold max64. lia. }
  change max_delta_seconds with 9223372036. change max64 with 9223372036854775807 at 1.
  destruct (hget (bs "Age") h) as [|c s] eqn:Ea.
  - cbn [beq negb]. change (0 <=? 9223372036) with true. cbv iota.
    rewrite (Hmul 0 eq_refl). reflexivity.
  - assert (Hb : beq (c :: s) (bs "") = false) by reflexivity. rewrite Hb. cbn [negb].
    destruct (atoi_drop_err (c :: s) <=? 9223372036) eqn:El; [rewrite (Hmul _ El)|]; reflexivity.
Qed.

Lemma tie_heuristic_freshness h date : src_heuristic_freshness h date = heuristic_freshness h date.
Proof.
  unfold src_heuristic_freshness, heuristic_freshness.
  destruct (raw_time (hget (bs "Last-Modified") h)) as [lm|]; [|reflexivity].
  destruct (lm <? date) eqn:E; cbn [negb]; [|reflexivity].
  apply Z.ltb_lt in E. apply Z.quot_div_nonneg; [|lia].
  unfold time_sub, sat64, min64, max64. lia.
Qed.
