(* TieEffects.v — the effect trees of the transport (which store / origin / clock operations happen, in which order,
   under which conditions, with which arguments, and what is returned on every path) as the hand-written model has
   them (Transport.v) are the ones the translator derives from roundtripper.go and
   internal/validationresponsehandler.go of /repo on this run (Generated/SrcEffects.v), up to [peq]. *)
From HC Require Import Transport Run.
From HC.Generated Require Import SrcEffects.
From HC.Proofs Require Import ProgEq.
Open Scope Z_scope.

Ltac leaf := first [apply peq_refl | constructor].

Lemma tie_handle_cache_miss q k refs i : peq (src_handle_cache_miss q k refs i) (handle_cache_miss q k refs i).
Proof.
  unfold src_handle_cache_miss, handle_cache_miss. cbv zeta.
  destruct (req_only_if_cached _); [apply peq_refl|].
  unfold round_trip_timed. constructor. intros a. constructor. intros rep. constructor. intros b.
  destruct rep as [|r]; apply peq_refl.
Qed.

Lemma tie_handle_unrecognized_method q k : peq (src_handle_unrecognized_method q k) (handle_unrecognized_method q k).
Proof.
  unfold src_handle_unrecognized_method, handle_unrecognized_method.
  destruct (is_unsafe_method (q_method q)); cbn [negb andb]; constructor; intros [|r]; try apply peq_refl.
  all: try (destruct (is_non_error_status (p_status r)); apply peq_refl).
Qed.

Lemma tie_round_trip q : peq (src_round_trip q) (round_trip q).
Proof.
  unfold src_round_trip, round_trip.
  destruct (negb (is_request_method_understood q)); [apply peq_refl|].
  unfold get_refs_clean. constructor. intros ans.
  destruct (option_map drop_nil_refs ans) as [[|x l]|]; apply peq_refl.
Qed.

Lemma tie_background_revalidate q stored k f cc : peq (src_background_revalidate q stored k f cc) (background_revalidate q stored k f cc).
Proof.
  unfold src_background_revalidate, background_revalidate, round_trip_timed.
  constructor. intros a. constructor. intros rep. constructor. intros b.
  destruct rep as [|r]; [apply peq_refl|]. cbv beta iota.
  constructor. intros [own|]; [|apply peq_refl].
  cbn [p_hdr response_of with_hdr p_status].
  destruct (_ && _); [apply peq_refl|].
  unfold get_refs_clean. constructor. intros ans. cbv zeta. apply peq_refl.
Qed.

Lemma tie_handle_validation_response ctx q rep : peq (src_handle_validation_response ctx q rep) (handle_validation_response ctx q rep).
Proof.
  unfold src_handle_validation_response, handle_validation_response. cbv zeta.
  change (beq (q_method q) (bs "GET")) with (is_get (q_method q)).
  cbn [p_hdr response_of]. unfold strip_qualified.
  destruct rep as [|r].
  - destruct (rc_no_stale ctx), (is_get (q_method q)); cbn [negb andb]; try apply peq_refl;
      constructor; intros now; destruct (can_stale_on_error _ _ _); try apply peq_refl;
      destruct (resp_no_cache (parse_cc (e_hdr (rc_stored ctx)))) as [raw|]; [destruct (no_cache_fields raw)|]; apply peq_refl.
  - destruct (is_get (q_method q)), (p_status r =? 304); cbn [negb andb].
    + destruct (req_no_store (rc_cc_req ctx)), (resp_no_store (parse_cc (p_hdr r))); cbn [negb andb orb]; apply peq_refl.
    + destruct (rc_no_stale ctx), (is_stale_error_allowed (p_status r)); cbn [negb andb]; try apply peq_refl;
        constructor; intros now; destruct (can_stale_on_error _ _ _); try apply peq_refl;
        destruct (resp_no_cache (parse_cc (e_hdr (rc_stored ctx)))) as [raw|]; [destruct (no_cache_fields raw)|]; apply peq_refl.
    + destruct (rc_no_stale ctx), (is_stale_error_allowed (p_status r)); cbn [negb andb]; apply peq_refl.
    + destruct (rc_no_stale ctx), (is_stale_error_allowed (p_status r)); cbn [negb andb]; apply peq_refl.
Qed.

Lemma tie_handle_cache_hit q stored k refs i : peq (src_handle_cache_hit q stored k refs i) (handle_cache_hit q stored k refs i).
Proof.
  unfold src_handle_cache_hit, handle_cache_hit. cbv zeta. constructor. intros now.
  cbn [p_hdr response_of].
  unfold decide_hit, hit_must_validate, hit_qualified, dur_add. cbv zeta.
  set (f := calculate_freshness stored (parse_cc (q_hdr q)) (parse_cc (e_hdr stored)) now).
  assert (Hrtt : forall must, peq
    (round_trip_timed (with_conditional_headers q (e_hdr stored)) (fun rep a b =>
       match rep with
       | RErr => handle_validation_response {| rc_url_key := k; rc_start := a; rc_end := b; rc_cc_req := parse_cc (q_hdr q); rc_stored := stored; rc_fresh := f; rc_refs := refs; rc_ref_index := i; rc_no_stale := must |} (with_conditional_headers q (e_hdr stored)) RErr
       | RResp r => handle_validation_response {| rc_url_key := k; rc_start := a; rc_end := b; rc_cc_req := parse_cc (q_hdr q); rc_stored := stored; rc_fresh := f; rc_refs := refs; rc_ref_index := i; rc_no_stale := must |} (with_conditional_headers q (e_hdr stored)) (RResp r)
       end))
    (round_trip_timed (with_conditional_headers q (e_hdr stored)) (fun rep a b =>
       handle_validation_response {| rc_url_key := k; rc_start := a; rc_end := b; rc_cc_req := parse_cc (q_hdr q); rc_stored := stored; rc_fresh := f; rc_refs := refs; rc_ref_index := i; rc_no_stale := must |} (with_conditional_headers q (e_hdr stored)) rep))).
  { intros must. unfold round_trip_timed. constructor. intros a. constructor. intros rep. constructor. intros b. destruct rep; apply peq_refl. }
  destruct (resp_no_cache (parse_cc (e_hdr stored))) as [raw|]; [destruct (no_cache_fields raw)|];
    destruct (f_stale f), (f_expired f), (resp_must_revalidate (parse_cc (e_hdr stored))), (req_no_cache (parse_cc (q_hdr q))),
      (f_req_max_age_exceeded f), (req_only_if_cached (parse_cc (q_hdr q))); cbn [andb orb negb];
    try apply peq_refl; try apply Hrtt;
    (destruct (resp_swr (parse_cc (e_hdr stored))); [|apply Hrtt]);
    match goal with |- peq (if ?c then _ else _) _ => destruct c end; try apply peq_refl; apply Hrtt.
Qed.

(* the generated trees run exactly like the model's: same result, same final world, for every world *)
Corollary tie_round_trip_run q limit w : run limit (src_round_trip q) w = run limit (round_trip q) w.
Proof. apply run_peq, tie_round_trip. Qed.

Lemma tie_store_response q r k refs a b i : peq (src_store_response q r k refs a b i) (store_response q r k refs a b i).
Proof.
  unfold src_store_response, store_response. cbv zeta. cbn [p_hdr with_hdr p_body_ok response_of entry_of e_hdr p_status].
  destruct (normalize_vary _ _) as [m|]; [|apply peq_refl].
  destruct (p_body_ok r); destruct ((i <? 0) || (Z.of_nat (List.length refs) <=? i)); apply peq_refl.
Qed.

Lemma tie_serve_from_cache stored f now qualified :
  peq (src_serve_from_cache stored f now qualified) (Ret (serve_from_cache stored f now qualified)).
Proof.
  unfold src_serve_from_cache, serve_from_cache, strip_qualified. cbv zeta.
  destruct (f_expired f), qualified; cbn [p_hdr with_hdr response_of entry_with_hdr e_hdr]; apply peq_refl.
Qed.

Lemma tie_handle_stale_while_revalidate q stored k f cc now qualified :
  peq (src_handle_stale_while_revalidate q stored k f cc now qualified) (handle_stale_while_revalidate q stored k f cc now qualified).
Proof.
  unfold src_handle_stale_while_revalidate, handle_stale_while_revalidate, strip_qualified. cbv zeta.
  destruct qualified; cbn [p_hdr with_hdr response_of entry_with_hdr e_hdr]; apply peq_refl.
Qed.
